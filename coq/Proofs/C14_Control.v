(* C14 — proofs about the reference interpreter of Model/C14_Control.v. *)
From Coq Require Import ZArith List Bool Lia Arith.
From Elk Require Import Model.C14_Control.
Import ListNotations.
Open Scope Z_scope.

Ltac inv H := inversion H; subst; clear H.

(* ------------------------------------------------------------------ plain traces *)
Lemma forallb_app' : forall (A : Type) (p : A -> bool) a b,
  forallb p (a ++ b) = forallb p a && forallb p b.
Proof. intros. apply forallb_app. Qed.

Lemma eval_plain : forall loc e, forallb printed (snd (eval loc e)) = true.
Proof.
  induction e; cbn [eval]; try reflexivity.
  - destruct (eval loc e) as [v t]; cbn in *. rewrite forallb_app, IHe. reflexivity.
  - destruct (eval loc e) as [v t]; cbn in *. exact IHe.
  - destruct (eval loc e1) as [v t], (eval loc e2) as [w u]; cbn in *.
    destruct (truthy v); cbn; [rewrite forallb_app, IHe1, IHe2|]; auto.
  - destruct (eval loc e1) as [v t], (eval loc e2) as [w u]; cbn in *.
    destruct (truthy v); cbn; [|rewrite forallb_app, IHe1, IHe2]; auto.
  - destruct (eval loc e1) as [v t], (eval loc e2) as [w u]; cbn in *.
    destruct v; cbn; try rewrite forallb_app, IHe1, IHe2; auto.
Qed.

Lemma sexec_plain : forall s loc, forallb printed (snd (sexec s loc)) = true.
Proof.
  induction s; intros loc; cbn [sexec]; try reflexivity.
  - specialize (IHs1 loc). destruct (sexec s1 loc) as [l1 t1].
    specialize (IHs2 l1). destruct (sexec s2 l1) as [l2 t2]. cbn in *.
    rewrite forallb_app, IHs1, IHs2. reflexivity.
  - destruct (nth x loc 0 <? n); auto.
Qed.

(* ------------------------------------------------------------------ generic induction *)
Section Generic.
  Variable ms : list stmt.
  Variable Q : state -> state -> list event -> Prop.
  Hypothesis Q_refl : forall st, Q st st [].
  Hypothesis Q_trans : forall st st1 st2 t1 t2,
    Q st st1 t1 -> Q st1 st2 t2 -> Q st st2 (t1 ++ t2).
  Hypothesis Q_plain : forall st t, forallb printed t = true -> Q st st t.
  Hypothesis Q_sel : forall st v (cs : list (pat * stmt)),
    Q st st [CatchSel v (map fst cs) (option_map fst (first_match v cs O))].
  Hypothesis Q_abrupt : forall st n k, Q st st [CatchAbrupt n k].
  Hypothesis Q_loc : forall st l, Q st (with_locals st l) [].
  Hypothesis Q_do : forall st st2 st3 t12 t3,
    Q (bump st) st2 t12 -> Q st2 st3 t3 ->
    Q st st3 (DoEnter (next st) :: t12 ++ FinRun (next st) :: t3).
  Hypothesis Q_defer : forall st b, Q st (push_defer st b) [DeferReg (next st)].
  Hypothesis Q_frame : forall st st1 t1 x,
    Q (enter_frame st) st1 t1 ->
    Q st (fst (leave_frame st x st1)) (t1 ++ snd (leave_frame st x st1)).

  Lemma Q_eval : forall st e, Q st st (snd (eval (locals st) e)).
  Proof. intros. apply Q_plain, eval_plain. Qed.

  Ltac dex IH x1 st1 t1 E :=
    match goal with
    | H : context [exec true ms ?f ?cv ?s ?st] |- _ =>
        destruct (exec true ms f cv s st) as [[[x1 st1] t1]|] eqn:E;
        [apply IH in E | try discriminate]
    end.

  Ltac dev st e v t Hp :=
    pose proof (Q_eval st e) as Hp;
    destruct (eval (locals st) e) as [v t]; cbn [snd] in Hp.

  Lemma exec_Q : forall f cv s st x st' t,
    exec true ms f cv s st = Some (x, st', t) -> Q st st' t.
  Proof.
    induction f as [|f IH]; intros cv s st x st' t H; [discriminate|].
    destruct s; cbn [exec] in H.
    - inv H. apply Q_refl.
    - inv H. apply Q_plain. reflexivity.
    - dev st e v0 t0 Hp. inv H. eapply Q_trans; [exact Hp|]. apply Q_plain. reflexivity.
    - inv H. apply Q_loc.
    - inv H. apply Q_loc.
    - (* SSeq *)
      dex IH x1 st1 t1 E1. destruct (is_normal x1).
      + unfold pre in H. dex IH x2 st2 t2 E2. inv H. eapply Q_trans; eauto.
      + inv H. exact E1.
    - (* SIf *)
      dev st c v0 t0 Hp. unfold pre in H. dex IH x1 st1 t1 E1. inv H. eapply Q_trans; eauto.
    - (* SLoop *)
      dex IH x1 st1 t1 E1. destruct (loop_ctl l x1).
      + inv H. exact E1.
      + unfold pre in H. dex IH x2 st2 t2 E2. inv H. eapply Q_trans; eauto.
      + inv H. exact E1.
    - (* SWhile *)
      dev st c v0 t0 Hp. destruct (truthy v0).
      + dex IH x1 st1 t1 E1. destruct (loop_ctl l x1).
        * inv H. eapply Q_trans; eauto.
        * unfold pre in H. dex IH x2 st2 t2 E2. inv H. eapply Q_trans; [eapply Q_trans|]; eauto.
        * inv H. eapply Q_trans; eauto.
      + inv H. exact Hp.
    - inv H. apply Q_refl.
    - inv H. apply Q_refl.
    - dev st e v0 t0 Hp. inv H. exact Hp.
    - inv H. apply Q_refl.
    - inv H. apply Q_plain. reflexivity.
    - inv H. apply Q_refl.
    - (* SDo *)
      destruct fin as [fb|].
      + dex IH x1 st1 t1 E1.
        assert (Hta : forall st0 (b : bool) k, Q st0 st0 (if b then [CatchAbrupt (next st) k] else [])).
        { intros st0 [|] k; [apply Q_abrupt | apply Q_refl]. }
        destruct x1 as [| | | |v].
        5: {
          pose proof (Q_sel st1 v cs) as Hs.
          destruct (first_match v cs 0) as [[i cb]|] eqn:Ef; cbn [option_map fst] in Hs.
          - dex IH x2 st2 t2 E2. rewrite andb_false_r in H. dex IH x3 st3 t3 E3. inv H.
            eapply Q_do; [|eassumption].
            eapply Q_trans; [eassumption|].
            apply (Q_trans st1 st2 st2 ([CatchSel v (map fst cs) (Some i)] ++ t2) _);
              [|apply Hta].
            eapply Q_trans; eassumption.
          - cbn [andb] in H. dex IH x3 st3 t3 E3. inv H.
            eapply Q_do; [|eassumption].
            eapply Q_trans; [eassumption|].
            first [exact Hs | eapply Q_trans; [exact Hs|apply Q_refl]]. }
        all: cbn [andb] in H; dex IH x3 st3 t3 E3; inv H;
          (eapply Q_do; [|eassumption]); rewrite app_nil_r; assumption.
      + dex IH x1 st1 t1 E1. destruct x1 as [| | | |v].
        5: {
          pose proof (Q_sel st1 v cs) as Hs.
          destruct (first_match v cs 0) as [[i cb]|] eqn:Ef; cbn [option_map fst] in Hs.
          - dex IH x2 st2 t2 E2. inv H. eapply Q_trans; [eassumption|].
            change (CatchSel v (map fst cs) (Some i) :: t2)
              with ([CatchSel v (map fst cs) (Some i)] ++ t2).
            eapply Q_trans; eassumption.
          - inv H. eapply Q_trans; eassumption. }
        all: inv H; rewrite app_nil_r; assumption.
    - inv H. apply Q_defer.
    - (* SCall *)
      destruct (nth_error ms m) as [body|]; [|inv H; apply Q_refl].
      dex IH x1 st1 t1 E1.
      pose proof (Q_frame st st1 _ x1 E1) as Hf.
      destruct (leave_frame st x1 st1) as [st2 td]. cbn [fst snd] in Hf. inv H.
      eapply Q_trans; [exact Hf|]. apply Q_plain.
      unfold show_call. destruct x1, show; reflexivity.
  Qed.

  Lemma leave_frame_eq : forall st x st1,
    leave_frame st x st1 =
    (mkSt (locals st) (next st1) (dstack st), snd (run_defers (dstack st1) (locals st1))).
  Proof. intros. unfold leave_frame. destruct (run_defers (dstack st1) (locals st1)); reflexivity. Qed.

  Lemma run_Q : forall f p out tr,
    methods p = ms -> run true f p = Some (out, tr) ->
    exists st', dstack st' = [] /\ Q init_state st' tr.
  Proof.
    intros f p out tr Hm H. unfold run in H. rewrite Hm in H.
    destruct (exec true ms f VNil (main p) (enter_frame init_state)) as [[[x1 st1] t1]|] eqn:E;
      [|discriminate].
    apply exec_Q in E. pose proof (Q_frame init_state st1 t1 x1 E) as Hf.
    rewrite leave_frame_eq in H, Hf. cbn [fst snd] in Hf. inv H.
    eexists; split; [|exact Hf]. reflexivity.
  Qed.
End Generic.


(* ------------------------------------------------------------------ counting lemmas *)
Lemma flen_app : forall (p : event -> bool) a b,
  length (filter p (a ++ b)) = (length (filter p a) + length (filter p b))%nat.
Proof. intros. rewrite filter_app, app_length. reflexivity. Qed.

Lemma flen_zero : forall (p q : event -> bool) t,
  (forall e, q e = true -> p e = false) -> forallb q t = true -> length (filter p t) = O.
Proof.
  induction t as [|e r IH]; cbn; intros Hpq H; [reflexivity|].
  apply andb_true_iff in H as [H1 H2]. rewrite (Hpq _ H1). auto.
Qed.

Definition is_drun (e : event) : bool := match e with DeferRun _ => true | _ => false end.
Definition quiet (e : event) : bool := printed e || is_drun e.

Lemma forallb_impl : forall (p q : event -> bool) t,
  (forall e, p e = true -> q e = true) -> forallb p t = true -> forallb q t = true.
Proof.
  induction t as [|e r IH]; cbn; intros Hpq H; [reflexivity|].
  apply andb_true_iff in H as [H1 H2]. rewrite (Hpq _ H1), IH; auto.
Qed.

Lemma run_defers_quiet : forall ds loc, forallb quiet (snd (run_defers ds loc)) = true.
Proof.
  induction ds as [|[n b] r IH]; intros loc; cbn [run_defers]; [reflexivity|].
  pose proof (sexec_plain b loc) as Hs. destruct (sexec b loc) as [l1 t1].
  specialize (IH l1). destruct (run_defers r l1) as [l2 t2]. cbn [snd] in *.
  cbn [forallb]. rewrite forallb_app, IH.
  rewrite (forallb_impl printed quiet t1); [reflexivity| |exact Hs].
  intros e He. unfold quiet. rewrite He. reflexivity.
Qed.

Definition occ (n : nat) (l : list nat) : nat := length (filter (fun m => Nat.eqb m n) l).

Lemma run_defers_drun : forall n ds loc,
  cnt_drun n (snd (run_defers ds loc)) = occ n (map fst ds).
Proof.
  induction ds as [|[m b] r IH]; intros loc; cbn [run_defers]; [reflexivity|].
  pose proof (sexec_plain b loc) as Hs. destruct (sexec b loc) as [l1 t1].
  specialize (IH l1). destruct (run_defers r l1) as [l2 t2]. cbn [snd] in *.
  unfold cnt_drun, occ in *. cbn [filter map fst].
  destruct (Nat.eqb m n); cbn [length]; rewrite flen_app, IH;
    rewrite (flen_zero _ printed t1); auto; intros [] He; try discriminate; reflexivity.
Qed.

(* ------------------------------------------------------------------ (B) balance of enter / finally *)
Definition QB (st st' : state) (t : list event) : Prop := forall n, cnt_enter n t = cnt_fin n t.

Ltac zero_quiet :=
  match goal with
  | |- context [length (filter ?p (snd (run_defers ?a ?b)))] =>
      rewrite (flen_zero p quiet (snd (run_defers a b)));
      [| intros [] He; try discriminate; reflexivity | apply run_defers_quiet]
  end.

Lemma exec_balanced : forall ms f p out tr,
  methods p = ms -> run true f p = Some (out, tr) -> forall n, cnt_enter n tr = cnt_fin n tr.
Proof.
  intros ms f p out tr Hm H.
  destruct (run_Q ms QB) with (f := f) (p := p) (out := out) (tr := tr) as (st' & _ & HQ); auto;
    unfold QB, cnt_enter, cnt_fin; intros.
  - reflexivity.
  - rewrite !flen_app. rewrite H0, H1. reflexivity.
  - rewrite !(flen_zero _ printed t); auto; intros [] He; try discriminate; reflexivity.
  - reflexivity.
  - reflexivity.
  - reflexivity.
  - cbn [filter]. rewrite !filter_app. cbn [filter].
    destruct (Nat.eqb (next st) n); cbn [length]; rewrite !app_length; cbn [length];
      rewrite H0, H1; lia.
  - reflexivity.
  - rewrite leave_frame_eq. cbn [snd]. rewrite !flen_app, H0.
    repeat zero_quiet. reflexivity.
Qed.

(* ------------------------------------------------------------------ (A) instance ids are fresh and unique *)
Fixpoint ids (t : list event) : list nat :=
  match t with
  | [] => []
  | DoEnter n :: r => n :: ids r
  | DeferReg n :: r => n :: ids r
  | _ :: r => ids r
  end.

Lemma ids_app : forall a b, ids (a ++ b) = ids a ++ ids b.
Proof. induction a as [|e r IH]; intros; cbn; [reflexivity|]. destruct e; cbn; rewrite ?IH; reflexivity. Qed.

Lemma ids_quiet : forall t, forallb quiet t = true -> ids t = [].
Proof.
  induction t as [|e r IH]; cbn; intros H; [reflexivity|].
  apply andb_true_iff in H as [H1 H2]. destruct e; try discriminate; auto.
Qed.

Lemma NoDup_app_disj : forall (a b : list nat),
  NoDup a -> NoDup b -> (forall n, In n a -> In n b -> False) -> NoDup (a ++ b).
Proof.
  induction a as [|x r IH]; cbn; intros b Ha Hb Hd; [exact Hb|].
  inv Ha. constructor.
  - intros Hin. apply in_app_or in Hin as [Hin|Hin]; [auto|]. eapply Hd; eauto.
  - apply IH; auto. intros; eapply Hd; eauto.
Qed.

Definition QA (st st' : state) (t : list event) : Prop :=
  (next st <= next st')%nat /\
  (forall n, In n (ids t) -> (next st <= n < next st')%nat) /\ NoDup (ids t).

Lemma exec_unique_ids : forall ms f p out tr,
  methods p = ms -> run true f p = Some (out, tr) -> NoDup (ids tr).
Proof.
  intros ms f p out tr Hm H.
  destruct (run_Q ms QA) with (f := f) (p := p) (out := out) (tr := tr) as (st' & _ & HQ); auto;
    unfold QA; intros.
  - cbn. split; [lia | split; [intros ? [] | constructor]].
  - destruct H0 as (A1 & A2 & A3), H1 as (B1 & B2 & B3). rewrite ids_app. repeat split.
    + lia.
    + apply in_app_or in H0 as [Hi|Hi]; [apply A2 in Hi | apply B2 in Hi]; lia.
    + apply in_app_or in H0 as [Hi|Hi]; [apply A2 in Hi | apply B2 in Hi]; lia.
    + apply NoDup_app_disj; auto. intros n Ha Hb. apply A2 in Ha. apply B2 in Hb. lia.
  - rewrite (ids_quiet t).
    + cbn. split; [lia | split; [intros ? [] | constructor]].
    + eapply forallb_impl; [|exact H0]. intros e He. unfold quiet. rewrite He. reflexivity.
  - cbn. split; [lia | split; [intros ? [] | constructor]].
  - cbn. split; [lia | split; [intros ? [] | constructor]].
  - cbn. split; [lia | split; [intros ? [] | constructor]].
  - destruct H0 as (A1 & A2 & A3), H1 as (B1 & B2 & B3). cbn in A1, A2.
    cbn [ids]. rewrite ids_app. cbn [ids]. repeat split.
    + lia.
    + destruct H0 as [<-|Hi]; [lia|]. apply in_app_or in Hi as [Hi|Hi];
        [apply A2 in Hi | apply B2 in Hi]; lia.
    + destruct H0 as [<-|Hi]; [lia|]. apply in_app_or in Hi as [Hi|Hi];
        [apply A2 in Hi | apply B2 in Hi]; lia.
    + constructor.
      * intros Hi. apply in_app_or in Hi as [Hi|Hi]; [apply A2 in Hi | apply B2 in Hi]; lia.
      * apply NoDup_app_disj; auto. intros n Ha Hb. apply A2 in Ha. apply B2 in Hb. lia.
  - cbn. split; [lia | split; [intros ? [<-|[]]; lia |]].
    constructor; [intros []|constructor].
  - destruct H0 as (A1 & A2 & A3). cbn in A1, A2.
    rewrite leave_frame_eq. cbn [fst snd next]. rewrite ids_app, (ids_quiet _ (run_defers_quiet _ _)), app_nil_r.
    repeat split; auto; apply A2; auto.
  - apply HQ.
Qed.

Lemma occ_nodup : forall n l, NoDup l -> (occ n l <= 1)%nat.
Proof.
  unfold occ. induction l as [|x r IH]; cbn; intros H; [lia|]. inv H.
  destruct (Nat.eqb x n) eqn:E; cbn; [|auto].
  apply Nat.eqb_eq in E. subst x.
  assert (Hz : length (filter (fun m => Nat.eqb m n) r) = O).
  { clear IH H3. induction r as [|y r IH]; cbn; [reflexivity|].
    destruct (Nat.eqb y n) eqn:E.
    - apply Nat.eqb_eq in E. subst. exfalso. apply H2. left. reflexivity.
    - apply IH. intros Hi. apply H2. right. exact Hi. }
  lia.
Qed.

Lemma cnt_ids : forall n t, (cnt_enter n t + cnt_reg n t = occ n (ids t))%nat.
Proof.
  unfold cnt_enter, cnt_reg, occ. induction t as [|e r IH]; cbn; [reflexivity|].
  destruct e; cbn; try exact IH; destruct (Nat.eqb n0 n); cbn; lia.
Qed.

Lemma exec_at_most_once : forall ms f p out tr,
  methods p = ms -> run true f p = Some (out, tr) ->
  forall n, (cnt_enter n tr <= 1)%nat /\ (cnt_reg n tr <= 1)%nat.
Proof.
  intros ms f p out tr Hm H n.
  pose proof (occ_nodup n _ (exec_unique_ids ms f p out tr Hm H)) as Ho.
  pose proof (cnt_ids n tr). lia.
Qed.

(* ------------------------------------------------------------------ (C) every registered defer runs *)
Definition QC (st st' : state) (t : list event) : Prop :=
  exists new, dstack st' = new ++ dstack st /\
              forall n, cnt_reg n t = (cnt_drun n t + occ n (map fst new))%nat.

Lemma occ_app : forall n a b, occ n (a ++ b) = (occ n a + occ n b)%nat.
Proof. intros. unfold occ. rewrite filter_app, app_length. reflexivity. Qed.

Lemma exec_defers_run : forall ms f p out tr,
  methods p = ms -> run true f p = Some (out, tr) -> forall n, cnt_reg n tr = cnt_drun n tr.
Proof.
  intros ms f p out tr Hm H.
  destruct (run_Q ms QC) with (f := f) (p := p) (out := out) (tr := tr) as (st' & Hd & HQ); auto;
    unfold QC; intros.
  - exists []. split; [reflexivity|]. intros; reflexivity.
  - destruct H0 as (n1 & A1 & A2), H1 as (n2 & B1 & B2). exists (n2 ++ n1). split.
    + rewrite B1, A1, app_assoc. reflexivity.
    + intros n. unfold cnt_reg, cnt_drun in *. rewrite !flen_app, map_app, occ_app, A2, B2. lia.
  - exists []. split; [reflexivity|]. intros n. unfold cnt_reg, cnt_drun.
    rewrite !(flen_zero _ printed t); auto; intros [] He; try discriminate; reflexivity.
  - exists []. split; [reflexivity|]. intros; reflexivity.
  - exists []. split; [reflexivity|]. intros; reflexivity.
  - exists []. split; [reflexivity|]. intros; reflexivity.
  - destruct H0 as (n1 & A1 & A2), H1 as (n2 & B1 & B2). cbn [bump dstack] in A1.
    exists (n2 ++ n1). split.
    + rewrite B1, A1, app_assoc. reflexivity.
    + intros n. unfold cnt_reg, cnt_drun in *. cbn [filter]. rewrite !flen_app. cbn [filter].
      rewrite map_app, occ_app, A2, B2. lia.
  - exists [(next st, b)]. split; [reflexivity|]. intros n. unfold cnt_reg, cnt_drun, occ. cbn.
    destruct (Nat.eqb (next st) n); reflexivity.
  - destruct H0 as (n1 & A1 & A2). cbn [enter_frame dstack] in A1. rewrite app_nil_r in A1.
    rewrite leave_frame_eq. cbn [fst snd dstack]. exists []. split; [reflexivity|].
    intros n. pose proof (run_defers_drun n (dstack st1) (locals st1)) as Hr.
    unfold cnt_reg, cnt_drun in *. rewrite !flen_app, A2, Hr, A1.
    zero_quiet. cbn. lia.
  - destruct HQ as (new & A1 & A2). rewrite Hd in A1. cbn in A1.
    destruct new; [|discriminate]. rewrite A2. cbn. lia.
Qed.

(* ------------------------------------------------------------------ (D) innermost first *)
Definition nobr (e : event) : bool := match e with DoEnter _ | FinRun _ => false | _ => true end.

Lemma wb_app : forall a stk b,
  wb stk (a ++ b) = match wb stk a with Some s => wb s b | None => None end.
Proof.
  induction a as [|e r IH]; intros; cbn [app wb]; [reflexivity|].
  destruct e; try apply IH. destruct stk as [|m stk']; [reflexivity|].
  destruct (Nat.eqb m n); [apply IH | reflexivity].
Qed.

Lemma wb_nobr : forall t stk, forallb nobr t = true -> wb stk t = Some stk.
Proof.
  induction t as [|e r IH]; intros stk H; cbn in *; [reflexivity|].
  apply andb_true_iff in H as [H1 H2]. destruct e; try discriminate; auto.
Qed.

Definition QD (st st' : state) (t : list event) : Prop := forall stk, wb stk t = Some stk.

Lemma exec_nested : forall ms f p out tr,
  methods p = ms -> run true f p = Some (out, tr) -> wb [] tr = Some [].
Proof.
  intros ms f p out tr Hm H.
  destruct (run_Q ms QD) with (f := f) (p := p) (out := out) (tr := tr) as (st' & _ & HQ); auto;
    unfold QD; intros.
  - reflexivity.
  - rewrite wb_app, H0. apply H1.
  - apply wb_nobr. eapply forallb_impl; [|exact H0]. intros [] He; try discriminate; reflexivity.
  - reflexivity.
  - reflexivity.
  - reflexivity.
  - cbn [wb]. rewrite wb_app, H0. cbn [wb]. rewrite Nat.eqb_refl. apply H1.
  - reflexivity.
  - rewrite leave_frame_eq. cbn [snd]. rewrite wb_app, H0. apply wb_nobr.
    eapply forallb_impl; [|apply run_defers_quiet]. intros [] He; try discriminate; reflexivity.
Qed.

(* ------------------------------------------------------------------ (E) catch selection *)
Lemma first_match_idx : forall v cs i,
  option_map fst (first_match v cs i) = first_idx v (map fst cs) i.
Proof.
  induction cs as [|[p b] r IH]; intros i; cbn; [reflexivity|].
  destruct (matches p v); [reflexivity | apply IH].
Qed.

Definition QE (st st' : state) (t : list event) : Prop := forallb sel_ok t = true.

Lemma exec_sel_ok : forall ms f p out tr,
  methods p = ms -> run true f p = Some (out, tr) -> forallb sel_ok tr = true.
Proof.
  intros ms f p out tr Hm H.
  destruct (run_Q ms QE) with (f := f) (p := p) (out := out) (tr := tr) as (st' & _ & HQ); auto;
    unfold QE; intros.
  - reflexivity.
  - rewrite forallb_app, H0, H1. reflexivity.
  - eapply forallb_impl; [|exact H0]. intros [] He; try discriminate; reflexivity.
  - cbn. rewrite first_match_idx. destruct (first_idx v (map fst cs) 0); [rewrite Nat.eqb_refl|]; reflexivity.
  - reflexivity.
  - reflexivity.
  - cbn [forallb sel_ok]. rewrite forallb_app. cbn [forallb sel_ok]. rewrite H0, H1. reflexivity.
  - reflexivity.
  - rewrite leave_frame_eq. cbn [snd]. rewrite forallb_app, H0.
    eapply forallb_impl; [|apply run_defers_quiet]. intros [] He; try discriminate; reflexivity.
Qed.

Lemma first_idx_some : forall v ps k i,
  first_idx v ps k = Some i ->
  (k <= i)%nat /\ exists q, nth_error ps (i - k) = Some q /\ matches q v = true /\
  forall j q', (j < i - k)%nat -> nth_error ps j = Some q' -> matches q' v = false.
Proof.
  induction ps as [|p r IH]; intros k i H; cbn in H; [discriminate|].
  destruct (matches p v) eqn:E.
  - inv H. split; [lia|]. rewrite Nat.sub_diag. exists p. repeat split; auto. intros; lia.
  - apply IH in H as (Hle & q & Hn & Hm & Hlt). split; [lia|].
    replace (i - k)%nat with (S (i - S k)) by lia. exists q. repeat split; auto.
    intros j q' Hj Hq. destruct j; cbn in Hq; [inv Hq; exact E|].
    eapply Hlt; [|exact Hq]. lia.
Qed.

Lemma first_idx_none : forall v ps k,
  first_idx v ps k = None -> forall q, In q ps -> matches q v = false.
Proof.
  induction ps as [|p r IH]; intros k H q Hin; cbn in *; [destruct Hin|].
  destruct (matches p v) eqn:E; [discriminate|]. destruct Hin as [<-|Hin]; eauto.
Qed.

Lemma catch_exact : forall ms f p out tr,
  methods p = ms -> run true f p = Some (out, tr) ->
  forall v ps sel, In (CatchSel v ps sel) tr ->
  match sel with
  | Some i => exists q, nth_error ps i = Some q /\ matches q v = true /\
                        forall j q', (j < i)%nat -> nth_error ps j = Some q' -> matches q' v = false
  | None => forall q, In q ps -> matches q v = false
  end.
Proof.
  intros ms f p out tr Hm H v ps sel Hin.
  pose proof (exec_sel_ok ms f p out tr Hm H) as Hs.
  rewrite forallb_forall in Hs. specialize (Hs _ Hin). cbn in Hs.
  destruct sel as [i|], (first_idx v ps 0) as [j|] eqn:E; try discriminate.
  - apply Nat.eqb_eq in Hs. subst j. apply first_idx_some in E as (_ & q & Hn & Hm' & Hlt).
    rewrite Nat.sub_0_r in *. eauto.
  - eapply first_idx_none; eauto.
Qed.

(* the selected clause is the one that runs (do without finally; fuel S f) *)
Lemma do_catch_runs : forall ms f cv body cs st v st1 t1 i cb x2 st2 t2,
  exec true ms f cv body st = Some (XThrow v, st1, t1) ->
  first_match v cs 0 = Some (i, cb) ->
  exec true ms f v cb st1 = Some (x2, st2, t2) ->
  exec true ms (S f) cv (SDo body cs None) st =
    Some (x2, st2, t1 ++ CatchSel v (map fst cs) (Some i) :: t2).
Proof. intros. cbn [exec]. rewrite H, H0, H1. reflexivity. Qed.

Lemma do_no_catch_propagates : forall ms f cv body cs st v st1 t1,
  exec true ms f cv body st = Some (XThrow v, st1, t1) ->
  first_match v cs 0 = None ->
  exec true ms (S f) cv (SDo body cs None) st =
    Some (XThrow v, st1, t1 ++ [CatchSel v (map fst cs) None]).
Proof. intros. cbn [exec]. rewrite H, H0. reflexivity. Qed.

Lemma do_no_throw_skips_catches : forall ms f cv body cs st x st1 t1,
  exec true ms f cv body st = Some (x, st1, t1) ->
  (forall v, x <> XThrow v) ->
  exec true ms (S f) cv (SDo body cs None) st = Some (x, st1, t1).
Proof.
  intros. cbn [exec]. rewrite H. destruct x; try (rewrite app_nil_r; reflexivity).
  exfalso. eapply H0. reflexivity.
Qed.

(* ------------------------------------------------------------------ short-circuit *)
Lemma sc_and : forall loc a b,
  eval loc (EAnd a b) =
  (if truthy (fst (eval loc a))
   then (fst (eval loc b), snd (eval loc a) ++ snd (eval loc b))
   else (fst (eval loc a), snd (eval loc a))).
Proof. intros. cbn [eval]. destruct (eval loc a) as [v t], (eval loc b) as [w u]. cbn. destruct (truthy v); reflexivity. Qed.

Lemma sc_or : forall loc a b,
  eval loc (EOr a b) =
  (if truthy (fst (eval loc a))
   then (fst (eval loc a), snd (eval loc a))
   else (fst (eval loc b), snd (eval loc a) ++ snd (eval loc b))).
Proof. intros. cbn [eval]. destruct (eval loc a) as [v t], (eval loc b) as [w u]. cbn. destruct (truthy v); reflexivity. Qed.

Lemma sc_coal : forall loc a b,
  eval loc (ECoal a b) =
  (match fst (eval loc a) with
   | VNil => (fst (eval loc b), snd (eval loc a) ++ snd (eval loc b))
   | _ => (fst (eval loc a), snd (eval loc a))
   end).
Proof. intros. cbn [eval]. destruct (eval loc a) as [v t], (eval loc b) as [w u]. cbn. destruct v; reflexivity. Qed.

(* ------------------------------------------------------------------ cf = false agrees with the reference
   unless a catch clause of a do-with-finally ends abruptly *)
Lemma no_abrupt_app : forall a b, no_abrupt (a ++ b) = no_abrupt a && no_abrupt b.
Proof. intros. unfold no_abrupt. apply forallb_app. Qed.

Lemma no_abrupt_cons : forall e t, no_abrupt (e :: t) = negb (is_abrupt e) && no_abrupt t.
Proof. reflexivity. Qed.
Lemma no_abrupt_nil : no_abrupt [] = true.
Proof. reflexivity. Qed.

Ltac na_split Hn :=
  repeat (rewrite ?no_abrupt_app, ?no_abrupt_cons, ?no_abrupt_nil in Hn);
  cbn [is_abrupt negb] in Hn;
  repeat match goal with
         | H : _ && _ = true |- _ => apply andb_true_iff in H as [? ?]
         end.

Ltac use_IH IH E := rewrite (IH _ _ _ _ _ _ E ltac:(assumption)).

Lemma impl_agrees : forall ms f cv s st x st' t,
  exec false ms f cv s st = Some (x, st', t) -> no_abrupt t = true ->
  exec true ms f cv s st = Some (x, st', t).
Proof.
  induction f as [|f IH]; intros cv s st x st' t H Hn; [discriminate|].
  destruct s; cbn [exec] in H |- *; try exact H.
  - (* SSeq *)
    destruct (exec false ms f cv s1 st) as [[[x1 st1] t1]|] eqn:E1; [|discriminate].
    destruct (is_normal x1) eqn:N.
    + unfold pre in H. destruct (exec false ms f cv s2 st1) as [[[x2 st2] t2]|] eqn:E2; [|discriminate].
      inv H. na_split Hn. use_IH IH E1. rewrite N. unfold pre. use_IH IH E2. reflexivity.
    + inv H. use_IH IH E1. rewrite N. reflexivity.
  - (* SIf *)
    destruct (eval (locals st) c) as [v0 t0]. unfold pre in *.
    destruct (exec false ms f cv (if truthy v0 then s1 else s2) st) as [[[x1 st1] t1]|] eqn:E1; [|discriminate].
    inv H. na_split Hn. use_IH IH E1. reflexivity.
  - (* SLoop *)
    destruct (exec false ms f cv s st) as [[[x1 st1] t1]|] eqn:E1; [|discriminate].
    destruct (loop_ctl l x1) eqn:L.
    + inv H. use_IH IH E1. rewrite L. reflexivity.
    + unfold pre in H. destruct (exec false ms f cv (SLoop l s) st1) as [[[x2 st2] t2]|] eqn:E2; [|discriminate].
      inv H. na_split Hn. use_IH IH E1. rewrite L. unfold pre. use_IH IH E2. reflexivity.
    + inv H. use_IH IH E1. rewrite L. reflexivity.
  - (* SWhile *)
    destruct (eval (locals st) c) as [v0 t0]. destruct (truthy v0); [|exact H].
    destruct (exec false ms f cv s st) as [[[x1 st1] t1]|] eqn:E1; [|discriminate].
    destruct (loop_ctl l x1) eqn:L.
    + inv H. na_split Hn. use_IH IH E1. rewrite L. reflexivity.
    + unfold pre in H. destruct (exec false ms f cv (SWhile l c s) st1) as [[[x2 st2] t2]|] eqn:E2; [|discriminate].
      inv H. na_split Hn. use_IH IH E1. rewrite L. unfold pre. use_IH IH E2. reflexivity.
    + inv H. na_split Hn. use_IH IH E1. rewrite L. reflexivity.
  - (* SDo *)
    destruct (exec false ms f cv s (match fin with Some _ => bump st | None => st end))
      as [[[x1 st1] t1]|] eqn:E1; [|discriminate].
    destruct fin as [fb|].
    + (* with finally *)
      destruct x1 as [| | | |v].
      5: {
        destruct (first_match v cs 0) as [[i cb]|] eqn:Ef.
        - destruct (exec false ms f v cb st1) as [[[x2 st2] t2]|] eqn:E2; [|discriminate].
          destruct (is_normal x2) eqn:N; cbn [negb andb] in H.
          + destruct (exec false ms f cv fb st2) as [[[x3 st3] t3]|] eqn:E3; [|discriminate].
            inv H. na_split Hn. use_IH IH E1. cbv beta iota. rewrite Ef. use_IH IH E2. rewrite N.
            cbn [negb andb]. use_IH IH E3. reflexivity.
          + exfalso. inv H. na_split Hn. discriminate.
        - cbn [negb andb] in H.
          destruct (exec false ms f cv fb st1) as [[[x3 st3] t3]|] eqn:E3; [|discriminate].
          inv H. na_split Hn. use_IH IH E1. cbv beta iota. rewrite Ef. cbn [negb andb]. use_IH IH E3. reflexivity. }
      all: cbn [negb andb] in H;
        destruct (exec false ms f cv fb st1) as [[[x3 st3] t3]|] eqn:E3; [|discriminate];
        inv H; na_split Hn; use_IH IH E1; cbn [negb andb]; use_IH IH E3; reflexivity.
    + destruct x1 as [| | | |v].
      5: {
        destruct (first_match v cs 0) as [[i cb]|] eqn:Ef.
        - destruct (exec false ms f v cb st1) as [[[x2 st2] t2]|] eqn:E2; [|discriminate].
          inv H. na_split Hn. use_IH IH E1. cbv beta iota. rewrite Ef. use_IH IH E2. reflexivity.
        - inv H. na_split Hn. use_IH IH E1. cbv beta iota. rewrite Ef. reflexivity. }
      all: inv H; na_split Hn; use_IH IH E1; reflexivity.
  - (* SCall *)
    destruct (nth_error ms m) as [body|]; [|exact H].
    destruct (exec false ms f VNil body (enter_frame st)) as [[[x1 st1] t1]|] eqn:E1; [|discriminate].
    destruct (leave_frame st x1 st1) as [st2 td] eqn:EL. inv H.
    na_split Hn. use_IH IH E1. rewrite EL. reflexivity.
Qed.

Lemma run_impl_agrees : forall f p out tr,
  run false f p = Some (out, tr) -> no_abrupt tr = true -> run true f p = Some (out, tr).
Proof.
  intros f p out tr H Hn. unfold run in *.
  destruct (exec false (methods p) f VNil (main p) (enter_frame init_state)) as [[[x1 st1] t1]|] eqn:E1;
    [|discriminate].
  destruct (leave_frame init_state x1 st1) as [st2 td] eqn:EL. inv H.
  na_split Hn. rewrite (impl_agrees _ _ _ _ _ _ _ _ E1 ltac:(assumption)). rewrite EL. reflexivity.
Qed.

(* ------------------------------------------------------------------ fuel: more fuel never changes a result *)
Lemma exec_mono : forall cf ms f cv s st r,
  exec cf ms f cv s st = Some r -> exec cf ms (S f) cv s st = Some r.
Proof.
  induction f as [|f IH]; intros cv s st r H; [discriminate|].
  remember (S f) as g eqn:Hg.
  rewrite Hg in H. cbn [exec] in H. 
  destruct s; cbn [exec]; try exact H.
  - destruct (exec cf ms f cv s1 st) as [[[x1 st1] t1]|] eqn:E1; [|discriminate].
    rewrite (IH _ _ _ _ E1). destruct (is_normal x1); [|exact H].
    unfold pre in *. destruct (exec cf ms f cv s2 st1) as [[[x2 st2] t2]|] eqn:E2; [|discriminate].
    rewrite (IH _ _ _ _ E2). exact H.
  - destruct (eval (locals st) c) as [v0 t0]. unfold pre in *.
    destruct (exec cf ms f cv (if truthy v0 then s1 else s2) st) as [[[x1 st1] t1]|] eqn:E1; [|discriminate].
    rewrite (IH _ _ _ _ E1). exact H.
  - destruct (exec cf ms f cv s st) as [[[x1 st1] t1]|] eqn:E1; [|discriminate].
    rewrite (IH _ _ _ _ E1). destruct (loop_ctl l x1); try exact H.
    unfold pre in *. destruct (exec cf ms f cv (SLoop l s) st1) as [[[x2 st2] t2]|] eqn:E2; [|discriminate].
    rewrite (IH _ _ _ _ E2). exact H.
  - destruct (eval (locals st) c) as [v0 t0]. destruct (truthy v0); [|exact H].
    destruct (exec cf ms f cv s st) as [[[x1 st1] t1]|] eqn:E1; [|discriminate].
    rewrite (IH _ _ _ _ E1). destruct (loop_ctl l x1); try exact H.
    unfold pre in *. destruct (exec cf ms f cv (SWhile l c s) st1) as [[[x2 st2] t2]|] eqn:E2; [|discriminate].
    rewrite (IH _ _ _ _ E2). exact H.
  - destruct (exec cf ms f cv s (match fin with Some _ => bump st | None => st end))
      as [[[x1 st1] t1]|] eqn:E1; [|discriminate].
    rewrite (IH _ _ _ _ E1).
    destruct x1 as [| | | |v].
    5: {
      destruct (first_match v cs 0) as [[i cb]|] eqn:Ef.
      - destruct (exec cf ms f v cb st1) as [[[x2 st2] t2]|] eqn:E2; [|discriminate].
        rewrite (IH _ _ _ _ E2). destruct fin as [fb|]; [|exact H].
        destruct (negb (is_normal x2) && negb cf); [exact H|].
        destruct (exec cf ms f cv fb st2) as [[[x3 st3] t3]|] eqn:E3; [|discriminate].
        rewrite (IH _ _ _ _ E3). exact H.
      - destruct fin as [fb|]; [|exact H]. cbn [andb] in *.
        destruct (exec cf ms f cv fb st1) as [[[x3 st3] t3]|] eqn:E3; [|discriminate].
        rewrite (IH _ _ _ _ E3). exact H. }
    all: destruct fin as [fb|]; [|exact H]; cbn [andb] in *;
      destruct (exec cf ms f cv fb st1) as [[[x3 st3] t3]|] eqn:E3; [|discriminate];
      rewrite (IH _ _ _ _ E3); exact H.
  - destruct (nth_error ms m) as [body|]; [|exact H].
    destruct (exec cf ms f VNil body (enter_frame st)) as [[[x1 st1] t1]|] eqn:E1; [|discriminate].
    rewrite (IH _ _ _ _ E1). exact H.
Qed.

Lemma exec_fuel_indep : forall cf ms f g cv s st r,
  (f <= g)%nat -> exec cf ms f cv s st = Some r -> exec cf ms g cv s st = Some r.
Proof.
  intros cf ms f g cv s st r Hle H. induction Hle; [exact H|]. apply exec_mono. exact IHHle.
Qed.

Lemma run_fuel_indep : forall cf f g p r,
  (f <= g)%nat -> run cf f p = Some r -> run cf g p = Some r.
Proof.
  intros cf f g p r Hle H. unfold run in *.
  destruct (exec cf (methods p) f VNil (main p) (enter_frame init_state)) as [[[x1 st1] t1]|] eqn:E1;
    [|discriminate].
  rewrite (exec_fuel_indep _ _ _ _ _ _ _ _ Hle E1). exact H.
Qed.

(* ------------------------------------------------------------------ statements used by Props/C14.v *)
Lemma finally_once : forall p f out tr,
  run true f p = Some (out, tr) ->
  forall n,
    cnt_fin n tr = cnt_enter n tr /\ (cnt_enter n tr <= 1)%nat /\
    cnt_drun n tr = cnt_reg n tr /\ (cnt_reg n tr <= 1)%nat.
Proof.
  intros p f out tr H n.
  pose proof (exec_balanced _ f p out tr eq_refl H n).
  pose proof (exec_at_most_once _ f p out tr eq_refl H n) as [? ?].
  pose proof (exec_defers_run _ f p out tr eq_refl H n).
  repeat split; auto.
Qed.

Lemma finally_once_partial : forall p f out tr,
  run false f p = Some (out, tr) -> no_abrupt tr = true ->
  run true f p = Some (out, tr) /\
  forall n,
    cnt_fin n tr = cnt_enter n tr /\ (cnt_enter n tr <= 1)%nat /\
    cnt_drun n tr = cnt_reg n tr /\ (cnt_reg n tr <= 1)%nat.
Proof.
  intros p f out tr H Hn. pose proof (run_impl_agrees f p out tr H Hn) as Ht.
  split; [exact Ht|]. exact (finally_once p f out tr Ht).
Qed.

Lemma innermost_first : forall p f out tr,
  run true f p = Some (out, tr) -> wb [] tr = Some [].
Proof. intros p f out tr H. exact (exec_nested _ f p out tr eq_refl H). Qed.

Lemma catch_exact_run : forall p f out tr,
  run true f p = Some (out, tr) ->
  forall v ps sel, In (CatchSel v ps sel) tr ->
  match sel with
  | Some i => exists q, nth_error ps i = Some q /\ matches q v = true /\
                        forall j q', (j < i)%nat -> nth_error ps j = Some q' -> matches q' v = false
  | None => forall q, In q ps -> matches q v = false
  end.
Proof. intros p f out tr H. exact (catch_exact _ f p out tr eq_refl H). Qed.

Lemma catch_runs : forall ms f cv body cs st v st1 t1,
  exec true ms f cv body st = Some (XThrow v, st1, t1) ->
  (forall i cb x2 st2 t2, first_match v cs 0 = Some (i, cb) ->
     exec true ms f v cb st1 = Some (x2, st2, t2) ->
     exec true ms (S f) cv (SDo body cs None) st =
       Some (x2, st2, t1 ++ CatchSel v (map fst cs) (Some i) :: t2)) /\
  (first_match v cs 0 = None ->
     exec true ms (S f) cv (SDo body cs None) st =
       Some (XThrow v, st1, t1 ++ [CatchSel v (map fst cs) None])).
Proof.
  intros. split; intros.
  - eapply do_catch_runs; eauto.
  - eapply do_no_catch_propagates; eauto.
Qed.

Lemma short_circuit : forall loc a b,
  eval loc (EAnd a b) =
    (if truthy (fst (eval loc a))
     then (fst (eval loc b), snd (eval loc a) ++ snd (eval loc b))
     else (fst (eval loc a), snd (eval loc a))) /\
  eval loc (EOr a b) =
    (if truthy (fst (eval loc a))
     then (fst (eval loc a), snd (eval loc a))
     else (fst (eval loc b), snd (eval loc a) ++ snd (eval loc b))) /\
  eval loc (ECoal a b) =
    (match fst (eval loc a) with
     | VNil => (fst (eval loc b), snd (eval loc a) ++ snd (eval loc b))
     | _ => (fst (eval loc a), snd (eval loc a))
     end).
Proof. intros. split; [apply sc_and|split; [apply sc_or|apply sc_coal]]. Qed.
