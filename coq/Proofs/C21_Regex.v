(* C21 - proofs about the transpiler model (Model/C21_RegexSyntax.v) and the two semantics
   (Model/C21_RegexSem.v). *)
From Coq Require Import ZArith List Bool Arith Lia.
From Elk Require Import Model.C21_RegexSyntax Model.C21_RegexSem.
Import ListNotations.
Open Scope Z_scope.

(* ---------------------------------------------------------------- induction principle for re *)

Section re_ind2.
Variable P : re -> Prop.
Hypothesis Hatom : forall a, P (RAtom a).
Hypothesis Hany : P RAny.
Hypothesis Hbol : P RBol.
Hypothesis Heol : P REol.
Hypothesis Habsbeg : P RAbsBeg.
Hypothesis Habsend : P RAbsEnd.
Hypothesis Hwordb : P RWordB.
Hypothesis Hnwordb : P RNotWordB.
Hypothesis Hquoted : forall txt, P (RQuoted txt).
Hypothesis Hclass : forall neg items, P (RClass neg items).
Hypothesis Hconcat : forall l, Forall P l -> P (RConcat l).
Hypothesis Hunion : forall a b, P a -> P b -> P (RUnion a b).
Hypothesis HgroupS : forall k b, P b -> P (RGroup k (Some b)).
Hypothesis HgroupN : forall k, P (RGroup k None).
Hypothesis Hquant : forall q alt r, P r -> P (RQuant q alt r).

Fixpoint re_ind2 (r : re) : P r :=
  match r with
  | RAtom a => Hatom a
  | RAny => Hany | RBol => Hbol | REol => Heol | RAbsBeg => Habsbeg | RAbsEnd => Habsend
  | RWordB => Hwordb | RNotWordB => Hnwordb
  | RQuoted txt => Hquoted txt
  | RClass neg items => Hclass neg items
  | RConcat l =>
      Hconcat l ((fix go (l : list re) : Forall P l :=
                    match l with [] => Forall_nil P | x :: t => Forall_cons x (re_ind2 x) (go t) end) l)
  | RUnion a b => Hunion a b (re_ind2 a) (re_ind2 b)
  | RGroup k (Some b) => HgroupS k b (re_ind2 b)
  | RGroup k None => HgroupN k
  | RQuant q alt r0 => Hquant q alt r0 (re_ind2 r0)
  end.
End re_ind2.

(* ---------------------------------------------------------------- the nested fixpoints, named *)

Fixpoint tr_list (incomment : bool) (f : flags) (l : list re) : list re2 * flags :=
  match l with
  | [] => ([], f)
  | x :: t =>
      if fx f then
        if incomment then tr_list (negb (is_char x 10)) f t
        else if is_char x 35 then tr_list true f t
        else let '(y, f1) := tr f x in let '(ys, f2) := tr_list false f1 t in (y :: ys, f2)
      else let '(y, f1) := tr f x in let '(ys, f2) := tr_list false f1 t in (y :: ys, f2)
  end.

Lemma tr_concat : forall f l, tr f (RConcat l) = let '(out, f') := tr_list false f l in (R2Cat out, f').
Proof. reflexivity. Qed.

Fixpoint has_err_list (l : list re2) : bool := match l with [] => false | x :: t => has_err x || has_err_list t end.
Lemma has_err_cat : forall l, has_err (R2Cat l) = has_err_list l.
Proof. reflexivity. Qed.

Fixpoint pr2_list (l : list re2) : list Z := match l with [] => [] | x :: t => pr2 x ++ pr2_list t end.
Lemma pr2_cat : forall l, pr2 (R2Cat l) = pr2_list l.
Proof. reflexivity. Qed.

Fixpoint sets_x_list (l : list re) : bool := match l with [] => false | x :: t => sets_x x || sets_x_list t end.
Lemma sets_x_concat : forall l, sets_x (RConcat l) = sets_x_list l.
Proof. reflexivity. Qed.

Section Sem.
Variable orbit : Z -> list Z.
Variable uni : list Z -> Z -> bool.
Variable posix : list Z -> Z -> bool.
Variable s : list Z.

Notation me := (me orbit uni posix s).
Notation m2 := (m2 orbit uni posix s).
Notation tf := (pset -> pset).

Fixpoint me_list (f : flags) (l : list re) : tf * flags :=
  match l with
  | [] => (tid, f)
  | x :: t => let '(A, f1) := me f x in let '(B, f2) := me_list f1 t in (tcomp A B, f2)
  end.
Lemma me_concat : forall f l, me f (RConcat l) = me_list f l.
Proof. reflexivity. Qed.

Fixpoint m2_list (g : gflags) (l : list re2) : tf * gflags :=
  match l with
  | [] => (tid, g)
  | x :: t => let '(A, g1) := m2 g x in let '(B, g2) := m2_list g1 t in (tcomp A B, g2)
  end.
Lemma m2_cat : forall g l, m2 g (R2Cat l) = m2_list g l.
Proof. reflexivity. Qed.

(* ---------------------------------------------------------------- sets of characters *)

Lemma existsb_orb_distr : forall (A : Type) (P Q : A -> bool) l,
  existsb (fun x => P x || Q x) l = existsb P l || existsb Q l.
Proof.
  induction l as [|x t IH]; simpl; [reflexivity|]. rewrite IH.
  destruct (P x), (Q x), (existsb P t), (existsb Q t); reflexivity.
Qed.

Lemma existsb_ext' : forall (A : Type) (P Q : A -> bool) l, (forall x, P x = Q x) -> existsb P l = existsb Q l.
Proof. induction l as [|x t IH]; simpl; intros H; [reflexivity|]. rewrite H, IH by exact H. reflexivity. Qed.

Lemma existsb_false : forall (A : Type) (l : list A), existsb (fun _ => false) l = false.
Proof. induction l; simpl; auto. Qed.

Lemma existsb_flat_map : forall (A B : Type) (P : B -> bool) (g : A -> list B) l,
  existsb P (flat_map g l) = existsb (fun x => existsb P (g x)) l.
Proof. induction l as [|x t IH]; simpl; [reflexivity|]. rewrite existsb_app, IH. reflexivity. Qed.

Lemma existsb_partition : forall (A : Type) (P q : A -> bool) l,
  existsb P l = existsb P (filter (fun x => negb (q x)) l) || existsb P (filter q l).
Proof.
  induction l as [|x t IH]; simpl; [reflexivity|]. rewrite IH.
  destruct (q x); simpl; destruct (P x), (existsb P (filter (fun x0 => negb (q x0)) t)), (existsb P (filter q t)); reflexivity.
Qed.

Lemma fc_or : forall P Q c, fc orbit (fun x => P x || Q x) c = fc orbit P c || fc orbit Q c.
Proof.
  intros. unfold fc. rewrite existsb_orb_distr.
  destruct (P c), (Q c), (existsb P (orbit c)), (existsb Q (orbit c)); reflexivity.
Qed.

Lemma fc_ext : forall P Q c, (forall x, P x = Q x) -> fc orbit P c = fc orbit Q c.
Proof. intros P Q c H. unfold fc. rewrite H. f_equal. apply existsb_ext'. exact H. Qed.

Lemma fc_false : forall c, fc orbit (fun _ => false) c = false.
Proof. intros. unfold fc. rewrite existsb_false. reflexivity. Qed.

Lemma signed_ext : forall ci neg P Q c, (forall x, P x = Q x) -> signed orbit ci neg P c = signed orbit ci neg Q c.
Proof. intros. unfold signed. destruct ci; [rewrite (fc_ext P Q c H)|rewrite H]; reflexivity. Qed.

Definition positive (it : item2) : bool :=
  match it with I2Perl true _ | I2Uni true _ | I2Posix true _ => false | _ => true end.

Lemma item_fold : forall it c, positive it = true ->
  item2_sem orbit uni posix true it c = fc orbit (fun x => item2_sem orbit uni posix false it x) c.
Proof.
  intros it c H. destruct it as [l|l r|t|neg k|neg n|neg n|]; cbn [item2_sem positive] in *;
    try (destruct neg; try discriminate); unfold signed; try reflexivity; symmetry; apply fc_false.
Qed.

Lemma items_fold : forall l c, forallb positive l = true ->
  existsb (fun it => item2_sem orbit uni posix true it c) l
  = fc orbit (fun x => existsb (fun it => item2_sem orbit uni posix false it x) l) c.
Proof.
  induction l as [|it t IH]; intros c H; simpl.
  - symmetry. apply fc_false.
  - simpl in H. apply andb_true_iff in H. destruct H as [H1 H2].
    rewrite fc_or, <- IH by exact H2. rewrite item_fold by exact H1. reflexivity.
Qed.

Lemma pre_items_pos : forall a p, forallb positive (pre_items a p) = true.
Proof. destruct a, p; reflexivity. Qed.

Ltac bool_lia :=
  apply eq_iff_eq_true;
  repeat rewrite ?orb_true_iff, ?andb_true_iff, ?Z.eqb_eq, ?Z.leb_le;
  intuition lia.

Lemma hex_85 : hex_val D_85 = 133. Proof. reflexivity. Qed.
Lemma hex_2028 : hex_val D_2028 = 8232. Proof. reflexivity. Qed.
Lemma hex_2029 : hex_val D_2029 = 8233. Proof. reflexivity. Qed.

Lemma pre_items_set : forall a p x,
  existsb (fun it => item2_sem orbit uni posix false it x) (pre_items a p) = elk_pre uni a p x.
Proof.
  intros a p x.
  destruct a, p; cbn [pre_items existsb item2_sem signed pol lit_val ctl_val elk_pre apre upre perl_set];
    rewrite ?hex_85, ?hex_2028, ?hex_2029; unfold in_range, ascii_word, in_range;
    rewrite ?orb_false_r; try reflexivity; bool_lia.
Qed.

Lemma pre_items_sem : forall ci a p c,
  existsb (fun it => item2_sem orbit uni posix ci it c) (pre_items a p) = signed orbit ci false (elk_pre uni a p) c.
Proof.
  intros ci a p c. destruct ci.
  - rewrite items_fold by apply pre_items_pos. unfold signed. simpl. apply fc_ext. intros x. apply pre_items_set.
  - rewrite pre_items_set. reflexivity.
Qed.

(* ---------------------------------------------------------------- position sets *)

Lemma one_ext : forall P Q X, (forall c, P c = Q c) -> one s P X = one s Q X.
Proof.
  intros P Q X H. unfold one, tab. apply map_ext. intros [|i]; [reflexivity|].
  destruct (char_at s i); [rewrite H|]; reflexivity.
Qed.

Lemma tab_length : forall f, length (tab s f) = S (slen s).
Proof. intros. unfold tab, positions. rewrite map_length, seq_length. reflexivity. Qed.

Lemma get_tab : forall f j, (j <= slen s)%nat -> get (tab s f) j = f j.
Proof.
  intros f j Hj. unfold get, tab, positions.
  rewrite nth_indep with (d' := f 0%nat) by (rewrite map_length, seq_length; lia).
  rewrite map_nth with (d := 0%nat). rewrite seq_nth by lia. reflexivity.
Qed.

Lemma tab_ext : forall f g, (forall j, (j <= slen s)%nat -> f j = g j) -> tab s f = tab s g.
Proof.
  intros f g H. unfold tab, positions. apply map_ext_in. intros j Hj. apply in_seq in Hj. apply H. lia.
Qed.

Lemma one_or : forall P Q X, punion s (one s P X) (one s Q X) = one s (fun c => P c || Q c) X.
Proof.
  intros P Q X. unfold punion. unfold one at 3. apply tab_ext. intros j Hj.
  unfold one. rewrite !get_tab by exact Hj. destruct j as [|i]; [reflexivity|].
  destruct (get X i); simpl; [|reflexivity]. destruct (char_at s i); reflexivity.
Qed.

(* ---------------------------------------------------------------- literals *)

Lemma oct_pad3 : forall ds, oct_val (pad3 ds) = oct_val ds.
Proof. intros [|a [|b [|c t]]]; reflexivity. Qed.

Lemma ctl_simple : forall k, ctl_val (ctl_of k) = simple_val k.
Proof. destruct k; reflexivity. Qed.

Lemma hex_small_val : forall n, 0 <= n <= 26 -> hex_val (hex_small n) = n.
Proof.
  intros n H.
  assert (Hin : In n (map Z.of_nat (seq 0 27))).
  { apply in_map_iff. exists (Z.to_nat n). split; [lia|]. apply in_seq. lia. }
  simpl in Hin. repeat (destruct Hin as [<-|Hin]; [reflexivity|]). contradiction.
Qed.

Lemma letter_index_range : forall c, 0 <= letter_index c <= 26.
Proof.
  intros c. unfold letter_index.
  destruct ((65 <=? c) && (c <=? 90)) eqn:E1; [apply andb_true_iff in E1; rewrite !Z.leb_le in E1; lia|].
  destruct ((97 <=? c) && (c <=? 122)) eqn:E2; [apply andb_true_iff in E2; rewrite !Z.leb_le in E2; lia|]. lia.
Qed.

Lemma atom_lit_val : forall a l, atom_lit a = Some l -> atom_val a = Some (lit_val l).
Proof.
  intros a l H. destruct a; simpl in H; inversion H; subst; simpl; try reflexivity.
  - rewrite ctl_simple. reflexivity.
  - rewrite oct_pad3. reflexivity.
  - rewrite hex_small_val by apply letter_index_range. reflexivity.
Qed.

Lemma atom_lit_none : forall a, atom_lit a = None -> atom_val a = None.
Proof. intros a H. destruct a; simpl in *; try discriminate; reflexivity. Qed.

Lemma atom_sem_lit : forall f a l c, atom_lit a = Some l ->
  atom_sem orbit uni f a c = signed orbit (fi f) false (Z.eqb (lit_val l)) c.
Proof.
  intros f a l c H. pose proof (atom_lit_val a l H) as Hv. unfold atom_sem, atom_set.
  destruct a; simpl in H; try discriminate; rewrite Hv; reflexivity.
Qed.

(* ---------------------------------------------------------------- atoms at top level *)

Lemma vis_gi : forall f, gi (vis f) = fi f. Proof. reflexivity. Qed.

Lemma class_pre_sem : forall ci neg a p X,
  one s (fun c => pol neg (existsb (fun it => item2_sem orbit uni posix ci it c) (pre_items a p))) X
  = one s (signed orbit ci neg (elk_pre uni a p)) X.
Proof.
  intros. apply one_ext. intros c. rewrite pre_items_sem. unfold signed. simpl. reflexivity.
Qed.

Lemma pre_top_sound : forall f neg p X,
  fst (m2 (vis f) (tr_atom_top f (APre neg p))) X = one s (atom_sem orbit uni f (APre neg p)) X.
Proof.
  intros. unfold atom_sem, atom_set. unfold tr_atom_top.
  destruct p; destruct (fa f) eqn:Ea; cbn [m2 fst vis gi]; try reflexivity; apply class_pre_sem.
Qed.

Lemma atom_top_sound : forall f a, fx f = false ->
  (forall X, fst (m2 (vis f) (tr_atom_top f a)) X = one s (atom_sem orbit uni f a) X)
  /\ snd (m2 (vis f) (tr_atom_top f a)) = vis f.
Proof.
  intros f a Hx.
  destruct a as [c|c|k|ds|ds|c|neg p|neg name].
  - unfold tr_atom_top. rewrite Hx. simpl. split; [|reflexivity]. intros X. reflexivity.
  - simpl. split; [|reflexivity]. intros X. reflexivity.
  - simpl. split; [|reflexivity]. intros X. apply one_ext. intros c.
    unfold atom_sem. simpl. rewrite ctl_simple. reflexivity.
  - simpl. split; [|reflexivity]. intros X. reflexivity.
  - simpl. split; [|reflexivity]. intros X. apply one_ext. intros c.
    unfold atom_sem. simpl. rewrite oct_pad3. reflexivity.
  - simpl. split; [|reflexivity]. intros X. apply one_ext. intros c0.
    unfold atom_sem. simpl. rewrite hex_small_val by apply letter_index_range. reflexivity.
  - split; [intros X; apply pre_top_sound|]. unfold tr_atom_top. destruct p; destruct (fa f); reflexivity.
  - simpl. split; [|reflexivity]. intros X. reflexivity.
Qed.

(* ---------------------------------------------------------------- classes *)

Lemma atom_cls_sem : forall f a c, existsb item_err (tr_atom_cls f a) = false ->
  existsb (fun it => item2_sem orbit uni posix (fi f) it c) (tr_atom_cls f a) = atom_sem orbit uni f a c.
Proof.
  intros f a c He.
  destruct a as [c0|c0|k|ds|ds|c0|neg p|neg name].
  1-6: unfold tr_atom_cls; simpl atom_lit; cbn [existsb item2_sem]; rewrite orb_false_r;
       symmetry; apply atom_sem_lit; reflexivity.
  - unfold atom_sem, atom_set. destruct neg.
    + destruct p; simpl in He |- *; destruct (fa f) eqn:Ea; simpl in He |- *; try discriminate;
        rewrite ?orb_false_r; reflexivity.
    + simpl tr_atom_cls. apply pre_items_sem.
  - simpl. rewrite orb_false_r. reflexivity.
Qed.

Lemma citem_sem_sound : forall f it c, existsb item_err (tr_citem f it) = false ->
  existsb (fun i2 => item2_sem orbit uni posix (fi f) i2 c) (tr_citem f it) = citem_sem orbit uni posix f it c.
Proof.
  intros f it c He. destruct it as [a|l r|neg name].
  - apply atom_cls_sem. exact He.
  - simpl in *. destruct (atom_lit l) as [ll|] eqn:El; [destruct (atom_lit r) as [rl|] eqn:Er|].
    + rewrite (atom_lit_val _ _ El), (atom_lit_val _ _ Er). simpl. rewrite orb_false_r. reflexivity.
    + rewrite (atom_lit_none _ Er).
      destruct (existsb item_err (tr_atom_cls f l ++ tr_atom_cls f r)) eqn:Ee; simpl in He; [discriminate|].
      simpl. destruct (atom_val l); reflexivity.
    + rewrite (atom_lit_none _ El).
      destruct (existsb item_err (tr_atom_cls f l ++ tr_atom_cls f r)) eqn:Ee; simpl in He; [discriminate|].
      simpl. reflexivity.
  - simpl. rewrite orb_false_r. reflexivity.
Qed.

Lemma flat_items_sound : forall f items c,
  existsb item_err (flat_map (tr_citem f) items) = false ->
  existsb (fun i2 => item2_sem orbit uni posix (fi f) i2 c) (flat_map (tr_citem f) items)
  = existsb (fun it => citem_sem orbit uni posix f it c) items.
Proof.
  induction items as [|it t IH]; intros c He; simpl; [reflexivity|].
  simpl in He. rewrite existsb_app in He. apply orb_false_iff in He. destruct He as [H1 H2].
  rewrite existsb_app, IH by exact H2. rewrite citem_sem_sound by exact H1. reflexivity.
Qed.

(* alternatives of single-character matchers *)
Lemma alts_one : forall g (l : list re2) (Ps : list (Z -> bool)),
  Forall2 (fun r P => (forall X, fst (m2 g r) X = one s P X) /\ snd (m2 g r) = g) l Ps ->
  l <> [] ->
  (forall X, fst (m2 g (alts l)) X = one s (fun c => existsb (fun P => P c) Ps) X) /\ snd (m2 g (alts l)) = g.
Proof.
  intros g l Ps H. induction H as [|r P l' Ps' [Hr1 Hr2] Hrest IH]; intros Hne; [congruence|].
  destruct l' as [|r' l''].
  - inversion Hrest; subst. simpl. split; [|exact Hr2]. intros X. rewrite Hr1. apply one_ext. intros c.
    rewrite orb_false_r. reflexivity.
  - assert (Hne' : r' :: l'' <> []) by congruence. specialize (IH Hne'). destruct IH as [IH1 IH2].
    change (alts (r :: r' :: l'')) with (R2Alt r (alts (r' :: l''))).
    cbn [m2]. destruct (m2 g r) as [A g1] eqn:EA. simpl in Hr1, Hr2. subst g1.
    destruct (m2 g (alts (r' :: l''))) as [B g2] eqn:EB. simpl in IH1, IH2. subst g2.
    cbn [fst snd]. split; [|reflexivity]. intros X. unfold talt. rewrite Hr1, IH1. rewrite one_or. reflexivity.
Qed.

Lemma has_err_alts_head : forall x l, has_err (alts (x :: l)) = false -> has_err x = false.
Proof. intros x [|y t] H; simpl in H; [exact H|]. apply orb_false_iff in H. exact (proj1 H). Qed.

Lemma filter_split_atoms : forall f items,
  Forall (fun it => exists p, it = CIAtom (APre true p)) (filter (must_split f) items).
Proof.
  intros f items. apply Forall_forall. intros it Hin. apply filter_In in Hin. destruct Hin as [_ H].
  destruct it as [a| |]; simpl in H; try discriminate.
  destruct a as [| | | | | |neg p|]; try discriminate. destruct neg; [|destruct p; discriminate]. eauto.
Qed.

Lemma class_sound : forall f neg items, fx f = false -> has_err (tr_class f neg items) = false ->
  (forall X, fst (m2 (vis f) (tr_class f neg items)) X = one s (class_sem orbit uni posix f neg items) X)
  /\ snd (m2 (vis f) (tr_class f neg items)) = vis f.
Proof.
  intros f neg items Hx He. unfold tr_class in *. destruct neg.
  - simpl in *. split; [|reflexivity]. intros X. apply one_ext. intros c. unfold class_sem.
    rewrite flat_items_sound by exact He. reflexivity.
  - set (inside := filter (fun it => negb (must_split f it)) items) in *.
    set (outside := filter (must_split f) items) in *.
    assert (Hsem : forall c, class_sem orbit uni posix f false items c
              = existsb (fun it => citem_sem orbit uni posix f it c) inside
                || existsb (fun it => citem_sem orbit uni posix f it c) outside).
    { intros c. unfold class_sem. simpl. apply existsb_partition. }
    destruct outside as [|o1 orest] eqn:Eo.
    + cbn [m2 fst snd has_err vis gi] in He |- *. split; [|reflexivity]. intros X. apply one_ext. intros c. rewrite Hsem.
      cbn [existsb pol]. rewrite orb_false_r. rewrite flat_items_sound by exact He. reflexivity.
    + (* the outside elements as single-character matchers *)
      assert (Hout : Forall2 (fun r P => (forall X, fst (m2 (vis f) r) X = one s P X) /\ snd (m2 (vis f) r) = vis f)
                       (map (split_alt f) (o1 :: orest))
                       (map (fun it c => citem_sem orbit uni posix f it c) (o1 :: orest))).
      { pose proof (filter_split_atoms f items) as Hf. fold outside in Hf. rewrite Eo in Hf.
        clear - Hf Hx. induction Hf as [|it t [p ->] _ IH]; simpl; constructor; [|exact IH].
        simpl. apply (atom_top_sound f (APre true p) Hx). }
      assert (Hex : forall (l : list citem) c,
                 existsb (fun P : Z -> bool => P c) (map (fun it c0 => citem_sem orbit uni posix f it c0) l)
                 = existsb (fun it => citem_sem orbit uni posix f it c) l).
      { induction l as [|x t IHl]; intros c; simpl; [reflexivity|]. rewrite IHl. reflexivity. }
      destruct inside as [|i1 irest] eqn:Ei.
      * simpl app in *. simpl has_err in He.
        destruct (alts_one (vis f) _ _ Hout) as [A1 A2]; [simpl; congruence|].
        simpl m2. split; [|reflexivity]. intros X. simpl. rewrite A1. apply one_ext. intros c.
        rewrite Hsem, Hex. reflexivity.
      * set (cls := R2Class false (flat_map (tr_citem f) (i1 :: irest))) in *.
        assert (Hcls : (forall X, fst (m2 (vis f) cls) X
                          = one s (fun c => existsb (fun it => citem_sem orbit uni posix f it c) (i1 :: irest)) X)
                       /\ snd (m2 (vis f) cls) = vis f).
        { split; [|reflexivity]. intros X. unfold cls. cbn [m2 fst vis gi]. apply one_ext. intros c. cbn [pol].
          apply flat_items_sound.
          clear - He. cbn [has_err] in He.
          change ([cls] ++ map (split_alt f) (o1 :: orest)) with (cls :: map (split_alt f) (o1 :: orest)) in He.
          apply has_err_alts_head in He. exact He. }
        pose proof (Forall2_cons _ _ Hcls Hout) as Hall.
        destruct (alts_one (vis f) _ _ Hall) as [A1 A2]; [congruence|].
        change ([cls] ++ map (split_alt f) (o1 :: orest)) with (cls :: map (split_alt f) (o1 :: orest)).
        simpl m2. split; [|reflexivity]. intros X. simpl fst. rewrite A1. apply one_ext. intros c.
        rewrite Hsem. cbn [existsb]. rewrite Hex. reflexivity.
Qed.

(* ---------------------------------------------------------------- the induction *)

Definition sound_at (a : re) : Prop :=
  forall f, fx f = false -> sets_x a = false -> has_err (fst (tr f a)) = false ->
    (forall X, fst (m2 (vis f) (fst (tr f a))) X = fst (me f a) X)
    /\ snd (m2 (vis f) (fst (tr f a))) = vis (snd (tr f a))
    /\ snd (me f a) = snd (tr f a)
    /\ fx (snd (tr f a)) = false.

Lemma trep_ext : forall q A B, (forall X, A X = B X) -> forall X, trep s q A X = trep s q B X.
Proof.
  intros q A B H.
  assert (Hit : forall k X, titer k A X = titer k B X).
  { induction k as [|k IH]; intros X; simpl; [reflexivity|]. rewrite H, IH. reflexivity. }
  assert (Hcl : forall k X, tclos s k A X = tclos s k B X).
  { induction k as [|k IH]; intros X; simpl; [reflexivity|]. rewrite H, IH. reflexivity. }
  assert (Hup : forall k X, tupto s k A X = tupto s k B X).
  { induction k as [|k IH]; intros X; simpl; [reflexivity|]. rewrite H, IH. reflexivity. }
  destruct q as [| | |n|n m]; intros X; simpl.
  - rewrite H. reflexivity.
  - unfold tstar. apply Hcl.
  - unfold tstar. rewrite H. apply Hcl.
  - apply Hit.
  - destruct m; unfold tstar; rewrite Hit; [apply Hcl|apply Hup].
Qed.

Lemma trep_tr_quant : forall q A X, trep s (tr_quant q) A X = trep s q A X.
Proof. intros q A X. destruct q as [| | |n|n m]; try reflexivity. destruct n; reflexivity. Qed.

Lemma vis_apply : forall f st un, vis (apply_flags f st un) = apply_gflags (vis f) (vis st) (vis un).
Proof. reflexivity. Qed.

Lemma apply_invisible : forall g st un, any_gflag st || any_gflag un = false -> apply_gflags g st un = g.
Proof.
  intros [a b c d] [a1 b1 c1 d1] [a2 b2 c2 d2] H. unfold any_gflag in H. simpl in H.
  apply orb_false_iff in H. destruct H as [H1 H2].
  repeat (apply orb_false_iff in H1; destruct H1 as [H1 ?]). repeat (apply orb_false_iff in H2; destruct H2 as [H2 ?]).
  subst. unfold apply_gflags. simpl. rewrite !orb_false_r, !andb_true_r. reflexivity.
Qed.

Lemma fx_apply : forall f st un, fx f = false -> fx st = false -> fx (apply_flags f st un) = false.
Proof. intros f st un H1 H2. simpl. rewrite H1, H2. reflexivity. Qed.

Lemma concat_sound : forall l, Forall sound_at l ->
  forall f, fx f = false -> sets_x_list l = false -> has_err_list (fst (tr_list false f l)) = false ->
    (forall X, fst (m2_list (vis f) (fst (tr_list false f l))) X = fst (me_list f l) X)
    /\ snd (m2_list (vis f) (fst (tr_list false f l))) = vis (snd (tr_list false f l))
    /\ snd (me_list f l) = snd (tr_list false f l)
    /\ fx (snd (tr_list false f l)) = false.
Proof.
  intros l H. induction H as [|x t Hx _ IH]; intros f Hf Hs He.
  - simpl. auto.
  - simpl in Hs. apply orb_false_iff in Hs. destruct Hs as [Hs1 Hs2].
    simpl tr_list in *. rewrite Hf in *.
    destruct (tr f x) as [y f1] eqn:Ex. destruct (tr_list false f1 t) as [ys f2] eqn:Et.
    simpl in He. apply orb_false_iff in He. destruct He as [He1 He2].
    specialize (Hx f Hf Hs1). rewrite Ex in Hx. simpl in Hx. destruct (Hx He1) as (X1 & X2 & X3 & X4).
    specialize (IH f1 X4 Hs2). rewrite Et in IH. simpl in IH. destruct (IH He2) as (Y1 & Y2 & Y3 & Y4).
    simpl. destruct (m2 (vis f) y) as [A g1] eqn:EA. simpl in X1, X2. subst g1.
    destruct (m2_list (vis f1) ys) as [B g2] eqn:EB. simpl in Y1, Y2. subst g2.
    destruct (me f x) as [A' f1'] eqn:EA'. simpl in X1, X3. subst f1'.
    destruct (me_list f1 t) as [B' f2'] eqn:EB'. simpl in Y1, Y3. subst f2'.
    simpl. repeat split; auto. intros X. unfold tcomp. rewrite X1, Y1. reflexivity.
Qed.

Theorem tr_sound : forall a, sound_at a.
Proof.
  induction a as [a| | | | | | | |txt|neg items|l H|a1 a2 IHa1 IHa2|k b H|k|q alt a IHa] using re_ind2;
    unfold sound_at; intros f Hf Hs He.
  - (* atom *) simpl tr in *. simpl fst in *. destruct (atom_top_sound f a Hf) as [H1 H2].
    simpl. repeat split; auto.
  - simpl. auto.
  - simpl. auto.
  - simpl. auto.
  - simpl. auto.
  - simpl. auto.
  - simpl. auto.
  - simpl. auto.
  - simpl. auto.
  - (* class *) simpl tr in *. simpl fst in *. destruct (class_sound f neg items Hf He) as [H1 H2].
    simpl. repeat split; auto.
  - (* concat *)
    rewrite tr_concat in *. rewrite sets_x_concat in Hs. rewrite me_concat.
    destruct (tr_list false f l) as [out f'] eqn:El. cbn [fst snd] in *.
    rewrite has_err_cat in He. rewrite m2_cat.
    pose proof (concat_sound l H f Hf Hs) as C. rewrite El in C. simpl in C. exact (C He).
  - (* union *)
    simpl in Hs. apply orb_false_iff in Hs. destruct Hs as [Hs1 Hs2].
    simpl tr in *. destruct (tr f a1) as [x f1] eqn:E1. destruct (tr f1 a2) as [y f2] eqn:E2.
    simpl in He. apply orb_false_iff in He. destruct He as [He1 He2].
    specialize (IHa1 f Hf Hs1). rewrite E1 in IHa1. simpl in IHa1. destruct (IHa1 He1) as (X1 & X2 & X3 & X4).
    specialize (IHa2 f1 X4 Hs2). rewrite E2 in IHa2. simpl in IHa2. destruct (IHa2 He2) as (Y1 & Y2 & Y3 & Y4).
    simpl. destruct (m2 (vis f) x) as [A g1] eqn:EA. simpl in X1, X2. subst g1.
    destruct (m2 (vis f1) y) as [B g2] eqn:EB. simpl in Y1, Y2. subst g2.
    destruct (me f a1) as [A' f1'] eqn:EA'. simpl in X1, X3. subst f1'.
    destruct (me f1 a2) as [B' f2'] eqn:EB'. simpl in Y1, Y3. subst f2'.
    simpl. repeat split; auto. intros X. unfold talt. rewrite X1, Y1. reflexivity.
  - (* group *)
    { simpl in Hs. apply orb_false_iff in Hs. destruct Hs as [Hs0 Hs1].
      destruct k as [| |name|st un]; simpl tr in *.
      1-3: destruct (tr f b) as [x f1] eqn:E1; simpl in He;
           specialize (H f Hf Hs1); rewrite E1 in H; simpl in H; destruct (H He) as (X1 & X2 & X3 & X4);
           simpl; repeat split; auto.
      assert (Hf1 : fx (apply_flags f st un) = false) by (apply fx_apply; assumption).
      destruct (any_gflag (vis st) || any_gflag (vis un)) eqn:Ev.
      * destruct (tr (apply_flags f st un) b) as [x f1] eqn:E1. simpl in He.
        specialize (H _ Hf1 Hs1). rewrite E1 in H. simpl in H. destruct (H He) as (X1 & X2 & X3 & X4).
        simpl. rewrite <- vis_apply. repeat split; auto.
      * destruct (tr (apply_flags f st un) b) as [x f1] eqn:E1. simpl in He.
        specialize (H _ Hf1 Hs1). rewrite E1 in H. simpl in H. destruct (H He) as (X1 & X2 & X3 & X4).
        rewrite vis_apply, (apply_invisible _ _ _ Ev) in X1.
        simpl. destruct (any_flag st || any_flag un); simpl; repeat split; auto. }
  - { simpl in Hs. rewrite orb_false_r in Hs.
      destruct k as [| |name|st un]; simpl tr in *; simpl; auto.
      assert (Hf1 : fx (apply_flags f st un) = false) by (apply fx_apply; assumption).
      destruct (any_gflag (vis st) || any_gflag (vis un)) eqn:Ev; simpl; repeat split; auto.
      rewrite vis_apply, (apply_invisible _ _ _ Ev). reflexivity. }
  - (* quantifier *)
    simpl in Hs. simpl tr in *. destruct (tr f a) as [x f1] eqn:E1. simpl in He.
    specialize (IHa f Hf Hs). rewrite E1 in IHa. simpl in IHa. destruct (IHa He) as (X1 & X2 & X3 & X4).
    simpl. destruct (m2 (vis f) x) as [A g1] eqn:EA. simpl in X1, X2. subst g1.
    destruct (me f a) as [A' f1'] eqn:EA'. simpl in X1, X3. subst f1'.
    simpl. repeat split; auto. intros X. rewrite trep_tr_quant. apply trep_ext. exact X1.
Qed.

(* ---------------------------------------------------------------- top level *)

Lemma apply_no_g : forall g, apply_gflags no_gflags g no_gflags = g.
Proof. intros [a b c d]. unfold apply_gflags. simpl. rewrite !andb_true_r. reflexivity. Qed.

Lemma no_gflag_eq : forall g, any_gflag g = false -> g = no_gflags.
Proof.
  intros [a b c d] H. unfold any_gflag in H. simpl in H.
  repeat (apply orb_false_iff in H; destruct H as [H ?]). subst. reflexivity.
Qed.

Theorem transpile_sound : forall f a,
  fx f = false -> sets_x a = false -> transpile_text f a <> None ->
  matches_re2 orbit uni posix s (transpile f a) = matches_elk orbit uni posix s f a.
Proof.
  intros f a Hf Hs Ht. unfold transpile_text in Ht.
  destruct (has_err (transpile f a)) eqn:He; [congruence|]. clear Ht.
  unfold matches_re2, matches_elk, transpile in *.
  destruct (any_gflag (vis f)) eqn:Eg.
  - rewrite has_err_cat in He. simpl in He. rewrite orb_false_r in He.
    destruct (tr_sound a f Hf Hs He) as (X1 & _).
    rewrite m2_cat. simpl. rewrite apply_no_g.
    destruct (m2 (vis f) (fst (tr f a))) as [A g1] eqn:EA. simpl in *.
    unfold matches. unfold tcomp, tid. rewrite X1. reflexivity.
  - destruct (tr_sound a f Hf Hs He) as (X1 & _).
    rewrite <- (no_gflag_eq _ Eg). unfold matches. rewrite X1. reflexivity.
Qed.

(* ---------------------------------------------------------------- flag scoping *)

Theorem flag_scoping : forall f k b,
  snd (tr f (RGroup k (Some b))) = f
  /\ snd (me f (RGroup k (Some b))) = f
  /\ forall g, snd (m2 g (fst (tr f (RGroup k (Some b))))) = g.
Proof.
  intros f k b. destruct k as [| |name|st un]; simpl.
  1-3: destruct (tr f b) as [x f1]; simpl; auto.
  destruct (any_gflag (vis st) || any_gflag (vis un)); destruct (tr (apply_flags f st un) b) as [x f1]; simpl; auto.
Qed.

(* a flag group with content runs its content under the changed flags and everything after it
   under the old flags *)
Theorem flag_group_denotation : forall f st un b rest X,
  fst (me f (RConcat [RGroup (GFlags st un) (Some b); rest])) X
  = fst (me f rest) (fst (me (apply_flags f st un) b) X).
Proof.
  intros. rewrite me_concat. simpl. destruct (me f rest) as [B f2]. simpl. reflexivity.
Qed.

(* (?flags) without content changes the flags of what follows in the same group ... *)
Theorem flag_only_denotation : forall f st un rest X,
  fst (me f (RConcat [RGroup (GFlags st un) None; rest])) X = fst (me (apply_flags f st un) rest) X.
Proof.
  intros. rewrite me_concat. simpl. destruct (me (apply_flags f st un) rest) as [B f2]. simpl. reflexivity.
Qed.

(* ---------------------------------------------------------------- composition (value/regex.go) *)

(* r1 + r2 compiles "(?f1:src1)(?f2:src2)" with no flags: the tree below *)
Definition concat_tree (f1 : flags) (a1 : re) (f2 : flags) (a2 : re) : re :=
  RConcat [RGroup (if any_flag f1 then GFlags f1 no_flags else GNonCapture) (Some a1);
           RGroup (if any_flag f2 then GFlags f2 no_flags else GNonCapture) (Some a2)].

Lemma apply_from_none : forall f, apply_flags no_flags f no_flags = f.
Proof. intros [a b c d e g]. unfold apply_flags. simpl. rewrite !andb_true_r. reflexivity. Qed.

Lemma no_flag_eq : forall f, any_flag f = false -> f = no_flags.
Proof.
  intros [a b c d e g] H. unfold any_flag in H. simpl in H.
  repeat (apply orb_false_iff in H; destruct H as [H ?]). subst. reflexivity.
Qed.

Theorem concat_denotation : forall f1 a1 f2 a2 X,
  fst (me no_flags (concat_tree f1 a1 f2 a2)) X = fst (me f2 a2) (fst (me f1 a1) X).
Proof.
  intros. unfold concat_tree. rewrite me_concat. simpl.
  destruct (any_flag f1) eqn:E1; destruct (any_flag f2) eqn:E2;
    try (apply no_flag_eq in E1; subst f1); try (apply no_flag_eq in E2; subst f2);
    simpl; rewrite ?apply_from_none; reflexivity.
Qed.

(* r * n compiles "(?:src){n}" under r's flags *)
Definition repeat_tree (a : re) (n : list Z) : re := RQuant (QN n) false (RGroup GNonCapture (Some a)).

Theorem repeat_denotation : forall f a n X,
  fst (me f (repeat_tree a n)) X = titer (count n) (fst (me f a)) X.
Proof. intros. unfold repeat_tree. simpl. reflexivity. Qed.

End Sem.


(* ---------------------------------------------------------------- extended mode, the part that holds:
   on trees without a `#` CharNode (outside classes) and without flag groups that mention x,
   transpiling under x emits the same text as transpiling the whitespace-stripped tree without x *)

Fixpoint strip_list (l : list re) : list re :=
  match l with [] => [] | x :: t => if is_ws x then strip_list t else strip_ws x :: strip_list t end.
Lemma strip_concat : forall l, strip_ws (RConcat l) = RConcat (strip_list l).
Proof. reflexivity. Qed.

Fixpoint mentions_x_list (l : list re) : bool := match l with [] => false | x :: t => mentions_x x || mentions_x_list t end.
Fixpoint has_hash_list (l : list re) : bool := match l with [] => false | x :: t => has_hash x || has_hash_list t end.

Definition ext_at (a : re) : Prop :=
  forall f, fx f = false -> mentions_x a = false -> has_hash a = false ->
    pr2 (fst (tr (set_x f true) a)) = pr2 (fst (tr f (strip_ws a)))
    /\ has_err (fst (tr (set_x f true) a)) = has_err (fst (tr f (strip_ws a)))
    /\ snd (tr (set_x f true) a) = set_x (snd (tr f (strip_ws a))) true
    /\ fx (snd (tr f (strip_ws a))) = false.

Lemma set_x_apply : forall f b st un, fx st = false -> fx un = false ->
  apply_flags (set_x f b) st un = set_x (apply_flags f st un) b.
Proof.
  intros f b st un H1 H2. unfold apply_flags, set_x. simpl. rewrite H1, H2. simpl.
  rewrite orb_false_r, andb_true_r. reflexivity.
Qed.

Lemma is_char_hash : forall x, has_hash x = false -> is_char x 35 = false.
Proof.
  intros x H. destruct x as [a| | | | | | | |txt|neg items|l|a1 a2|k b|q alt r]; try reflexivity.
  destruct a; try reflexivity. exact H.
Qed.

Lemma tr_atom_top_x : forall f a, (forall c, a <> AChar c) -> tr_atom_top (set_x f true) a = tr_atom_top f a.
Proof. intros f a H. destruct a; try reflexivity. exfalso. exact (H c eq_refl). Qed.

Lemma tr_class_x : forall f neg items, tr_class (set_x f true) neg items = tr_class f neg items.
Proof. reflexivity. Qed.

Lemma ws_tr : forall f x, is_ws x = true -> fx f = true -> tr f x = (R2Empty, f).
Proof.
  intros f x H Hx. destruct x as [a| | | | | | | |txt|neg items|l|a1 a2|k b|q alt r]; try discriminate.
  destruct a; try discriminate. simpl in *. rewrite Hx, H. reflexivity.
Qed.

Lemma concat_ext : forall l, Forall ext_at l -> forall f, fx f = false ->
  mentions_x_list l = false -> has_hash_list l = false ->
    pr2_list (fst (tr_list false (set_x f true) l)) = pr2_list (fst (tr_list false f (strip_list l)))
    /\ has_err_list (fst (tr_list false (set_x f true) l)) = has_err_list (fst (tr_list false f (strip_list l)))
    /\ snd (tr_list false (set_x f true) l) = set_x (snd (tr_list false f (strip_list l))) true
    /\ fx (snd (tr_list false f (strip_list l))) = false.
Proof.
  intros l H. induction H as [|x t Hx _ IH]; intros f Hf Hm Hh.
  - simpl. auto.
  - simpl in Hm, Hh. apply orb_false_iff in Hm. apply orb_false_iff in Hh.
    destruct Hm as [Hm1 Hm2]. destruct Hh as [Hh1 Hh2].
    simpl tr_list. cbn [fx set_x]. rewrite (is_char_hash x Hh1).
    destruct (is_ws x) eqn:Ew.
    + rewrite (ws_tr (set_x f true) x Ew eq_refl).
      destruct (IH f Hf Hm2 Hh2) as (A1 & A2 & A3 & A4).
      destruct (tr_list false (set_x f true) t) as [ys f2] eqn:Et. simpl in *. auto.
    + destruct (Hx f Hf Hm1 Hh1) as (B1 & B2 & B3 & B4).
      simpl tr_list. rewrite Hf.
      destruct (tr (set_x f true) x) as [y f1x] eqn:E1. destruct (tr f (strip_ws x)) as [y' f1] eqn:E2.
      simpl in B1, B2, B3, B4. subst f1x.
      destruct (IH f1 B4 Hm2 Hh2) as (A1 & A2 & A3 & A4).
      destruct (tr_list false (set_x f1 true) t) as [ys f2x] eqn:Et.
      destruct (tr_list false f1 (strip_list t)) as [ys' f2] eqn:Et'.
      simpl in *. rewrite B1, B2, A1, A2. auto.
Qed.

Theorem ext_sound : forall a, ext_at a.
Proof.
  induction a as [a| | | | | | | |txt|neg items|l H|a1 a2 IHa1 IHa2|k b H|k|q alt a IHa] using re_ind2;
    unfold ext_at; intros f Hf Hm Hh.
  - (* atom *)
    destruct a as [c| | | | | | |]; try (simpl; rewrite Hf; auto; fail); try (simpl; auto; fail).
    simpl strip_ws. simpl in Hh. destruct (is_space c) eqn:Es.
    + simpl. rewrite Es. simpl. auto.
    + simpl. rewrite Es, Hf. simpl. auto.
  - simpl. auto.
  - simpl. auto.
  - simpl. auto.
  - simpl. auto.
  - simpl. auto.
  - simpl. auto.
  - simpl. auto.
  - simpl. auto.
  - simpl strip_ws. simpl tr. rewrite tr_class_x. simpl. auto.
  - (* concat *)
    rewrite strip_concat, !tr_concat.
    destruct (concat_ext l H f Hf Hm Hh) as (A1 & A2 & A3 & A4).
    destruct (tr_list false (set_x f true) l) as [out fx1]. destruct (tr_list false f (strip_list l)) as [out' f1].
    cbn [fst snd] in *. rewrite !pr2_cat, !has_err_cat. auto.
  - (* union *)
    simpl in Hm, Hh. apply orb_false_iff in Hm. apply orb_false_iff in Hh.
    destruct Hm as [Hm1 Hm2]. destruct Hh as [Hh1 Hh2].
    destruct (IHa1 f Hf Hm1 Hh1) as (B1 & B2 & B3 & B4).
    simpl strip_ws. simpl tr.
    destruct (tr (set_x f true) a1) as [x f1x]. destruct (tr f (strip_ws a1)) as [x' f1].
    simpl in B1, B2, B3, B4. subst f1x.
    destruct (IHa2 f1 B4 Hm2 Hh2) as (A1 & A2 & A3 & A4).
    destruct (tr (set_x f1 true) a2) as [y f2x]. destruct (tr f1 (strip_ws a2)) as [y' f2].
    simpl in *. rewrite B1, B2, A1, A2. auto.
  - (* group with content *)
    simpl in Hm, Hh. apply orb_false_iff in Hm. destruct Hm as [Hm0 Hm1].
    simpl strip_ws. destruct k as [| |name|st un]; simpl tr.
    1-3: destruct (H f Hf Hm1 Hh) as (B1 & B2 & B3 & B4);
         destruct (tr (set_x f true) b) as [x f1x]; destruct (tr f (strip_ws b)) as [x' f1];
         simpl in *; rewrite B1, B2; auto.
    apply orb_false_iff in Hm0. destruct Hm0 as [Hst Hun].
    rewrite (set_x_apply f true st un Hst Hun).
    assert (Hf1 : fx (apply_flags f st un) = false) by (apply fx_apply; assumption).
    destruct (H _ Hf1 Hm1 Hh) as (B1 & B2 & B3 & B4).
    destruct (tr (set_x (apply_flags f st un) true) b) as [x f1x]. destruct (tr (apply_flags f st un) (strip_ws b)) as [x' f1].
    simpl in B1, B2, B3, B4.
    destruct (any_gflag (vis st) || any_gflag (vis un)); [|destruct (any_flag st || any_flag un)];
      simpl; rewrite ?B1, ?B2; auto.
  - (* flag-only group *)
    simpl in Hm. rewrite orb_false_r in Hm. simpl strip_ws.
    destruct k as [| |name|st un]; simpl tr; simpl; auto.
    apply orb_false_iff in Hm. destruct Hm as [Hst Hun].
    rewrite (set_x_apply f true st un Hst Hun).
    assert (Hf1 : fx (apply_flags f st un) = false) by (apply fx_apply; assumption).
    destruct (any_gflag (vis st) || any_gflag (vis un)); simpl; auto.
  - (* quantifier *)
    simpl in Hm, Hh. destruct (IHa f Hf Hm Hh) as (B1 & B2 & B3 & B4).
    simpl strip_ws. simpl tr.
    destruct (tr (set_x f true) a) as [x f1x]. destruct (tr f (strip_ws a)) as [x' f1].
    simpl in *. rewrite B1, B2. auto.
Qed.

Lemma vis_set_x : forall f b, vis (set_x f b) = vis f.
Proof. reflexivity. Qed.

(* regex.Transpile under x = regex.Transpile of the stripped tree without x *)
Theorem extended_text : forall f a, fx f = false -> mentions_x a = false -> has_hash a = false ->
  transpile_text (set_x f true) a = transpile_text f (strip_ws a).
Proof.
  intros f a Hf Hm Hh. destruct (ext_sound a f Hf Hm Hh) as (B1 & B2 & _).
  unfold transpile_text, transpile. rewrite vis_set_x.
  destruct (any_gflag (vis f)).
  - rewrite !has_err_cat, !pr2_cat. simpl. rewrite B1, B2. reflexivity.
  - rewrite B1, B2. reflexivity.
Qed.
