(* C32 — proofs about the run-length line table. *)
From Coq Require Import ZArith List Lia ZifyBool ZifyNat.
From Elk Require Import Base.GoSem Model.C32_Lines.
Import ListNotations.
Open Scope Z_scope.

(* invariant: every run has a positive count *)
Definition pos_counts (t : table) : Prop := Forall (fun e => 1 <= li_count e) t.

Lemma expand_cons : forall e t, expand (e :: t) = expand t ++ run_of e.
Proof.
  intros e t. unfold expand, entries. cbn [rev]. rewrite flat_map_app. cbn [flat_map].
  rewrite app_nil_r. reflexivity.
Qed.

Lemma expand_nil : expand [] = [].
Proof. reflexivity. Qed.

Lemma repeat_snoc : forall (x : Z) n, repeat x (S n) = repeat x n ++ [x].
Proof.
  intros x n. induction n as [|n IH]; [reflexivity|].
  cbn [repeat app]. f_equal. exact IH.
Qed.

Lemma nth_repeat_lt : forall (x d : Z) m n, (n < m)%nat -> nth n (repeat x m) d = x.
Proof.
  intros x d m. induction m as [|m IH]; intros n Hn; [lia|].
  destruct n as [|n]; [reflexivity|]. cbn [repeat nth]. apply IH. lia.
Qed.

Lemma last_snoc : forall (l : list Z) x d, last (l ++ [x]) d = x.
Proof. intros l x d. apply last_last. Qed.

Lemma last_app_repeat : forall (l : list Z) x n d, (0 < n)%nat -> last (l ++ repeat x n) d = x.
Proof.
  intros l x n d Hn. destruct n as [|n]; [lia|].
  rewrite repeat_snoc, app_assoc. apply last_last.
Qed.

Lemma length_expand_cons : forall e t,
  length (expand (e :: t)) = (length (expand t) + Z.to_nat (li_count e))%nat.
Proof. intros e t. rewrite expand_cons, app_length. unfold run_of. rewrite repeat_length. reflexivity. Qed.

Lemma total_bytes_length : forall t, pos_counts t -> total_bytes t = Z.of_nat (length (expand t)).
Proof.
  intros t Hp. induction Hp as [|e t He Hp IH]; [reflexivity|].
  rewrite length_expand_cons. cbn [total_bytes fold_right]. fold (total_bytes t). lia.
Qed.

(* ---- AddLineNumber ---- *)
Lemma add_line_number_ok : forall t line bytes,
  pos_counts t -> 1 <= bytes ->
  pos_counts (add_line_number t line bytes) /\
  expand (add_line_number t line bytes) = expand t ++ repeat line (Z.to_nat bytes).
Proof.
  intros t line bytes Hp Hb. unfold add_line_number.
  destruct t as [|e r].
  - split; [repeat constructor; assumption|]. rewrite expand_cons. reflexivity.
  - destruct (li_line e =? line) eqn:Heq.
    + inversion Hp as [|? ? He Hr]; subst.
      split; [constructor; [cbn; lia|assumption]|].
      rewrite !expand_cons. unfold run_of. cbn [li_line li_count].
      rewrite <- app_assoc. f_equal.
      replace (Z.to_nat (li_count e + bytes)) with (Z.to_nat (li_count e) + Z.to_nat bytes)%nat by lia.
      rewrite repeat_app. f_equal. f_equal. lia.
    + split; [constructor; [cbn; lia|assumption]|].
      rewrite (expand_cons (LI line bytes)). reflexivity.
Qed.

(* ---- AddBytesToLastLine ---- *)
Lemma expand_nonempty : forall e r, pos_counts (e :: r) -> expand (e :: r) <> [] /\ last (expand (e :: r)) 0 = li_line e.
Proof.
  intros e r Hp. inversion Hp as [|? ? He Hr]; subst. rewrite expand_cons. unfold run_of.
  split.
  - destruct (Z.to_nat (li_count e)) eqn:Hn; [lia|]. cbn [repeat].
    intro H. apply app_eq_nil in H. destruct H as [_ H]. discriminate H.
  - apply last_app_repeat. lia.
Qed.

Lemma add_bytes_ok : forall t bytes,
  pos_counts t -> 0 <= bytes ->
  match add_bytes_to_last_line t bytes, spec_apply (expand t) (OpAddBytes bytes) with
  | Ok t', Ok ls' => pos_counts t' /\ expand t' = ls'
  | Panic a, Panic b => a = b
  | _, _ => False
  end.
Proof.
  intros t bytes Hp Hb. destruct t as [|e r].
  - reflexivity.
  - destruct (expand_nonempty e r Hp) as [Hne Hlast].
    cbn [add_bytes_to_last_line spec_apply].
    destruct (expand (e :: r)) as [|x xs] eqn:Hex; [congruence|].
    rewrite Hlast. inversion Hp as [|? ? He Hr]; subst.
    split; [constructor; [cbn; lia|assumption]|].
    rewrite <- Hex. rewrite !expand_cons. unfold run_of. cbn [li_line li_count].
    rewrite <- app_assoc. f_equal.
    replace (Z.to_nat (li_count e + bytes)) with (Z.to_nat (li_count e) + Z.to_nat bytes)%nat by lia.
    apply repeat_app.
Qed.

(* ---- RemoveByte / RemoveBytes ---- *)
Lemma remove_byte_ok : forall t,
  pos_counts t ->
  match remove_byte t with
  | Ok t' => pos_counts t' /\ expand t' = removelast (expand t) /\ expand t <> []
  | Panic c => c = P_EMPTY_REMOVE /\ expand t = []
  | _ => False
  end.
Proof.
  intros t Hp. destruct t as [|e r]; [split; reflexivity|].
  cbn [remove_byte]. inversion Hp as [|? ? He Hr]; subst.
  destruct (expand_nonempty e r Hp) as [Hne _].
  destruct (li_count e =? 1) eqn:H1.
  - split; [assumption|]. split; [|assumption].
    rewrite expand_cons. unfold run_of. replace (Z.to_nat (li_count e)) with 1%nat by lia.
    cbn [repeat]. rewrite removelast_last. reflexivity.
  - split; [constructor; [cbn; lia|assumption]|]. split; [|assumption].
    rewrite !expand_cons. unfold run_of. cbn [li_line li_count].
    replace (Z.to_nat (li_count e)) with (S (Z.to_nat (li_count e - 1))) by lia.
    rewrite repeat_snoc, app_assoc, removelast_last. reflexivity.
Qed.

Lemma firstn_pred_removelast : forall (l : list Z) k,
  (S k <= length l)%nat ->
  firstn (length l - S k) l = removelast (firstn (length l - k) l).
Proof.
  intros l k Hk.
  replace (length l - k)%nat with (S (length l - S k)) by lia.
  symmetry. apply removelast_firstn. lia.
Qed.

Lemma remove_bytes_n_ok : forall k t,
  pos_counts t ->
  match remove_bytes_n k t with
  | Ok t' => pos_counts t' /\ (k <= length (expand t))%nat /\
             expand t' = firstn (length (expand t) - k) (expand t)
  | Panic c => c = P_EMPTY_REMOVE /\ (length (expand t) < k)%nat
  | _ => False
  end.
Proof.
  induction k as [|k IH]; intros t Hp.
  - cbn [remove_bytes_n]. split; [assumption|]. split; [lia|].
    rewrite Nat.sub_0_r, firstn_all. reflexivity.
  - cbn [remove_bytes_n]. pose proof (remove_byte_ok t Hp) as Hrb.
    destruct (remove_byte t) as [t1| | |] eqn:Hr; cbn [bind]; try contradiction.
    + destruct Hrb as (Hp1 & Hex1 & Hne).
      specialize (IH t1 Hp1).
      assert (Hpos : (1 <= length (expand t))%nat).
      { destruct (expand t); [congruence|cbn; lia]. }
      assert (Hlen : length (expand t1) = (length (expand t) - 1)%nat).
      { rewrite Hex1, removelast_firstn_len, firstn_length. lia. }
      destruct (remove_bytes_n k t1) as [t2| | |]; try contradiction.
      * destruct IH as (Hp2 & Hk & Hex2). split; [assumption|]. split; [lia|].
        rewrite Hex2, Hlen, Hex1.
        replace (length (expand t) - 1 - k)%nat with (length (expand t) - S k)%nat by lia.
        apply firstn_removelast. lia.
      * destruct IH as (Hc & Hk). split; [assumption|lia].
    + destruct Hrb as (Hc & Hex). split; [assumption|]. rewrite Hex. cbn. lia.
Qed.

Lemma remove_bytes_ok : forall t count,
  pos_counts t ->
  match remove_bytes t count, spec_apply (expand t) (OpRemove count) with
  | Ok t', Ok ls' => pos_counts t' /\ expand t' = ls'
  | Panic a, Panic b => a = b
  | _, _ => False
  end.
Proof.
  intros t count Hp. unfold remove_bytes. cbn [spec_apply].
  pose proof (remove_bytes_n_ok (Z.to_nat count) t Hp) as H.
  destruct (remove_bytes_n (Z.to_nat count) t) as [t'| c | |]; try contradiction.
  - destruct H as (Hp' & Hk & Hex).
    destruct (Z.max count 0 <=? Z.of_nat (length (expand t))) eqn:Hle; [|lia].
    split; assumption.
  - destruct H as (Hc & Hk).
    destruct (Z.max count 0 <=? Z.of_nat (length (expand t))) eqn:Hle; [lia|assumption].
Qed.


(* ---- prepLocals: prologue bytes credited to the first run ---- *)
Lemma expand_single : forall e, expand [e] = run_of e.
Proof. intros e. rewrite expand_cons. reflexivity. Qed.

Lemma prologue_cons2 : forall e e2 r n, prologue (e :: e2 :: r) n = e :: prologue (e2 :: r) n.
Proof. reflexivity. Qed.

Lemma prologue_ok : forall t n,
  pos_counts t -> 0 <= n ->
  pos_counts (prologue t n) /\
  expand (prologue t n) =
    match expand t with [] => [] | x :: _ => repeat x (Z.to_nat n) ++ expand t end.
Proof.
  induction t as [|e r IH]; intros n Hp Hn.
  - split; [constructor|reflexivity].
  - inversion Hp as [|? ? He Hr]; subst.
    destruct r as [|e2 r'].
    + cbn [prologue]. split; [constructor; [cbn; lia|constructor]|].
      rewrite !expand_single. unfold run_of. cbn [li_line li_count].
      destruct (Z.to_nat (li_count e)) as [|c] eqn:Hc; [lia|].
      cbn [repeat]. change (li_line e :: repeat (li_line e) c) with (repeat (li_line e) (S c)).
      rewrite <- repeat_app. f_equal. lia.
    + rewrite prologue_cons2. destruct (IH n Hr Hn) as [Hp' Hex'].
      split; [constructor; assumption|].
      rewrite (expand_cons e (prologue (e2 :: r') n)), (expand_cons e (e2 :: r')), Hex'.
      destruct (expand_nonempty e2 r' Hr) as [Hne _].
      destruct (expand (e2 :: r')) as [|x xs]; [congruence|].
      cbn [app]. rewrite <- app_assoc. reflexivity.
Qed.

(* ---- one operation, then any sequence ---- *)
Definition related (a : outcome table) (b : outcome plain) : Prop :=
  match a, b with
  | Ok t, Ok ls => pos_counts t /\ expand t = ls
  | Panic x, Panic y => x = y
  | _, _ => False
  end.

Lemma apply_op_related : forall t o,
  pos_counts t -> wf_op o -> related (apply_op t o) (spec_apply (expand t) o).
Proof.
  intros t o Hp Hwf. destruct o as [line bytes|bytes|count|bytes]; cbn [wf_op] in Hwf.
  - cbn [apply_op spec_apply related]. apply add_line_number_ok; assumption.
  - cbn [apply_op]. apply add_bytes_ok; assumption.
  - cbn [apply_op]. apply remove_bytes_ok; assumption.
  - cbn [apply_op spec_apply]. destruct (prologue_ok t bytes Hp Hwf) as [Hp' Hex'].
    destruct (expand t) as [|x xs]; cbn [related]; split; assumption.
Qed.

Lemma step_related : forall a b o,
  related a b -> wf_op o -> related (step a o) (spec_step b o).
Proof.
  intros a b o Hr Hwf. destruct a as [t|c|c|c], b as [ls|d|d|d]; cbn [related] in Hr; try contradiction.
  - destruct Hr as [Hp Hex]. subst ls. cbn [step spec_step bind]. apply apply_op_related; assumption.
  - cbn [step spec_step bind related]. assumption.
Qed.

Lemma fold_related : forall ops a b,
  Forall wf_op ops -> related a b -> related (fold_left step ops a) (fold_left spec_step ops b).
Proof.
  induction ops as [|o ops IH]; intros a b Hwf Hr; [exact Hr|].
  inversion Hwf as [|? ? Ho Hops]; subst. cbn [fold_left].
  apply IH; [assumption|]. apply step_related; assumption.
Qed.

Lemma run_related : forall ops, Forall wf_op ops -> related (run_impl ops) (run_spec ops).
Proof.
  intros ops Hwf. unfold run_impl, run_spec. apply fold_related; [assumption|].
  cbn [related]. split; [constructor|reflexivity].
Qed.

(* ---- the lookup ---- *)
Definition opt_line (o : option line_info) : Z := match o with None => -1 | Some e => li_line e end.

Lemma lookup_from : forall fl acc i,
  Forall (fun e => 0 <= li_count e) fl -> acc <= i ->
  opt_line (get_line_info_from fl acc i) = nth (Z.to_nat (i - acc)) (flat_map run_of fl) (-1).
Proof.
  induction fl as [|e r IH]; intros acc i Hc Hi.
  - cbn. destruct (Z.to_nat (i - acc)); reflexivity.
  - inversion Hc as [|? ? He Hr]; subst. cbn [get_line_info_from flat_map].
    destruct (acc + li_count e - 1 >=? i) eqn:Hge.
    + cbn [opt_line]. rewrite app_nth1 by (unfold run_of; rewrite repeat_length; lia).
      unfold run_of. symmetry. apply nth_repeat_lt. lia.
    + rewrite IH by (assumption || lia).
      rewrite app_nth2 by (unfold run_of; rewrite repeat_length; lia).
      unfold run_of. rewrite repeat_length. f_equal. lia.
Qed.

Lemma pos_counts_entries_nonneg : forall t, pos_counts t -> Forall (fun e => 0 <= li_count e) (entries t).
Proof.
  intros t Hp. unfold entries. apply Forall_rev. eapply Forall_impl; [|exact Hp].
  cbn. intros a Ha. lia.
Qed.

Lemma lookup_nonneg : forall t i, pos_counts t -> 0 <= i ->
  get_line_number t i = nth (Z.to_nat i) (expand t) (-1).
Proof.
  intros t i Hp Hi. unfold get_line_number, get_line_info.
  change (match get_line_info_from (entries t) 0 i with None => -1 | Some e => li_line e end)
    with (opt_line (get_line_info_from (entries t) 0 i)).
  rewrite lookup_from by (try apply pos_counts_entries_nonneg; assumption || lia).
  unfold expand. f_equal. lia.
Qed.

(* negative index (ip = 0): the first entry is returned when there is one *)
Lemma lookup_neg : forall t i, pos_counts t -> i < 0 ->
  get_line_number t i = nth 0 (expand t) (-1).
Proof.
  intros t i Hp Hi. unfold get_line_number, get_line_info, expand.
  assert (Hf : Forall (fun e => 1 <= li_count e) (entries t)) by (apply Forall_rev; exact Hp).
  destruct (entries t) as [|e r]; [reflexivity|].
  inversion Hf as [|? ? He Hr]; subst. cbn [get_line_info_from flat_map].
  destruct (0 + li_count e - 1 >=? i) eqn:Hge; [|lia].
  unfold run_of. destruct (Z.to_nat (li_count e)) eqn:Hn; [lia|]. reflexivity.
Qed.

Lemma lookup_spec_line : forall t i, pos_counts t -> get_line_number t i = spec_line (expand t) i.
Proof.
  intros t i Hp. unfold spec_line. destruct (i <? 0) eqn:Hi.
  - apply lookup_neg; [assumption|lia].
  - apply lookup_nonneg; [assumption|lia].
Qed.

(* ---- main statement ---- *)
Lemma rle_refines : forall ops,
  Forall wf_op ops ->
  match run_impl ops, run_spec ops with
  | Ok t, Ok ls =>
      (forall i, 0 <= i < Z.of_nat (length ls) -> get_line_number t i = nth (Z.to_nat i) ls 0) /\
      (forall i, Z.of_nat (length ls) <= i -> get_line_number t i = -1) /\
      (forall i, i < 0 -> get_line_number t i = nth 0 ls (-1)) /\
      total_bytes t = Z.of_nat (length ls)
  | Panic a, Panic b => a = b
  | _, _ => False
  end.
Proof.
  intros ops Hwf. pose proof (run_related ops Hwf) as Hr. unfold related in Hr.
  destruct (run_impl ops) as [t|c|c|c], (run_spec ops) as [ls|d|d|d]; try contradiction; try assumption.
  destruct Hr as [Hp Hex]. subst ls. repeat split.
  - intros i Hi. rewrite lookup_nonneg by (assumption || lia). apply nth_indep. lia.
  - intros i Hi. rewrite lookup_nonneg by (assumption || lia). apply nth_overflow. lia.
  - intros i Hi. apply lookup_neg; assumption.
  - apply total_bytes_length. assumption.
Qed.

Lemma run_impl_spec_line : forall ops t ls,
  Forall wf_op ops -> run_impl ops = Ok t -> run_spec ops = Ok ls ->
  forall i, get_line_number t i = spec_line ls i.
Proof.
  intros ops t ls Hwf Hi Hs i. pose proof (run_related ops Hwf) as Hr.
  rewrite Hi, Hs in Hr. destruct Hr as [Hp Hex]. subst ls. apply lookup_spec_line. assumption.
Qed.

(* implementation and specification panic on exactly the same sequences *)
Lemma run_same_outcome : forall ops, Forall wf_op ops ->
  (forall c, run_impl ops = Panic c <-> run_spec ops = Panic c).
Proof.
  intros ops Hwf c. pose proof (run_related ops Hwf) as Hr. unfold related in Hr.
  destruct (run_impl ops) as [t|x|x|x], (run_spec ops) as [ls|d|d|d]; try contradiction;
    split; intro H; try discriminate H; inversion H; subst; reflexivity.
Qed.

Lemma prologue_shift : forall t n,
  pos_counts t -> 0 <= n ->
  (forall i, 0 <= i -> get_line_number (prologue t n) (i + n) = get_line_number t i) /\
  (forall j, j < n -> get_line_number (prologue t n) j = get_line_number t 0) /\
  (t <> [] -> total_bytes (prologue t n) = total_bytes t + n).
Proof.
  intros t n Hp Hn. destruct (prologue_ok t n Hp Hn) as [Hp' Hex'].
  split; [|split].
  - intros i Hi. rewrite !lookup_nonneg by (assumption || lia). rewrite Hex'.
    destruct (expand t) as [|x xs]; [destruct (Z.to_nat (i + n)), (Z.to_nat i); reflexivity|].
    rewrite app_nth2 by (rewrite repeat_length; lia). rewrite repeat_length. f_equal. lia.
  - intros j Hj. rewrite (lookup_nonneg t 0) by (assumption || lia).
    destruct (Z.ltb_spec j 0) as [Hneg|Hpos].
    + rewrite lookup_neg by assumption. rewrite Hex'.
      destruct (expand t) as [|x xs]; [reflexivity|].
      destruct (Z.to_nat n) as [|k]; reflexivity.
    + rewrite lookup_nonneg by assumption. rewrite Hex'.
      destruct (expand t) as [|x xs]; [destruct (Z.to_nat j); reflexivity|].
      rewrite app_nth1 by (rewrite repeat_length; lia).
      rewrite nth_repeat_lt by lia. reflexivity.
  - intros Hne. rewrite !total_bytes_length by assumption. rewrite Hex'.
    destruct t as [|e r]; [congruence|].
    destruct (expand_nonempty e r Hp) as [Hne' _].
    destruct (expand (e :: r)) as [|x xs]; [congruence|].
    rewrite app_length, repeat_length. lia.
Qed.


(* tables built by any admissible operation sequence satisfy the invariant *)
Lemma run_impl_pos : forall ops t, Forall wf_op ops -> run_impl ops = Ok t -> pos_counts t.
Proof.
  intros ops t Hwf Hi. pose proof (run_related ops Hwf) as Hr. rewrite Hi in Hr.
  unfold related in Hr. destruct (run_spec ops); try contradiction. apply Hr.
Qed.

Lemma run_prologue_shift : forall ops t n,
  Forall wf_op ops -> run_impl ops = Ok t -> 0 <= n ->
  (forall i, 0 <= i -> get_line_number (prologue t n) (i + n) = get_line_number t i) /\
  (forall j, j < n -> get_line_number (prologue t n) j = get_line_number t 0) /\
  (t <> [] -> total_bytes (prologue t n) = total_bytes t + n).
Proof.
  intros ops t n Hwf Hi Hn. apply prologue_shift; [eapply run_impl_pos; eassumption|assumption].
Qed.
