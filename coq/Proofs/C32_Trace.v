(* C32 — proofs about stack-trace assembly. *)
From Coq Require Import ZArith List Lia.
From Elk Require Import Base.GoSem Model.C32_Lines Model.C32_Trace Proofs.C32_Lines.
Import ListNotations.
Open Scope Z_scope.

(* a bytecode function and its specification: same names, table built by a well-formed
   sequence of compiler operations whose plain list is the specification's *)
Definition fun_rel (f : bcfun) (s : sfun) : Prop :=
  bf_name f = sf_name s /\ bf_file f = sf_file s /\
  exists ops, Forall wf_op ops /\ run_impl ops = Ok (bf_lines f) /\ run_spec ops = Ok (sf_plain s).

Inductive frame_rel : frame -> sframe -> Prop :=
| FR_empty : frame_rel FEmpty SEmpty
| FR_bc : forall f s ip tcc, fun_rel f s -> frame_rel (FBytecode f ip tcc) (SBytecode s ip tcc)
| FR_nat : forall file func line tcc, frame_rel (FNative file func line tcc) (SNative file func line tcc).

Definition cur_rel (c : option (bcfun * Z * Z)) (s : option sframe) : Prop :=
  match c, s with
  | None, None => True
  | Some (f, ip, tcc), Some (SBytecode sf ip' tcc') => fun_rel f sf /\ ip = ip' /\ tcc = tcc'
  | _, _ => False
  end.

Lemma fun_rel_line : forall f s i, fun_rel f s -> get_line_number (bf_lines f) i = spec_line (sf_plain s) i.
Proof.
  intros f s i (Hn & Hf & ops & Hwf & Hi & Hs). eapply run_impl_spec_line; eassumption.
Qed.

Lemma frame_entry_rel : forall fr sfr, frame_rel fr sfr -> frame_entry fr = sframe_entry sfr.
Proof.
  intros fr sfr H. destruct H as [|f s ip tcc Hf|file func line tcc]; cbn [frame_entry sframe_entry]; try reflexivity.
  rewrite (fun_rel_line f s (ip - 1) Hf). destruct Hf as (Hn & Hfi & _). rewrite Hn, Hfi. reflexivity.
Qed.

Lemma walk_spec : forall cs scs, Forall2 frame_rel cs scs ->
  walk cs = flat_map (fun fr => opt_list (sframe_entry fr)) (filter is_active scs).
Proof.
  intros cs scs H. induction H as [|fr sfr cs scs Hfr Hrest IH]; [reflexivity|].
  cbn [walk filter]. rewrite (frame_entry_rel fr sfr Hfr).
  destruct Hfr as [|f s ip tcc Hf|file func line tcc]; cbn [is_active sframe_entry flat_map opt_list app];
    rewrite IH; reflexivity.
Qed.

Lemma trace_order : forall cs cur scs scur,
  Forall2 frame_rel cs scs -> cur_rel cur scur ->
  build_trace (TH cs cur) = spec_trace scs scur.
Proof.
  intros cs cur scs scur Hcs Hcur. unfold build_trace, spec_trace. cbn [th_stack th_cur].
  rewrite (walk_spec cs scs Hcs). f_equal.
  destruct cur as [[[f ip] tcc]|], scur as [sfr|]; cbn [cur_rel] in Hcur; try contradiction; [|reflexivity].
  destruct sfr as [|sf ip' tcc'|]; try contradiction. destruct Hcur as (Hf & -> & ->).
  cbn [cur_entries sframe_entry opt_list].
  rewrite (fun_rel_line f sf (ip' - 1) Hf). destruct Hf as (Hn & Hfi & _). rewrite Hn, Hfi. reflexivity.
Qed.

(* the number of entries: one per active frame, plus the current function *)
Lemma trace_length : forall cs cur scs scur,
  Forall2 frame_rel cs scs -> cur_rel cur scur ->
  length (build_trace (TH cs cur)) =
  (length (filter is_active scs) + match scur with None => 0 | Some _ => 1 end)%nat.
Proof.
  intros cs cur scs scur Hcs Hcur. rewrite (trace_order cs cur scs scur Hcs Hcur).
  unfold spec_trace. rewrite app_length. f_equal.
  - induction scs as [|fr r IH] in cs, Hcs |- *; [reflexivity|].
    inversion Hcs as [|? ? ? ? _ Hr]; subst. cbn [filter].
    destruct fr; cbn [is_active flat_map sframe_entry opt_list app length]; rewrite (IH _ Hr); reflexivity.
  - destruct cur as [[[f ip] tcc]|], scur as [sfr|]; cbn [cur_rel] in Hcur; try contradiction; [|reflexivity].
    destruct sfr; try contradiction. reflexivity.
Qed.

(* ---- prepend ---- *)
Lemma prepend_eq : forall t base, build_trace_prepend t base = build_trace t ++ base.
Proof. reflexivity. Qed.

Lemma fold_prepend : forall awaiters base,
  fold_left (fun b th => build_trace_prepend th b) awaiters base =
  concat (map build_trace (rev awaiters)) ++ base.
Proof.
  induction awaiters as [|a r IH]; intros base; [reflexivity|].
  cbn [fold_left rev]. rewrite IH, map_app, concat_app. cbn [map concat].
  rewrite prepend_eq, app_nil_r, <- app_assoc. reflexivity.
Qed.

Lemma through_awaits : forall thrower awaiters,
  trace_through_awaits thrower awaiters =
  concat (map build_trace (rev awaiters)) ++ build_trace thrower.
Proof. intros. apply fold_prepend. Qed.

(* ---- the stored-trace protocol ---- *)
Lemma errval_eqb_refl : forall v, errval_eqb v v = true.
Proof. intros [a|a]; cbn [errval_eqb]; apply Z.eqb_refl. Qed.

Lemma run_stored_app : forall c s a b, run_stored c s (a ++ b) = run_stored c (run_stored c s a) b.
Proof. intros. unfold run_stored. apply fold_left_app. Qed.

Lemma reuse_same : forall c tr v, cfg_refonly c = false -> reuse c (Some (tr, v)) v = Some tr.
Proof.
  intros c tr v Hr. cbn [reuse]. rewrite errval_eqb_refl, Hr. reflexivity.
Qed.

(* an error that leaves every run on its way carries the trace of the thread state at its origin *)
Lemma origin_run : forall c o v, cfg_refonly c = false ->
  run_stored c None (origin_ops o v) = Some (build_trace (origin_thread o), v).
Proof.
  intros c o v Hr. induction o as [th|th|i IH th]; cbn [origin_ops origin_thread].
  - reflexivity.
  - reflexivity.
  - rewrite run_stored_app, IH. cbn [run_stored fold_left step]. rewrite (reuse_same c _ v Hr). reflexivity.
Qed.

Lemma episode_run : forall c o v e, cfg_refonly c = false ->
  (cfg_clear c = true \/ e = Caught) ->
  run_stored c None (episode_ops o v e) = None.
Proof.
  intros c o v e Hr Hc. destruct e; cbn [episode_ops].
  - destruct Hc as [Hc|Hc]; [|discriminate Hc].
    rewrite run_stored_app, (origin_run c o v Hr). cbn [run_stored fold_left step]. rewrite Hc. reflexivity.
  - destruct o as [th|th|i th].
    + reflexivity.
    + cbn [run_stored fold_left step reuse]. rewrite Hr.
      destruct (cfg_clear c); reflexivity.
    + rewrite run_stored_app, (origin_run c i v Hr). cbn [run_stored fold_left step].
      rewrite (reuse_same c _ v Hr). reflexivity.
Qed.

Definition all_caught (h : list (origin * errval * ending)) : Prop :=
  Forall (fun x => snd x = Caught) h.

Lemma history_run : forall c h, cfg_refonly c = false ->
  (cfg_clear c = true \/ all_caught h) ->
  run_stored c None (history_ops h) = None.
Proof.
  intros c h Hr Hc. induction h as [|[[o v] e] r IH]; [reflexivity|].
  cbn [history_ops]. rewrite run_stored_app.
  assert (He : cfg_clear c = true \/ e = Caught).
  { destruct Hc as [Hc|Hc]; [left; exact Hc|right]. inversion Hc as [|? ? Hx _]; subst. exact Hx. }
  rewrite (episode_run c o v e Hr He). apply IH.
  destruct Hc as [Hc|Hc]; [left; exact Hc|right]. inversion Hc; subst; assumption.
Qed.

Lemma reported_trace : forall c h o v, cfg_refonly c = false ->
  (cfg_clear c = true \/ all_caught h) ->
  reported c h o v = build_trace (origin_thread o).
Proof.
  intros c h o v Hr Hc. unfold reported.
  rewrite run_stored_app, (history_run c h Hr Hc), (origin_run c o v Hr). reflexivity.
Qed.
