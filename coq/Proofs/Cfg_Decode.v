(* Proofs/Cfg_Decode.v — the decoder of Model/C29_Decode.v terminates within its fuel on every
   byte string and, when it succeeds, yields contiguous instructions covering the bytes. *)
From Coq Require Import NArith ZArith List Bool Lia ZifyBool ZifyNat ZifyN.
From Elk Require Import Base.Cfg Model.C29_Decode.
Import ListNotations.
Open Scope N_scope.

Lemma read_ops_len : forall ops bs l rest,
  read_ops ops bs = Some (l, rest) ->
  N.of_nat (length bs) = widths ops + N.of_nat (length rest).
Proof.
  induction ops as [|[r w] ops IH]; intros bs l rest H; cbn [read_ops widths fold_right] in *.
  - injection H as <- <-. lia.
  - destruct (length bs <? N.to_nat w)%nat eqn:Hk; [discriminate|].
    destruct (read_ops ops (skipn (N.to_nat w) bs)) as [[l' rest']|] eqn:E; [|discriminate].
    injection H as <- <-. apply IH in E. rewrite skipn_length in E.
    apply Nat.ltb_ge in Hk. cbn [snd]. fold (widths ops). lia.
Qed.

Lemma read_closure_len : forall m bs, (length bs <= m)%nat -> forall l n rest,
  read_closure bs = Some (l, n, rest) ->
  N.of_nat (length bs) = n + N.of_nat (length rest) /\ 0 < n.
Proof.
  induction m as [|m IH]; intros bs Hlen l n rest H; destruct bs as [|fl r];
    cbn [read_closure] in H; try discriminate.
  - cbn [length] in Hlen. lia.
  - destruct (fl =? 255).
    + injection H as <- <- <-. cbn [length]. lia.
    + destruct r as [|a r1]; [discriminate|].
      destruct (N.testbit fl 0).
      * destruct r1 as [|b r2]; [discriminate|].
        destruct (read_closure r2) as [[[l' n'] rest']|] eqn:E; [|discriminate].
        injection H as <- <- <-. apply IH in E; [|cbn [length] in Hlen; lia].
        cbn [length]. lia.
      * destruct (read_closure r1) as [[[l' n'] rest']|] eqn:E; [|discriminate].
        injection H as <- <- <-. apply IH in E; [|cbn [length] in Hlen; lia].
        cbn [length]. lia.
Qed.

Lemma decode_one_spec : forall tbl off op rest i rest',
  decode_one tbl off op rest = Some (i, rest') ->
  i_off i = off /\ 0 < i_size i /\
  1 + N.of_nat (length rest) = i_size i + N.of_nat (length rest').
Proof.
  unfold decode_one. intros tbl off op rest i rest'.
  destruct (lookup tbl op) as [oi|]; [|discriminate].
  remember (1 + widths (op_operands oi)) as sz eqn:Hsz.
  destruct (op_kind oi) eqn:K;
    try discriminate;
    try (destruct (read_ops (op_operands oi) rest) as [[vals r']|] eqn:E; [|discriminate];
         apply read_ops_len in E;
         try (destruct (_ <=? _); [|discriminate]);
         intros H; injection H as <- <-; cbn [i_off i_size]; lia).
  destruct (read_closure rest) as [[[idx n] r']|] eqn:E; [|discriminate].
  apply (read_closure_len (length rest)) in E; [|lia].
  remember (1 + n) as s2 eqn:Hs2.
  intros H. injection H as <- <-. cbn [i_off i_size]. lia.
Qed.

Lemma decode_from_fuel : forall tbl fuel off bs,
  (length bs <= fuel)%nat -> decode_from tbl fuel off bs <> DFuel.
Proof.
  induction fuel as [|fuel IH]; intros off bs Hlen; destruct bs as [|op rest]; cbn [decode_from];
    try discriminate.
  - cbn [length] in Hlen. lia.
  - destruct (decode_one tbl off op rest) as [[i rest']|] eqn:E; [|discriminate].
    apply decode_one_spec in E as (_ & Hs & Hl).
    specialize (IH (off + i_size i) rest').
    destruct (decode_from tbl fuel (off + i_size i) rest'); try discriminate.
    apply IH. cbn [length] in Hlen. lia.
Qed.

Lemma decode_from_contig : forall tbl fuel off bs l,
  decode_from tbl fuel off bs = DOk l ->
  contig l off (off + N.of_nat (length bs)) = true.
Proof.
  induction fuel as [|fuel IH]; intros off bs l H; destruct bs as [|op rest]; cbn [decode_from] in H;
    try discriminate.
  - injection H as <-. cbn [contig length]. apply N.eqb_eq. lia.
  - injection H as <-. cbn [contig length]. apply N.eqb_eq. lia.
  - destruct (decode_one tbl off op rest) as [[i rest']|] eqn:E; [|discriminate].
    apply decode_one_spec in E as (Ho & Hs & Hl).
    destruct (decode_from tbl fuel (off + i_size i) rest') as [l'| |] eqn:D; try discriminate.
    injection H as <-. apply IH in D. cbn [contig].
    rewrite Ho, N.eqb_refl. cbn [andb].
    assert (Hlt : (0 <? i_size i) = true) by (apply N.ltb_lt; exact Hs).
    rewrite Hlt. cbn [andb].
    replace (off + N.of_nat (length (op :: rest))) with (off + i_size i + N.of_nat (length rest'))
      by (cbn [length]; lia).
    exact D.
Qed.

Theorem decode_total : forall tbl bs, decode tbl bs <> DFuel.
Proof. intros. unfold decode. apply decode_from_fuel. lia. Qed.

Theorem decode_contig : forall tbl bs l,
  decode tbl bs = DOk l -> contig l 0 (N.of_nat (length bs)) = true.
Proof. intros tbl bs l H. unfold decode in H. apply decode_from_contig in H. exact H. Qed.

Lemma set_dyn_contig : forall ts l o e, contig (map (set_dyn ts) l) o e = contig l o e.
Proof.
  induction l as [|a r IH]; intros o e; cbn [map contig]; [reflexivity|].
  assert (Ho : i_off (set_dyn ts a) = i_off a) by (unfold set_dyn; destruct (i_kind a); reflexivity).
  assert (Hs : i_size (set_dyn ts a) = i_size a) by (unfold set_dyn; destruct (i_kind a); reflexivity).
  rewrite Ho, Hs, IH. reflexivity.
Qed.

Theorem build_contig : forall tbl r f,
  build tbl r = Some f -> contig (f_instrs f) 0 (f_len f) = true.
Proof.
  unfold build. intros tbl r f H.
  destruct (decode tbl (r_code r)) as [l| |] eqn:D; try discriminate.
  injection H as <-. cbn [f_instrs f_len]. rewrite set_dyn_contig.
  apply decode_contig in D. exact D.
Qed.
