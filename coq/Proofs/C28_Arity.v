(* C28 - proofs about the call protocol model (Model/C28_Arity.v). *)
From Coq Require Import List Bool Arith NArith Lia.
From Coq Require Import ZifyBool ZifyNat.
From Elk Require Import Model.C28_Arity.
Import ListNotations.

Lemma rev_repeat_ {A} (x : A) n : rev (repeat x n) = repeat x n.
Proof.
  induction n as [|n IH]; [reflexivity|].
  cbn [repeat rev]. rewrite IH. clear IH.
  induction n as [|n IH]; [reflexivity|]. cbn [repeat app]. now rewrite IH.
Qed.

Lemma in_firstn_ {A} (x : A) n l : In x (firstn n l) -> In x l.
Proof. intros H. rewrite <- (firstn_skipn n l). apply in_or_app. now left. Qed.

Lemma normalise_length d argc : length (normalise d argc) = total d.
Proof.
  unfold normalise, total, b2n.
  rewrite !app_length, !map_length, !seq_length.
  destruct (d_rest d), (d_nrest d); cbn [length]; lia.
Qed.

Lemma normalise_no_recv d argc : ~ In SRecv (normalise d argc).
Proof.
  unfold normalise. rewrite !in_app_iff, !in_map_iff.
  intros [H|[H|[H|H]]].
  - destruct H as (i & Hi & _); discriminate.
  - destruct H as (i & Hi & _); discriminate.
  - destruct (d_rest d); cbn in H; [destruct H as [H|[]]; discriminate | contradiction].
  - destruct (d_nrest d); cbn in H; [destruct H as [H|[]]; discriminate | contradiction].
Qed.

Lemma normalise_no_junk d argc : forallb (fun s => negb (is_junk s)) (normalise d argc) = true.
Proof.
  unfold normalise. rewrite !forallb_app. repeat (apply andb_true_iff; split).
  - apply forallb_forall. intros x Hx. apply in_map_iff in Hx. destruct Hx as (i & <- & _). reflexivity.
  - apply forallb_forall. intros x Hx. apply in_map_iff in Hx. destruct Hx as (i & <- & _). reflexivity.
  - destruct (d_rest d); reflexivity.
  - destruct (d_nrest d); reflexivity.
Qed.

(* the `undefined` literals the checker writes stand for OPTIONAL parameters only *)
Lemma normalise_omitted_optional d argc i :
  admitted d argc = true -> In (SOmitted i) (normalise d argc) ->
  d_req d <= i < d_req d + d_opt d.
Proof.
  unfold admitted. intros Hadm Hin.
  apply andb_true_iff in Hadm. destruct Hadm as [Hreq _]. apply Nat.leb_le in Hreq.
  unfold normalise in Hin. rewrite !in_app_iff, !in_map_iff in Hin.
  destruct Hin as [H|[H|[H|H]]].
  - destruct H as (j & Hj & _); discriminate.
  - destruct H as (j & Hj & Hseq). injection Hj as ->. apply in_seq in Hseq. lia.
  - destruct (d_rest d); cbn in H; [destruct H as [H|[]]; discriminate | contradiction].
  - destruct (d_nrest d); cbn in H; [destruct H as [H|[]]; discriminate | contradiction].
Qed.

(* every argument written at the call site is passed: slot i holds argument i *)
Lemma normalise_args_in_place d argc i :
  i < Nat.min argc (d_req d + d_opt d) -> nth i (normalise d argc) SFill = SArg i.
Proof.
  intros Hi. unfold normalise.
  rewrite app_nth1 by (rewrite map_length, seq_length; exact Hi).
  rewrite nth_indep with (d' := SArg 0) by (rewrite map_length, seq_length; exact Hi).
  rewrite map_nth. rewrite seq_nth by exact Hi. reflexivity.
Qed.

(* the window of a call never reaches below the bottom of the stack, whatever the counts are *)
Lemma call_method_in_bounds r pushed st :
  pushed + 1 <= length st -> call_method r pushed st <> None.
Proof.
  intros Hlen. unfold call_method, populate.
  destruct (Nat.ltb_spec (length (repeat SFill (r_pc r - pushed) ++ st)) (r_pc r + 1)) as [H|H]; [|discriminate].
  rewrite app_length, repeat_length in H. lia.
Qed.

Lemma caller_stack_length d argc below :
  length (caller_stack d argc below) = total d + 1 + length below.
Proof.
  unfold caller_stack, push_all. rewrite app_length, rev_length, normalise_length. cbn [length]. lia.
Qed.

Lemma call_in_bounds d r argc below :
  r_found r = true -> call d r argc below <> None.
Proof.
  intros Hf. unfold call. rewrite Hf. apply call_method_in_bounds.
  rewrite caller_stack_length. lia.
Qed.

Lemma arity_ok_spec d r : arity_ok d r = true -> total d <= r_pc r /\ r_pc r - total d <= r_opc r.
Proof. unfold arity_ok. lia. Qed.

(* main theorem *)
Lemma arity_safe d r argc below :
  compatible d r = true -> r_found r = true -> admitted d argc = true ->
  call d r argc below = Some (mkCall (expected_args d r argc) (SResult :: below))
  /\ length (expected_args d r argc) = r_pc r + 1
  /\ hd SFill (expected_args d r argc) = SRecv
  /\ forallb (fun s => negb (is_junk s)) (expected_args d r argc) = true
  /\ (forall i, In (SOmitted i) (expected_args d r argc) -> d_req d <= i < d_req d + d_opt d)
  /\ (forall i, i < Nat.min argc (d_req d + d_opt d) -> nth (S i) (expected_args d r argc) SFill = SArg i)
  /\ r_pc r - total d <= r_opc r.
Proof.
  intros Hc Hf Hadm. unfold compatible in Hc. rewrite Hf in Hc.
  destruct (arity_ok_spec _ _ Hc) as [Hle Hopc].
  repeat split.
  - unfold call. rewrite Hf. unfold call_method, populate, caller_stack, push_all.
    set (n := normalise d argc). assert (Hn : length n = total d) by apply normalise_length.
    set (k := r_pc r - total d).
    assert (Hw : repeat SFill k ++ rev n ++ SRecv :: below
                 = (repeat SFill k ++ rev n ++ [SRecv]) ++ below).
    { rewrite <- !app_assoc. reflexivity. }
    assert (Hwl : length (repeat SFill k ++ rev n ++ [SRecv]) = r_pc r + 1).
    { rewrite !app_length, repeat_length, rev_length, Hn. cbn [length]. unfold k. lia. }
    rewrite Hw.
    destruct (Nat.ltb_spec (length ((repeat SFill k ++ rev n ++ [SRecv]) ++ below)) (r_pc r + 1)) as [H|H].
    { rewrite app_length in H. lia. }
    rewrite <- Hwl. rewrite firstn_app, Nat.sub_diag, firstn_O, app_nil_r, firstn_all.
    rewrite skipn_app, Nat.sub_diag, skipn_all, skipn_O. cbn [app].
    rewrite !rev_app_distr, rev_involutive, rev_repeat_. cbn [rev app].
    unfold expected_args. reflexivity.
  - unfold expected_args. cbn [length]. rewrite app_length, normalise_length, repeat_length. lia.
  - unfold expected_args.
    cbn [forallb is_junk negb andb]. rewrite forallb_app, normalise_no_junk. cbn [andb].
    apply forallb_forall. intros x Hx. apply repeat_spec in Hx. subst x. reflexivity.
  - unfold expected_args in H. cbn [In] in H. destruct H as [H|H]; [discriminate|].
    apply in_app_iff in H. destruct H as [H|H].
    + exact (proj1 (normalise_omitted_optional d argc i Hadm H)).
    + apply repeat_spec in H. discriminate.
  - unfold expected_args in H. cbn [In] in H. destruct H as [H|H]; [discriminate|].
    apply in_app_iff in H. destruct H as [H|H].
    + exact (proj2 (normalise_omitted_optional d argc i Hadm H)).
    + apply repeat_spec in H. discriminate.
  - intros i Hi. unfold expected_args. cbn [nth].
    rewrite app_nth1 by (rewrite normalise_length; unfold total; lia).
    apply normalise_args_in_place. exact Hi.
  - exact Hopc.
Qed.

(* fewer runtime parameters than declared: the receiver slot of the native holds an argument and
   the stack is left unbalanced *)
Lemma too_few_misaligned d r argc below :
  r_found r = true -> r_pc r < total d ->
  exists args after, call d r argc below = Some (mkCall args after)
    /\ length args = r_pc r + 1 /\ ~ In SRecv args
    /\ length after = length below + 1 + (total d - r_pc r).
Proof.
  intros Hf Hlt. unfold call. rewrite Hf. unfold call_method, populate, caller_stack, push_all.
  replace (r_pc r - total d) with 0 by lia. cbn [repeat app].
  set (n := normalise d argc). assert (Hn : length n = total d) by apply normalise_length.
  destruct (Nat.ltb_spec (length (rev n ++ SRecv :: below)) (r_pc r + 1)) as [H|H].
  { rewrite app_length, rev_length, Hn in H. cbn [length] in H. lia. }
  eexists. eexists. split; [reflexivity|]. repeat split.
  - rewrite rev_length, firstn_length, app_length, rev_length, Hn. cbn [length]. lia.
  - rewrite <- in_rev. rewrite firstn_app.
    replace (r_pc r + 1 - length (rev n)) with 0 by (rewrite rev_length, Hn; lia).
    rewrite firstn_O, app_nil_r. intros Hin. apply in_firstn_ in Hin.
    apply in_rev in Hin. exact (normalise_no_recv d argc Hin).
  - cbn [length]. rewrite skipn_length, app_length, rev_length, Hn. cbn [length]. lia.
Qed.

(* more runtime parameters than declared and not all of the surplus optional: a REQUIRED runtime
   parameter reads the `undefined` filler *)
Lemma too_many_required_filler d r argc below :
  r_found r = true -> r_pc r - total d > r_opc r ->
  exists args after, call d r argc below = Some (mkCall args after)
    /\ nth (total d + 1) args SRecv = SFill /\ total d + 1 <= r_pc r - r_opc r.
Proof.
  intros Hf Hgt. unfold call. rewrite Hf. unfold call_method, populate, caller_stack, push_all.
  set (n := normalise d argc). assert (Hn : length n = total d) by apply normalise_length.
  set (k := r_pc r - total d).
  assert (Hw : repeat SFill k ++ rev n ++ SRecv :: below
               = (repeat SFill k ++ rev n ++ [SRecv]) ++ below).
  { rewrite <- !app_assoc. reflexivity. }
  assert (Hwl : length (repeat SFill k ++ rev n ++ [SRecv]) = r_pc r + 1).
  { rewrite !app_length, repeat_length, rev_length, Hn. cbn [length]. unfold k. lia. }
  rewrite Hw.
  destruct (Nat.ltb_spec (length ((repeat SFill k ++ rev n ++ [SRecv]) ++ below)) (r_pc r + 1)) as [H|H].
  { rewrite app_length in H. lia. }
  eexists. eexists. split; [reflexivity|]. split; [|lia].
  rewrite <- Hwl. rewrite firstn_app, Nat.sub_diag, firstn_O, app_nil_r, firstn_all.
  rewrite !rev_app_distr, rev_involutive, rev_repeat_. cbn [rev app].
  replace (total d + 1) with (S (total d)) by lia. cbn [nth].
  rewrite app_nth2 by lia. rewrite Hn, Nat.sub_diag.
  destruct k eqn:Hk; [unfold k in Hk; lia|]. reflexivity.
Qed.

(* a declared constructor with parameters but no runtime `#init`: the expression evaluates to its
   last argument slot, not to the instance *)
Lemma no_init_leaves_arguments d r argc below :
  r_found r = false -> d_init d = true -> 0 < total d ->
  exists after, call d r argc below = Some (mkCall [] after)
    /\ hd SRecv after <> SRecv /\ length after = length below + 1 + total d.
Proof.
  intros Hf Hi Hpos. unfold call. rewrite Hf, Hi. unfold call_no_init, caller_stack, push_all.
  eexists. split; [reflexivity|].
  set (n := normalise d argc). assert (Hn : length n = total d) by apply normalise_length.
  split.
  - destruct (rev n) as [|x xs] eqn:Hr.
    + apply (f_equal (@length slot)) in Hr. rewrite rev_length, Hn in Hr. cbn in Hr. lia.
    + cbn [app hd]. intros ->.
      apply (normalise_no_recv d argc). apply in_rev. fold n. rewrite Hr. left. reflexivity.
  - rewrite app_length, rev_length, Hn. cbn [length]. lia.
Qed.

Lemma no_init_zero_args_ok d r argc below :
  r_found r = false -> d_init d = true -> total d = 0 ->
  call d r argc below = Some (mkCall [] (SRecv :: below)).
Proof.
  intros Hf Hi Hz. unfold call. rewrite Hf, Hi. unfold call_no_init, caller_stack, push_all.
  assert (Hn : length (normalise d argc) = 0) by (rewrite normalise_length; exact Hz).
  destruct (normalise d argc); [reflexivity|discriminate].
Qed.

(* a method that is not there *)
Lemma unfound_panics d r argc below :
  r_found r = false -> d_init d = false -> call d r argc below = None.
Proof. intros Hf Hi. unfold call. now rewrite Hf, Hi. Qed.

(* compatible is exactly "the call is well-formed" for found methods *)
Lemma compatible_complete d r :
  r_found r = true -> compatible d r = false ->
  r_pc r < total d \/ r_pc r - total d > r_opc r.
Proof. intros Hf. unfold compatible, arity_ok. rewrite Hf. lia. Qed.

Lemma all_compatible_spec exc rows :
  all_compatible exc rows = true ->
  forall x, In x rows -> compatible (row_decl x) (row_rt x) = true \/ In (row_key x) exc.
Proof.
  unfold all_compatible. intros H x Hx. rewrite forallb_forall in H. specialize (H x Hx).
  unfold row_ok in H. apply orb_true_iff in H. destruct H as [H|H]; [now left|right].
  apply existsb_exists in H. destruct H as (k & Hk & He). apply N.eqb_eq in He. now subst.
Qed.

(* the rows `compatible` rejects are, by construction, a sufficient exception list *)
Lemma all_compatible_incompatible_keys rows : all_compatible (incompatible_keys rows) rows = true.
Proof.
  unfold all_compatible. apply forallb_forall. intros x Hx. unfold row_ok.
  destruct (compatible (row_decl x) (row_rt x)) eqn:Hc; [reflexivity|]. cbn [orb].
  apply existsb_exists. exists (row_key x). split; [|apply N.eqb_refl].
  unfold incompatible_keys. apply in_map. apply filter_In. split; [exact Hx|]. now rewrite Hc.
Qed.
