(* C31 — proofs about Model/C31_Hygiene.v *)
From Coq Require Import ZArith NArith List Bool Lia.
From Elk Require Import Model.C31_Hygiene.
Import ListNotations.
Open Scope Z_scope.

(* ------------------------------------------------------------------ basic facts *)

Lemma lookup_none_names : forall l x, lookup l x = None <-> in_names (map fst l) x = false.
Proof.
  induction l as [|[y w] l IH]; intros x; cbn.
  - split; auto.
  - unfold in_names in *. cbn. destruct (N.eqb x y) eqn:E; cbn.
    + split; intro H; discriminate.
    + apply IH.
Qed.

Lemma lookup_some_names : forall l x, in_names (map fst l) x = true -> exists v, lookup l x = Some v.
Proof.
  intros l x H. destruct (lookup l x) eqn:E; eauto.
  apply lookup_none_names in E. congruence.
Qed.

Lemma names_set : forall l x v,
  map fst (set l x v) = if in_names (map fst l) x then map fst l else map fst l ++ [x].
Proof.
  induction l as [|[y w] l IH]; intros x v; cbn.
  - reflexivity.
  - unfold in_names in *. cbn. destruct (N.eqb x y) eqn:E; cbn.
    + reflexivity.
    + rewrite IH. destruct (existsb (N.eqb x) (map fst l)); reflexivity.
Qed.

Lemma names_replace : forall l x v, map fst (replace l x v) = map fst l.
Proof.
  induction l as [|[y w] l IH]; intros x v; cbn.
  - reflexivity.
  - destruct (N.eqb x y); cbn; [reflexivity | now rewrite IH].
Qed.

Lemma shape_update : forall r d x v, shape (update r d x v) = shape r.
Proof.
  induction r as [|f r IH]; intros d x v; cbn.
  - reflexivity.
  - destruct d; cbn.
    + unfold frame_names; cbn. now rewrite names_replace.
    + now rewrite IH.
Qed.

Lemma shape_length : forall r1 r2, shape r1 = shape r2 -> length r1 = length r2.
Proof.
  intros r1 r2 H. unfold shape in H.
  rewrite <- (map_length (fun f => (ftyp f, frame_names f)) r1), H. apply map_length.
Qed.

Lemma frame_below_names : forall K f g, frame_names f = frame_names g -> frame_below K f = frame_below K g.
Proof.
  intros K f g H. unfold frame_below, frame_names in *.
  assert (G : forall l, forallb (fun p : name * Z => N.ltb (fst p) K) l = forallb (fun y => N.ltb y K) (map fst l)).
  { induction l as [|a l IH]; cbn; [reflexivity | now rewrite IH]. }
  now rewrite !G, H.
Qed.

Lemma env_below_shape : forall K r1 r2, shape r1 = shape r2 -> env_below K r1 = env_below K r2.
Proof.
  intros K. induction r1 as [|f r1 IH]; intros [|g r2] H; cbn in *; try discriminate; auto.
  injection H as Ht Hn Hr. rewrite (frame_below_names K f g Hn). f_equal. now apply IH.
Qed.

Lemma lookup_below : forall K l y, forallb (fun p : name * Z => N.ltb (fst p) K) l = true -> (K <= y)%N -> lookup l y = None.
Proof.
  induction l as [|[z w] l IH]; intros y H Hy; cbn in *.
  - reflexivity.
  - apply andb_true_iff in H as [H1 H2]. apply N.ltb_lt in H1.
    destruct (N.eqb y z) eqn:E.
    + apply N.eqb_eq in E. lia.
    + now apply IH.
Qed.

Lemma resolve_below : forall K r y u, env_below K r = true -> (K <= y)%N -> resolve r y u = None.
Proof.
  induction r as [|f r IH]; intros y u H Hy; cbn in *.
  - reflexivity.
  - apply andb_true_iff in H as [H1 H2]. unfold get.
    rewrite (lookup_below K _ y H1 Hy). rewrite (IH y u H2 Hy).
    destruct (ftyp f); cbn; try reflexivity. destruct u; reflexivity.
Qed.

(* resolve and store in one step: the shape the proofs work with *)
Definition assign (r : env) (x : name) (u : bool) (w : Z) : option env :=
  match resolve r x u with
  | Some (d, _) => Some (update r d x w)
  | None => None
  end.

Lemma assign_cons : forall f r x u w,
  assign (f :: r) x u w =
  match get f x with
  | Some _ => Some (mkFrame (ftyp f) (replace (fvars f) x w) :: r)
  | None =>
    match ftyp f with
    | FBoundary => if u then option_map (cons f) (assign r x u w) else None
    | _ => option_map (cons f) (assign r x u w)
    end
  end.
Proof.
  intros. unfold assign. cbn [resolve].
  destruct (get f x); [reflexivity|].
  destruct (ftyp f); try (destruct u); try reflexivity;
    destruct (resolve r x _) as [[d v]|]; reflexivity.
Qed.

Lemma eval_set : forall r u x e,
  eval r u (ESet x e) =
  match eval r u e with
  | Some (r1, v) => match assign r1 x u v with Some r' => Some (r', v) | None => None end
  | None => None
  end.
Proof.
  intros. cbn [eval]. unfold assign. destruct (eval r u e) as [[r1 v]|]; [|reflexivity].
  destruct (resolve r1 x u) as [[d w]|]; reflexivity.
Qed.

(* evaluation keeps the frame structure: same kind of current frame, same shape below it *)
Lemma eval_frame : forall e f r u e' v,
  eval (f :: r) u e = Some (e', v) ->
  exists f' r', e' = f' :: r' /\ ftyp f' = ftyp f /\ shape r' = shape r.
Proof.
  induction e; intros f r u e' v H; cbn [eval] in H.
  - injection H as <- <-. eauto.
  - destruct (resolve (f :: r) x u) as [[d w]|]; [|discriminate]. injection H as <- <-. eauto.
  - destruct (eval (f :: r) u e1) as [[r1 x1]|] eqn:E1; [|discriminate].
    destruct (IHe1 _ _ _ _ _ E1) as (f1 & r1' & -> & Ht1 & Hs1).
    destruct (eval (f1 :: r1') u e2) as [[r2 x2]|] eqn:E2; [|discriminate]. injection H as <- <-.
    destruct (IHe2 _ _ _ _ _ E2) as (f2 & r2' & -> & Ht2 & Hs2).
    exists f2, r2'. repeat split; congruence.
  - eapply IHe; eauto.
  - destruct (eval (f :: r) u e) as [[r1 x1]|] eqn:E1; [|discriminate].
    destruct (IHe _ _ _ _ _ E1) as (f1 & r1' & -> & Ht1 & Hs1). injection H as <- <-.
    exists (add f1 x x1), r1'. auto.
  - destruct (eval (f :: r) u e) as [[r1 x1]|] eqn:E1; [|discriminate].
    destruct (IHe _ _ _ _ _ E1) as (f1 & r1' & -> & Ht1 & Hs1).
    destruct (resolve (f1 :: r1') x u) as [[d w]|]; [|discriminate]. injection H as <- <-.
    pose proof (shape_update (f1 :: r1') d x x1) as Hs.
    destruct (update (f1 :: r1') d x x1) as [|f' r'] eqn:E; cbn in Hs; [discriminate|].
    injection Hs as Ht Hn Hr. exists f', r'. split; [exact E|]. split; [congruence|].
    unfold shape in *. congruence.
Qed.

(* ------------------------------------------------------------------ shape preservation *)

Lemma run_shape : forall s m f r u e' o,
  run m (f :: r) u s = Some (e', o) ->
  exists f' r', e' = f' :: r' /\ ftyp f' = ftyp f /\ shape r' = shape r.
Proof.
  induction s; intros m f r u e' o H; cbn [run] in H.
  - injection H as <- <-. eauto.
  - unfold bind in H. destruct (run m (f :: r) u s1) as [[r1 o1]|] eqn:E1; [|discriminate].
    destruct (run m r1 u s2) as [[r2 o2]|] eqn:E2; [|discriminate].
    injection H as <- <-.
    destruct (IHs1 _ _ _ _ _ _ E1) as (f1 & r1' & -> & Ht1 & Hs1).
    destruct (IHs2 _ _ _ _ _ _ E2) as (f2 & r2' & -> & Ht2 & Hs2).
    exists f2, r2'. repeat split; congruence.
  - destruct (eval (f :: r) u e) as [[r1 v1]|] eqn:E; [|discriminate]. injection H as <- <-.
    eapply eval_frame; eauto.
  - destruct (eval (f :: r) u e) as [[r1 v1]|] eqn:E; [|discriminate]. injection H as <- <-.
    eapply eval_frame; eauto.
  - unfold scoped, push in H.
    destruct (run m (mkFrame FDefault [] :: f :: r) u s) as [[r1 o1]|] eqn:E1; [|discriminate].
    injection H as <- <-.
    destruct (IHs _ _ _ _ _ _ E1) as (f1 & r1' & -> & _ & Hs1). cbn.
    destruct r1' as [|f' r']; cbn in Hs1; [discriminate|]. injection Hs1 as Ht Hn Hr.
    exists f', r'. auto.
  - unfold scoped at 1 in H. unfold push in H.
    match type of H with match ?X with _ => _ end = _ => destruct X as [[r1 o1]|] eqn:E1; [|discriminate] end.
    injection H as <- <-.
    assert (G : exists f1 r1', r1 = f1 :: r1' /\ shape r1' = shape (f :: r)).
    { destruct (eval (mkFrame FDefault [] :: f :: r) u c) as [[rc vc]|] eqn:Ec; [|discriminate].
      destruct (eval_frame _ _ _ _ _ _ Ec) as (fc & rc' & -> & Htc & Hsc).
      assert (Gs : forall b r0 f0 rr oo, scoped FCond (f0 :: r0) (fun r2 => run m r2 u b) = Some (rr, oo) ->
                   (forall m f r u e' o, run m (f :: r) u b = Some (e', o) ->
                      exists f' r', e' = f' :: r' /\ ftyp f' = ftyp f /\ shape r' = shape r) ->
                   exists f1 r1', rr = f1 :: r1' /\ ftyp f1 = ftyp f0 /\ shape r1' = shape r0).
      { intros b r0 f0 rr oo Hb IHb. unfold scoped, push in Hb.
        destruct (run m (mkFrame FCond [] :: f0 :: r0) u b) as [[r3 o3]|] eqn:E3; [|discriminate].
        injection Hb as <- <-. destruct (IHb _ _ _ _ _ _ E3) as (f3 & r3' & -> & _ & Hs3). cbn.
        destruct r3' as [|f4 r4]; cbn in Hs3; [discriminate|]. injection Hs3 as Ht Hn Hr.
        exists f4, r4. auto. }
      destruct m.
      - unfold bind in E1.
        destruct (scoped FCond (fc :: rc') (fun r2 => run Static r2 u s1)) as [[ra oa]|] eqn:Ea; [|discriminate].
        destruct (Gs _ _ _ _ _ Ea IHs1) as (fa & ra' & -> & Hta & Hsa).
        destruct (scoped FCond (fa :: ra') (fun r2 => run Static r2 u s2)) as [[rb ob]|] eqn:Eb; [|discriminate].
        injection E1 as <- <-.
        destruct (Gs _ _ _ _ _ Eb IHs2) as (fb & rb' & -> & Htb & Hsb).
        exists fb, rb'. split; [reflexivity | congruence].
      - destruct (Z.ltb 0 vc).
        + destruct (Gs _ _ _ _ _ E1 IHs1) as (fa & ra' & -> & Hta & Hsa). exists fa, ra'. split; [reflexivity | congruence].
        + destruct (Gs _ _ _ _ _ E1 IHs2) as (fa & ra' & -> & Hta & Hsa). exists fa, ra'. split; [reflexivity | congruence]. }
    destruct G as (f1 & r1' & -> & Hs1). cbn.
    destruct r1' as [|f' r']; cbn in Hs1; [discriminate|]. injection Hs1 as Ht Hn Hr.
    exists f', r'. auto.
  - unfold scoped, push in H.
    destruct (run m (mkFrame FBoundary [] :: f :: r) u s) as [[r1 o1]|] eqn:E1; [|discriminate].
    injection H as <- <-.
    destruct (IHs _ _ _ _ _ _ E1) as (f1 & r1' & -> & _ & Hs1). cbn.
    destruct r1' as [|f' r']; cbn in Hs1; [discriminate|]. injection Hs1 as Ht Hn Hr.
    exists f', r'. auto.
  - eapply IHs; eauto.
Qed.

Lemma resolve_none_shape : forall r1 r2 x u, shape r1 = shape r2 ->
  resolve r1 x u = None -> resolve r2 x u = None.
Proof.
  induction r1 as [|f r1 IH]; intros [|g r2] x u H Hn; cbn in H; try discriminate; auto.
  injection H as Ht Hf Hr. cbn in *. unfold get in *.
  destruct (lookup (fvars f) x) eqn:El; [discriminate|].
  apply lookup_none_names in El. fold (frame_names f) in El. rewrite Hf in El.
  apply lookup_none_names in El. rewrite El. rewrite <- Ht.
  assert (G : forall q, shift q = None -> q = None) by (intros [[? ?]|]; cbn; congruence).
  destruct (ftyp f); try destruct u; auto;
    apply G in Hn; now rewrite (IH _ _ _ Hr Hn).
Qed.

(* leaving any scope restores the shape of the environment: in particular for a boundary *)
Lemma boundary_shape : forall m r u b r' o,
  run m r u (SBoundary b) = Some (r', o) -> shape r' = shape r.
Proof.
  intros m r u b r' o H. cbn [run] in H. unfold scoped, push in H.
  destruct (run m (mkFrame FBoundary [] :: r) u b) as [[r1 o1]|] eqn:E; [|discriminate].
  injection H as <- <-. destruct (run_shape _ _ _ _ _ _ _ E) as (f1 & r1' & -> & _ & Hs). exact Hs.
Qed.

Lemma no_leak_out : forall m r u b r' o,
  run m r u (SBoundary b) = Some (r', o) ->
  shape r' = shape r /\ forall x u', resolve r x u' = None -> resolve r' x u' = None.
Proof.
  intros m r u b r' o H. pose proof (boundary_shape _ _ _ _ _ _ H) as Hs.
  split; [exact Hs|]. intros x u' Hn. eapply resolve_none_shape; [symmetry; exact Hs | exact Hn].
Qed.

(* ------------------------------------------------------------------ resolution under a boundary *)

Lemma resolve_hyg_depth : forall J b r x d v,
  ftyp b = FBoundary -> resolve (J ++ b :: r) x false = Some (d, v) -> (d <= length J)%nat.
Proof.
  induction J as [|f J IH]; intros b r x d v Hb H; cbn in *.
  - destruct (get b x); [injection H as <- _; lia|]. rewrite Hb in H. discriminate.
  - destruct (get f x); [injection H as <- _; lia|].
    assert (G : shift (resolve (J ++ b :: r) x false) = Some (d, v) -> (d <= S (length J))%nat).
    { destruct (resolve (J ++ b :: r) x false) as [[d' v']|] eqn:E; cbn; [|discriminate].
      intro G. injection G as <- _. apply IH in E; auto. lia. }
    destruct (ftyp f); auto. discriminate.
Qed.

Definition shiftn (n : nat) (q : option (nat * Z)) : option (nat * Z) :=
  match q with Some (d, v) => Some ((n + d)%nat, v) | None => None end.

Lemma unhyg_only : forall J b r x,
  ftyp b = FBoundary -> (forall f, In f (J ++ [b]) -> get f x = None) ->
  resolve (J ++ b :: r) x false = None /\
  resolve (J ++ b :: r) x true = shiftn (S (length J)) (resolve r x true).
Proof.
  induction J as [|f J IH]; intros b r x Hb Hn; cbn [app length resolve].
  - rewrite (Hn b (or_introl eq_refl)), Hb. split; [reflexivity|].
    destruct (resolve r x true) as [[d v]|]; reflexivity.
  - rewrite (Hn f (or_introl eq_refl)).
    destruct (IH b r x Hb (fun g Hg => Hn g (or_intror Hg))) as [H1 H2].
    rewrite H1, H2. split.
    + destruct (ftyp f); reflexivity.
    + destruct (resolve r x true) as [[d v]|]; destruct (ftyp f); reflexivity.
Qed.

(* a store found by hygienic resolution under a boundary stays above the boundary *)
Lemma update_app_le : forall J b r d x v, (d <= length J)%nat ->
  exists J' b', update (J ++ b :: r) d x v = J' ++ b' :: r /\ length J' = length J /\ ftyp b' = ftyp b.
Proof.
  induction J as [|f J IH]; intros b r d x v Hd; cbn in *.
  - assert (d = O) by lia. subst. exists [], (mkFrame (ftyp b) (replace (fvars b) x v)). auto.
  - destruct d.
    + exists (mkFrame (ftyp f) (replace (fvars f) x v) :: J), b. auto.
    + destruct (IH b r d x v ltac:(lia)) as (J' & b' & -> & Hl & Ht).
      exists (f :: J'), b'. cbn. auto.
Qed.

Lemma hygienic_expr_frame : forall e J b r e' v,
  expr_hyg e = true -> ftyp b = FBoundary ->
  eval (J ++ b :: r) false e = Some (e', v) ->
  exists J' b', e' = J' ++ b' :: r /\ length J' = length J /\ ftyp b' = FBoundary.
Proof.
  induction e; intros J b r e' v Hh Hb H; cbn [eval expr_hyg] in *.
  - injection H as <- <-. eauto.
  - destruct (resolve (J ++ b :: r) x false) as [[d w]|]; [|discriminate]. injection H as <- <-. eauto.
  - apply andb_true_iff in Hh as [Hh1 Hh2].
    destruct (eval (J ++ b :: r) false e1) as [[r1 x1]|] eqn:E1; [|discriminate].
    destruct (IHe1 _ _ _ _ _ Hh1 Hb E1) as (J1 & b1 & -> & Hl1 & Hb1).
    destruct (eval (J1 ++ b1 :: r) false e2) as [[r2 x2]|] eqn:E2; [|discriminate]. injection H as <- <-.
    destruct (IHe2 _ _ _ _ _ Hh2 Hb1 E2) as (J2 & b2 & -> & Hl2 & Hb2).
    exists J2, b2. repeat split; auto; congruence.
  - discriminate.
  - destruct (eval (J ++ b :: r) false e) as [[r1 x1]|] eqn:E1; [|discriminate].
    destruct (IHe _ _ _ _ _ Hh Hb E1) as (J1 & b1 & -> & Hl1 & Hb1).
    destruct J1 as [|f1 J1]; cbn in H; injection H as <- <-.
    + exists [], (add b1 x x1). auto.
    + exists (add f1 x x1 :: J1), b1. auto.
  - destruct (eval (J ++ b :: r) false e) as [[r1 x1]|] eqn:E1; [|discriminate].
    destruct (IHe _ _ _ _ _ Hh Hb E1) as (J1 & b1 & -> & Hl1 & Hb1).
    destruct (resolve (J1 ++ b1 :: r) x false) as [[d w]|] eqn:Er; [|discriminate]. injection H as <- <-.
    apply resolve_hyg_depth in Er; auto.
    destruct (update_app_le J1 b1 r d x x1 Er) as (J' & b' & -> & Hl & Ht).
    exists J', b'. repeat split; auto; congruence.
Qed.

Lemma hygienic_body_frame : forall s m J b r e' o,
  stmt_hyg s = true -> ftyp b = FBoundary ->
  run m (J ++ b :: r) false s = Some (e', o) ->
  exists J' b', e' = J' ++ b' :: r /\ length J' = length J /\ ftyp b' = FBoundary.
Proof.
  induction s; intros m J b r e' o Hh Hb H; cbn [run stmt_hyg] in *.
  - injection H as <- <-. eauto.
  - apply andb_true_iff in Hh as [Hh1 Hh2]. unfold bind in H.
    destruct (run m (J ++ b :: r) false s1) as [[r1 o1]|] eqn:E1; [|discriminate].
    destruct (run m r1 false s2) as [[r2 o2]|] eqn:E2; [|discriminate]. injection H as <- <-.
    destruct (IHs1 _ _ _ _ _ _ Hh1 Hb E1) as (J1 & b1 & -> & Hl1 & Hb1).
    destruct (IHs2 _ _ _ _ _ _ Hh2 Hb1 E2) as (J2 & b2 & -> & Hl2 & Hb2).
    exists J2, b2. repeat split; auto; congruence.
  - destruct (eval (J ++ b :: r) false e) as [[r1 v1]|] eqn:E; [|discriminate]. injection H as <- <-.
    eapply hygienic_expr_frame; eauto.
  - destruct (eval (J ++ b :: r) false e) as [[r1 v1]|] eqn:E; [|discriminate]. injection H as <- <-.
    eapply hygienic_expr_frame; eauto.
  - unfold scoped, push in H.
    destruct (run m (mkFrame FDefault [] :: J ++ b :: r) false s) as [[r1 o1]|] eqn:E1; [|discriminate].
    injection H as <- <-.
    destruct (IHs m (mkFrame FDefault [] :: J) b r _ _ Hh Hb E1) as (J1 & b1 & -> & Hl1 & Hb1).
    destruct J1 as [|f1 J1]; cbn in Hl1; [discriminate|]. cbn. exists J1, b1. auto.
  - apply andb_true_iff in Hh as [Hh Hh2]. apply andb_true_iff in Hh as [Hh0 Hh1].
    assert (Gs : forall sb J0 b0 rr oo, stmt_hyg sb = true -> ftyp b0 = FBoundary ->
               (forall m J b r e' o, stmt_hyg sb = true -> ftyp b = FBoundary ->
                  run m (J ++ b :: r) false sb = Some (e', o) ->
                  exists J' b', e' = J' ++ b' :: r /\ length J' = length J /\ ftyp b' = FBoundary) ->
               scoped FCond (J0 ++ b0 :: r) (fun r2 => run m r2 false sb) = Some (rr, oo) ->
               exists J' b', rr = J' ++ b' :: r /\ length J' = length J0 /\ ftyp b' = FBoundary).
    { intros sb J0 b0 rr oo Hsb Hb0 IHb Hs. unfold scoped, push in Hs.
      destruct (run m (mkFrame FCond [] :: J0 ++ b0 :: r) false sb) as [[r3 o3]|] eqn:E3; [|discriminate].
      injection Hs as <- <-.
      destruct (IHb m (mkFrame FCond [] :: J0) b0 r _ _ Hsb Hb0 E3) as (J3 & b3 & -> & Hl3 & Hb3).
      destruct J3 as [|f3 J3]; cbn in Hl3; [discriminate|]. cbn. exists J3, b3. auto. }
    unfold scoped at 1 in H. unfold push in H.
    match type of H with match ?X with _ => _ end = _ => destruct X as [[r1 o1]|] eqn:E1; [|discriminate] end.
    injection H as <- <-.
    change (mkFrame FDefault [] :: J ++ b :: r) with ((mkFrame FDefault [] :: J) ++ b :: r) in E1.
    destruct (eval ((mkFrame FDefault [] :: J) ++ b :: r) false c) as [[rc vc]|] eqn:Ec; [|discriminate].
    destruct (hygienic_expr_frame _ _ _ _ _ _ Hh0 Hb Ec) as (Jc & bc & -> & Hlc & Hbc).
    assert (G : exists J' b', r1 = J' ++ b' :: r /\ length J' = S (length J) /\ ftyp b' = FBoundary).
    { destruct m.
      - unfold bind in E1.
        destruct (scoped FCond (Jc ++ bc :: r) (fun r2 => run Static r2 false s1)) as [[ra oa]|] eqn:Ea; [|discriminate].
        destruct (Gs _ _ _ _ _ Hh1 Hbc IHs1 Ea) as (Ja & ba & -> & Hla & Hba).
        destruct (scoped FCond (Ja ++ ba :: r) (fun r2 => run Static r2 false s2)) as [[rb ob]|] eqn:Eb; [|discriminate].
        injection E1 as <- <-.
        destruct (Gs _ _ _ _ _ Hh2 Hba IHs2 Eb) as (Jb & bb & -> & Hlb & Hbb).
        exists Jb, bb. repeat split; auto. cbn in *. congruence.
      - destruct (Z.ltb 0 vc).
        + destruct (Gs _ _ _ _ _ Hh1 Hbc IHs1 E1) as (Ja & ba & -> & Hla & Hba). exists Ja, ba. cbn in *. repeat split; auto; congruence.
        + destruct (Gs _ _ _ _ _ Hh2 Hbc IHs2 E1) as (Ja & ba & -> & Hla & Hba). exists Ja, ba. cbn in *. repeat split; auto; congruence. }
    destruct G as (J1 & b1 & -> & Hl1 & Hb1).
    destruct J1 as [|f1 J1]; cbn in Hl1; [discriminate|]. cbn. exists J1, b1. auto.
  - unfold scoped, push in H.
    destruct (run m (mkFrame FBoundary [] :: J ++ b :: r) false s) as [[r1 o1]|] eqn:E1; [|discriminate].
    injection H as <- <-.
    destruct (IHs m (mkFrame FBoundary [] :: J) b r _ _ Hh Hb E1) as (J1 & b1 & -> & Hl1 & Hb1).
    destruct J1 as [|f1 J1]; cbn in Hl1; [discriminate|]. cbn. exists J1, b1. auto.
  - discriminate.
Qed.

(* a macro body without unhygienic splices leaves the caller's environment untouched *)
Lemma hygienic_boundary_pure : forall m r b r' o,
  stmt_hyg b = true -> run m r false (SBoundary b) = Some (r', o) -> r' = r.
Proof.
  intros m r b r' o Hh H. cbn [run] in H. unfold scoped, push in H.
  destruct (run m (mkFrame FBoundary [] :: r) false b) as [[r1 o1]|] eqn:E; [|discriminate].
  injection H as <- <-.
  destruct (hygienic_body_frame b m [] (mkFrame FBoundary []) r _ _ Hh eq_refl E) as (J1 & b1 & -> & Hl & _).
  destruct J1; [reflexivity | discriminate].
Qed.

(* beyond what its initialiser does, a binder touches the current frame only *)
Lemma bind_local : forall r u x e e' v,
  eval r u (EBind x e) = Some (e', v) ->
  exists f1 r1, eval r u e = Some (f1 :: r1, v) /\ e' = add f1 x v :: r1.
Proof.
  intros r u x e e' v H. cbn [eval] in H.
  destruct (eval r u e) as [[[|f1 r1] v1]|]; try discriminate. injection H as <- <-. eauto.
Qed.

(* ------------------------------------------------------------------ expansion by hand *)

Section Rename.
Variable K : N.
Variable sg : name -> name.
Hypothesis sg_inj : forall x y, sg x = sg y -> x = y.
Hypothesis sg_fresh : forall x, (K <= sg x)%N.

Definition ren_vars (l : list (name * Z)) : list (name * Z) := map (fun p => (sg (fst p), snd p)) l.
Definition ren_frame (f : frame) : frame := mkFrame (ftyp f) (ren_vars (fvars f)).

Definition E1 (J : list frame) (v : list (name * Z)) (r : env) : env := J ++ mkFrame FBoundary v :: r.
Definition E2 (J : list frame) (v : list (name * Z)) (r : env) : env :=
  map ren_frame J ++ mkFrame FDefault (ren_vars v) :: r.
Definition sc_of (J : list frame) (v : list (name * Z)) : scope := map frame_names J ++ [map fst v].

Lemma sg_eqb : forall x y, N.eqb (sg x) (sg y) = N.eqb x y.
Proof.
  intros x y. destruct (N.eqb x y) eqn:E.
  - apply N.eqb_eq in E. subst. apply N.eqb_refl.
  - apply N.eqb_neq. intro H. apply sg_inj in H. apply N.eqb_neq in E. contradiction.
Qed.

Lemma lookup_ren : forall l x, lookup (ren_vars l) (sg x) = lookup l x.
Proof.
  induction l as [|[y w] l IH]; intros x; cbn; [reflexivity|].
  rewrite sg_eqb. destruct (N.eqb x y); auto.
Qed.

Lemma lookup_ren_low : forall l x, (x < K)%N -> lookup (ren_vars l) x = None.
Proof.
  induction l as [|[y w] l IH]; intros x Hx; cbn; [reflexivity|].
  destruct (N.eqb x (sg y)) eqn:E.
  - apply N.eqb_eq in E. pose proof (sg_fresh y). lia.
  - auto.
Qed.

Lemma set_ren : forall l x v, set (ren_vars l) (sg x) v = ren_vars (set l x v).
Proof.
  induction l as [|[y w] l IH]; intros x v; cbn; [reflexivity|].
  rewrite sg_eqb. destruct (N.eqb x y); cbn; [reflexivity | now rewrite IH].
Qed.

Lemma replace_ren : forall l x v, replace (ren_vars l) (sg x) v = ren_vars (replace l x v).
Proof.
  induction l as [|[y w] l IH]; intros x v; cbn; [reflexivity|].
  rewrite sg_eqb. destruct (N.eqb x y); cbn; [reflexivity | now rewrite IH].
Qed.

Lemma replace_absent : forall l x v, lookup l x = None -> replace l x v = l.
Proof.
  induction l as [|[y w] l IH]; intros x v H; cbn in *; [reflexivity|].
  destruct (N.eqb x y); [discriminate | now rewrite IH].
Qed.

Lemma get_ren : forall f x, get (ren_frame f) (sg x) = get f x.
Proof. intros. unfold get, ren_frame. cbn. apply lookup_ren. Qed.

Lemma get_ren_low : forall f x, (x < K)%N -> get (ren_frame f) x = None.
Proof. intros. unfold get, ren_frame. cbn. now apply lookup_ren_low. Qed.

Lemma bound_cons : forall f J v x,
  bound (sc_of (f :: J) v) x = in_names (frame_names f) x || bound (sc_of J v) x.
Proof. reflexivity. Qed.

Lemma get_none_names : forall f x, get f x = None <-> in_names (frame_names f) x = false.
Proof. intros. unfold get, frame_names. apply lookup_none_names. Qed.

(* the three resolution cases in one statement *)
Lemma resolve_rel : forall J v r x u,
  env_below K r = true -> (x < K)%N ->
  resolve (E2 J v r) (ren_name sg (sc_of J v) u x) u = resolve (E1 J v r) x u.
Proof.
  induction J as [|f J IH]; intros v r x u Hr Hx.
  - unfold E1, E2, sc_of, ren_name. cbn [map app resolve bound existsb ftyp get fvars].
    rewrite orb_false_r. unfold get; cbn [fvars].
    destruct u.
    + destruct (in_names (map fst v) x) eqn:Eb.
      * rewrite lookup_ren. destruct (lookup_some_names _ _ Eb) as [w ->]. reflexivity.
      * rewrite (lookup_ren_low _ _ Hx). apply lookup_none_names in Eb. rewrite Eb. reflexivity.
    + rewrite lookup_ren. destruct (lookup v x); [reflexivity|].
      rewrite (resolve_below K r (sg x) false Hr (sg_fresh x)). reflexivity.
  - specialize (IH v r x u Hr Hx).
    unfold E1, E2 in *. cbn [map app resolve]. unfold ren_name in *. rewrite bound_cons.
    destruct u.
    + destruct (in_names (frame_names f) x) eqn:Ef; cbn [orb].
      * rewrite get_ren. destruct (get f x) eqn:Eg; [reflexivity|].
        apply get_none_names in Eg. congruence.
      * pose proof Ef as Eg. apply get_none_names in Eg. rewrite Eg.
        destruct (bound (sc_of J v) x) eqn:Eb.
        -- rewrite get_ren, Eg. cbn [ren_frame ftyp]. rewrite IH. reflexivity.
        -- rewrite (get_ren_low _ _ Hx). cbn [ren_frame ftyp]. rewrite IH. reflexivity.
    + rewrite get_ren. destruct (get f x); [reflexivity|]. cbn [ren_frame ftyp]. rewrite IH. reflexivity.
Qed.

(* related environments after a step *)
Definition relenv (n : nat) (sc : scope) (r : env) (e1 e2 : env) : Prop :=
  exists J v r', e1 = E1 J v r' /\ e2 = E2 J v r' /\ length J = n /\ sc_of J v = sc /\ shape r' = shape r.

Definition relres (n : nat) (sc : scope) (r : env) (a b : result) : Prop :=
  match a, b with
  | None, None => True
  | Some (e1, o1), Some (e2, o2) => o1 = o2 /\ relenv n sc r e1 e2
  | _, _ => False
  end.

Definition relopt (n : nat) (sc : scope) (r : env) (a b : option env) : Prop :=
  match a, b with
  | None, None => True
  | Some e1, Some e2 => relenv n sc r e1 e2
  | _, _ => False
  end.

Lemma sc_of_replace_head : forall f J v x w,
  sc_of (mkFrame (ftyp f) (replace (fvars f) x w) :: J) v = sc_of (f :: J) v.
Proof. intros. unfold sc_of. cbn. unfold frame_names. cbn. now rewrite names_replace. Qed.

Lemma assign_rel : forall J v r x u w,
  env_below K r = true -> (x < K)%N ->
  relopt (length J) (sc_of J v) r
    (assign (E1 J v r) x u w) (assign (E2 J v r) (ren_name sg (sc_of J v) u x) u w).
Proof.
  induction J as [|f J IH]; intros v r x u w Hr Hx.
  - unfold E1, E2, sc_of, ren_name. cbn [map app length bound existsb]. rewrite orb_false_r.
    rewrite !assign_cons. unfold get. cbn [fvars ftyp].
    destruct u.
    + destruct (in_names (map fst v) x) eqn:Eb.
      * rewrite lookup_ren. destruct (lookup_some_names _ _ Eb) as [w0 ->]. cbn.
        exists [], (replace v x w), r. unfold E1, E2, sc_of. cbn. rewrite replace_ren, names_replace. auto.
      * rewrite (lookup_ren_low _ _ Hx). apply lookup_none_names in Eb. rewrite Eb.
        unfold assign. destruct (resolve r x true) as [[d w0]|]; cbn; [|exact I].
        exists [], v, (update r d x w). unfold E1, E2, sc_of. cbn. rewrite shape_update. auto.
    + rewrite lookup_ren. destruct (lookup v x); cbn.
      * exists [], (replace v x w), r. unfold E1, E2, sc_of. cbn. rewrite replace_ren, names_replace. auto.
      * unfold assign. rewrite (resolve_below K r (sg x) false Hr (sg_fresh x)). exact I.
  - specialize (IH v r x u w Hr Hx).
    assert (Lift : forall a b, relopt (length J) (sc_of J v) r a b ->
              relopt (length (f :: J)) (sc_of (f :: J) v) r
                (option_map (cons f) a) (option_map (cons (ren_frame f)) b)).
    { intros [a|] [b|]; cbn; auto. intros (J' & v' & r' & -> & -> & Hl & Hs & Hsh).
      exists (f :: J'), v', r'. unfold E1, E2, sc_of in *. cbn. repeat split; auto. now rewrite Hs. }
    assert (Here : relopt (length (f :: J)) (sc_of (f :: J) v) r
              (Some (mkFrame (ftyp f) (replace (fvars f) x w) :: J ++ mkFrame FBoundary v :: r))
              (Some (mkFrame (ftyp f) (replace (ren_vars (fvars f)) (sg x) w) :: map ren_frame J ++ mkFrame FDefault (ren_vars v) :: r))).
    { cbn. exists (mkFrame (ftyp f) (replace (fvars f) x w) :: J), v, r.
      unfold E1, E2. cbn. unfold ren_frame at 1. cbn. rewrite replace_ren.
      repeat split; auto. apply sc_of_replace_head. }
    unfold E1, E2 in *. cbn [map app]. rewrite !assign_cons. unfold ren_name in *. rewrite bound_cons.
    destruct u.
    + destruct (in_names (frame_names f) x) eqn:Ef; cbn [orb].
      * rewrite get_ren. destruct (get f x) eqn:Eg.
        -- cbn [ren_frame ftyp fvars]. apply Here.
        -- apply get_none_names in Eg. congruence.
      * pose proof Ef as Eg. apply get_none_names in Eg. rewrite Eg.
        destruct (bound (sc_of J v) x) eqn:Eb.
        -- rewrite get_ren, Eg. cbn [ren_frame ftyp].
           destruct (ftyp f); apply Lift; exact IH.
        -- rewrite (get_ren_low _ _ Hx). cbn [ren_frame ftyp].
           destruct (ftyp f); apply Lift; exact IH.
    + rewrite get_ren. destruct (get f x) eqn:Eg.
      * cbn [ren_frame ftyp fvars]. apply Here.
      * cbn [ren_frame ftyp]. destruct (ftyp f); try (apply Lift; exact IH). exact I.
Qed.

Definition releres (n : nat) (sc : scope) (r : env) (a b : eres) : Prop :=
  match a, b with
  | None, None => True
  | Some (e1, v1), Some (e2, v2) => v1 = v2 /\ relenv n sc r e1 e2
  | _, _ => False
  end.

Lemma relres_shape : forall n sc r r0 a b, shape r0 = shape r -> relres n sc r0 a b -> relres n sc r a b.
Proof.
  intros n sc r r0 [[e1 o1]|] [[e2 o2]|] Hs H; cbn in *; auto.
  destruct H as [Ho (J & v & r' & -> & -> & Hl & Hsc & Hsh)]. split; [exact Ho|].
  exists J, v, r'. repeat split; auto. congruence.
Qed.

Lemma rename_expr_scope_tl : forall e sc u, tl (snd (rename_expr sg sc u e)) = tl sc.
Proof.
  induction e; intros sc u; cbn [rename_expr]; try reflexivity.
  - destruct (rename_expr sg sc u e1) as [a' sc1] eqn:E1.
    destruct (rename_expr sg sc1 u e2) as [b' sc2] eqn:E2. cbn.
    pose proof (IHe1 sc u) as H1. pose proof (IHe2 sc1 u) as H2. rewrite E1 in H1. rewrite E2 in H2.
    cbn in *. congruence.
  - destruct (rename_expr sg sc true e) as [e'' sc'] eqn:E. pose proof (IHe sc true) as H. now rewrite E in H.
  - destruct (rename_expr sg sc u e) as [e'' sc'] eqn:E. pose proof (IHe sc u) as H. rewrite E in H. cbn in *.
    destruct sc'; cbn in *; auto.
  - destruct (rename_expr sg sc u e) as [e'' sc'] eqn:E. pose proof (IHe sc u) as H. now rewrite E in H.
Qed.

(* evaluation of an expression and of its renaming: same value, related environments (binders
   and assignments inside operands included) *)
Lemma eval_rel : forall e u J v r,
  env_below K r = true -> expr_below K e = true ->
  releres (length J) (snd (rename_expr sg (sc_of J v) u e)) r
    (eval (E1 J v r) u e) (eval (E2 J v r) u (fst (rename_expr sg (sc_of J v) u e))).
Proof.
  induction e; intros u J v r Hr He; cbn [expr_below] in He.
  - cbn. split; [reflexivity|]. exists J, v, r. auto.
  - apply N.ltb_lt in He. cbn [rename_expr fst snd eval]. rewrite resolve_rel by assumption.
    destruct (resolve (E1 J v r) x u) as [[d w]|]; cbn; auto. split; [reflexivity|]. exists J, v, r. auto.
  - apply andb_true_iff in He as [H1 H2]. cbn [rename_expr].
    pose proof (IHe1 u J v r Hr H1) as G1.
    destruct (rename_expr sg (sc_of J v) u e1) as [a' sc1] eqn:Ea. cbn [fst snd] in G1.
    destruct (rename_expr sg sc1 u e2) as [b' sc2] eqn:Eb. cbn [fst snd eval].
    destruct (eval (E1 J v r) u e1) as [[x1 y1]|]; destruct (eval (E2 J v r) u a') as [[x2 y2]|];
      cbn in G1; try contradiction; [|exact I].
    destruct G1 as [-> (J' & v' & r' & -> & -> & Hl & Hsc & Hsh)].
    assert (Hr' : env_below K r' = true) by (now rewrite (env_below_shape K r' r)).
    pose proof (IHe2 u J' v' r' Hr' H2) as G2. rewrite Hsc, Eb in G2. cbn [fst snd] in G2. rewrite Hl in G2.
    destruct (eval (E1 J' v' r') u e2) as [[x3 y3]|]; destruct (eval (E2 J' v' r') u b') as [[x4 y4]|];
      cbn in G2; try contradiction; [|exact I].
    destruct G2 as [-> (J2 & v2 & r2 & -> & -> & Hl2 & Hsc2 & Hsh2)]. split; [reflexivity|].
    exists J2, v2, r2. repeat split; auto. congruence.
  - cbn [rename_expr]. pose proof (IHe true J v r Hr He) as H.
    destruct (rename_expr sg (sc_of J v) true e) as [e'' sc'] eqn:E. cbn [fst snd eval] in *. exact H.
  - apply andb_true_iff in He as [Hx He]. apply N.ltb_lt in Hx. cbn [rename_expr].
    pose proof (IHe u J v r Hr He) as G.
    destruct (rename_expr sg (sc_of J v) u e) as [e'' sc'] eqn:Ee. cbn [fst snd eval] in *.
    destruct (eval (E1 J v r) u e) as [[x1 y1]|]; destruct (eval (E2 J v r) u e'') as [[x2 y2]|];
      cbn in G; try contradiction; [|exact I].
    destruct G as [-> (J' & v' & r' & -> & -> & Hl & Hsc & Hsh)]. rewrite <- Hsc.
    destruct J' as [|f J']; unfold E1, E2; cbn [map app]; cbn.
    + split; [reflexivity|]. exists [], (set v' x y2), r'. unfold E1, E2, sc_of, add. cbn.
      rewrite set_ren, names_set. auto.
    + split; [reflexivity|]. exists (add f x y2 :: J'), v', r'. unfold E1, E2, sc_of, add, ren_frame. cbn.
      rewrite set_ren. unfold frame_names. cbn. rewrite names_set. auto.
  - apply andb_true_iff in He as [Hx He]. apply N.ltb_lt in Hx. cbn [rename_expr].
    pose proof (IHe u J v r Hr He) as G.
    destruct (rename_expr sg (sc_of J v) u e) as [e'' sc'] eqn:Ee. cbn [fst snd] in *. rewrite !eval_set.
    destruct (eval (E1 J v r) u e) as [[x1 y1]|]; destruct (eval (E2 J v r) u e'') as [[x2 y2]|];
      cbn in G; try contradiction; [|exact I].
    destruct G as [-> (J' & v' & r' & -> & -> & Hl & Hsc & Hsh)].
    assert (Hr' : env_below K r' = true) by (now rewrite (env_below_shape K r' r)).
    pose proof (assign_rel J' v' r' x u y2 Hr' Hx) as H. rewrite Hsc, Hl in H.
    destruct (assign (E1 J' v' r') x u y2) as [a1|]; destruct (assign (E2 J' v' r') _ u y2) as [a2|];
      cbn in H; try contradiction; [|exact I].
    cbn. split; [reflexivity|].
    destruct H as (J2 & v2 & r2 & -> & -> & Hl2 & Hsc2 & Hsh2). exists J2, v2, r2. repeat split; auto. congruence.
Qed.

Lemma rename_scope_tl : forall s sc u, tl (snd (rename sg sc u s)) = tl sc.
Proof.
  induction s; intros sc u; cbn [rename]; try reflexivity.
  - destruct (rename sg sc u s1) as [a' sc1] eqn:E1.
    destruct (rename sg sc1 u s2) as [b' sc2] eqn:E2. cbn.
    pose proof (IHs1 sc u) as H1. pose proof (IHs2 sc1 u) as H2. rewrite E1 in H1. rewrite E2 in H2.
    cbn in *. congruence.
  - pose proof (rename_expr_scope_tl e sc u) as H. destruct (rename_expr sg sc u e) as [e' sc']. exact H.
  - pose proof (rename_expr_scope_tl e sc u) as H. destruct (rename_expr sg sc u e) as [e' sc']. exact H.
  - destruct (rename_expr sg ([] :: sc) u c) as [c' sc1]. reflexivity.
  - destruct (rename sg sc true s) as [b' sc'] eqn:E. pose proof (IHs sc true) as H. now rewrite E in H.
Qed.

Lemma ren_frame_empty : forall t, ren_frame (mkFrame t []) = mkFrame t [].
Proof. reflexivity. Qed.

(* entering and leaving a scope on both sides *)
Lemma scoped_rel : forall t J v r k1 k2 sc',
  tl sc' = sc_of J v ->
  relres (S (length J)) sc' r (k1 (E1 (mkFrame t [] :: J) v r)) (k2 (E2 (mkFrame t [] :: J) v r)) ->
  relres (length J) (sc_of J v) r (scoped t (E1 J v r) k1) (scoped t (E2 J v r) k2).
Proof.
  intros t J v r k1 k2 sc' Htl H. unfold scoped, push.
  change (mkFrame t [] :: E1 J v r) with (E1 (mkFrame t [] :: J) v r).
  change (mkFrame t [] :: E2 J v r) with (E2 (mkFrame t [] :: J) v r).
  destruct (k1 _) as [[e1 o1]|]; destruct (k2 _) as [[e2 o2]|]; cbn in *; auto.
  destruct H as [Ho (J' & v' & r' & -> & -> & Hl & Hs & Hsh)]. split; [exact Ho|].
  destruct J' as [|f' J']; cbn in Hl; [discriminate|].
  exists J', v', r'. unfold E1, E2, pop. cbn. repeat split; auto.
  rewrite <- Htl, <- Hs. reflexivity.
Qed.

Lemma relres_bind : forall n sc sc' r a b k1 k2,
  relres n sc r a b ->
  (forall e1 e2, relenv n sc r e1 e2 -> relres n sc' r (k1 e1) (k2 e2)) ->
  relres n sc' r (bind a k1) (bind b k2).
Proof.
  intros n sc sc' r [[e1 o1]|] [[e2 o2]|] k1 k2 H Hk; cbn in *; auto; try contradiction.
  destruct H as [-> He]. specialize (Hk _ _ He).
  destruct (k1 e1) as [[e1' o1']|]; destruct (k2 e2) as [[e2' o2']|]; cbn in *; auto.
  destruct Hk as [-> Hk]. auto.
Qed.

Lemma rename_rel : forall s m u J v r,
  env_below K r = true -> stmt_below K s = true ->
  relres (length J) (snd (rename sg (sc_of J v) u s)) r
    (run m (E1 J v r) u s) (run m (E2 J v r) u (fst (rename sg (sc_of J v) u s))).
Proof.
  induction s; intros m u J v r Hr Hs; cbn [stmt_below] in Hs.
  - cbn. split; [reflexivity|]. exists J, v, r. auto.
  - apply andb_true_iff in Hs as [Hs1 Hs2]. cbn [rename].
    pose proof (IHs1 m u J v r Hr Hs1) as H1.
    destruct (rename sg (sc_of J v) u s1) as [a' sc1] eqn:Ea. cbn [fst snd] in H1.
    destruct (rename sg sc1 u s2) as [b' sc2] eqn:Eb. cbn [fst snd run].
    eapply relres_bind; [exact H1|].
    intros e1 e2 (J' & v' & r' & -> & -> & Hl & Hsc & Hsh).
    assert (Hr' : env_below K r' = true) by (now rewrite (env_below_shape K r' r)).
    pose proof (IHs2 m u J' v' r' Hr' Hs2) as H2. rewrite Hsc, Eb in H2. cbn [fst snd] in H2.
    rewrite Hl in H2.
    destruct (run m (E1 J' v' r') u s2) as [[x1 y1]|]; destruct (run m (E2 J' v' r') u b') as [[x2 y2]|]; cbn in *; auto.
    destruct H2 as [Ho (J2 & v2 & r2 & -> & -> & Hl2 & Hsc2 & Hsh2)]. split; [exact Ho|].
    exists J2, v2, r2. repeat split; auto. congruence.
  - cbn [rename]. pose proof (eval_rel e u J v r Hr Hs) as G.
    destruct (rename_expr sg (sc_of J v) u e) as [e' sc'] eqn:Ee. cbn [fst snd run] in *.
    destruct (eval (E1 J v r) u e) as [[x1 y1]|]; destruct (eval (E2 J v r) u e') as [[x2 y2]|];
      cbn in G; try contradiction; [|exact I].
    destruct G as [_ G]. cbn. auto.
  - cbn [rename]. pose proof (eval_rel e u J v r Hr Hs) as G.
    destruct (rename_expr sg (sc_of J v) u e) as [e' sc'] eqn:Ee. cbn [fst snd run] in *.
    destruct (eval (E1 J v r) u e) as [[x1 y1]|]; destruct (eval (E2 J v r) u e') as [[x2 y2]|];
      cbn in G; try contradiction; [|exact I].
    destruct G as [-> G]. cbn. auto.
  - cbn [rename fst snd run].
    apply scoped_rel with (sc' := snd (rename sg ([] :: sc_of J v) u s)).
    + apply rename_scope_tl.
    + apply (IHs m u (mkFrame FDefault [] :: J) v r Hr Hs).
  - apply andb_true_iff in Hs as [Hs Hs2]. apply andb_true_iff in Hs as [Hc Hs1].
    cbn [rename].
    assert (Branch : forall sb J0 v0 r0, stmt_below K sb = true -> env_below K r0 = true -> shape r0 = shape r ->
              (forall m u J v r, env_below K r = true -> stmt_below K sb = true ->
                 relres (length J) (snd (rename sg (sc_of J v) u sb)) r
                   (run m (E1 J v r) u sb) (run m (E2 J v r) u (fst (rename sg (sc_of J v) u sb)))) ->
              relres (length J0) (sc_of J0 v0) r
                (scoped FCond (E1 J0 v0 r0) (fun r2 => run m r2 u sb))
                (scoped FCond (E2 J0 v0 r0) (fun r2 => run m r2 u (fst (rename sg ([] :: sc_of J0 v0) u sb))))).
    { intros sb J0 v0 r0 Hsb Hr0 Hsh0 IHb. apply (relres_shape _ _ r r0 _ _ Hsh0).
      apply scoped_rel with (sc' := snd (rename sg ([] :: sc_of J0 v0) u sb)).
      - apply rename_scope_tl.
      - apply (IHb m u (mkFrame FCond [] :: J0) v0 r0 Hr0 Hsb). }
    pose proof (eval_rel c u (mkFrame FDefault [] :: J) v r Hr Hc) as Gc.
    change (sc_of (mkFrame FDefault [] :: J) v) with ([] :: sc_of J v) in Gc.
    pose proof (rename_expr_scope_tl c ([] :: sc_of J v) u) as Tc.
    destruct (rename_expr sg ([] :: sc_of J v) u c) as [c' sc1] eqn:Ec. cbn [fst snd tl] in *. cbn [run].
    apply scoped_rel with (sc' := sc1); [exact Tc|]. cbn beta.
    destruct (eval (E1 (mkFrame FDefault [] :: J) v r) u c) as [[x1 z1]|];
      destruct (eval (E2 (mkFrame FDefault [] :: J) v r) u c') as [[x2 z2]|];
      cbn in Gc; try contradiction; [|exact I].
    destruct Gc as [-> (J1 & v1 & r1 & -> & -> & Hl1 & Hsc1 & Hsh1)].
    assert (Hr1 : env_below K r1 = true) by (now rewrite (env_below_shape K r1 r)).
    rewrite <- Hl1, <- Hsc1.
    destruct m.
    + eapply relres_bind.
      * apply (Branch s1 J1 v1 r1 Hs1 Hr1 Hsh1 IHs1).
      * intros e1 e2 (J' & v' & r' & -> & -> & Hl & Hsc & Hsh).
        assert (Hr' : env_below K r' = true) by (now rewrite (env_below_shape K r' r)).
        pose proof (Branch s2 J' v' r' Hs2 Hr' Hsh IHs2) as H2. rewrite Hsc, Hl in H2. exact H2.
    + destruct (Z.ltb 0 z2).
      * apply (Branch s1 J1 v1 r1 Hs1 Hr1 Hsh1 IHs1).
      * apply (Branch s2 J1 v1 r1 Hs2 Hr1 Hsh1 IHs2).
  - cbn [rename fst snd run].
    apply scoped_rel with (sc' := snd (rename sg ([] :: sc_of J v) u s)).
    + apply rename_scope_tl.
    + apply (IHs m u (mkFrame FBoundary [] :: J) v r Hr Hs).
  - cbn [rename]. pose proof (IHs m true J v r Hr Hs) as H.
    destruct (rename sg (sc_of J v) true s) as [b' sc'] eqn:E. cbn [fst snd run] in *. exact H.
Qed.

Theorem expansion_equiv : forall m r u b,
  env_below K r = true -> stmt_below K b = true ->
  run m r u (expand_by_hand sg u b) = run m r u (SBoundary b).
Proof.
  intros m r u b Hr Hb. unfold expand_by_hand. cbn [run].
  pose proof (rename_rel b m u [] [] r Hr Hb) as H.
  unfold scoped, push.
  change (mkFrame FBoundary [] :: r) with (E1 [] [] r).
  change (mkFrame FDefault [] :: r) with (E2 [] [] r).
  change [[]] with (sc_of [] []).
  destruct (run m (E1 [] [] r) u b) as [[e1 o1]|];
    destruct (run m (E2 [] [] r) u _) as [[e2 o2]|]; cbn in H; try contradiction; auto.
  destruct H as [-> (J & v & r' & -> & -> & Hl & _ & _)].
  destruct J; [|discriminate]. reflexivity.
Qed.

End Rename.

(* ------------------------------------------------------------------ the checker pass is sound for execution:
   a program whose every branch resolves (Static) runs without an unresolved name (Dynamic) *)

Lemma shape_cons_inv : forall f r e', shape (f :: r) = shape e' ->
  exists g r', e' = g :: r' /\ ftyp g = ftyp f /\ frame_names g = frame_names f /\ shape r = shape r'.
Proof.
  intros f r [|g r'] H; cbn in H; [discriminate|]. injection H as Ht Hn Hr. exists g, r'. auto.
Qed.

Lemma get_names : forall f g x, frame_names f = frame_names g ->
  (get f x = None <-> get g x = None).
Proof.
  intros f g x H. unfold get. rewrite !lookup_none_names. fold (frame_names f). fold (frame_names g).
  now rewrite H.
Qed.

Lemma resolve_shape : forall r r' x u, shape r = shape r' ->
  option_map fst (resolve r x u) = option_map fst (resolve r' x u).
Proof.
  induction r as [|f r IH]; intros r' x u H.
  - destruct r'; [reflexivity | discriminate].
  - destruct (shape_cons_inv _ _ _ H) as (g & r0 & -> & Ht & Hn & Hr). cbn [resolve].
    rewrite Ht.
    assert (S : forall a b, option_map fst a = option_map fst b -> option_map fst (shift a) = option_map fst (shift b)).
    { intros [[d v]|] [[d' v']|]; cbn; congruence. }
    destruct (get f x) eqn:Ef; destruct (get g x) eqn:Eg.
    + reflexivity.
    + exfalso. assert (get f x = None) by (apply (get_names g f x Hn); auto). congruence.
    + exfalso. assert (get g x = None) by (apply (get_names g f x Hn); auto). congruence.
    + destruct (ftyp f); try destruct u; auto.
Qed.

Definition is_some {A} (o : option A) : bool := match o with Some _ => true | None => false end.

Lemma shape_add : forall f g x v w, ftyp f = ftyp g -> frame_names f = frame_names g ->
  (ftyp (add f x v), frame_names (add f x v)) = (ftyp (add g x w), frame_names (add g x w)).
Proof.
  intros f g x v w Ht Hn. unfold add, frame_names in *. cbn. rewrite !names_set, Hn, Ht. reflexivity.
Qed.

Lemma eval_static : forall e r r' u r1 v1,
  shape r = shape r' -> eval r u e = Some (r1, v1) ->
  exists r2 v2, eval r' u e = Some (r2, v2) /\ shape r2 = shape r1.
Proof.
  induction e; intros r r' u r1 v1 Hs H; cbn [eval] in *.
  - injection H as <- <-. eauto.
  - pose proof (resolve_shape r r' x u Hs) as G.
    destruct (resolve r x u) as [[d w]|]; [|discriminate].
    destruct (resolve r' x u) as [[d' w']|]; [|discriminate]. injection H as <- <-. eauto.
  - destruct (eval r u e1) as [[ra xa]|] eqn:Ea; [|discriminate].
    destruct (eval ra u e2) as [[rb xb]|] eqn:Eb; [|discriminate]. injection H as <- <-.
    destruct (IHe1 _ _ _ _ _ Hs Ea) as (ra' & xa' & -> & Hsa).
    destruct (IHe2 _ _ _ _ _ (eq_sym Hsa) Eb) as (rb' & xb' & -> & Hsb). eauto.
  - eapply IHe; eauto.
  - destruct (eval r u e) as [[ra xa]|] eqn:Ea; [|discriminate].
    destruct (IHe _ _ _ _ _ Hs Ea) as (ra' & xa' & -> & Hsa).
    destruct ra as [|f r0]; [discriminate|]. injection H as <- <-.
    destruct (shape_cons_inv _ _ _ (eq_sym Hsa)) as (g & r0' & -> & Ht & Hn & Hr).
    exists (add g x xa' :: r0'), xa'. split; [reflexivity|]. cbn [shape map].
    rewrite (shape_add g f x xa' xa Ht Hn). f_equal. symmetry. exact Hr.
  - destruct (eval r u e) as [[ra xa]|] eqn:Ea; [|discriminate].
    destruct (IHe _ _ _ _ _ Hs Ea) as (ra' & xa' & -> & Hsa).
    pose proof (resolve_shape ra ra' x u (eq_sym Hsa)) as G2.
    destruct (resolve ra x u) as [[d w]|]; [|discriminate].
    destruct (resolve ra' x u) as [[d' w']|]; [|discriminate]. injection H as <- <-.
    eexists _, _. split; [reflexivity|]. rewrite !shape_update. exact Hsa.
Qed.

Lemma scoped_shape : forall m t r u b r1 o,
  scoped t r (fun r' => run m r' u b) = Some (r1, o) -> shape r1 = shape r.
Proof.
  intros m t r u b r1 o H. unfold scoped, push in H.
  destruct (run m (mkFrame t [] :: r) u b) as [[r2 o2]|] eqn:E; [|discriminate].
  injection H as <- <-. destruct (run_shape _ _ _ _ _ _ _ E) as (f' & r' & -> & _ & Hs). exact Hs.
Qed.

Lemma shape_push : forall t r r', shape r = shape r' -> shape (mkFrame t [] :: r) = shape (mkFrame t [] :: r').
Proof. intros t r r' H. unfold shape in *. cbn. now rewrite H. Qed.

Lemma static_sound : forall s r r' u r1 o1,
  shape r = shape r' -> run Static r u s = Some (r1, o1) ->
  exists r2 o2, run Dynamic r' u s = Some (r2, o2) /\ shape r2 = shape r1.
Proof.
  induction s; intros r r' u r1 o1 Hs H; cbn [run] in *.
  - injection H as <- <-. eauto.
  - unfold bind in *. destruct (run Static r u s1) as [[ra oa]|] eqn:Ea; [|discriminate].
    destruct (run Static ra u s2) as [[rb ob]|] eqn:Eb; [|discriminate]. injection H as <- <-.
    destruct (IHs1 _ _ _ _ _ Hs Ea) as (ra' & oa' & -> & Hsa).
    destruct (IHs2 _ _ _ _ _ (eq_sym Hsa) Eb) as (rb' & ob' & -> & Hsb). eauto.
  - destruct (eval r u e) as [[ra va]|] eqn:Ea; [|discriminate]. injection H as <- <-.
    destruct (eval_static _ _ _ _ _ _ Hs Ea) as (ra' & va' & -> & Hsa). eauto.
  - destruct (eval r u e) as [[ra va]|] eqn:Ea; [|discriminate]. injection H as <- <-.
    destruct (eval_static _ _ _ _ _ _ Hs Ea) as (ra' & va' & -> & Hsa). eauto.
  - unfold scoped, push in *.
    destruct (run Static (mkFrame FDefault [] :: r) u s) as [[ra oa]|] eqn:Ea; [|discriminate]. injection H as <- <-.
    assert (Hp : shape (mkFrame FDefault [] :: r) = shape (mkFrame FDefault [] :: r')) by (apply shape_push; assumption).
    destruct (IHs _ _ _ _ _ Hp Ea) as (ra' & oa' & -> & Hsa). eexists _, _. split; [reflexivity|].
    unfold pop. destruct ra', ra; cbn in *; try discriminate; auto. now injection Hsa.
  - unfold scoped at 1 in H. unfold scoped at 1. unfold push in *.
    assert (Hp : shape (mkFrame FDefault [] :: r) = shape (mkFrame FDefault [] :: r')) by (apply shape_push; assumption).
    destruct (eval (mkFrame FDefault [] :: r) u c) as [[rc v]|] eqn:Ec; [|discriminate].
    destruct (eval_static _ _ _ _ _ _ Hp Ec) as (rc' & v' & -> & Hc').
    unfold bind in H.
    destruct (scoped FCond rc (fun r2 => run Static r2 u s1)) as [[ra oa]|] eqn:Ea; [|discriminate].
    destruct (scoped FCond ra (fun r2 => run Static r2 u s2)) as [[rb ob]|] eqn:Eb; [|discriminate].
    injection H as <- <-.
    pose proof (scoped_shape _ _ _ _ _ _ _ Ea) as Sa. pose proof (scoped_shape _ _ _ _ _ _ _ Eb) as Sb.
    assert (Branch : forall sb rin rin' rout oo,
              (forall r r' u r1 o1, shape r = shape r' -> run Static r u sb = Some (r1, o1) ->
                 exists r2 o2, run Dynamic r' u sb = Some (r2, o2) /\ shape r2 = shape r1) ->
              shape rin = shape rin' ->
              scoped FCond rin (fun r2 => run Static r2 u sb) = Some (rout, oo) ->
              exists r2 o2, scoped FCond rin' (fun r2 => run Dynamic r2 u sb) = Some (r2, o2) /\ shape r2 = shape rin').
    { intros sb rin rin' rout oo IHb Hin Hrun. unfold scoped, push in *.
      destruct (run Static (mkFrame FCond [] :: rin) u sb) as [[rc0 oc]|] eqn:Ec0; [|discriminate].
      assert (Hq : shape (mkFrame FCond [] :: rin) = shape (mkFrame FCond [] :: rin')) by (apply shape_push; assumption).
      destruct (IHb _ _ _ _ _ Hq Ec0) as (rc0' & oc' & Erun & Hsc). rewrite Erun.
      eexists _, _. split; [reflexivity|].
      destruct (run_shape _ _ _ _ _ _ _ Erun) as (f' & r0 & -> & _ & Hs0). exact Hs0. }
    destruct (Z.ltb 0 v').
    + destruct (Branch s1 _ _ _ _ IHs1 (eq_sym Hc') Ea) as (r2 & o2 & -> & S2).
      eexists _, _. split; [reflexivity|]. unfold pop.
      assert (shape r2 = shape rb) by congruence.
      destruct r2, rb; cbn in *; try discriminate; auto. now injection H.
    + assert (Hq : shape ra = shape rc') by congruence.
      destruct (Branch s2 _ _ _ _ IHs2 Hq Eb) as (r2 & o2 & -> & S2).
      eexists _, _. split; [reflexivity|]. unfold pop.
      assert (shape r2 = shape rb) by congruence.
      destruct r2, rb; cbn in *; try discriminate; auto. now injection H.
  - unfold scoped, push in *.
    destruct (run Static (mkFrame FBoundary [] :: r) u s) as [[ra oa]|] eqn:Ea; [|discriminate]. injection H as <- <-.
    assert (Hp : shape (mkFrame FBoundary [] :: r) = shape (mkFrame FBoundary [] :: r')) by (apply shape_push; assumption).
    destruct (IHs _ _ _ _ _ Hp Ea) as (ra' & oa' & -> & Hsa). eexists _, _. split; [reflexivity|].
    unfold pop. destruct ra', ra; cbn in *; try discriminate; auto. now injection Hsa.
  - eapply IHs; eauto.
Qed.

Theorem checked_programs_run : forall s r u,
  run Static r u s <> None -> run Dynamic r u s <> None.
Proof.
  intros s r u H. destruct (run Static r u s) as [[r1 o1]|] eqn:E; [|contradiction].
  destruct (static_sound s r r u r1 o1 eq_refl E) as (r2 & o2 & -> & _). discriminate.
Qed.

(* ------------------------------------------------------------------ all boundaries expanded by hand *)

Lemma expr_below_mono : forall T T' e, (T <= T')%N -> expr_below T e = true -> expr_below T' e = true.
Proof.
  induction e; intros Hle H; cbn in *; auto.
  - apply N.ltb_lt in H. apply N.ltb_lt. lia.
  - apply andb_true_iff in H as [H1 H2]. rewrite IHe1, IHe2; auto.
  - apply andb_true_iff in H as [H1 H2]. apply N.ltb_lt in H1. rewrite IHe; auto.
    rewrite andb_true_r. apply N.ltb_lt. lia.
  - apply andb_true_iff in H as [H1 H2]. apply N.ltb_lt in H1. rewrite IHe; auto.
    rewrite andb_true_r. apply N.ltb_lt. lia.
Qed.

Lemma stmt_below_mono : forall T T' s, (T <= T')%N -> stmt_below T s = true -> stmt_below T' s = true.
Proof.
  induction s; intros Hle H; cbn in *; auto.
  - apply andb_true_iff in H as [H1 H2]. rewrite IHs1, IHs2; auto.
  - eapply expr_below_mono; eauto.
  - eapply expr_below_mono; eauto.
  - apply andb_true_iff in H as [H H3]. apply andb_true_iff in H as [H1 H2].
    rewrite (expr_below_mono T T' c Hle H1), IHs1, IHs2; auto.
Qed.

Lemma env_below_mono : forall T T' r, (T <= T')%N -> env_below T r = true -> env_below T' r = true.
Proof.
  intros T T' r Hle. unfold env_below, frame_below. induction r as [|f r IH]; cbn; auto.
  intro H. apply andb_true_iff in H as [H1 H2]. rewrite IH; auto. rewrite andb_true_r.
  clear IH H2. induction (fvars f) as [|p l IHl]; cbn in *; auto.
  apply andb_true_iff in H1 as [Ha Hb]. rewrite IHl; auto. rewrite andb_true_r.
  apply N.ltb_lt in Ha. apply N.ltb_lt. lia.
Qed.

Lemma frame_below_add : forall T f x v, frame_below T f = true -> (x < T)%N -> frame_below T (add f x v) = true.
Proof.
  intros T f x v H Hx. unfold frame_below, add in *. cbn. induction (fvars f) as [|[y w] l IH]; cbn in *.
  - rewrite andb_true_r. now apply N.ltb_lt.
  - apply andb_true_iff in H as [H1 H2]. destruct (N.eqb x y); cbn; rewrite H1; cbn; auto.
Qed.

Lemma scoped_below : forall T t r k r' o,
  (forall r1, env_below T r1 = true -> forall r2 o2, k r1 = Some (r2, o2) -> env_below T r2 = true) ->
  env_below T r = true -> scoped t r k = Some (r', o) -> env_below T r' = true.
Proof.
  intros T t r k r' o Hk Hr H. unfold scoped, push in H.
  destruct (k (mkFrame t [] :: r)) as [[r2 o2]|] eqn:E; [|discriminate]. injection H as <- <-.
  assert (Hp : env_below T (mkFrame t [] :: r) = true) by (cbn; exact Hr).
  specialize (Hk _ Hp _ _ E). destruct r2; cbn in *; auto. apply andb_true_iff in Hk as [_ Hk]. exact Hk.
Qed.

Lemma eval_below : forall T e r u r' v,
  env_below T r = true -> expr_below T e = true -> eval r u e = Some (r', v) -> env_below T r' = true.
Proof.
  induction e; intros r u r' v Hr He H; cbn [eval expr_below] in *.
  - injection H as <- <-. exact Hr.
  - destruct (resolve r x u) as [[d w]|]; [|discriminate]. injection H as <- <-. exact Hr.
  - apply andb_true_iff in He as [H1 H2].
    destruct (eval r u e1) as [[ra xa]|] eqn:Ea; [|discriminate].
    destruct (eval ra u e2) as [[rb xb]|] eqn:Eb; [|discriminate]. injection H as <- <-.
    eapply IHe2; [eapply IHe1; eauto | exact H2 | exact Eb].
  - eapply IHe; eauto.
  - apply andb_true_iff in He as [Hx He]. apply N.ltb_lt in Hx.
    destruct (eval r u e) as [[ra xa]|] eqn:Ea; [|discriminate].
    pose proof (IHe _ _ _ _ Hr He Ea) as Ha.
    destruct ra as [|f r0]; [discriminate|]. injection H as <- <-.
    cbn in *. apply andb_true_iff in Ha as [G1 G2]. rewrite G2, andb_true_r. now apply frame_below_add.
  - apply andb_true_iff in He as [Hx He].
    destruct (eval r u e) as [[ra xa]|] eqn:Ea; [|discriminate].
    pose proof (IHe _ _ _ _ Hr He Ea) as Ha.
    destruct (resolve ra x u) as [[d w]|]; [|discriminate].
    injection H as <- <-. rewrite (env_below_shape T _ ra (shape_update ra d x xa)). exact Ha.
Qed.

Lemma run_below : forall T s m r u r' o,
  env_below T r = true -> stmt_below T s = true -> run m r u s = Some (r', o) -> env_below T r' = true.
Proof.
  induction s; intros m r u r' o Hr Hs H; cbn [run stmt_below] in *.
  - injection H as <- <-. exact Hr.
  - apply andb_true_iff in Hs as [Hs1 Hs2]. unfold bind in H.
    destruct (run m r u s1) as [[ra oa]|] eqn:Ea; [|discriminate].
    destruct (run m ra u s2) as [[rb ob]|] eqn:Eb; [|discriminate]. injection H as <- <-.
    eapply IHs2; [eapply IHs1; eauto | exact Hs2 | exact Eb].
  - destruct (eval r u e) as [[ra va]|] eqn:Ea; [|discriminate]. injection H as <- <-.
    eapply eval_below; eauto.
  - destruct (eval r u e) as [[ra va]|] eqn:Ea; [|discriminate]. injection H as <- <-.
    eapply eval_below; eauto.
  - eapply scoped_below; [|exact Hr|exact H]. intros r1 Hr1 r2 o2 E. cbn beta in E. eapply IHs; [exact Hr1|exact Hs|exact E].
  - apply andb_true_iff in Hs as [Hs Hs2]. apply andb_true_iff in Hs as [Hc Hs1].
    eapply scoped_below; [|exact Hr|exact H]. intros r1 Hr1 r2 o2 E. cbn beta in E.
    destruct (eval r1 u c) as [[rc z]|] eqn:Ec; [|discriminate].
    pose proof (eval_below _ _ _ _ _ _ Hr1 Hc Ec) as Hrc.
    assert (B1 : forall ra rb ob, env_below T ra = true ->
               scoped FCond ra (fun r2 => run m r2 u s1) = Some (rb, ob) -> env_below T rb = true).
    { intros ra rb ob Ha Eb. eapply scoped_below; [|exact Ha|exact Eb]. intros r3 H3 r4 o4 E4. cbn beta in E4. eapply IHs1; [exact H3|exact Hs1|exact E4]. }
    assert (B2 : forall ra rb ob, env_below T ra = true ->
               scoped FCond ra (fun r2 => run m r2 u s2) = Some (rb, ob) -> env_below T rb = true).
    { intros ra rb ob Ha Eb. eapply scoped_below; [|exact Ha|exact Eb]. intros r3 H3 r4 o4 E4. cbn beta in E4. eapply IHs2; [exact H3|exact Hs2|exact E4]. }
    destruct m.
    + unfold bind in E.
      destruct (scoped FCond rc (fun r2 => run Static r2 u s1)) as [[ra oa]|] eqn:Ea; [|discriminate].
      destruct (scoped FCond ra (fun r2 => run Static r2 u s2)) as [[rb ob]|] eqn:Eb; [|discriminate].
      injection E as <- <-. eapply B2; [eapply B1; eauto | exact Eb].
    + destruct (Z.ltb 0 z); [eapply B1 | eapply B2]; eauto.
  - eapply scoped_below; [|exact Hr|exact H]. intros r1 Hr1 r2 o2 E. cbn beta in E. eapply IHs; [exact Hr1|exact Hs|exact E].
  - eapply IHs; eauto.
Qed.

Section RenBelow.
Variables (T T' : N) (sg : name -> name).
Hypothesis T_le : (T <= T')%N.
Hypothesis sg_lt : forall x, (x < T)%N -> (sg x < T')%N.

Lemma ren_name_below : forall sc u x, (x < T)%N -> (ren_name sg sc u x < T')%N.
Proof. intros sc u x Hx. unfold ren_name. destruct u; [destruct (bound sc x)|]; auto; lia. Qed.

Lemma rename_expr_below : forall e sc u, expr_below T e = true -> expr_below T' (fst (rename_expr sg sc u e)) = true.
Proof.
  induction e; intros sc u H; cbn [rename_expr expr_below] in *; auto.
  - cbn. apply N.ltb_lt in H. apply N.ltb_lt. now apply ren_name_below.
  - apply andb_true_iff in H as [H1 H2]. pose proof (IHe1 sc u H1) as G1.
    destruct (rename_expr sg sc u e1) as [a' sc1]. pose proof (IHe2 sc1 u H2) as G2.
    destruct (rename_expr sg sc1 u e2) as [b' sc2]. cbn in *. now rewrite G1, G2.
  - pose proof (IHe sc true H) as G. destruct (rename_expr sg sc true e) as [e'' sc']. cbn in *. exact G.
  - apply andb_true_iff in H as [H1 H2]. apply N.ltb_lt in H1. pose proof (IHe sc u H2) as G.
    destruct (rename_expr sg sc u e) as [e'' sc']. cbn in *. rewrite G, andb_true_r. apply N.ltb_lt. auto.
  - apply andb_true_iff in H as [H1 H2]. apply N.ltb_lt in H1. pose proof (IHe sc u H2) as G.
    destruct (rename_expr sg sc u e) as [e'' sc']. cbn in *. rewrite G, andb_true_r. apply N.ltb_lt.
    now apply ren_name_below.
Qed.

Lemma rename_below : forall s sc u, stmt_below T s = true -> stmt_below T' (fst (rename sg sc u s)) = true.
Proof.
  induction s; intros sc u H; cbn [rename stmt_below] in *; auto.
  - apply andb_true_iff in H as [H1 H2]. pose proof (IHs1 sc u H1) as G1.
    destruct (rename sg sc u s1) as [a' sc1]. pose proof (IHs2 sc1 u H2) as G2.
    destruct (rename sg sc1 u s2) as [b' sc2]. cbn in *. now rewrite G1, G2.
  - pose proof (rename_expr_below e sc u H) as G. destruct (rename_expr sg sc u e) as [e' sc']. exact G.
  - pose proof (rename_expr_below e sc u H) as G. destruct (rename_expr sg sc u e) as [e' sc']. exact G.
  - cbn. now apply IHs.
  - apply andb_true_iff in H as [H H3]. apply andb_true_iff in H as [H1 H2].
    pose proof (rename_expr_below c ([] :: sc) u H1) as G. destruct (rename_expr sg ([] :: sc) u c) as [c' sc1].
    cbn in *. rewrite G, IHs1, IHs2; auto.
  - cbn. now apply IHs.
  - pose proof (IHs sc true H) as G. destruct (rename sg sc true s) as [b' sc']. cbn in *. exact G.
Qed.
End RenBelow.

Lemma scoped_ext : forall t r k1 k2, k1 (push t r) = k2 (push t r) -> scoped t r k1 = scoped t r k2.
Proof. intros. unfold scoped. now rewrite H. Qed.

Theorem expand_all_equiv : forall s n u,
  stmt_below n s = true ->
  (n <= snd (expand_all n u s))%N /\
  stmt_below (snd (expand_all n u s)) (fst (expand_all n u s)) = true /\
  forall m r, env_below n r = true -> run m r u (fst (expand_all n u s)) = run m r u s.
Proof.
  induction s; intros n u Hs; cbn [expand_all stmt_below] in *;
    try (cbn; repeat split; auto; lia).
  - apply andb_true_iff in Hs as [Hs1 Hs2].
    destruct (IHs1 n u Hs1) as (L1 & B1 & R1). destruct (expand_all n u s1) as [a' n1]. cbn [fst snd] in *.
    destruct (IHs2 n1 u (stmt_below_mono n n1 s2 L1 Hs2)) as (L2 & B2 & R2).
    destruct (expand_all n1 u s2) as [b' n2]. cbn [fst snd] in *.
    split; [lia|]. split.
    + cbn. rewrite (stmt_below_mono n1 n2 a' L2 B1), B2. reflexivity.
    + intros m r Hr. cbn [run]. rewrite (R1 m r Hr). unfold bind.
      destruct (run m r u s1) as [[ra oa]|] eqn:Ea; [|reflexivity].
      rewrite R2; [reflexivity|]. apply (env_below_mono n n1 ra L1). exact (run_below n s1 m r u ra oa Hr Hs1 Ea).
  - destruct (IHs n u Hs) as (L1 & B1 & R1). destruct (expand_all n u s) as [b' n1]. cbn [fst snd] in *.
    split; [exact L1|]. split; [exact B1|]. intros m r Hr. cbn [run]. apply scoped_ext. apply R1. cbn. exact Hr.
  - apply andb_true_iff in Hs as [Hs Hs2]. apply andb_true_iff in Hs as [Hc Hs1].
    destruct (IHs1 n u Hs1) as (L1 & B1 & R1). destruct (expand_all n u s1) as [t' n1]. cbn [fst snd] in *.
    destruct (IHs2 n1 u (stmt_below_mono n n1 s2 L1 Hs2)) as (L2 & B2 & R2).
    destruct (expand_all n1 u s2) as [e' n2]. cbn [fst snd] in *.
    split; [lia|]. split.
    + cbn. rewrite (expr_below_mono n n2 c ltac:(lia) Hc), (stmt_below_mono n1 n2 t' L2 B1), B2. reflexivity.
    + intros m r Hr. cbn [run]. apply scoped_ext. cbn beta.
      assert (Hp : env_below n (push FDefault r) = true) by (cbn; exact Hr).
      destruct (eval (push FDefault r) u c) as [[rc z]|] eqn:Ec; [|reflexivity].
      pose proof (eval_below _ _ _ _ _ _ Hp Hc Ec) as Hrc.
      assert (E1 : forall ra, env_below n ra = true ->
                 scoped FCond ra (fun r2 => run m r2 u t') = scoped FCond ra (fun r2 => run m r2 u s1)).
      { intros ra Ha. apply scoped_ext. apply R1. cbn. exact Ha. }
      assert (E2 : forall ra, env_below n ra = true ->
                 scoped FCond ra (fun r2 => run m r2 u e') = scoped FCond ra (fun r2 => run m r2 u s2)).
      { intros ra Ha. apply scoped_ext. apply R2. cbn. apply (env_below_mono n n1 ra L1 Ha). }
      destruct m.
      * rewrite (E1 _ Hrc). unfold bind.
        destruct (scoped FCond rc (fun r2 => run Static r2 u s1)) as [[ra oa]|] eqn:Ea; [|reflexivity].
        rewrite E2; [reflexivity|].
        rewrite (env_below_shape n ra rc (scoped_shape _ _ _ _ _ _ _ Ea)). exact Hrc.
      * destruct (Z.ltb 0 z); [apply E1 | apply E2]; exact Hrc.
  - destruct (IHs n u Hs) as (L1 & B1 & R1). destruct (expand_all n u s) as [b' n1]. cbn [fst snd] in *.
    split; [lia|]. split.
    + unfold expand_by_hand. cbn [stmt_below].
      apply (rename_below n1 (n1 + n1)%N (fun x => (x + n1)%N)); auto; intros; lia.
    + intros m r Hr.
      rewrite (expansion_equiv n1 (fun x => (x + n1)%N)); auto.
      * cbn [run]. apply scoped_ext. apply R1. cbn. exact Hr.
      * intros x y H. lia.
      * intros x. lia.
      * apply (env_below_mono n n1 r L1 Hr).
  - destruct (IHs n true Hs) as (L1 & B1 & R1). destruct (expand_all n true s) as [b' n1]. cbn [fst snd] in *.
    split; [exact L1|]. split; [exact B1|]. intros m r Hr. cbn [run]. apply R1. exact Hr.
Qed.
