(* C21 - composition terms (Model/C21_Compose.v): the tree value/regex.go is supposed to build
   for a nested `+` / `*` expression denotes the composition of the leaf denotations. *)
From Coq Require Import ZArith List Bool Arith Lia.
From Elk Require Import Model.C21_RegexSyntax Model.C21_RegexSem Model.C21_Compose Proofs.C21_Regex.
Import ListNotations.
Open Scope Z_scope.

(* the regex VALUE (flags, tree of the source) of a term, built exactly like ConcatVal /
   RepeatVal build it: `+` compiles "(?f1:src1)(?f2:src2)" without flags (concat_tree), `* n`
   compiles "(?:src){n}" under the flags of its receiver (repeat_tree) *)
Fixpoint ctree (t : cterm) : flags * re :=
  match t with
  | CLeaf f a => (f, a)
  | CCat l r =>
      let '(f1, a1) := ctree l in
      let '(f2, a2) := ctree r in
      (no_flags, concat_tree f1 a1 f2 a2)
  | CRep t0 n => let '(f, a) := ctree t0 in (f, repeat_tree a n)
  end.

(* the same with ANY way of building the value of `+` and `*` *)
Fixpoint ctree_with (catw : flags -> re -> flags -> re -> flags * re) (repw : flags -> re -> list Z -> flags * re)
                    (t : cterm) : flags * re :=
  match t with
  | CLeaf f a => (f, a)
  | CCat l r =>
      let '(f1, a1) := ctree_with catw repw l in
      let '(f2, a2) := ctree_with catw repw r in
      catw f1 a1 f2 a2
  | CRep t0 n => let '(f, a) := ctree_with catw repw t0 in repw f a n
  end.

Section Sem.
Variable orbit : Z -> list Z.
Variable uni : list Z -> Z -> bool.
Variable posix : list Z -> Z -> bool.
Variable s : list Z.

Notation me := (me orbit uni posix s).
Notation cden := (cden orbit uni posix s).

Lemma titer_ext : forall (A B : tf), (forall X, A X = B X) -> forall k X, titer k A X = titer k B X.
Proof.
  intros A B H. induction k as [|k IH]; intros X; simpl; [reflexivity|]. rewrite H, IH. reflexivity.
Qed.

(* a way of building `+` / `*` values is FAITHFUL when one step has the right denotation *)
Definition cat_faithful (catw : flags -> re -> flags -> re -> flags * re) : Prop :=
  forall f1 a1 f2 a2 X,
    fst (me (fst (catw f1 a1 f2 a2)) (snd (catw f1 a1 f2 a2))) X = fst (me f2 a2) (fst (me f1 a1) X).
Definition rep_faithful (repw : flags -> re -> list Z -> flags * re) : Prop :=
  forall f a n X,
    fst (me (fst (repw f a n)) (snd (repw f a n))) X = titer (count n) (fst (me f a)) X.

Theorem compose_with_sound : forall catw repw, cat_faithful catw -> rep_faithful repw ->
  forall t X, fst (me (fst (ctree_with catw repw t)) (snd (ctree_with catw repw t))) X = cden t X.
Proof.
  intros catw repw Hc Hr. induction t as [f a|l IHl r IHr|t0 IH n]; intros X; simpl.
  - reflexivity.
  - destruct (ctree_with catw repw l) as [f1 a1]. destruct (ctree_with catw repw r) as [f2 a2].
    simpl in *. rewrite Hc. unfold tcomp. rewrite IHl, IHr. reflexivity.
  - destruct (ctree_with catw repw t0) as [f a]. simpl in *. rewrite Hr. apply titer_ext. exact IH.
Qed.

Lemma ctree_is_with : forall t,
  ctree t = ctree_with (fun f1 a1 f2 a2 => (no_flags, concat_tree f1 a1 f2 a2))
                       (fun f a n => (f, repeat_tree a n)) t.
Proof.
  induction t as [f a|l IHl r IHr|t0 IH n]; simpl; [reflexivity| |].
  - rewrite IHl, IHr. reflexivity.
  - rewrite IH. reflexivity.
Qed.

Theorem compose_sound : forall t X,
  fst (me (fst (ctree t)) (snd (ctree t))) X = cden t X.
Proof.
  intros t X. rewrite ctree_is_with. apply compose_with_sound.
  - intros f1 a1 f2 a2 Y. simpl. apply concat_denotation.
  - intros f a n Y. simpl. apply repeat_denotation.
Qed.

(* ... and through the transpiler: the compiled Go matcher of the composed value accepts
   exactly the subjects the term denotes *)
Theorem compose_transpile_sound : forall t,
  fx (fst (ctree t)) = false -> sets_x (snd (ctree t)) = false ->
  transpile_text (fst (ctree t)) (snd (ctree t)) <> None ->
  matches_re2 orbit uni posix s (transpile (fst (ctree t)) (snd (ctree t))) = cmatches orbit uni posix s t.
Proof.
  intros t Hf Hs Ht. rewrite (transpile_sound orbit uni posix s _ _ Hf Hs Ht).
  unfold matches_elk, cmatches, matches. rewrite compose_sound. reflexivity.
Qed.

(* the flags of the composed value *)
Lemma ctree_flags : forall t, fst (ctree t) = cflags t.
Proof.
  induction t as [f a|l IHl r IHr|t0 IH n]; simpl; [reflexivity| |].
  - destruct (ctree l), (ctree r). reflexivity.
  - destruct (ctree t0). simpl in *. exact IH.
Qed.

End Sem.
