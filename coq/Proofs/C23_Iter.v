(* C23 — proofs about the iterator/range model (Model/C23_Iter.v). *)
From Coq Require Import ZArith List Bool Lia ZifyBool ZifyNat.
From Elk Require Import Base.GoSem Model.C23_Iter.
Import ListNotations.
Open Scope Z_scope.

Lemma take_n_eq {A} n : forall (l : list A), take_n n l = firstn n l.
Proof. induction n; destruct l; cbn; try reflexivity. f_equal. apply IHn. Qed.
Lemma drop_n_eq {A} n : forall (l : list A), drop_n n l = skipn n l.
Proof. induction n; destruct l; cbn; try reflexivity. apply IHn. Qed.
Lemma exists_b_eq {A} (f : A -> bool) l : exists_b f l = existsb f l.
Proof. induction l; cbn; [reflexivity|]. rewrite IHl. reflexivity. Qed.
Lemma head_opt_eq {A} (l : list A) : head_opt l = hd_error l.
Proof. destruct l; reflexivity. Qed.

(* ------------------------------------------------------------ the loop on a list *)
Fixpoint lloop {V A R} (body : A -> V -> ctl A R) (fin : A -> res R) (a : A) (l : list V) (t : tail) : res R :=
  match l with
  | [] => match t with TStop => fin a | TFail e => Thrown e end
  | v :: l' => match body a v with
               | Cont a' => lloop body fin a' l' t
               | Brk a' => fin a'
               | Ret r => r
               end
  end.

(* does the loop leave (break / return) while inside l ? *)
Fixpoint exits {V A R} (body : A -> V -> ctl A R) (a : A) (l : list V) : bool :=
  match l with
  | [] => false
  | v :: l' => match body a v with Cont a' => exits body a' l' | _ => true end
  end.

Lemma loop_unroll : forall V St A R (nx : St -> step V St) (body : A -> V -> ctl A R) fin fuel s l t,
  unroll fuel nx s = Some (l, t) ->
  forall fuel' a, (fuel <= fuel')%nat -> loop fuel' nx body fin a s = lloop body fin a l t.
Proof.
  intros V St A R nx body fin fuel.
  induction fuel as [|f IH]; intros s l t Hu fuel' a Hle; cbn in Hu; [discriminate|].
  destruct fuel' as [|f']; [lia|]. cbn [loop].
  destruct (nx s) as [v s'| |e] eqn:En.
  - destruct (unroll f nx s') as [[l0 t0]|] eqn:Eu; [|discriminate].
    inversion Hu; subst. cbn [lloop].
    destruct (body a v); try reflexivity.
    apply IH with (1 := Eu). lia.
  - inversion Hu; subst. reflexivity.
  - inversion Hu; subst. reflexivity.
Qed.

Lemma unroll_mono : forall V St (nx : St -> step V St) fuel s r,
  unroll fuel nx s = Some r -> forall fuel', (fuel <= fuel')%nat -> unroll fuel' nx s = Some r.
Proof.
  intros V St nx fuel. induction fuel as [|f IH]; intros s r Hu fuel' Hle; cbn in Hu; [discriminate|].
  destruct fuel' as [|f']; [lia|]. cbn.
  destruct (nx s) as [v s'| |e]; try exact Hu.
  destruct (unroll f nx s') as [[l0 t0]|] eqn:Eu; [|discriminate].
  rewrite (IH _ _ Eu f') by lia. exact Hu.
Qed.

Lemma unroll_length : forall V St (nx : St -> step V St) fuel s l t,
  unroll fuel nx s = Some (l, t) -> (length l < fuel)%nat.
Proof.
  intros V St nx fuel. induction fuel as [|f IH]; intros s l t Hu; cbn in Hu; [discriminate|].
  destruct (nx s) as [v s'| |e].
  - destruct (unroll f nx s') as [[l0 t0]|] eqn:Eu; [|discriminate].
    inversion Hu; subst. cbn. apply IH in Eu. lia.
  - inversion Hu; subst. cbn. lia.
  - inversion Hu; subst. cbn. lia.
Qed.

Lemma prefix_length : forall V St (nx : St -> step V St) n s l s',
  prefix n nx s = Some (l, s') -> length l = n.
Proof.
  intros V St nx n. induction n as [|n IH]; intros s l s' Hp; cbn in Hp.
  - inversion Hp; reflexivity.
  - destruct (nx s) as [v s1| |e]; try discriminate.
    destruct (prefix n nx s1) as [[l0 s2]|] eqn:Ep; [|discriminate].
    inversion Hp; subst. cbn. f_equal. eapply IH; eauto.
Qed.

(* an operation that leaves the loop inside the first n elements never looks further *)
Lemma loop_prefix : forall V St A R (nx : St -> step V St) (body : A -> V -> ctl A R) fin n s l s',
  prefix n nx s = Some (l, s') ->
  forall a, exits body a l = true ->
  forall fuel t, (n <= fuel)%nat -> loop fuel nx body fin a s = lloop body fin a l t.
Proof.
  intros V St A R nx body fin n.
  induction n as [|n IH]; intros s l s' Hp a Hex fuel t Hle; cbn in Hp.
  - inversion Hp; subst. cbn in Hex. discriminate.
  - destruct (nx s) as [v s1| |e] eqn:En; try discriminate.
    destruct (prefix n nx s1) as [[l0 s2]|] eqn:Ep; [|discriminate].
    inversion Hp; subst. destruct fuel as [|f]; [lia|].
    cbn [loop lloop]. rewrite En. cbn [exits] in Hex.
    destruct (body a v); try reflexivity.
    eapply IH; eauto. lia.
Qed.

(* the loop result does not depend on the tail when it exits inside l *)
Lemma lloop_exits_tail : forall V A R (body : A -> V -> ctl A R) fin l a t t',
  exits body a l = true -> lloop body fin a l t = lloop body fin a l t'.
Proof.
  induction l as [|v l IH]; intros a t t' Hex; cbn in *; [discriminate|].
  destruct (body a v); auto.
Qed.

(* pointwise-equal loop bodies give the same loop *)
Lemma lloop_ext : forall V A R (body body' : A -> V -> ctl A R) fin l a t,
  (forall a v, body a v = body' a v) -> lloop body fin a l t = lloop body' fin a l t.
Proof.
  induction l as [|v l IH]; intros a t H; cbn; [reflexivity|].
  rewrite <- H. destruct (body a v); auto.
Qed.

(* ------------------------------------------------------------ each operation on a list *)
Section OpsList.
  Context {V : Type}.

  Lemma contains_l (eqb : V -> V -> bool) x l :
    lloop (fun (_ : unit) v => if eqb v x then Ret (Val true) else Cont tt) (fun _ => Val false) tt l TStop
    = contains_list eqb x l.
  Proof.
    unfold contains_list. induction l as [|v l IH]; cbn; [reflexivity|].
    destruct (eqb v x); cbn; [reflexivity|exact IH].
  Qed.

  Lemma is_empty_l (l : list V) :
    lloop (fun (_ : bool) (_ : V) => Brk true) (fun any => Val (negb any)) false l TStop = is_empty_list l.
  Proof. destruct l; reflexivity. Qed.

  Lemma first_l (l : list V) :
    lloop (fun (_ : unit) v => Ret (Val v)) (fun _ => Thrown E_NF) tt l TStop = first_list l.
  Proof. destruct l; reflexivity. Qed.

  Lemma try_first_l (l : list V) :
    lloop (fun (_ : unit) v => Ret (Val (Some v))) (fun _ => Val None) tt l TStop = try_first_list l.
  Proof. destruct l; reflexivity. Qed.

  Lemma last_opt_cons (v : V) l : last_opt (v :: l) = match last_opt l with Some w => Some w | None => Some v end.
  Proof.
    revert v. induction l as [|w l IH]; intros v; [reflexivity|].
    change (last_opt (v :: w :: l)) with (last_opt (w :: l)).
    rewrite IH. destruct (last_opt l); reflexivity.
  Qed.

  Lemma last_gen {R} (fin : option V -> res R) l : forall acc,
    lloop (fun (_ : option V) v => Cont (Some v)) fin acc l TStop
    = fin (match last_opt l with Some w => Some w | None => acc end).
  Proof.
    induction l as [|v l IH]; intros acc; [reflexivity|].
    cbn [lloop]. rewrite IH. rewrite last_opt_cons. destruct (last_opt l); reflexivity.
  Qed.

  Lemma last_l (l : list V) :
    lloop (fun (_ : option V) v => Cont (Some v))
          (fun l => match l with Some v => Val v | None => Thrown E_NF end) None l TStop = last_list l.
  Proof. rewrite last_gen. unfold last_list. destruct (last_opt l); reflexivity. Qed.

  Lemma try_last_l (l : list V) :
    lloop (fun (_ : option V) v => Cont (Some v)) (fun l => Val l) None l TStop = try_last_list l.
  Proof. rewrite last_gen. unfold try_last_list. destruct (last_opt l); reflexivity. Qed.

  Lemma map_gen {W} (f : V -> res W) l : forall acc,
    lloop (fun acc v => call (f v) (fun w => Cont (acc ++ [w]))) (fun acc => Val acc) acc l TStop
    = match map_list f l with Val r => Val (acc ++ r) | o => o end.
  Proof.
    induction l as [|v l IH]; intros acc; cbn; [rewrite app_nil_r; reflexivity|].
    destruct (f v) as [w|e| |]; cbn; try reflexivity.
    rewrite IH. destruct (map_list f l); try reflexivity.
    rewrite <- app_assoc. reflexivity.
  Qed.
  Lemma map_l {W} (f : V -> res W) l :
    lloop (fun acc v => call (f v) (fun w => Cont (acc ++ [w]))) (fun acc => Val acc) [] l TStop = map_list f l.
  Proof. rewrite map_gen. destruct (map_list f l); reflexivity. Qed.

  Lemma select_gen (want : bool) (p : V -> res bool) l : forall acc,
    lloop (fun acc v => call (p v) (fun keep => Cont (if Bool.eqb keep want then acc ++ [v] else acc)))
          (fun acc => Val acc) acc l TStop
    = match select_list want p l with Val r => Val (acc ++ r) | o => o end.
  Proof.
    induction l as [|v l IH]; intros acc; cbn; [rewrite app_nil_r; reflexivity|].
    destruct (p v) as [b|e| |]; cbn; try reflexivity.
    rewrite IH. destruct (select_list want p l); try reflexivity.
    destruct (Bool.eqb b want); [rewrite <- app_assoc|]; reflexivity.
  Qed.

  Lemma filter_l (p : V -> res bool) l :
    lloop (fun acc v => call (p v) (fun keep => Cont (if keep then acc ++ [v] else acc)))
          (fun acc => Val acc) [] l TStop = filter_list p l.
  Proof.
    unfold filter_list.
    etransitivity;
      [apply lloop_ext with (body' := fun acc v => call (p v) (fun keep => Cont (if Bool.eqb keep true then acc ++ [v] else acc)))|].
    - intros a v. destruct (p v) as [[]| | |]; reflexivity.
    - rewrite (select_gen true p l []). destruct (select_list true p l); reflexivity.
  Qed.

  Lemma reject_l (p : V -> res bool) l :
    lloop (fun acc v => call (p v) (fun keep => Cont (if negb keep then acc ++ [v] else acc)))
          (fun acc => Val acc) [] l TStop = reject_list p l.
  Proof.
    unfold reject_list.
    etransitivity;
      [apply lloop_ext with (body' := fun acc v => call (p v) (fun keep => Cont (if Bool.eqb keep false then acc ++ [v] else acc)))|].
    - intros a v. destruct (p v) as [[]| | |]; reflexivity.
    - rewrite (select_gen false p l []). destruct (select_list false p l); reflexivity.
  Qed.

  Lemma count_gen (p : V -> res bool) l : forall c,
    lloop (fun c v => call (p v) (fun keep => Cont (if keep then c + 1 else c))) (fun c => Val c) c l TStop
    = match count_list p l with Val n => Val (c + n) | o => o end.
  Proof.
    induction l as [|v l IH]; intros c; cbn; [rewrite Z.add_0_r; reflexivity|].
    destruct (p v) as [b|e| |]; cbn; try reflexivity.
    rewrite IH. destruct (count_list p l); try reflexivity.
    f_equal. destruct b; lia.
  Qed.
  Lemma count_l (p : V -> res bool) l :
    lloop (fun c v => call (p v) (fun keep => Cont (if keep then c + 1 else c))) (fun c => Val c) 0 l TStop
    = count_list p l.
  Proof. rewrite count_gen. destruct (count_list p l); reflexivity. Qed.

  Lemma search_gen {R} (want : bool) (p : V -> res bool) (hit : V -> res R) (miss : res R) l :
    lloop (fun (_ : unit) v => call (p v) (fun ok => if Bool.eqb ok want then Ret (hit v) else Cont tt))
          (fun _ => miss) tt l TStop
    = match search_list want p l with Val (Some v) => hit v | Val None => miss | o => prop o end.
  Proof.
    induction l as [|v l IH]; cbn; [reflexivity|].
    destruct (p v) as [b|e| |]; cbn; try reflexivity.
    destruct (Bool.eqb b want); [reflexivity|exact IH].
  Qed.

  Lemma any_l (p : V -> res bool) l :
    lloop (fun (_ : unit) v => call (p v) (fun ok => if ok then Ret (Val true) else Cont tt))
          (fun _ => Val false) tt l TStop = any_list p l.
  Proof.
    etransitivity;
      [apply lloop_ext with (body' := fun (_ : unit) v => call (p v) (fun ok => if Bool.eqb ok true then Ret (Val true) else Cont tt))|].
    - intros a v. destruct (p v) as [[]| | |]; reflexivity.
    - rewrite (search_gen true p (fun _ => Val true) (Val false)). unfold any_list.
      destruct (search_list true p l) as [[]| | |]; reflexivity.
  Qed.

  Lemma every_l (p : V -> res bool) l :
    lloop (fun (_ : unit) v => call (p v) (fun ok => if negb ok then Ret (Val false) else Cont tt))
          (fun _ => Val true) tt l TStop = every_list p l.
  Proof.
    etransitivity;
      [apply lloop_ext with (body' := fun (_ : unit) v => call (p v) (fun ok => if Bool.eqb ok false then Ret (Val false) else Cont tt))|].
    - intros a v. destruct (p v) as [[]| | |]; reflexivity.
    - rewrite (search_gen false p (fun _ => Val false) (Val true)). unfold every_list.
      destruct (search_list false p l) as [[]| | |]; reflexivity.
  Qed.

  Lemma find_l (p : V -> res bool) l :
    lloop (fun (_ : unit) v => call (p v) (fun ok => if ok then Ret (Val v) else Cont tt))
          (fun _ => Thrown E_NF) tt l TStop = find_list p l.
  Proof.
    etransitivity;
      [apply lloop_ext with (body' := fun (_ : unit) v => call (p v) (fun ok => if Bool.eqb ok true then Ret (Val v) else Cont tt))|].
    - intros a v. destruct (p v) as [[]| | |]; reflexivity.
    - rewrite (search_gen true p (fun v => Val v) (Thrown E_NF)). unfold find_list.
      destruct (search_list true p l) as [[]| | |]; reflexivity.
  Qed.

  Lemma try_find_l (p : V -> res bool) l :
    lloop (fun (_ : unit) v => call (p v) (fun ok => if ok then Ret (Val (Some v)) else Cont tt))
          (fun _ => Val None) tt l TStop = try_find_list p l.
  Proof.
    etransitivity;
      [apply lloop_ext with (body' := fun (_ : unit) v => call (p v) (fun ok => if Bool.eqb ok true then Ret (Val (Some v)) else Cont tt))|].
    - intros a v. destruct (p v) as [[]| | |]; reflexivity.
    - rewrite (search_gen true p (fun v => Val (Some v)) (Val None)). unfold try_find_list.
      destruct (search_list true p l) as [[]| | |]; reflexivity.
  Qed.

  Lemma find_index_gen (p : V -> res bool) l : forall i,
    lloop (fun i v => call (p v) (fun ok => if ok then Ret (Val i) else Cont (i + 1))) (fun _ => Val (-1)) i l TStop
    = match find_index_list p l with Val j => Val (if j <? 0 then -1 else i + j) | o => o end.
  Proof.
    induction l as [|v l IH]; intros i; cbn; [reflexivity|].
    destruct (p v) as [[]|e| |]; cbn; try reflexivity.
    - rewrite Z.add_0_r. reflexivity.
    - rewrite IH. destruct (find_index_list p l) as [j|e| |]; try reflexivity.
      f_equal. destruct (j <? 0) eqn:Ej; [reflexivity|].
      destruct (j + 1 <? 0) eqn:Ej1; lia.
  Qed.
  Lemma find_index_nonneg (p : V -> res bool) l j : find_index_list p l = Val j -> -1 <= j.
  Proof.
    revert j. induction l as [|v l IH]; intros j H; cbn in H.
    - inversion H. lia.
    - destruct (p v) as [[]|e| |]; try discriminate.
      + inversion H. lia.
      + destruct (find_index_list p l) as [k|e| |]; try discriminate.
        inversion H. specialize (IH k eq_refl). destruct (k <? 0) eqn:E; lia.
  Qed.
  Lemma find_index_l (p : V -> res bool) l :
    lloop (fun i v => call (p v) (fun ok => if ok then Ret (Val i) else Cont (i + 1))) (fun _ => Val (-1)) 0 l TStop
    = find_index_list p l.
  Proof.
    rewrite find_index_gen. destruct (find_index_list p l) as [j|e| |] eqn:E; try reflexivity.
    apply find_index_nonneg in E. f_equal. destruct (j <? 0) eqn:Ej; lia.
  Qed.
  Lemma index_of_l (eqb : V -> V -> bool) x l :
    lloop (fun i v => if eqb v x then Ret (Val i) else Cont (i + 1)) (fun _ => Val (-1)) 0 l TStop
    = index_of_list eqb x l.
  Proof. unfold index_of_list. rewrite <- find_index_l. apply lloop_ext. intros; reflexivity. Qed.

  Lemma drop_gen l : forall c acc, 0 <= c ->
    lloop (fun '(c, acc) (v : V) => if c >? 0 then Cont (c - 1, acc) else Cont (c, acc ++ [v]))
          (fun '(_, acc) => Val acc) (c, acc) l TStop
    = Val (acc ++ skipn (Z.to_nat c) l).
  Proof.
    induction l as [|v l IH]; intros c acc Hc; cbn [lloop].
    - rewrite skipn_nil, app_nil_r. reflexivity.
    - destruct (c >? 0) eqn:E.
      + rewrite IH by lia. replace (Z.to_nat c) with (S (Z.to_nat (c - 1))) by lia. reflexivity.
      + rewrite IH by lia. replace c with 0 by lia. cbn. rewrite <- app_assoc. reflexivity.
  Qed.
  Lemma take_gen l : forall c acc, 0 <= c ->
    lloop (fun '(c, acc) (v : V) => if c <=? 0 then Brk (c, acc) else Cont (c - 1, acc ++ [v]))
          (fun '(_, acc) => Val acc) (c, acc) l TStop
    = Val (acc ++ firstn (Z.to_nat c) l).
  Proof.
    induction l as [|v l IH]; intros c acc Hc; cbn [lloop].
    - rewrite firstn_nil, app_nil_r. reflexivity.
    - destruct (c <=? 0) eqn:E.
      + replace c with 0 by lia. cbn. rewrite app_nil_r. reflexivity.
      + rewrite IH by lia. replace (Z.to_nat c) with (S (Z.to_nat (c - 1))) by lia.
        cbn. rewrite <- app_assoc. reflexivity.
  Qed.

  Lemma collect_gen (p : V -> res bool) l : forall acc,
    lloop (fun '(collect, acc) v =>
            if (collect : bool) then Cont (true, acc ++ [v]) else
            call (p v) (fun ok => if ok then Cont (false, acc) else Cont (true, acc ++ [v])))
          (fun '(_, acc) => Val acc) (true, acc) l TStop
    = Val (acc ++ l).
  Proof.
    induction l as [|v l IH]; intros acc; cbn [lloop]; [rewrite app_nil_r; reflexivity|].
    rewrite IH. rewrite <- app_assoc. reflexivity.
  Qed.
  Lemma drop_while_gen (p : V -> res bool) l : forall acc,
    lloop (fun '(collect, acc) v =>
            if (collect : bool) then Cont (true, acc ++ [v]) else
            call (p v) (fun ok => if ok then Cont (false, acc) else Cont (true, acc ++ [v])))
          (fun '(_, acc) => Val acc) (false, acc) l TStop
    = match drop_while_list p l with Val r => Val (acc ++ r) | o => o end.
  Proof.
    induction l as [|v l IH]; intros acc; cbn [lloop drop_while_list]; [rewrite app_nil_r; reflexivity|].
    destruct (p v) as [[]|e| |]; cbn [call prop]; try reflexivity.
    - apply IH.
    - rewrite collect_gen. rewrite <- app_assoc. reflexivity.
  Qed.
  Lemma take_while_gen (p : V -> res bool) l : forall acc,
    lloop (fun acc v => call (p v) (fun ok => if negb ok then Brk acc else Cont (acc ++ [v])))
          (fun acc => Val acc) acc l TStop
    = match take_while_list p l with Val r => Val (acc ++ r) | o => o end.
  Proof.
    induction l as [|v l IH]; intros acc; cbn [lloop take_while_list]; [rewrite app_nil_r; reflexivity|].
    destruct (p v) as [[]|e| |]; cbn [call prop negb]; try reflexivity.
    - rewrite IH. destruct (take_while_list p l); try reflexivity. rewrite <- app_assoc. reflexivity.
    - rewrite app_nil_r. reflexivity.
  Qed.

  Lemma fold_l {I} (f : I -> V -> res I) l : forall acc,
    lloop (fun acc v => call (f acc v) (fun n => Cont n)) (fun acc => Val acc) acc l TStop = fold_list f acc l.
  Proof.
    induction l as [|v l IH]; intros acc; cbn [lloop fold_list]; [reflexivity|].
    destruct (f acc v); cbn [call prop]; try reflexivity. apply IH.
  Qed.

  Definition reduce_body (f : V -> V -> res V) : option V -> V -> ctl (option V) V :=
    fun acc v => match acc with
                 | None => Cont (Some v)
                 | Some a => call (f a v) (fun n => Cont (Some n))
                 end.
  Definition reduce_fin : option V -> res V := fun acc => match acc with Some a => Val a | None => Undef end.
  Lemma reduce_some (f : V -> V -> res V) l : forall a,
    lloop (reduce_body f) reduce_fin (Some a) l TStop = fold_list f a l.
  Proof.
    induction l as [|v l IH]; intros a; cbn [lloop fold_list reduce_body reduce_fin]; [reflexivity|].
    destruct (f a v); cbn [call prop]; try reflexivity. apply IH.
  Qed.
  Lemma reduce_l (f : V -> V -> res V) l :
    lloop (reduce_body f) reduce_fin None l TStop
    = match l with [] => Undef | _ => reduce_list f l end.
  Proof. destruct l as [|v l]; [reflexivity|]. cbn [lloop reduce_body]. apply reduce_some. Qed.

  Lemma to_list_gen (l : list V) : forall acc,
    lloop (fun acc v => Cont (acc ++ [v])) (fun acc => Val acc) acc l TStop = Val (acc ++ l).
  Proof.
    induction l as [|v l IH]; intros acc; cbn [lloop]; [rewrite app_nil_r; reflexivity|].
    rewrite IH, <- app_assoc. reflexivity.
  Qed.
  Lemma length_gen (l : list V) : forall c,
    lloop (fun c (_ : V) => Cont (c + 1)) (fun c => Val c) c l TStop = Val (c + Z.of_nat (length l)).
  Proof.
    induction l as [|v l IH]; intros c; cbn [lloop length]; [f_equal; lia|].
    rewrite IH. f_equal. lia.
  Qed.
End OpsList.

(* ------------------------------------------------------------ finite iterators: impl = list model *)
Section Finite.
  Context {V St : Type}.
  Variable nx : St -> step V St.
  Variable eqb : V -> V -> bool.
  Variables (fuel fuel' : nat) (s : St) (l : list V).
  Hypothesis Hu : unroll fuel nx s = Some (l, TStop).
  Hypothesis Hle : (fuel <= fuel')%nat.

  Ltac go lem := intros; unfold lem; rewrite (loop_unroll _ _ _ _ nx _ _ _ _ _ _ Hu) by exact Hle.

  Lemma f_contains x : contains_impl nx eqb fuel' x s = contains_list eqb x l.
  Proof. go @contains_impl. apply contains_l. Qed.
  Lemma f_is_empty : is_empty_impl nx fuel' s = is_empty_list l.
  Proof. go @is_empty_impl. apply is_empty_l. Qed.
  Lemma f_first : first_impl nx fuel' s = first_list l.
  Proof. go @first_impl. apply first_l. Qed.
  Lemma f_try_first : try_first_impl nx fuel' s = try_first_list l.
  Proof. go @try_first_impl. apply try_first_l. Qed.
  Lemma f_last : last_impl nx fuel' s = last_list l.
  Proof. go @last_impl. apply last_l. Qed.
  Lemma f_try_last : try_last_impl nx fuel' s = try_last_list l.
  Proof. go @try_last_impl. apply try_last_l. Qed.
  Lemma f_map {W} (f : V -> res W) : map_impl nx fuel' f s = map_list f l.
  Proof. go @map_impl. apply map_l. Qed.
  Lemma f_filter p : filter_impl nx fuel' p s = filter_list p l.
  Proof. go @filter_impl. apply filter_l. Qed.
  Lemma f_reject p : reject_impl nx fuel' p s = reject_list p l.
  Proof. go @reject_impl. apply reject_l. Qed.
  Lemma f_count p : count_impl nx fuel' p s = count_list p l.
  Proof. go @count_impl. apply count_l. Qed.
  Lemma f_any p : any_impl nx fuel' p s = any_list p l.
  Proof. go @any_impl. apply any_l. Qed.
  Lemma f_every p : every_impl nx fuel' p s = every_list p l.
  Proof. go @every_impl. apply every_l. Qed.
  Lemma f_find p : find_impl nx fuel' p s = find_list p l.
  Proof. go @find_impl. apply find_l. Qed.
  Lemma f_try_find p : try_find_impl nx fuel' p s = try_find_list p l.
  Proof. go @try_find_impl. apply try_find_l. Qed.
  Lemma f_index_of x : index_of_impl nx eqb fuel' x s = index_of_list eqb x l.
  Proof. go @index_of_impl. apply index_of_l. Qed.
  Lemma f_find_index p : find_index_impl nx fuel' p s = find_index_list p l.
  Proof. go @find_index_impl. apply find_index_l. Qed.
  Lemma f_drop n : drop_impl nx fuel' n s = drop_list n l.
  Proof.
    unfold drop_impl, drop_list. destruct (n <? 0) eqn:E; [reflexivity|].
    rewrite (loop_unroll _ _ _ _ nx _ _ _ _ _ _ Hu) by exact Hle.
    rewrite drop_gen by lia. rewrite drop_n_eq. reflexivity.
  Qed.
  Lemma f_take n : take_impl nx fuel' n s = take_list n l.
  Proof.
    unfold take_impl, take_list. destruct (n <? 0) eqn:E; [reflexivity|].
    rewrite (loop_unroll _ _ _ _ nx _ _ _ _ _ _ Hu) by exact Hle.
    rewrite take_gen by lia. rewrite take_n_eq. reflexivity.
  Qed.
  Lemma f_drop_while p : drop_while_impl nx fuel' p s = drop_while_list p l.
  Proof. go @drop_while_impl. rewrite drop_while_gen. destruct (drop_while_list p l); reflexivity. Qed.
  Lemma f_take_while p : take_while_impl nx fuel' p s = take_while_list p l.
  Proof. go @take_while_impl. rewrite take_while_gen. destruct (take_while_list p l); reflexivity. Qed.
  Lemma f_fold {I} (i : I) f : fold_impl nx fuel' i f s = fold_list f i l.
  Proof. go @fold_impl. apply fold_l. Qed.
  Lemma f_reduce f : reduce_impl nx fuel' f s = match l with [] => Undef | _ => reduce_list f l end.
  Proof. go @reduce_impl. apply reduce_l. Qed.
  Lemma f_to_list : to_list_impl nx fuel' s = to_list_list l.
  Proof. go @to_list_impl. rewrite to_list_gen. reflexivity. Qed.
  Lemma f_length : length_impl nx fuel' s = length_list l.
  Proof. go @length_impl. rewrite length_gen. reflexivity. Qed.
End Finite.

(* all operations at once, with arbitrary element type and closures *)
Definition ops_agree {V St} (nx : St -> step V St) (eqb : V -> V -> bool) (fuel : nat) (s : St) (l : list V) : Prop :=
  (forall x, contains_impl nx eqb fuel x s = contains_list eqb x l) /\
  is_empty_impl nx fuel s = is_empty_list l /\
  first_impl nx fuel s = first_list l /\
  try_first_impl nx fuel s = try_first_list l /\
  last_impl nx fuel s = last_list l /\
  try_last_impl nx fuel s = try_last_list l /\
  (forall W (f : V -> res W), map_impl nx fuel f s = map_list f l) /\
  (forall p, filter_impl nx fuel p s = filter_list p l) /\
  (forall p, reject_impl nx fuel p s = reject_list p l) /\
  (forall p, count_impl nx fuel p s = count_list p l) /\
  (forall p, any_impl nx fuel p s = any_list p l) /\
  (forall p, every_impl nx fuel p s = every_list p l) /\
  (forall p, find_impl nx fuel p s = find_list p l) /\
  (forall p, try_find_impl nx fuel p s = try_find_list p l) /\
  (forall x, index_of_impl nx eqb fuel x s = index_of_list eqb x l) /\
  (forall p, find_index_impl nx fuel p s = find_index_list p l) /\
  (forall n, drop_impl nx fuel n s = drop_list n l) /\
  (forall p, drop_while_impl nx fuel p s = drop_while_list p l) /\
  (forall n, take_impl nx fuel n s = take_list n l) /\
  (forall p, take_while_impl nx fuel p s = take_while_list p l) /\
  (forall I (i : I) f, fold_impl nx fuel i f s = fold_list f i l) /\
  (forall f, l <> [] -> reduce_impl nx fuel f s = reduce_list f l) /\
  to_list_impl nx fuel s = to_list_list l /\
  length_impl nx fuel s = length_list l.

Lemma ops_finite : forall V St (nx : St -> step V St) eqb fuel fuel' s l,
  unroll fuel nx s = Some (l, TStop) -> (fuel <= fuel')%nat -> ops_agree nx eqb fuel' s l.
Proof.
  intros V St nx eqb fuel fuel' s l Hu Hle. unfold ops_agree.
  repeat match goal with |- _ /\ _ => split end; intros.
  - eapply f_contains; eauto.
  - eapply f_is_empty; eauto.
  - eapply f_first; eauto.
  - eapply f_try_first; eauto.
  - eapply f_last; eauto.
  - eapply f_try_last; eauto.
  - eapply f_map; eauto.
  - eapply f_filter; eauto.
  - eapply f_reject; eauto.
  - eapply f_count; eauto.
  - eapply f_any; eauto.
  - eapply f_every; eauto.
  - eapply f_find; eauto.
  - eapply f_try_find; eauto.
  - eapply f_index_of; eauto.
  - eapply f_find_index; eauto.
  - eapply f_drop; eauto.
  - eapply f_drop_while; eauto.
  - eapply f_take; eauto.
  - eapply f_take_while; eauto.
  - eapply f_fold; eauto.
  - rewrite (f_reduce nx fuel fuel' s l Hu Hle). destruct l; [congruence|reflexivity].
  - eapply f_to_list; eauto.
  - eapply f_length; eauto.
Qed.

(* the code as it is: reduce of an empty iterable returns the undefined value, the list
   model says error *)
Lemma reduce_empty_undef : forall V St (nx : St -> step V St) fuel fuel' s f,
  unroll fuel nx s = Some ([], TStop) -> (fuel <= fuel')%nat ->
  reduce_impl nx fuel' f s = Undef /\ reduce_list f (@nil V) = Thrown E_NF.
Proof.
  intros. split; [|reflexivity]. rewrite (f_reduce nx fuel fuel' s [] H H0). reflexivity.
Qed.

(* an iterator whose `next` throws after yielding l: every operation either has already
   left its loop inside l (same result as on l) or re-throws the error *)
Lemma lloop_fail : forall V A R (body : A -> V -> ctl A R) fin l a e,
  lloop body fin a l (TFail e) = if exits body a l then lloop body fin a l TStop else Thrown e.
Proof.
  induction l as [|v l IH]; intros a e; cbn; [reflexivity|].
  destruct (body a v); auto.
Qed.
Lemma loop_failing : forall V St A R (nx : St -> step V St) (body : A -> V -> ctl A R) fin fuel fuel' s l e a,
  unroll fuel nx s = Some (l, TFail e) -> (fuel <= fuel')%nat ->
  loop fuel' nx body fin a s = if exits body a l then lloop body fin a l TStop else Thrown e.
Proof.
  intros. rewrite (loop_unroll _ _ _ _ nx body fin _ _ _ _ H) by assumption. apply lloop_fail.
Qed.

(* ------------------------------------------------------------ infinite iterators: finite prefixes *)
Section Prefix.
  Context {V St : Type}.
  Variable nx : St -> step V St.

  Lemma p_first fuel s v s' :
    prefix 1 nx s = Some ([v], s') -> (1 <= fuel)%nat -> first_impl nx fuel s = Val v.
  Proof.
    intros Hp Hf. unfold first_impl.
    transitivity (lloop (fun (_ : unit) (v : V) => @Ret unit V (Val v)) (fun _ => Thrown E_NF) tt [v] TStop);
      [|reflexivity].
    eapply loop_prefix; [exact Hp | reflexivity | exact Hf].
  Qed.

  Lemma take_exits (l : list V) : forall c acc, 0 <= c -> (Z.to_nat c < length l)%nat ->
    exits (fun '(c, acc) (v : V) => if c <=? 0 then @Brk _ (list V) (c, acc) else Cont (c - 1, acc ++ [v])) (c, acc) l = true.
  Proof.
    induction l as [|v l IH]; intros c acc Hc Hl; cbn in Hl; [lia|]. cbn [exits].
    destruct (c <=? 0) eqn:E; [reflexivity|]. apply IH; lia.
  Qed.

  (* take(k) looks at k+1 elements and returns the first k *)
  Lemma p_take fuel s k l s' :
    0 <= k -> prefix (S (Z.to_nat k)) nx s = Some (l, s') -> (S (Z.to_nat k) <= fuel)%nat ->
    take_impl nx fuel k s = Val (firstn (Z.to_nat k) l).
  Proof.
    intros Hk Hp Hf. unfold take_impl. destruct (k <? 0) eqn:E; [lia|].
    pose proof (prefix_length _ _ _ _ _ _ _ Hp) as Hlen.
    rewrite (loop_prefix _ _ _ _ nx _ _ _ _ _ _ Hp (k, []) (take_exits l k [] Hk ltac:(lia)) fuel TStop Hf).
    rewrite take_gen by lia. reflexivity.
  Qed.

  Lemma find_exits {R} (hit : V -> res R) (p : V -> res bool) l :
    search_list true p l <> Val None ->
    exits (fun (_ : unit) v => call (p v) (fun ok => if ok then Ret (hit v) else Cont tt)) tt l = true.
  Proof.
    induction l as [|v l IH]; intros H; cbn in *; [congruence|].
    destruct (p v) as [[]| | |]; cbn in *; auto.
  Qed.

  Lemma p_find fuel n s l s' p :
    prefix n nx s = Some (l, s') -> search_list true p l <> Val None -> (n <= fuel)%nat ->
    find_impl nx fuel p s = find_list p l.
  Proof.
    intros Hp Hs Hf. unfold find_impl.
    rewrite (loop_prefix _ _ _ _ nx _ _ _ _ _ _ Hp tt (find_exits _ p l Hs) fuel TStop Hf).
    apply find_l.
  Qed.
  Lemma p_try_find fuel n s l s' p :
    prefix n nx s = Some (l, s') -> search_list true p l <> Val None -> (n <= fuel)%nat ->
    try_find_impl nx fuel p s = try_find_list p l.
  Proof.
    intros Hp Hs Hf. unfold try_find_impl.
    rewrite (loop_prefix _ _ _ _ nx _ _ _ _ _ _ Hp tt (find_exits _ p l Hs) fuel TStop Hf).
    apply try_find_l.
  Qed.
  Lemma p_any fuel n s l s' p :
    prefix n nx s = Some (l, s') -> search_list true p l <> Val None -> (n <= fuel)%nat ->
    any_impl nx fuel p s = any_list p l.
  Proof.
    intros Hp Hs Hf. unfold any_impl.
    rewrite (loop_prefix _ _ _ _ nx _ _ _ _ _ _ Hp tt (find_exits _ p l Hs) fuel TStop Hf).
    apply any_l.
  Qed.

  Lemma take_while_exits (p : V -> res bool) l : forall acc,
    search_list false p l <> Val None ->
    exits (fun acc v => call (p v) (fun ok => if negb ok then @Brk _ (list V) acc else Cont (acc ++ [v]))) acc l = true.
  Proof.
    induction l as [|v l IH]; intros acc H; cbn in *; [congruence|].
    destruct (p v) as [[]| | |]; cbn in *; auto.
  Qed.
  Lemma p_take_while fuel n s l s' p :
    prefix n nx s = Some (l, s') -> search_list false p l <> Val None -> (n <= fuel)%nat ->
    take_while_impl nx fuel p s = take_while_list p l.
  Proof.
    intros Hp Hs Hf. unfold take_while_impl.
    rewrite (loop_prefix _ _ _ _ nx _ _ _ _ _ _ Hp [] (take_while_exits p l [] Hs) fuel TStop Hf).
    rewrite take_while_gen. destruct (take_while_list p l); reflexivity.
  Qed.
End Prefix.

(* ------------------------------------------------------------ pure closures: the standard list functions *)
Section Pure.
  Context {V : Type}.
  Definition pure {A B} (f : A -> B) : A -> res B := fun a => Val (f a).

  Lemma map_pure {W} (f : V -> W) l : map_list (pure f) l = Val (map f l).
  Proof. induction l as [|v l IH]; cbn; [reflexivity|]. rewrite IH. reflexivity. Qed.
  Lemma filter_pure (p : V -> bool) l : filter_list (pure p) l = Val (filter p l).
  Proof.
    unfold filter_list. induction l as [|v l IH]; cbn; [reflexivity|]. rewrite IH.
    destruct (p v); reflexivity.
  Qed.
  Lemma reject_pure (p : V -> bool) l : reject_list (pure p) l = Val (filter (fun v => negb (p v)) l).
  Proof.
    unfold reject_list. induction l as [|v l IH]; cbn; [reflexivity|]. rewrite IH.
    destruct (p v); reflexivity.
  Qed.
  Lemma count_pure (p : V -> bool) l : count_list (pure p) l = Val (Z.of_nat (length (filter p l))).
  Proof.
    induction l as [|v l IH]; cbn; [reflexivity|]. rewrite IH.
    destruct (p v); cbn [length]; f_equal; lia.
  Qed.
  Lemma search_pure want (p : V -> bool) l :
    search_list want (pure p) l = Val (List.find (fun v => Bool.eqb (p v) want) l).
  Proof.
    induction l as [|v l IH]; cbn; [reflexivity|]. destruct (Bool.eqb (p v) want); auto.
  Qed.
  Lemma any_pure (p : V -> bool) l : any_list (pure p) l = Val (existsb p l).
  Proof.
    unfold any_list. induction l as [|v l IH]; cbn; [reflexivity|].
    destruct (p v); cbn; [reflexivity|exact IH].
  Qed.
  Lemma every_pure (p : V -> bool) l : every_list (pure p) l = Val (forallb p l).
  Proof.
    unfold every_list. induction l as [|v l IH]; cbn; [reflexivity|].
    destruct (p v); cbn; [exact IH|reflexivity].
  Qed.
  Lemma try_find_pure (p : V -> bool) l : try_find_list (pure p) l = Val (List.find p l).
  Proof.
    unfold try_find_list. induction l as [|v l IH]; cbn; [reflexivity|].
    destruct (p v); cbn; [reflexivity|exact IH].
  Qed.
  Lemma find_pure (p : V -> bool) l :
    find_list (pure p) l = match List.find p l with Some v => Val v | None => Thrown E_NF end.
  Proof.
    unfold find_list. change (search_list true (pure p) l) with (try_find_list (pure p) l).
    rewrite try_find_pure. destruct (List.find p l); reflexivity.
  Qed.
  Lemma take_while_pure (p : V -> bool) l : exists r, take_while_list (pure p) l = Val r /\
    (exists r', l = r ++ r') /\ forallb p r = true /\
    (forall r', l = r ++ r' -> match r' with [] => True | v :: _ => p v = false end).
  Proof.
    induction l as [|v l IH]; cbn.
    - exists []. repeat split; [exists []; reflexivity|]. intros r' H. cbn in H. subst r'. exact I.
    - destruct (p v) eqn:E.
      + destruct IH as (r & Hr & (r1 & Hl) & Hall & Hnext). rewrite Hr.
        exists (v :: r). repeat split.
        * exists r1. rewrite Hl. reflexivity.
        * cbn. rewrite E, Hall. reflexivity.
        * intros r' H. cbn in H. inversion H. apply Hnext. assumption.
      + exists []. repeat split; [exists (v :: l); reflexivity|].
        intros r' H. cbn in H. subst r'. exact E.
  Qed.
  Lemma drop_while_pure (p : V -> bool) l : exists r r', take_while_list (pure p) l = Val r /\
    drop_while_list (pure p) l = Val r' /\ l = r ++ r'.
  Proof.
    induction l as [|v l IH]; cbn.
    - exists [], []. auto.
    - destruct (p v) eqn:E.
      + destruct IH as (r & r' & Hr & Hr' & Hl). rewrite Hr, Hr'. exists (v :: r), r'.
        repeat split. rewrite Hl. reflexivity.
      + exists [], (v :: l). auto.
  Qed.
  Lemma fold_pure {I} (f : I -> V -> I) l : forall i,
    fold_list (fun a v => Val (f a v)) i l = Val (fold_left f l i).
  Proof. induction l as [|v l IH]; intros i; cbn; [reflexivity|apply IH]. Qed.
  Lemma reduce_pure (f : V -> V -> V) v l :
    reduce_list (fun a x => Val (f a x)) (v :: l) = Val (fold_left f l v).
  Proof. cbn. apply fold_pure. Qed.
  Lemma find_index_pure (p : V -> bool) l :
    exists i, find_index_list (pure p) l = Val i /\
      ((i = -1 /\ forallb (fun v => negb (p v)) l = true) \/
       (0 <= i /\ exists v, nth_error l (Z.to_nat i) = Some v /\ p v = true /\
          forallb (fun v => negb (p v)) (firstn (Z.to_nat i) l) = true)).
  Proof.
    induction l as [|v l IH]; cbn.
    - exists (-1). split; [reflexivity|]. left. auto.
    - destruct (p v) eqn:E; cbn.
      + exists 0. split; [reflexivity|]. right. split; [lia|]. exists v. cbn. auto.
      + destruct IH as (i & Hi & [[Hm Hall]|(Hpos & w & Hn & Hw & Hall)]); rewrite Hi.
        * subst i. exists (-1). split; [reflexivity|]. left. cbn. rewrite ?E. auto.
        * exists (i + 1). split; [destruct (i <? 0) eqn:Ei; [lia|reflexivity]|].
          right. split; [lia|]. exists w.
          replace (Z.to_nat (i + 1)) with (S (Z.to_nat i)) by lia. cbn. rewrite ?E. auto.
  Qed.
End Pure.

(* ------------------------------------------------------------ ranges *)
Definition post_next (succ : Z -> Z) (strict : bool) (b cur : Z) : step Z Z :=
  if (if strict then cur >=? b else cur >? b) then Stop else Yield cur (succ cur).
Definition pre_next (succ : Z -> Z) (strict : bool) (b cur : Z) : step Z Z :=
  let n := succ cur in if (if strict then n >=? b else n >? b) then Stop else Yield n n.

Lemma post_unroll (succ : Z -> Z) (strict : bool) (b : Z) : forall m cur fuel,
  (forall x, cur <= x -> x < cur + Z.of_nat m -> succ x = x + 1) ->
  Z.to_nat (b - cur + (if strict then 0 else 1)) = m -> (m < fuel)%nat ->
  unroll fuel (post_next succ strict b) cur = Some (zr cur m, TStop).
Proof.
  induction m as [|m IH]; intros cur fuel G Hm Hf; (destruct fuel as [|f]; [lia|]); cbn [unroll zr]; unfold post_next.
  - destruct strict.
    + destruct (cur >=? b) eqn:E; [reflexivity|lia].
    + destruct (cur >? b) eqn:E; [reflexivity|lia].
  - assert (Hs : succ cur = cur + 1) by (apply G; lia).
    assert (IHm : unroll f (post_next succ strict b) (cur + 1) = Some (zr (cur + 1) m, TStop)).
    { apply IH; [intros x H1 H2; apply G; lia| destruct strict; lia | lia]. }
    destruct strict.
    + destruct (cur >=? b) eqn:E; [lia|]. rewrite Hs. fold (post_next succ true b). rewrite IHm. reflexivity.
    + destruct (cur >? b) eqn:E; [lia|]. rewrite Hs. fold (post_next succ false b). rewrite IHm. reflexivity.
Qed.

Lemma pre_unroll (succ : Z -> Z) (strict : bool) (b : Z) : forall m cur fuel,
  (forall x, cur <= x -> x <= cur + Z.of_nat m -> succ x = x + 1) ->
  Z.to_nat (b - cur - (if strict then 1 else 0)) = m -> (m < fuel)%nat ->
  unroll fuel (pre_next succ strict b) cur = Some (zr (cur + 1) m, TStop).
Proof.
  induction m as [|m IH]; intros cur fuel G Hm Hf; (destruct fuel as [|f]; [lia|]); cbn [unroll zr]; unfold pre_next;
    (assert (Hs : succ cur = cur + 1) by (apply G; lia)); rewrite Hs; cbv zeta.
  - destruct strict.
    + destruct (cur + 1 >=? b) eqn:E; [reflexivity|lia].
    + destruct (cur + 1 >? b) eqn:E; [reflexivity|lia].
  - assert (IHm : unroll f (pre_next succ strict b) (cur + 1) = Some (zr (cur + 1 + 1) m, TStop)).
    { apply IH; [intros x H1 H2; apply G; lia| destruct strict; lia | lia]. }
    destruct strict.
    + destruct (cur + 1 >=? b) eqn:E; [lia|]. fold (pre_next succ true b). rewrite IHm. reflexivity.
    + destruct (cur + 1 >? b) eqn:E; [lia|]. fold (pre_next succ false b). rewrite IHm. reflexivity.
Qed.

(* where Increment must be the exact successor for the range to behave: the points the
   iterator increments before it stops *)
Definition rguard (k : rkind) (a b x : Z) : Prop :=
  match k with
  | Closed => a <= x <= b
  | RightOpen => a <= x < b
  | LeftOpen => a <= x <= Z.max a b
  | OpenR => a <= x <= Z.max a (b - 1)
  | EndlessClosed | EndlessOpen => a <= x
  | _ => False
  end.

Lemma zr_length n : forall lo, length (zr lo n) = n.
Proof. induction n; intros; cbn; [reflexivity|f_equal; apply IHn]. Qed.

Lemma range_finite : forall succ k a b fuel,
  finite k = true ->
  (forall x, rguard k a b x -> succ x = x + 1) ->
  (length (relements k a b) < fuel)%nat ->
  unroll fuel (range_next succ k b) a = Some (relements k a b, TStop).
Proof.
  intros succ k a b fuel Hk G Hf. destruct k; try discriminate; cbn [relements rguard] in *; unfold zrange in *.
  - change (range_next succ Closed b) with (post_next succ false b).
    rewrite zr_length in Hf.
    apply post_unroll; [intros; apply G; lia | lia | lia].
  - change (range_next succ OpenR b) with (pre_next succ true b).
    rewrite zr_length in Hf.
    apply pre_unroll; [intros; apply G; lia | lia | lia].
  - change (range_next succ LeftOpen b) with (pre_next succ false b).
    rewrite zr_length in Hf.
    replace (Z.to_nat (b - a)) with (Z.to_nat (b - a - 0)) by (f_equal; lia).
    apply pre_unroll; [intros; apply G; lia | f_equal; lia | lia].
  - change (range_next succ RightOpen b) with (post_next succ true b).
    rewrite zr_length in Hf.
    replace (Z.to_nat (b - a)) with (Z.to_nat (b - a + 0)) by (f_equal; lia).
    apply post_unroll; [intros; apply G; lia | f_equal; lia | lia].
Qed.

(* endless ranges: every finite prefix is the arithmetic progression from the first element *)
Lemma range_endless : forall succ k a b n,
  (k = EndlessClosed \/ k = EndlessOpen) ->
  (forall x, a <= x -> succ x = x + 1) ->
  prefix n (range_next succ k b) a = Some (zr (rfirst k a) n, a + Z.of_nat n).
Proof.
  intros succ k a b n Hk G. revert a G.
  destruct Hk as [-> | ->]; induction n as [|n IH]; intros a G; cbn [prefix zr rfirst];
    try (f_equal; f_equal; lia).
  - cbn [range_next]. rewrite (G a) by lia.
    rewrite (IH (a + 1)) by (intros; apply G; lia). cbn [rfirst]. f_equal. f_equal. lia.
  - cbn [range_next]. rewrite (G a) by lia. cbv zeta.
    rewrite (IH (a + 1)) by (intros; apply G; lia). cbn [rfirst]. f_equal. f_equal. lia.
Qed.

Lemma In_zr x n : forall lo, In x (zr lo n) <-> lo <= x < lo + Z.of_nat n.
Proof.
  induction n as [|n IH]; intros lo; cbn [zr In]; [lia|].
  rewrite IH. lia.
Qed.

(* `contains` is exactly the bound test *)
Definition rbounds (k : rkind) (a b x : Z) : Prop :=
  match k with
  | Closed => a <= x <= b
  | OpenR => a < x < b
  | LeftOpen => a < x <= b
  | RightOpen => a <= x < b
  | EndlessClosed => a <= x
  | EndlessOpen => a < x
  | BeginlessClosed => x <= b
  | BeginlessOpen => x < b
  end.

Lemma contains_bounds k a b x : rcontains k a b x = true <-> rbounds k a b x.
Proof.
  destruct k; cbn [rcontains rbounds];
    repeat match goal with |- context [negb (?c)] => destruct c eqn:? ; cbn [negb] end; lia.
Qed.

Lemma contains_elements k a b x : finite k = true ->
  (rcontains k a b x = true <-> In x (relements k a b)).
Proof.
  intros Hk. rewrite contains_bounds.
  destruct k; try discriminate; cbn [relements rbounds]; unfold zrange; rewrite In_zr; lia.
Qed.

Lemma contains_endless k a b x : (k = EndlessClosed \/ k = EndlessOpen) ->
  (rcontains k a b x = true <-> exists n, In x (zr (rfirst k a) n)).
Proof.
  intros Hk. rewrite contains_bounds. split.
  - intros H. exists (S (Z.to_nat (x - a))). rewrite In_zr.
    destruct Hk as [-> | ->]; cbn [rbounds rfirst] in *; lia.
  - intros [n H]. rewrite In_zr in H. destruct Hk as [-> | ->]; cbn [rbounds rfirst] in *; lia.
Qed.

(* Int8 (and every other fixed-width type): Increment wraps, so a closed range ending at the
   maximum never stops and yields values outside its bounds *)
Lemma range_wrap_witness :
  exists a b l s', prefix 3 (range_next (succ_wrap_s 8) Closed b) a = Some (l, s') /\
                   exists x, In x l /\ rcontains Closed a b x = false.
Proof.
  exists 126, 127, [126; 127; -128], (-127). split; [vm_compute; reflexivity|].
  exists (-128). split; [cbn; auto|vm_compute; reflexivity].
Qed.

(* the extracted entry points *)
Lemma run_agree : forall St (nx : St -> step Z St) fuel fuel' s l o,
  unroll fuel nx s = Some (l, TStop) -> (fuel <= fuel')%nat ->
  (match o with OReduce _ => l <> [] | _ => True end) ->
  run_impl fuel' nx s o = run_list l o.
Proof.
  intros St nx fuel fuel' s l o Hu Hle Hr.
  destruct (ops_finite Z St nx Z.eqb fuel fuel' s l Hu Hle) as
    (H1 & H2 & H3 & H4 & H5 & H6 & H7 & H8 & H9 & H10 & H11 & H12 & H13 & H14 & H15 & H16 & H17 & H18 & H19 & H20 & H21 & H22 & H23 & H24).
  destruct o; cbn [run_impl run_list]; f_equal; auto.
Qed.

(* Elk Int: Increment is the exact successor, no guard needed *)
Lemma range_finite_int : forall k a b fuel,
  finite k = true -> (length (relements k a b) < fuel)%nat ->
  unroll fuel (range_next Z.succ k b) a = Some (relements k a b, TStop).
Proof. intros. apply range_finite; auto. Qed.

Lemma range_endless_int : forall k a b n,
  (k = EndlessClosed \/ k = EndlessOpen) ->
  prefix n (range_next Z.succ k b) a = Some (zr (rfirst k a) n, a + Z.of_nat n).
Proof. intros. apply range_endless; auto. Qed.

(* fixed-width types below their maximum: succ_wrap_s is exact *)
Lemma succ_wrap_exact w x : 0 < w -> - 2 ^ (w - 1) <= x -> x + 1 < 2 ^ (w - 1) -> succ_wrap_s w x = x + 1.
Proof.
  intros Hw H1 H2. unfold succ_wrap_s. apply wrap_s_id; [exact Hw|].
  unfold fits_s. apply andb_true_intro. split; [apply Z.leb_le|apply Z.ltb_lt]; lia.
Qed.

Lemma range_finite_wrap : forall w k a b fuel,
  0 < w -> finite k = true -> - 2 ^ (w - 1) <= a ->
  (forall x, rguard k a b x -> x + 1 < 2 ^ (w - 1)) ->
  (length (relements k a b) < fuel)%nat ->
  unroll fuel (range_next (succ_wrap_s w) k b) a = Some (relements k a b, TStop).
Proof.
  intros w k a b fuel Hw Hk Ha G Hf. apply range_finite; auto.
  intros x Hx. apply succ_wrap_exact; auto.
  destruct k; cbn [rguard] in Hx; try contradiction; lia.
Qed.

Lemma zr_nth n : forall lo i, (i < n)%nat -> nth_error (zr lo n) i = Some (lo + Z.of_nat i).
Proof.
  induction n as [|n IH]; intros lo i Hi; [lia|].
  destruct i as [|i]; cbn [zr nth_error]; [f_equal; lia|].
  rewrite IH by lia. f_equal. lia.
Qed.

(* ------------------------------------------------------------ statements packaged for Props/C23.v *)
Lemma contains_all : forall k a b x,
  (rcontains k a b x = true <-> rbounds k a b x) /\
  (finite k = true -> (rcontains k a b x = true <-> In x (relements k a b))) /\
  ((k = EndlessClosed \/ k = EndlessOpen) ->
     (rcontains k a b x = true <-> exists n, In x (zr (rfirst k a) n))).
Proof.
  intros. split; [apply contains_bounds|]. split; [apply contains_elements|apply contains_endless].
Qed.

Lemma ops_list_model : forall (V W : Type) (eqb : V -> V -> bool) (p : V -> bool) (f : V -> W) (g : W -> V -> W) (h : V -> V -> V) l v w x n,
  contains_list eqb x l = Val (existsb (fun v => eqb v x) l) /\
  try_first_list l = Val (hd_error l) /\
  take_list n l = (if n <? 0 then Thrown E_OOR else Val (firstn (Z.to_nat n) l)) /\
  drop_list n l = (if n <? 0 then Thrown E_OOR else Val (skipn (Z.to_nat n) l)) /\
  length_list l = Val (Z.of_nat (length l)) /\
  map_list (pure f) l = Val (map f l) /\
  filter_list (pure p) l = Val (filter p l) /\
  reject_list (pure p) l = Val (filter (fun v => negb (p v)) l) /\
  count_list (pure p) l = Val (Z.of_nat (length (filter p l))) /\
  any_list (pure p) l = Val (existsb p l) /\
  every_list (pure p) l = Val (forallb p l) /\
  try_find_list (pure p) l = Val (find p l) /\
  find_list (pure p) l = match find p l with Some v => Val v | None => Thrown E_NF end /\
  fold_list (fun a v => Val (g a v)) w l = Val (fold_left g l w) /\
  reduce_list (fun a x => Val (h a x)) (v :: l) = Val (fold_left h l v) /\
  (exists r r', take_while_list (pure p) l = Val r /\ drop_while_list (pure p) l = Val r' /\ l = r ++ r') /\
  (exists r, take_while_list (pure p) l = Val r /\ (exists r', l = r ++ r') /\ forallb p r = true /\
     (forall r', l = r ++ r' -> match r' with [] => True | v :: _ => p v = false end)) /\
  (exists i, find_index_list (pure p) l = Val i /\
      ((i = -1 /\ forallb (fun v => negb (p v)) l = true) \/
       (0 <= i /\ exists v, nth_error l (Z.to_nat i) = Some v /\ p v = true /\
          forallb (fun v => negb (p v)) (firstn (Z.to_nat i) l) = true))).
Proof.
  intros. repeat match goal with |- _ /\ _ => split end.
  - unfold contains_list. rewrite exists_b_eq. reflexivity.
  - unfold try_first_list. rewrite head_opt_eq. reflexivity.
  - unfold take_list. rewrite take_n_eq. reflexivity.
  - unfold drop_list. rewrite drop_n_eq. reflexivity.
  - reflexivity.
  - apply map_pure. - apply filter_pure. - apply reject_pure. - apply count_pure.
  - apply any_pure. - apply every_pure. - apply try_find_pure. - apply find_pure.
  - apply fold_pure. - apply reduce_pure. - apply drop_while_pure. - apply take_while_pure.
  - apply find_index_pure.
Qed.

Lemma ops_prefix : forall V St (nx : St -> step V St) fuel n s l s',
  prefix n nx s = Some (l, s') -> (n <= fuel)%nat ->
  (forall v, l = [v] -> first_impl nx fuel s = Val v) /\
  (forall k, 0 <= k -> n = S (Z.to_nat k) -> take_impl nx fuel k s = Val (firstn (Z.to_nat k) l)) /\
  (forall p, search_list true p l <> Val None ->
     find_impl nx fuel p s = find_list p l /\ try_find_impl nx fuel p s = try_find_list p l /\
     any_impl nx fuel p s = any_list p l) /\
  (forall p, search_list false p l <> Val None -> take_while_impl nx fuel p s = take_while_list p l).
Proof.
  intros V St nx fuel n s l s' Hp Hf. repeat split.
  - intros v ->. pose proof (prefix_length _ _ _ _ _ _ _ Hp) as Hn. cbn in Hn. subst n.
    eapply p_first; eauto.
  - intros k Hk ->. eapply p_take; eauto.
  - eapply p_find; eauto.
  - eapply p_try_find; eauto.
  - eapply p_any; eauto.
  - intros p Hs. eapply p_take_while; eauto.
Qed.

Lemma reduce_empty_witness :
  exists (l : list Z) (f : Z -> Z -> res Z),
    unroll 1 list_next l = Some ([], TStop) /\
    reduce_impl list_next 1 f l <> reduce_list f [].
Proof. exists [], (fun a b => Val (a + b)). split; [reflexivity|]. vm_compute. discriminate. Qed.

