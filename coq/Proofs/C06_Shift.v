(* C06 extension: shifts. Spec: a << n = Z.shiftl a n (a * 2^n for n >= 0, floor (a / 2^-n)
   for n < 0); a >> n = Z.shiftr a n = Z.shiftl a (-n). *)
From Elk Require Import Base.GoSem Model.C06_Int Proofs.C06_Int.
From Coq Require Import ZifyBool.
Open Scope Z_scope.

Definition sh_ok (r : outcome ival) (z : Z) : Prop :=
  exists v, r = Ok v /\ den v = z /\ canonical v = true.

Lemma pow2_pos n : 0 <= n -> 0 < 2 ^ n.
Proof. intros. apply Z.pow_pos_nonneg; lia. Qed.

(* floor division by p: results 0 and -1 *)
Lemma div_sign a p : 0 < p -> - p <= a < p -> a / p = (if a <? 0 then -1 else 0).
Proof.
  intros Hp Ha. destruct (a <? 0) eqn:E.
  - symmetry. apply (Z.div_unique a p (-1) (a + p)); lia.
  - apply Z.div_small. lia.
Qed.

Lemma zshr_eq x n : 0 <= n -> zshr x n = Z.shiftr x n.
Proof.
  intros Hn. unfold zshr. destruct (Z.log2 (Z.abs x) <? n) eqn:E; [|reflexivity].
  rewrite Z.shiftr_div_pow2 by assumption.
  destruct (Z.eq_dec x 0) as [->|Nz]; [reflexivity|].
  assert (L : Z.abs x < 2 ^ n) by (apply Z.log2_lt_pow2; lia).
  symmetry. apply div_sign; [apply pow2_pos; assumption | lia].
Qed.

Lemma shl_spec_eq a n : shl_spec a n = Z.shiftl a n.
Proof.
  unfold shl_spec. destruct (n <? 0) eqn:E; [|reflexivity].
  rewrite zshr_eq by lia. unfold Z.shiftr. f_equal. lia.
Qed.

Lemma shiftr_as_shiftl a n : Z.shiftr a n = Z.shiftl a (- n).
Proof. reflexivity. Qed.
Lemma shiftl_as_shiftr a n : Z.shiftl a n = Z.shiftr a (- n).
Proof. unfold Z.shiftr. f_equal. lia. Qed.

(* sign fill = right shift by k when a is shorter than k bits *)
Lemma sign_fill_ok a k : 0 <= k -> - 2 ^ k <= a < 2 ^ k ->
  den (sign_fill a) = Z.shiftr a k /\ canonical (sign_fill a) = true.
Proof.
  intros Hk Ha. rewrite Z.shiftr_div_pow2 by assumption.
  rewrite (div_sign a (2 ^ k) (pow2_pos k Hk) Ha).
  unfold sign_fill. destruct (a <? 0); split; reflexivity.
Qed.

Lemma div_pow2_fits i n : fits64 i = true -> 0 <= n -> fits64 (i / 2 ^ n) = true.
Proof.
  intros Hi Hn. apply fits64_b in Hi. apply fits64_b.
  pose proof (pow2_pos n Hn) as P. set (p := 2 ^ n) in *.
  pose proof (Z.div_mod i p ltac:(lia)) as D. pose proof (Z.mod_pos_bound i p P) as B.
  nia.
Qed.

(* x >> n between machine integers *)
Lemma right_small_ok i n : fits64 i = true -> 0 <= n ->
  sh_ok (bind (go_shr_chk i n) (fun r => Ok (Small r))) (Z.shiftr i n).
Proof.
  intros Hi Hn. unfold go_shr_chk. replace (n <? 0) with false by lia. cbn [bind].
  rewrite zshr_eq by assumption. eexists; split; [reflexivity|]. split; [reflexivity|].
  simpl. rewrite Z.shiftr_div_pow2 by assumption. apply div_pow2_fits; assumption.
Qed.

Lemma left_shift_small_ok i n : fits64 i = true -> 0 <= n ->
  sh_ok (left_shift_small i n) (Z.shiftl i n).
Proof.
  intros Hi Hn. pose proof Hi as Hi'. apply fits64_b in Hi.
  unfold left_shift_small. replace (n <? 0) with false by lia. cbn [orb].
  rewrite Z.shiftl_mul_pow2 by assumption.
  destruct (i =? 0) eqn:Ez.
  { apply Z.eqb_eq in Ez. subst i. eexists; split; [reflexivity|]. split; reflexivity. }
  apply Z.eqb_neq in Ez.
  pose proof (pow2_pos n Hn) as Pp. set (p := 2 ^ n) in *.
  destruct (n <=? 63) eqn:E63.
  - assert (Hq : 0 <= 63 - n) by lia.
    unfold go_shr_chk. replace (63 - n <? 0) with false by lia. cbn [bind].
    rewrite zshr_eq, Z.shiftr_div_pow2 by assumption.
    pose proof (pow2_pos (63 - n) Hq) as Pq. 
    assert (PQ : p * 2 ^ (63 - n) = 2 ^ 63).
    { unfold p. rewrite <- Z.pow_add_r by lia. f_equal. lia. }
    set (q := 2 ^ (63 - n)) in *.
    pose proof (Z.div_mod i q ltac:(lia)) as D. pose proof (Z.mod_pos_bound i q Pq) as B.
    set (c := i / q) in *.
    destruct (((i <? 0) && (c =? -1)) || ((i >? 0) && (c =? 0))) eqn:Cnd.
    + unfold go_shl_chk. replace (n <? 0) with false by lia. cbn [bind].
      rewrite Z.shiftl_mul_pow2 by assumption. fold p.
      assert (F : fits64 (i * p) = true).
      { apply fits64_b. destruct (i <? 0) eqn:Neg; simpl in Cnd.
        - assert (c = -1) by lia. nia.
        - assert (c = 0) by lia. nia. }
      rewrite wrap64_id by exact F.
      eexists; split; [reflexivity|]. split; [reflexivity|exact F].
    + eexists; split; [reflexivity|].
      split; [reflexivity|]. simpl. apply Bool.negb_true_iff, fits64_false.
      destruct (i <? 0) eqn:Neg; simpl in Cnd.
      * assert (c <= -2) by nia. left. nia.
      * assert (1 <= c) by nia. right. nia.
  - assert (P64 : 2 ^ 64 <= p).
    { unfold p. apply Z.pow_le_mono_r; lia. }
    eexists; split; [reflexivity|].
    split; [reflexivity|]. simpl. apply Bool.negb_true_iff, fits64_false.
    assert (E64 : 2 ^ 64 = 2 * 2 ^ 63) by reflexivity. nia.
Qed.

Lemma right_shift_big_ok a n : 0 <= n ->
  den (right_shift_big a n) = Z.shiftr a n /\ canonical (right_shift_big a n) = true.
Proof.
  intros Hn. unfold right_shift_big. replace (n <? 0) with false by lia.
  rewrite zshr_eq by assumption. split; [apply norm_den|apply norm_canonical].
Qed.

Lemma left_shift_big_ok a n : canonical (Big a) = true -> 0 <= n ->
  den (left_shift_big a n) = Z.shiftl a n /\ canonical (left_shift_big a n) = true.
Proof.
  intros Ca Hn. unfold left_shift_big. replace (n <? 0) with false by lia.
  split; [reflexivity|]. simpl in *. apply Bool.negb_true_iff in Ca. apply fits64_false in Ca.
  apply Bool.negb_true_iff, fits64_false. rewrite Z.shiftl_mul_pow2 by assumption.
  pose proof (pow2_pos n Hn). nia.
Qed.

(* The guard: values that cannot exist in memory are excluded.
   L is the effective left-shift amount. A non-zero value cannot be shifted left by more than
   2^63-1 bits; a shift to the right by 2^63 bits or more yields the sign only if the operand
   has fewer bits than the amount (true of every integer that fits in memory). *)
Definition shift_guard (a L : Z) : Prop :=
  (max64 < L -> a = 0) /\ (L <= min64 -> - 2 ^ (- L) <= a < 2 ^ (- L)).

Lemma wrap64_neg_min : wrap64 (- min64) = min64.
Proof. reflexivity. Qed.

Lemma ok_pack (v : ival) z : den v = z /\ canonical v = true -> sh_ok (Ok v) z.
Proof. intros [D C]. exists v. auto. Qed.

Lemma not_fits_cases b : fits64 b = false -> b < min64 \/ max64 < b.
Proof. intros H. apply fits64_false in H. unfold min64, max64. lia. Qed.

Theorem ishl_exact x y :
  canonical x = true -> canonical y = true -> shift_guard (den x) (den y) ->
  sh_ok (ishl x y) (Z.shiftl (den x) (den y)).
Proof.
  intros Cx Cy [Ghi Glo].
  destruct x as [a|a], y as [b|b]; simpl in *.
  - (* small << small *)
    pose proof Cy as Cb. apply fits64_iff in Cb.
    unfold small_lsh_small. destruct (b <? 0) eqn:Nb.
    + destruct (Z.eq_dec b min64) as [Em|Nm].
      * replace (wrap64 (- b)) with min64 by (rewrite Em; reflexivity).
        unfold right_shift_small. change (min64 <? 0) with true. cbv iota.
        rewrite shiftl_as_shiftr. apply ok_pack, sign_fill_ok; [lia|apply Glo; lia].
      * assert (F : fits64 (- b) = true) by (apply fits64_iff; unfold min64, max64 in *; lia).
        rewrite wrap64_id by exact F. unfold right_shift_small. replace (- b <? 0) with false by lia.
        rewrite shiftl_as_shiftr. apply right_small_ok; [assumption|lia].
    + apply left_shift_small_ok; [assumption|lia].
  - (* small << big *)
    unfold small_lsh_big. apply Bool.negb_true_iff in Cy. rewrite Cy.
    destruct (not_fits_cases b Cy) as [Lo|Hi].
    + replace (b <? 0) with true by (unfold min64 in Lo; lia).
      rewrite shiftl_as_shiftr. apply ok_pack, sign_fill_ok; [unfold min64 in Lo; lia|apply Glo; lia].
    + replace (b <? 0) with false by (unfold max64 in Hi; lia).
      rewrite (Ghi Hi), Z.shiftl_0_l. apply ok_pack. split; reflexivity.
  - (* big << small *)
    pose proof Cy as Cb. apply fits64_iff in Cb.
    unfold big_lsh_small. destruct (b <? 0) eqn:Nb.
    + destruct (Z.eq_dec b min64) as [Em|Nm].
      * replace (wrap64 (- b)) with min64 by (rewrite Em; reflexivity).
        unfold right_shift_big. change (min64 <? 0) with true. cbv iota.
        rewrite shiftl_as_shiftr. apply ok_pack, sign_fill_ok; [lia|apply Glo; lia].
      * assert (F : fits64 (- b) = true) by (apply fits64_iff; unfold min64, max64 in *; lia).
        rewrite wrap64_id by exact F.
        rewrite shiftl_as_shiftr. apply ok_pack, right_shift_big_ok. lia.
    + apply ok_pack, left_shift_big_ok; [assumption|lia].
  - (* big << big *)
    unfold big_lsh_big. pose proof Cy as Cy'. apply Bool.negb_true_iff in Cy'. rewrite Cy'.
    destruct (not_fits_cases b Cy') as [Lo|Hi].
    + replace (b <? 0) with true by (unfold min64 in Lo; lia).
      rewrite shiftl_as_shiftr. apply ok_pack, sign_fill_ok; [unfold min64 in Lo; lia|apply Glo; lia].
    + exfalso. rewrite (Ghi Hi) in Cx. discriminate.
Qed.

Theorem ishr_exact x y :
  canonical x = true -> canonical y = true -> shift_guard (den x) (- den y) ->
  sh_ok (ishr x y) (Z.shiftr (den x) (den y)).
Proof.
  intros Cx Cy [Ghi Glo].
  destruct x as [a|a], y as [b|b]; simpl in *.
  - (* small >> small *)
    pose proof Cy as Cb. apply fits64_iff in Cb.
    unfold small_rsh_small. destruct (b <? 0) eqn:Nb.
    + destruct (Z.eq_dec b min64) as [Em|Nm].
      * replace (wrap64 (- b)) with min64 by (rewrite Em; reflexivity).
        assert (A0 : a = 0) by (apply Ghi; unfold min64, max64 in *; lia). subst a.
        apply ok_pack. split; [|reflexivity]. simpl. rewrite Z.shiftr_0_l. reflexivity.
      * assert (F : fits64 (- b) = true) by (apply fits64_iff; unfold min64, max64 in *; lia).
        rewrite wrap64_id by exact F. rewrite shiftr_as_shiftl.
        apply left_shift_small_ok; [assumption|lia].
    + apply right_small_ok; [assumption|lia].
  - (* small >> big *)
    unfold small_rsh_big. apply Bool.negb_true_iff in Cy. rewrite Cy.
    destruct (not_fits_cases b Cy) as [Lo|Hi].
    + replace (b >? 0) with false by (unfold min64 in Lo; lia).
      rewrite (Ghi ltac:(unfold min64, max64 in *; lia)).
      apply ok_pack. split; [|reflexivity]. simpl. rewrite Z.shiftr_0_l. reflexivity.
    + replace (b >? 0) with true by (unfold max64 in Hi; lia).
      apply ok_pack, sign_fill_ok; [unfold max64 in Hi; lia|].
      replace b with (- - b) by lia. apply Glo. unfold min64, max64 in *; lia.
  - (* big >> small *)
    pose proof Cy as Cb. apply fits64_iff in Cb.
    unfold big_rsh_small. destruct (b <? 0) eqn:Nb.
    + destruct (Z.eq_dec b min64) as [Em|Nm].
      * exfalso. assert (A0 : a = 0) by (apply Ghi; unfold min64, max64 in *; lia). subst a. discriminate.
      * assert (F : fits64 (- b) = true) by (apply fits64_iff; unfold min64, max64 in *; lia).
        rewrite wrap64_id by exact F. rewrite shiftr_as_shiftl.
        apply ok_pack, left_shift_big_ok; [assumption|lia].
    + apply ok_pack, right_shift_big_ok. lia.
  - (* big >> big *)
    unfold big_rsh_big. pose proof Cy as Cy'. apply Bool.negb_true_iff in Cy'. rewrite Cy'.
    destruct (not_fits_cases b Cy') as [Lo|Hi].
    + exfalso. rewrite (Ghi ltac:(unfold min64, max64 in *; lia)) in Cx. discriminate.
    + replace (b >? 0) with true by (unfold max64 in Hi; lia).
      apply ok_pack, sign_fill_ok; [unfold max64 in Hi; lia|].
      replace b with (- - b) by lia. apply Glo. unfold min64, max64 in *; lia.
Qed.

(* no Go panic for any operands, guarded or not (the negative-shift-count panic of the
   unfixed leftBitshiftSmallInt cannot happen) *)
Lemma left_shift_small_nopanic i n : exists v, left_shift_small i n = Ok v.
Proof.
  unfold left_shift_small. destruct ((n <? 0) || (i =? 0)) eqn:E; [eauto|].
  destruct (n <=? 63) eqn:E63; [|eauto].
  unfold go_shr_chk. replace (63 - n <? 0) with false by lia. cbn [bind].
  match goal with |- context [if ?c then _ else _] => destruct c end; [|eauto].
  unfold go_shl_chk. replace (n <? 0) with false by lia. cbn [bind]. eauto.
Qed.

Lemma right_shift_small_nopanic i n : exists v, right_shift_small i n = Ok v.
Proof.
  unfold right_shift_small. destruct (n <? 0) eqn:E; [eauto|].
  unfold go_shr_chk. rewrite E. simpl. eauto.
Qed.

Theorem shifts_no_panic x y : (exists v, ishl x y = Ok v) /\ (exists v, ishr x y = Ok v).
Proof.
  split; destruct x as [a|a], y as [b|b]; simpl; eauto.
  - unfold small_lsh_small. destruct (b <? 0); [apply right_shift_small_nopanic|apply left_shift_small_nopanic].
  - unfold small_lsh_big, small_lsh_small. destruct (fits64 b).
    + destruct (b <? 0); [apply right_shift_small_nopanic|apply left_shift_small_nopanic].
    + destruct (b <? 0); eauto.
  - unfold small_rsh_small. destruct (b <? 0) eqn:E; [apply left_shift_small_nopanic|].
    unfold go_shr_chk. rewrite E. simpl. eauto.
  - unfold small_rsh_big, small_rsh_small. destruct (fits64 b).
    + destruct (b <? 0) eqn:E; [apply left_shift_small_nopanic|].
      unfold go_shr_chk. rewrite E. simpl. eauto.
    + destruct (b >? 0); eauto.
Qed.

(* arithmetic reading for every amount that is a SmallInt other than MinSmallInt *)
Definition shl_arith (a n : Z) : Z := if 0 <=? n then a * 2 ^ n else a / 2 ^ (- n).

Lemma shiftl_arith a n : Z.shiftl a n = shl_arith a n.
Proof.
  unfold shl_arith. destruct (0 <=? n) eqn:E.
  - apply Z.shiftl_mul_pow2. lia.
  - apply Z.shiftl_div_pow2. lia.
Qed.

Theorem shift_exact_small_amounts x y :
  canonical x = true -> canonical y = true -> min64 < den y <= max64 ->
  sh_ok (ishl x y) (shl_arith (den x) (den y)) /\ sh_ok (ishr x y) (shl_arith (den x) (- den y)).
Proof.
  intros Cx Cy R. split.
  - rewrite <- shiftl_arith. apply ishl_exact; try assumption.
    unfold shift_guard, min64, max64 in *. split; intros; lia.
  - rewrite <- shiftl_arith, <- shiftr_as_shiftl. apply ishr_exact; try assumption.
    unfold shift_guard, min64, max64 in *. split; intros; lia.
Qed.

Lemma obs_indep {A} (obs : ival -> A) x y :
  canonical x = true -> canonical y = true -> den x = den y -> obs x = obs y.
Proof. intros Cx Cy E. rewrite (canonical_unique x y Cx Cy E). reflexivity. Qed.
