(* C26 — proofs about the interleaving model of the symbol table. *)
From Coq Require Import ZArith List Bool Arith Lia ZifyBool ZifyNat.
Import ListNotations.
From Elk Require Import Model.C26_SymTab.
Open Scope Z_scope.

(* ------------------------------------------------------------------ list facts *)

Lemma nth_error_app_one : forall (l : list Z) a i n,
  nth_error (l ++ [a]) i = Some n <->
  (nth_error l i = Some n \/ (i = length l /\ n = a)).
Proof.
  intros l a i n. destruct (Nat.lt_ge_cases i (length l)) as [Hlt|Hge].
  - rewrite nth_error_app1 by exact Hlt. split; [auto|]. intros [H|[H _]]; [exact H|lia].
  - rewrite nth_error_app2 by exact Hge.
    assert (Hn : nth_error l i = None) by (apply nth_error_None; exact Hge).
    rewrite Hn. destruct (i - length l)%nat as [|k] eqn:Hk; cbn.
    + split.
      * intros H. inversion H. right. split; [lia|reflexivity].
      * intros [H|[_ H]]; [discriminate|subst; reflexivity].
    + split.
      * destruct k; discriminate.
      * intros [H|[H _]]; [discriminate|lia].
Qed.

Lemma nth_error_lt : forall (l : list Z) i n, nth_error l i = Some n -> (i < length l)%nat.
Proof. intros l i n H. apply nth_error_Some. congruence. Qed.

Lemma nth_error_nth0 : forall (l : list Z) i n, nth_error l i = Some n -> nth i l 0 = n.
Proof. intros l i n H. apply nth_error_nth with (d := 0) in H. exact H. Qed.

Lemma nth_nth_error : forall (l : list Z) i, (i < length l)%nat -> nth_error l i = Some (nth i l 0).
Proof. intros l i H. apply nth_error_nth'. exact H. Qed.

Lemma find_index_some : forall n l k j,
  find_index n l k = Some j -> k <= j /\ nth_error l (Z.to_nat (j - k)) = Some n.
Proof.
  intros n l. induction l as [|x r IH]; intros k j H; cbn in H; [discriminate|].
  destruct (Z.eqb_spec x n) as [->|Hne].
  - inversion H. subst. split; [lia|]. replace (j - j) with 0 by lia. reflexivity.
  - apply IH in H. destruct H as [H1 H2]. split; [lia|].
    replace (Z.to_nat (j - k)) with (S (Z.to_nat (j - (k + 1)))) by lia. exact H2.
Qed.

Lemma find_index_none : forall n l k, find_index n l k = None -> ~ In n l.
Proof.
  intros n l. induction l as [|x r IH]; intros k H; cbn in *; [tauto|].
  destruct (Z.eqb_spec x n) as [->|Hne]; [discriminate|].
  intros [E|E]; [congruence|]. exact (IH _ H E).
Qed.

Lemma find_index_in : forall n l k, In n l -> exists j, find_index n l k = Some j.
Proof.
  intros n l. induction l as [|x r IH]; intros k H; cbn in *; [tauto|].
  destruct (Z.eqb_spec x n) as [->|Hne]; [eauto|].
  destruct H as [E|E]; [congruence|]. apply IH. exact E.
Qed.

(* ------------------------------------------------------------------ the invariant *)

Definition writing (T : thread) : bool :=
  match t_fn T with Some FAdd => negb (Nat.eqb (t_pc T) 0) | _ => false end.

Definition reading (T : thread) : bool :=
  match t_fn T with
  | Some FGet => Nat.eqb (t_pc T) 1 || Nat.eqb (t_pc T) 2
  | Some FGetName => negb (Nat.eqb (t_pc T) 0)
  | _ => false
  end.

(* the writer sits between `nameTable[name] = symbol` and the append *)
Definition pend (w : option nat) (m : nat -> thread) : option Z :=
  match w with
  | Some t => if Nat.eqb (t_pc (m t)) 8 then Some (a_name (m t)) else None
  | None => None
  end.
Definition pending (s : state) : option Z := pend (wr s) (th s).

Definition bij_plus (m : Z -> option Z) (l : list Z) (p : option Z) : Prop :=
  forall n i, m n = Some i <->
    ((0 <= i /\ nth_error l (Z.to_nat i) = Some n) \/ (p = Some n /\ i = zlen l)).

Definition bij (m : Z -> option Z) (l : list Z) : Prop :=
  forall n i, m n = Some i <-> (0 <= i /\ nth_error l (Z.to_nat i) = Some n).

Definition ntval (m : Z -> option Z) (T : thread) : Prop :=
  if l_ok T then m (a_name T) = Some (l_val T) else m (a_name T) = None.

Definition tinv (m : Z -> option Z) (l : list Z) (T : thread) : Prop :=
  match t_fn T with
  | None => True
  | Some FExistsId =>
      t_defers T = [] /\
      match t_pc T with
      | 0%nat => True
      | 1%nat => 0 <= l_len T <= zlen l
      | _ => False
      end
  | Some FGet =>
      t_defers T = [] /\
      match t_pc T with
      | 0%nat | 1%nat => True
      | 2%nat => ntval m T
      | 3%nat => l_ok T = true -> m (a_name T) = Some (l_val T)
      | 4%nat => l_ok T = false
      | 5%nat => l_ok T = true /\ m (a_name T) = Some (l_val T)
      | _ => False
      end
  | Some FGetName =>
      match t_pc T with
      | 0%nat | 1%nat => t_defers T = []
      | 2%nat => t_defers T = [RUnlock]
      | 3%nat => t_defers T = [RUnlock] /\ l_len T = zlen l
      | 4%nat => t_defers T = [RUnlock] /\ (a_sym T >= zlen l \/ a_sym T < 0)
      | 5%nat => t_defers T = [RUnlock] /\ 0 <= a_sym T < zlen l
      | 6%nat => t_defers T = [RUnlock] /\ 0 <= a_sym T < zlen l /\
                 l_name T = nth (Z.to_nat (a_sym T)) l 0
      | _ => False
      end
  | Some FAdd =>
      match t_pc T with
      | 0%nat | 1%nat => t_defers T = []
      | 2%nat => t_defers T = [Unlock]
      | 3%nat => t_defers T = [Unlock] /\ ntval m T
      | 4%nat => t_defers T = [Unlock] /\ l_ok T = true /\ m (a_name T) = Some (l_val T)
      | 5%nat => t_defers T = [Unlock] /\ m (a_name T) = None
      | 6%nat => t_defers T = [Unlock] /\ m (a_name T) = None /\ l_len T = zlen l
      | 7%nat => t_defers T = [Unlock] /\ m (a_name T) = None /\ l_sym T = zlen l
      | 8%nat => t_defers T = [Unlock] /\ l_sym T = zlen l
      | 9%nat => t_defers T = [Unlock] /\ m (a_name T) = Some (l_sym T)
      | _ => False
      end
  end.

(* what a recorded result says about the tables; monotone (see ev_ok_mono) *)
Definition res_ok (m : Z -> option Z) (l : list Z) (f : fname) (n i : Z) (r : result) : Prop :=
  match f, r with
  | FAdd, RSym j => m n = Some j /\ 0 <= j /\ nth_error l (Z.to_nat j) = Some n
  | FGet, RSymOk j true => m n = Some j
  | FGet, RSymOk j false => j = -1
  | FGetName, RNameOk k true => 0 <= i /\ nth_error l (Z.to_nat i) = Some k
  | FGetName, RNameOk k false => k = empty_name
  | FExistsId, RBool true => 0 < i < zlen l
  | FExistsId, RBool false => True
  | _, _ => False
  end.

Definition ev_ok (m : Z -> option Z) (l : list Z) (e : event) : Prop :=
  match e with
  | EvCall _ _ _ _ => True
  | EvLin _ f n i r => res_ok m l f n i r
  | EvRet _ f n i r => res_ok m l f n i r
  end.

Record ginv (s : state) : Prop := mkGinv {
  g_wr : forall t, wr s = Some t <-> writing (th s t) = true;
  g_rd : forall t, In t (rd s) <-> reading (th s t) = true;
  g_excl : wr s <> None -> rd s = [];
  g_tab : bij_plus (nt s) (it s) (pending s);
  g_pend : forall n, pending s = Some n -> ~ In n (it s);
  g_thr : forall t, tinv (nt s) (it s) (th s t);
  g_log : forall e, In e (trace s) -> ev_ok (nt s) (it s) e
}.

(* the tables only grow *)
Definition ext (m : Z -> option Z) (l : list Z) (m' : Z -> option Z) (l' : list Z) : Prop :=
  (forall n j, m n = Some j -> m' n = Some j) /\
  (forall i k, nth_error l i = Some k -> nth_error l' i = Some k) /\
  zlen l <= zlen l'.

Lemma ext_refl : forall m l, ext m l m l.
Proof. intros. repeat split; auto. lia. Qed.

Lemma ext_trans : forall m1 l1 m2 l2 m3 l3, ext m1 l1 m2 l2 -> ext m2 l2 m3 l3 -> ext m1 l1 m3 l3.
Proof.
  intros m1 l1 m2 l2 m3 l3 (A1 & A2 & A3) (B1 & B2 & B3). repeat split; intros; auto. lia.
Qed.

Lemma res_ok_mono : forall m l m' l' f n i r, ext m l m' l' -> res_ok m l f n i r -> res_ok m' l' f n i r.
Proof.
  intros m l m' l' f n i r (E1 & E2 & E3) H.
  destruct f, r as [j|j [|]|k [|]|[|]]; cbn in *; auto; try tauto; try lia.
  - destruct H as [H0 H1]. split; [exact H0|]. apply E2. exact H1.
  - destruct H as (H0 & H1 & H2). repeat split; auto.
Qed.

Lemma add_ok : forall m l n j, bij_plus m l None -> m n = Some j ->
  m n = Some j /\ 0 <= j /\ nth_error l (Z.to_nat j) = Some n.
Proof.
  intros m l n j B H. split; [exact H|]. apply B in H. destruct H as [H|[H _]]; [exact H|discriminate].
Qed.

Lemma ev_ok_mono : forall m l m' l' e, ext m l m' l' -> ev_ok m l e -> ev_ok m' l' e.
Proof. intros m l m' l' [| |] E H; cbn in *; auto; eapply res_ok_mono; eauto. Qed.

(* threads that hold no lock only carry monotone facts *)
Lemma tinv_frame : forall m l m' l' T,
  ext m l m' l' -> writing T = false -> reading T = false -> tinv m l T -> tinv m' l' T.
Proof.
  intros m l m' l' T (E1 & E2 & E3) Hw Hr H.
  unfold tinv, writing, reading in *.
  destruct (t_fn T) as [[| | |]|]; auto.
  - destruct H as [H0 H]. split; [exact H0|].
    destruct (t_pc T) as [|[|k]]; auto. lia.
  - destruct H as [H0 H]. split; [exact H0|].
    destruct (t_pc T) as [|[|[|[|[|[|k]]]]]]; auto; try discriminate.
    destruct H as [H1 H2]. split; auto.
  - destruct (t_pc T) as [|k]; auto. discriminate.
  - destruct (t_pc T) as [|k]; auto. discriminate.
Qed.

(* ------------------------------------------------------------------ structural helpers *)

Lemma upd_same : forall m t T, upd_th m t T t = T.
Proof. intros. unfold upd_th. rewrite Nat.eqb_refl. reflexivity. Qed.

Lemma upd_other : forall m t T t', t' <> t -> upd_th m t T t' = m t'.
Proof. intros. unfold upd_th. destruct (Nat.eqb_spec t' t); [contradiction|reflexivity]. Qed.

Lemma wr_keep : forall w m t Tn,
  (forall t', w = Some t' <-> writing (m t') = true) -> writing Tn = writing (m t) ->
  forall t', w = Some t' <-> writing (upd_th m t Tn t') = true.
Proof.
  intros w m t Tn H E t'. destruct (Nat.eq_dec t' t) as [->|Hne].
  - rewrite upd_same, E. apply H.
  - rewrite upd_other by exact Hne. apply H.
Qed.

Lemma rd_keep : forall (r : list nat) m t Tn,
  (forall t', In t' r <-> reading (m t') = true) -> reading Tn = reading (m t) ->
  forall t', In t' r <-> reading (upd_th m t Tn t') = true.
Proof.
  intros r m t Tn H E t'. destruct (Nat.eq_dec t' t) as [->|Hne].
  - rewrite upd_same, E. apply H.
  - rewrite upd_other by exact Hne. apply H.
Qed.

Lemma wr_acq : forall m t Tn,
  (forall t', None = Some t' <-> writing (m t') = true) -> writing Tn = true ->
  forall t', Some t = Some t' <-> writing (upd_th m t Tn t') = true.
Proof.
  intros m t Tn H E t'. destruct (Nat.eq_dec t' t) as [->|Hne].
  - rewrite upd_same, E. tauto.
  - rewrite upd_other by exact Hne. split.
    + intros X. inversion X. congruence.
    + intros X. apply H in X. discriminate.
Qed.

Lemma wr_rel : forall w m t Tn,
  (forall t', w = Some t' <-> writing (m t') = true) -> writing (m t) = true -> writing Tn = false ->
  forall t', None = Some t' <-> writing (upd_th m t Tn t') = true.
Proof.
  intros w m t Tn H E0 E t'. destruct (Nat.eq_dec t' t) as [->|Hne].
  - rewrite upd_same, E. split; discriminate.
  - rewrite upd_other by exact Hne. split; [discriminate|].
    intros X. apply H in X. apply H in E0. congruence.
Qed.

Lemma rd_acq : forall (r : list nat) m t Tn,
  (forall t', In t' r <-> reading (m t') = true) -> reading Tn = true ->
  forall t', In t' (t :: r) <-> reading (upd_th m t Tn t') = true.
Proof.
  intros r m t Tn H E t'. destruct (Nat.eq_dec t' t) as [->|Hne].
  - rewrite upd_same, E. cbn. tauto.
  - rewrite upd_other by exact Hne. cbn. rewrite <- H. split; [intros [X|X]; [congruence|exact X]|auto].
Qed.

Lemma rd_rel : forall (r : list nat) m t Tn,
  (forall t', In t' r <-> reading (m t') = true) -> reading Tn = false ->
  forall t', In t' (remove Nat.eq_dec t r) <-> reading (upd_th m t Tn t') = true.
Proof.
  intros r m t Tn H E t'. destruct (Nat.eq_dec t' t) as [->|Hne].
  - rewrite upd_same, E. split; [|discriminate]. intros X. apply remove_In in X. contradiction.
  - rewrite upd_other by exact Hne. rewrite <- H. split.
    + intros X. apply in_remove in X. tauto.
    + intros X. apply in_in_remove; auto.
Qed.

Lemma thr_keep : forall mm l m t Tn,
  (forall t', tinv mm l (m t')) -> tinv mm l Tn -> forall t', tinv mm l (upd_th m t Tn t').
Proof.
  intros mm l m t Tn H E t'. destruct (Nat.eq_dec t' t) as [->|Hne].
  - rewrite upd_same. exact E.
  - rewrite upd_other by exact Hne. apply H.
Qed.

(* the stepping thread holds the write lock: nobody else holds anything *)
Lemma thr_write : forall w (r : list nat) mm l mm' l' m t Tn,
  (forall t', w = Some t' <-> writing (m t') = true) ->
  (forall t', In t' r <-> reading (m t') = true) ->
  w = Some t -> r = [] -> ext mm l mm' l' ->
  (forall t', tinv mm l (m t')) -> tinv mm' l' Tn -> forall t', tinv mm' l' (upd_th m t Tn t').
Proof.
  intros w r mm l mm' l' m t Tn Hw Hr Ew Er Hext H E t'. destruct (Nat.eq_dec t' t) as [->|Hne].
  - rewrite upd_same. exact E.
  - rewrite upd_other by exact Hne. eapply tinv_frame; [exact Hext| | |apply H].
    + destruct (writing (m t')) eqn:X; [|reflexivity]. apply Hw in X. congruence.
    + destruct (reading (m t')) eqn:X; [|reflexivity]. apply Hr in X. subst r. contradiction.
Qed.

Lemma log_keep : forall mm l (tr : list event) e,
  (forall x, In x tr -> ev_ok mm l x) -> ev_ok mm l e -> forall x, In x (e :: tr) -> ev_ok mm l x.
Proof. intros mm l tr e H E x [<-|X]; auto. Qed.

Lemma log_mono : forall mm l mm' l' (tr : list event),
  ext mm l mm' l' -> (forall x, In x tr -> ev_ok mm l x) -> forall x, In x tr -> ev_ok mm' l' x.
Proof. intros. eapply ev_ok_mono; eauto. Qed.

Lemma pend_upd : forall w m t Tn,
  Nat.eqb (t_pc Tn) 8 = Nat.eqb (t_pc (m t)) 8 -> a_name Tn = a_name (m t) ->
  pend w (upd_th m t Tn) = pend w m.
Proof.
  intros w m t Tn E1 E2. unfold pend. destruct w as [t0|]; [|reflexivity].
  destruct (Nat.eq_dec t0 t) as [->|Hne].
  - rewrite upd_same, E1, E2. reflexivity.
  - rewrite upd_other by exact Hne. reflexivity.
Qed.

Lemma bij_plus_none_in : forall m l n, bij_plus m l None -> m n = None -> ~ In n l.
Proof.
  intros m l n B Hn Hin. apply In_nth_error in Hin. destruct Hin as [k Hk].
  assert (X : m n = Some (Z.of_nat k)).
  { apply B. left. split; [lia|]. rewrite Nat2Z.id. exact Hk. }
  congruence.
Qed.

Lemma pend_upd_other : forall w m t Tn, w <> Some t -> pend w (upd_th m t Tn) = pend w m.
Proof.
  intros w m t Tn H. unfold pend. destruct w as [t0|]; [|reflexivity].
  rewrite upd_other by congruence. reflexivity.
Qed.

Ltac t_struct HeqT Hwt :=
  first
    [ assumption
    | apply wr_keep; [assumption | rewrite <- HeqT; reflexivity]
    | apply rd_keep; [assumption | rewrite <- HeqT; reflexivity]
    | apply rd_acq; [assumption | reflexivity]
    | apply rd_rel; [assumption | reflexivity]
    | apply wr_acq; [assumption | reflexivity]
    | rewrite pend_upd; [assumption | rewrite <- HeqT; reflexivity | rewrite <- HeqT; reflexivity ]
    | rewrite pend_upd_other by (let X := fresh in intros X; apply Hwt in X; discriminate); assumption
    | apply thr_keep; [assumption | cbn]
    | apply log_keep; [assumption | cbn]
    | (let X := fresh in intros X; congruence)
    | idtac ].

Ltac t_begin := split; [|apply ext_refl]; constructor; unfold pending; cbn [nt it wr rd th trace].

Lemma step_ginv : forall s t a s',
  ginv s -> step ref_functions s t a = Some s' ->
  ginv s' /\ ext (nt s) (it s) (nt s') (it s').
Proof.
  intros s t a s' [Hwr Hrd Hex Htab Hpend Hthr Hlog] Hstep.
  unfold pending in *.
  unfold step in Hstep.
  pose proof (Hthr t) as Ht. pose proof (Hwr t) as Hwt. pose proof (Hrd t) as Hrt.
  remember (th s t) as T eqn:HeqT.
  destruct T as [fn pc an asy lv lo ll ls ln df].
  cbn [t_fn t_pc] in Hstep.
  destruct fn as [f|].
  2:{ (* Start *)
    destruct a as [f n i|]; [|discriminate]. inversion Hstep; subst s'; clear Hstep.
    assert (Hnw : wr s <> Some t).
    { intros X. apply Hwt in X. discriminate. }
    split; [|apply ext_refl].
    constructor; unfold pending; cbn [nt it wr rd th trace].
    - apply wr_keep; [assumption | rewrite <- HeqT; destruct f; reflexivity].
    - apply rd_keep; [assumption | rewrite <- HeqT; destruct f; reflexivity].
    - assumption.
    - rewrite pend_upd_other by exact Hnw. assumption.
    - rewrite pend_upd_other by exact Hnw. assumption.
    - apply thr_keep; [assumption|]. destruct f; cbn; auto.
    - apply log_keep; [assumption|exact I]. }
  destruct a; [discriminate|].
  destruct f.
  - (* ExistsId *)
    cbn in Ht, Hwt, Hrt. destruct Ht as [-> Ht].
    destruct pc as [|[|pc]]; try tauto; cbn in Hstep; injection Hstep as <-.
    + t_begin. all: try (t_struct HeqT Hwt).
      * split; [reflexivity|]. unfold zlen. lia.
      * destruct (asy <? zlen (it s)) eqn:E1, (asy >? 0) eqn:E2; cbn; auto. lia.
    + t_begin. all: try (t_struct HeqT Hwt).
      * exact I.
      * destruct (asy <? ll) eqn:E1, (asy >? 0) eqn:E2; cbn; auto. lia.
  - (* Get *)
    cbn in Ht, Hwt, Hrt. destruct Ht as [-> Ht].
    destruct pc as [|[|[|[|[|[|pc]]]]]]; try tauto; cbn in Hstep.
    + (* RLock *)
      destruct (wr s) eqn:Hw; [discriminate|]. injection Hstep as <-.
      t_begin. all: try (t_struct HeqT Hwt). split; auto.
    + (* ReadName *)
      assert (Hw : wr s = None).
      { destruct (wr s) eqn:Hw; [|reflexivity]. assert (X : rd s = []) by (apply Hex; congruence).
        assert (Y : In t (rd s)) by (apply Hrt; reflexivity). rewrite X in Y. contradiction. }
      rewrite Hw in *. cbn [pend] in *.
      destruct (nt s an) as [v|] eqn:Hn; injection Hstep as <-.
      * t_begin. all: try (t_struct HeqT Hwt). all: cbn; auto.
      * t_begin. all: try (t_struct HeqT Hwt). all: cbn; auto.
    + (* RUnlock *) injection Hstep as <-.
      t_begin. all: try (t_struct HeqT Hwt).
      * intros X. rewrite (Hex X). reflexivity.
      * split; [reflexivity|]. unfold ntval in Ht. cbn in Ht. intros ->. exact Ht.
    + (* Branch *) destruct lo; injection Hstep as <-.
      * t_begin. all: try (t_struct HeqT Hwt). cbn. auto.
      * t_begin. all: try (t_struct HeqT Hwt). cbn. auto.
    + (* Return *) injection Hstep as <-.
      t_begin. all: try (t_struct HeqT Hwt). all: cbn; auto.
    + (* Return *) injection Hstep as <-.
      t_begin. all: try (t_struct HeqT Hwt). all: cbn; tauto.
  - (* GetName *)
    cbn in Ht, Hwt, Hrt.
    destruct pc as [|[|[|[|[|[|[|pc]]]]]]]; try tauto; cbn in Hstep.
    + (* RLock *) subst df.
      destruct (wr s) eqn:Hw; [discriminate|]. injection Hstep as <-.
      t_begin. all: try (t_struct HeqT Hwt). reflexivity.
    + (* DeferRUnlock *) subst df. injection Hstep as <-.
      t_begin. all: try (t_struct HeqT Hwt). reflexivity.
    + (* ReadLen *) subst df. unfold add_lin, lin_point in Hstep; cbn in Hstep.
      destruct ((asy >=? zlen (it s)) || (asy <? 0)) eqn:Ec; injection Hstep as <-.
      * t_begin. all: try (t_struct HeqT Hwt). all: cbn; auto.
      * t_begin. all: try (t_struct HeqT Hwt). all: cbn; auto.
    + (* Branch *) destruct Ht as [-> Hl]. subst ll.
      destruct ((asy >=? zlen (it s)) || (asy <? 0)) eqn:Ec; injection Hstep as <-.
      * t_begin. all: try (t_struct HeqT Hwt). split; [reflexivity|lia].
      * t_begin. all: try (t_struct HeqT Hwt). split; [reflexivity|lia].
    + (* Return "" false *) destruct Ht as [-> Hl]. cbn in Hstep. injection Hstep as <-.
      t_begin. all: try (t_struct HeqT Hwt).
      * intros X. rewrite (Hex X). reflexivity.
      * exact I.
      * reflexivity.
    + (* ReadId *) destruct Ht as [-> Hl].
      replace ((0 <=? asy) && (asy <? zlen (it s))) with true in Hstep by lia.
      injection Hstep as <-.
      t_begin. all: try (t_struct HeqT Hwt).
      * auto.
      * split; [lia|]. apply nth_nth_error. unfold zlen in Hl. lia.
    + (* Return val true *) destruct Ht as (-> & Hl & Hn). cbn in Hstep. injection Hstep as <-.
      t_begin. all: try (t_struct HeqT Hwt).
      * intros X. rewrite (Hex X). reflexivity.
      * exact I.
      * split; [lia|]. subst ln. apply nth_nth_error. unfold zlen in Hl. lia.
  - (* Add *)
    cbn in Ht, Hwt, Hrt.
    destruct pc as [|pc].
    { (* Lock *) subst df. cbn in Hstep.
      destruct (wr s) eqn:Hw; [discriminate|]. destruct (rd s) eqn:Hr; [|discriminate].
      injection Hstep as <-.
      t_begin. all: try (t_struct HeqT Hwt).
      - unfold pend. rewrite upd_same. cbn. exact Htab.
      - unfold pend. rewrite upd_same. cbn. discriminate.
      - reflexivity. }
    assert (Hw : wr s = Some t) by (apply Hwt; reflexivity).
    assert (Hr : rd s = []) by (apply Hex; congruence).
    pose proof Htab as Htab'. pose proof Hpend as Hpend'.
    rewrite Hw in Htab', Hpend'. unfold pend in Htab', Hpend'. rewrite <- HeqT in Htab', Hpend'.
    cbn [t_pc a_name] in Htab', Hpend'.
    destruct pc as [|[|[|[|[|[|[|[|[|pc]]]]]]]]]; try tauto; cbn in Hstep, Htab', Hpend'.
    + (* DeferUnlock *) subst df. injection Hstep as <-.
      t_begin. all: try (t_struct HeqT Hwt). reflexivity.
    + (* ReadName *) subst df. unfold add_lin, lin_point in Hstep; cbn in Hstep.
      destruct (nt s an) as [v|] eqn:Hn; injection Hstep as <-.
      * t_begin. all: try (t_struct HeqT Hwt). all: cbn; auto. eapply add_ok; eauto.
      * t_begin. all: try (t_struct HeqT Hwt). all: cbn; auto.
    + (* Branch *) destruct Ht as [-> Hv]. unfold ntval in Hv. cbn in Hv.
      destruct lo; injection Hstep as <-.
      * t_begin. all: try (t_struct HeqT Hwt). all: cbn; auto.
      * t_begin. all: try (t_struct HeqT Hwt). all: cbn; auto.
    + (* Return val *) destruct Ht as (-> & Hv1 & Hv2). cbn in Hstep. injection Hstep as <-.
      t_begin. all: try (t_struct HeqT Hwt).
      * apply wr_rel with (w := wr s); [assumption | rewrite <- HeqT; reflexivity | reflexivity].
      * exact I.
      * eapply add_ok; eauto.
    + (* ReadLen *) destruct Ht as (-> & Hv). injection Hstep as <-.
      t_begin. all: try (t_struct HeqT Hwt). all: cbn; auto.
    + (* LetSymLen *) destruct Ht as (-> & Hv & Hl). injection Hstep as <-.
      t_begin. all: try (t_struct HeqT Hwt). all: cbn; auto.
    + (* WriteName *) destruct Ht as (-> & Hv & Hl). injection Hstep as <-.
      assert (Hnin : ~ In an (it s)) by (eapply bij_plus_none_in; eauto).
      assert (Hext : ext (nt s) (it s) (upd_nt (nt s) an ls) (it s)).
      { repeat split; auto; [|lia]. intros n j Hj. unfold upd_nt.
        destruct (Z.eqb_spec n an) as [->|Hne]; [congruence|exact Hj]. }
      split; [|exact Hext].
      constructor; unfold pending; cbn [nt it wr rd th trace]. all: try (t_struct HeqT Hwt).
      * rewrite Hw. unfold pend. rewrite upd_same. cbn. intros n i. unfold upd_nt.
        destruct (Z.eqb_spec n an) as [->|Hne].
        -- split.
           ++ intros X. right. split; [reflexivity|congruence].
           ++ intros [[X1 X2]|[_ X]]; [|congruence].
              exfalso. apply Hnin. eapply nth_error_In. exact X2.
        -- rewrite (Htab' n i). split.
           ++ intros [X|[X _]]; [left; exact X|discriminate].
           ++ intros [X|[X _]]; [left; exact X|congruence].
      * rewrite Hw. unfold pend. rewrite upd_same. cbn. intros n X. inversion X. subst. exact Hnin.
      * eapply thr_write with (w := wr s) (r := rd s); eauto. cbn. auto.
      * eapply log_mono; eauto.
    + (* AppendId *) destruct Ht as (-> & Hl). unfold add_lin, lin_point in Hstep; cbn in Hstep.
      injection Hstep as <-.
      assert (Hnin : ~ In an (it s)) by (apply Hpend'; reflexivity).
      assert (Hext : ext (nt s) (it s) (nt s) (it s ++ [an])).
      { repeat split; auto.
        - intros i k Hk. rewrite nth_error_app1; [exact Hk|]. eapply nth_error_lt; eauto.
        - unfold zlen. rewrite app_length. cbn. lia. }
      assert (Hnew : nt s an = Some ls).
      { apply Htab'. right. split; [reflexivity|exact Hl]. }
      split; [|exact Hext].
      constructor; unfold pending; cbn [nt it wr rd th trace]. all: try (t_struct HeqT Hwt).
      * rewrite Hw. unfold pend. rewrite upd_same. cbn. intros n i.
        rewrite (Htab' n i). rewrite nth_error_app_one. unfold zlen. split.
        -- intros [[X1 X2]|[X1 X2]]; left; (split; [lia|]); [left; exact X2|].
           right. split; [lia|congruence].
        -- intros [[X1 [X2|[X2 X3]]]|[X _]]; [left; auto| |discriminate].
           right. split; [congruence|lia].
      * rewrite Hw. unfold pend. rewrite upd_same. cbn. discriminate.
      * eapply thr_write with (w := wr s) (r := rd s); eauto. cbn. auto.
      * apply log_keep; [eapply log_mono; eauto|]. cbn. split; [exact Hnew|]. subst ls. unfold zlen.
        split; [lia|]. rewrite Nat2Z.id. rewrite nth_error_app2 by lia. rewrite Nat.sub_diag. reflexivity.
    + (* Return symbol *) destruct Ht as (-> & Hv). cbn in Hstep. injection Hstep as <-.
      t_begin. all: try (t_struct HeqT Hwt).
      * apply wr_rel with (w := wr s); [assumption | rewrite <- HeqT; reflexivity | reflexivity].
      * exact I.
      * eapply add_ok; eauto.
Qed.

(* ------------------------------------------------------------------ all schedules *)

Lemma ginv_init : ginv init.
Proof.
  constructor; unfold pending; cbn.
  - intros t. split; discriminate.
  - intros t. split; [contradiction|discriminate].
  - reflexivity.
  - intros n i. split; [discriminate|]. intros [[_ X]|[X _]]; [destruct (Z.to_nat i); discriminate|discriminate].
  - discriminate.
  - intros t. exact I.
  - contradiction.
Qed.

Lemma step'_ginv : forall s ta, ginv s ->
  ginv (step' ref_functions s ta) /\
  ext (nt s) (it s) (nt (step' ref_functions s ta)) (it (step' ref_functions s ta)).
Proof.
  intros s [t a] H. unfold step'. cbn [fst snd].
  destruct (step ref_functions s t a) as [s'|] eqn:E.
  - eapply step_ginv; eauto.
  - split; [exact H|apply ext_refl].
Qed.

Lemma run_ginv : forall sched s, ginv s ->
  ginv (run_sched ref_functions sched s) /\
  ext (nt s) (it s) (nt (run_sched ref_functions sched s)) (it (run_sched ref_functions sched s)).
Proof.
  induction sched as [|ta r IH]; intros s H; cbn.
  - split; [exact H|apply ext_refl].
  - destruct (step'_ginv s ta H) as [H1 E1]. destruct (IH _ H1) as [H2 E2].
    split; [exact H2|]. eapply ext_trans; eauto.
Qed.

Lemma reach_ginv : forall sched, ginv (run_sched ref_functions sched init).
Proof. intros. apply run_ginv. apply ginv_init. Qed.

Lemma funs_eqb_eq : forall a b, funs_eqb a b = true -> a = b.
Proof.
  assert (C : forall c d, cond_eqb c d = true -> c = d) by (intros [] []; cbn; congruence).
  assert (R : forall c d, retexpr_eqb c d = true -> c = d) by (intros [] []; cbn; congruence).
  assert (O : forall c d, op_eqb c d = true -> c = d).
  { intros [] []; cbn; try congruence.
    - intros H. apply andb_true_iff in H. destruct H as [H1 H2].
      apply C in H1. apply Nat.eqb_eq in H2. congruence.
    - intros H. apply R in H. congruence. }
  assert (L : forall c d, ops_eqb c d = true -> c = d).
  { induction c as [|x c IH]; destruct d as [|y d]; cbn; try congruence.
    intros H. apply andb_true_iff in H. destruct H as [H1 H2]. apply O in H1. apply IH in H2. congruence. }
  assert (F : forall c d, fname_eqb c d = true -> c = d) by (intros [] []; cbn; congruence).
  induction a as [|[f x] a IH]; destruct b as [|[g y] b]; cbn; try congruence.
  intros H. apply andb_true_iff in H. destruct H as [H H3]. apply andb_true_iff in H. destruct H as [H1 H2].
  apply F in H1. apply L in H2. apply IH in H3. congruence.
Qed.

(* ------------------------------------------------------------------ consequences *)

Section Consequences.
  Variable fs : list (fname * list op).
  Hypothesis fs_ok : funs_eqb fs ref_functions = true.

  Let fs_ref : fs = ref_functions := funs_eqb_eq _ _ fs_ok.

  Lemma reach : forall sched, ginv (run_sched fs sched init).
  Proof. rewrite fs_ref. exact reach_ginv. Qed.

  (* bijection, density: in every reachable state in which no writer holds the lock,
     nameTable[n] = i exactly when idTable[i] = n; ids are exactly 0 .. len-1; no name
     occurs twice in the id table *)
  Lemma bijection : forall sched, let s := run_sched fs sched init in
    wr s = None ->
    (forall n i, nt s n = Some i <-> (0 <= i < zlen (it s) /\ nth_error (it s) (Z.to_nat i) = Some n)) /\
    (forall i, 0 <= i < zlen (it s) -> exists n, nt s n = Some i) /\
    NoDup (it s).
  Proof.
    intros sched s Hw. destruct (reach sched) as [_ _ _ Htab _ _ _]. fold s in Htab.
    unfold pending in Htab. rewrite Hw in Htab. cbn in Htab.
    assert (B : forall n i, nt s n = Some i <-> (0 <= i < zlen (it s) /\ nth_error (it s) (Z.to_nat i) = Some n)).
    { intros n i. rewrite (Htab n i). split.
      - intros [[X1 X2]|[X _]]; [|discriminate]. split; [|exact X2]. apply nth_error_lt in X2. unfold zlen. lia.
      - intros [X1 X2]. left. split; [lia|exact X2]. }
    split; [exact B|]. split.
    - intros i Hi. exists (nth (Z.to_nat i) (it s) 0). apply B. split; [exact Hi|].
      apply nth_nth_error. unfold zlen in Hi. lia.
    - apply (proj2 (NoDup_nth_error (it s))). intros a b Ha Hab.
      destruct (nth_error (it s) a) as [n|] eqn:Hn; [|apply nth_error_None in Hn; lia].
      assert (X1 : nt s n = Some (Z.of_nat a)).
      { apply B. unfold zlen. split; [lia|]. rewrite Nat2Z.id. exact Hn. }
      assert (X2 : nt s n = Some (Z.of_nat b)).
      { apply B. symmetry in Hab. pose proof (nth_error_lt _ _ _ Hab). unfold zlen. split; [lia|].
        rewrite Nat2Z.id. exact Hab. }
      rewrite X1 in X2. inversion X2. lia.
  Qed.

  (* an id, once assigned, is never changed or removed; id-table entries never move *)
  Lemma stable : forall sched1 sched2,
    let s1 := run_sched fs sched1 init in
    let s2 := run_sched fs (sched1 ++ sched2) init in
    (forall n i, nt s1 n = Some i -> nt s2 n = Some i) /\
    (forall i n, nth_error (it s1) i = Some n -> nth_error (it s2) i = Some n).
  Proof.
    intros sched1 sched2 s1 s2. subst s1 s2. unfold run_sched. rewrite fold_left_app.
    rewrite fs_ref.
    destruct (run_ginv sched2 _ (reach_ginv sched1)) as [_ (E1 & E2 & _)].
    split; [exact E1|exact E2].
  Qed.

  (* what any two results handed to callers (by any threads, in any schedule) say together *)
  Lemma results : forall sched, let s := run_sched fs sched init in
    (* the same name always receives the same symbol (Add and successful Get alike) *)
    (forall t1 t2 n a1 a2 i j,
        In (EvRet t1 FAdd n a1 (RSym i)) (trace s) ->
        (In (EvRet t2 FAdd n a2 (RSym j)) (trace s) \/ In (EvRet t2 FGet n a2 (RSymOk j true)) (trace s)) ->
        i = j) /\
    (* distinct names receive distinct symbols *)
    (forall t1 t2 n m a1 a2 i,
        In (EvRet t1 FAdd n a1 (RSym i)) (trace s) -> In (EvRet t2 FAdd m a2 (RSym i)) (trace s) -> n = m) /\
    (* a name recovered from a symbol is the name that symbol was handed out for *)
    (forall t1 t2 n m a1 a2 i,
        In (EvRet t1 FAdd n a1 (RSym i)) (trace s) -> In (EvRet t2 FGetName a2 i (RNameOk m true)) (trace s) ->
        m = n) /\
    (* symbols handed out are non-negative and below the table length *)
    (forall t1 n a1 i, In (EvRet t1 FAdd n a1 (RSym i)) (trace s) -> 0 <= i < zlen (it s)).
  Proof.
    intros sched s. destruct (reach sched) as [_ _ _ Htab Hpend _ Hlog]. fold s in Htab, Hpend, Hlog.
    assert (U : forall n m i, nt s n = Some i -> nt s m = Some i -> n = m).
    { intros n m i Hn Hm. apply Htab in Hn. apply Htab in Hm.
      destruct Hn as [[N1 N2]|[N1 N2]], Hm as [[M1 M2]|[M1 M2]]; try congruence.
      - subst i. apply nth_error_lt in N2. unfold zlen in N2. lia.
      - subst i. apply nth_error_lt in M2. unfold zlen in M2. lia. }
    repeat split.
    - intros t1 t2 n a1 a2 i j H1 [H2|H2]; apply Hlog in H1; apply Hlog in H2; cbn in H1, H2;
        destruct H1 as [H1 _].
      + destruct H2 as [H2 _]. congruence.
      + congruence.
    - intros t1 t2 n m a1 a2 i H1 H2. apply Hlog in H1. apply Hlog in H2. cbn in H1, H2.
      destruct H1 as [H1 _], H2 as [H2 _]. eauto.
    - intros t1 t2 n m a1 a2 i H1 H2. apply Hlog in H1. apply Hlog in H2. cbn in H1, H2.
      destruct H1 as [H1 _].
      destruct H2 as [M1 M2]. assert (X : nt s m = Some i) by (apply Htab; left; auto). eauto.
    - apply Hlog in H. cbn in H. tauto.
    - apply Hlog in H. cbn in H. destruct H as (_ & _ & X).
      apply nth_error_lt in X. unfold zlen. lia.
  Qed.

(* ------------------------------------------------------------------ linearisation points *)

Lemma result_eqb_refl : forall r, result_eqb r r = true.
Proof. intros [i|i b|i b|b]; cbn; rewrite ?Z.eqb_refl, ?eqb_reflx; reflexivity. Qed.

Lemma find_of_some : forall m l n v, bij_plus m l None -> m n = Some v -> find_index n l 0 = Some v.
Proof.
  intros m l n v B H. pose proof H as H0. apply B in H. destruct H as [[H1 H2]|[H _]]; [|discriminate].
  destruct (find_index_in n l 0 (nth_error_In _ _ H2)) as [j Hj]. rewrite Hj.
  apply find_index_some in Hj. destruct Hj as [J1 J2]. rewrite Z.sub_0_r in J2.
  assert (X : m n = Some j) by (apply B; left; auto). congruence.
Qed.

Lemma find_of_notin : forall l n k, ~ In n l -> find_index n l k = None.
Proof.
  intros l n k H. destruct (find_index n l k) as [j|] eqn:E; [|reflexivity].
  apply find_index_some in E. destruct E as [_ E]. apply nth_error_In in E. contradiction.
Qed.

Local Opaque result_eqb.

Lemma step_lin : forall s t a s',
  ginv s -> step ref_functions s t a = Some s' ->
  lin_replay (trace s) = Some (it s) -> lin_replay (trace s') = Some (it s').
Proof.
  intros s t a s' [Hwr Hrd Hex Htab Hpend Hthr Hlog] Hstep Hl.
  unfold pending in *. unfold step in Hstep.
  pose proof (Hthr t) as Ht. pose proof (Hwr t) as Hwt. pose proof (Hrd t) as Hrt.
  remember (th s t) as T eqn:HeqT.
  destruct T as [fn pc an asy lv lo ll ls ln df].
  cbn [t_fn t_pc] in Hstep.
  destruct fn as [f|].
  2:{ destruct a as [f n i|]; [|discriminate]. injection Hstep as <-. cbn. rewrite Hl. reflexivity. }
  destruct a; [discriminate|].
  destruct f; cbn in Ht, Hwt, Hrt.
  - destruct Ht as [-> Ht].
    destruct pc as [|[|pc]]; try tauto; cbn in Hstep; injection Hstep as <-; cbn; rewrite Hl; cbn.
    + rewrite result_eqb_refl. reflexivity.
    + reflexivity.
  - destruct Ht as [-> Ht].
    destruct pc as [|[|[|[|[|[|pc]]]]]]; try tauto; cbn in Hstep.
    + destruct (wr s); [discriminate|]. injection Hstep as <-. cbn. exact Hl.
    + assert (Hw : wr s = None).
      { destruct (wr s) eqn:Hw; [|reflexivity]. assert (X : rd s = []) by (apply Hex; congruence).
        assert (Y : In t (rd s)) by (apply Hrt; reflexivity). rewrite X in Y. contradiction. }
      rewrite Hw in Htab. cbn in Htab.
      destruct (nt s an) as [v|] eqn:Hn; injection Hstep as <-; cbn; rewrite Hl; cbn.
      * rewrite (find_of_some _ _ _ _ Htab Hn). rewrite result_eqb_refl. reflexivity.
      * rewrite find_of_notin by (eapply bij_plus_none_in; eauto). reflexivity.
    + injection Hstep as <-. cbn. exact Hl.
    + injection Hstep as <-. cbn. exact Hl.
    + injection Hstep as <-. cbn. rewrite Hl. reflexivity.
    + injection Hstep as <-. cbn. rewrite Hl. reflexivity.
  - destruct pc as [|[|[|[|[|[|[|pc]]]]]]]; try tauto; cbn in Hstep.
    + destruct (wr s); [discriminate|]. injection Hstep as <-. cbn. exact Hl.
    + injection Hstep as <-. cbn. exact Hl.
    + unfold add_lin, lin_point in Hstep; cbn in Hstep.
      destruct ((asy >=? zlen (it s)) || (asy <? 0)) eqn:Ec; injection Hstep as <-; cbn; [|exact Hl].
      rewrite Hl. cbn. replace ((0 <=? asy) && (asy <? zlen (it s))) with false by lia. reflexivity.
    + injection Hstep as <-. cbn. exact Hl.
    + destruct Ht as [-> _]. cbn in Hstep. injection Hstep as <-. cbn. rewrite Hl. reflexivity.
    + destruct Ht as [-> Hr].
      replace ((0 <=? asy) && (asy <? zlen (it s))) with true in Hstep by lia.
      injection Hstep as <-. cbn. rewrite Hl. cbn.
      replace ((0 <=? asy) && (asy <? zlen (it s))) with true by lia.
      rewrite result_eqb_refl. reflexivity.
    + destruct Ht as [-> _]. cbn in Hstep. injection Hstep as <-. cbn. rewrite Hl. reflexivity.
  - destruct pc as [|pc].
    { cbn in Hstep. destruct (wr s); [discriminate|]. destruct (rd s); [|discriminate].
      injection Hstep as <-. cbn. exact Hl. }
    assert (Hw : wr s = Some t) by (apply Hwt; reflexivity).
    rewrite Hw in Htab, Hpend. unfold pend in Htab, Hpend. rewrite <- HeqT in Htab, Hpend.
    cbn [t_pc a_name] in Htab, Hpend.
    destruct pc as [|[|[|[|[|[|[|[|[|pc]]]]]]]]]; try tauto; cbn in Hstep, Htab, Hpend.
    + injection Hstep as <-. cbn. exact Hl.
    + unfold add_lin, lin_point in Hstep; cbn in Hstep.
      destruct (nt s an) as [v|] eqn:Hn; injection Hstep as <-; cbn; [|exact Hl].
      rewrite Hl. cbn. rewrite (find_of_some _ _ _ _ Htab Hn). rewrite result_eqb_refl. reflexivity.
    + injection Hstep as <-. cbn. exact Hl.
    + destruct Ht as (-> & _). cbn in Hstep. injection Hstep as <-. cbn. rewrite Hl. reflexivity.
    + injection Hstep as <-. cbn. exact Hl.
    + injection Hstep as <-. cbn. exact Hl.
    + injection Hstep as <-. cbn. exact Hl.
    + destruct Ht as (-> & Hs). unfold add_lin, lin_point in Hstep; cbn in Hstep.
      injection Hstep as <-. cbn. rewrite Hl. cbn.
      rewrite find_of_notin by (apply Hpend; reflexivity). subst ls.
      rewrite result_eqb_refl. reflexivity.
    + destruct Ht as (-> & _). cbn in Hstep. injection Hstep as <-. cbn. rewrite Hl. reflexivity.
Qed.

Lemma reach_lin : forall sched,
  lin_replay (trace (run_sched ref_functions sched init)) = Some (it (run_sched ref_functions sched init)).
Proof.
  intros sched.
  assert (G : forall sched s, ginv s -> lin_replay (trace s) = Some (it s) ->
              lin_replay (trace (run_sched ref_functions sched s)) = Some (it (run_sched ref_functions sched s))).
  { induction sched0 as [|[t a] r IH]; intros s H Hl; cbn; [exact Hl|].
    unfold step' at 2 4. cbn [fst snd].
    destruct (step ref_functions s t a) as [s'|] eqn:E.
    - apply IH; [eapply step_ginv; eauto|eapply step_lin; eauto].
    - apply IH; assumption. }
  apply G; [apply ginv_init|reflexivity].
Qed.

  Lemma atomic_partial : forall sched, let s := run_sched fs sched init in
    lin_replay (trace s) = Some (it s).
  Proof. intros sched. cbv zeta. rewrite fs_ref. apply reach_lin. Qed.

  Lemma existsid_benign : forall sched1 sched2 t a i,
    let s1 := run_sched fs sched1 init in
    let s2 := run_sched fs (sched1 ++ sched2) init in
    In (EvRet t FExistsId a i (RBool true)) (trace s1) ->
    0 < i < zlen (it s1) /\ 0 < i < zlen (it s2) /\
    exists n, nth_error (it s1) (Z.to_nat i) = Some n /\ nth_error (it s2) (Z.to_nat i) = Some n.
  Proof.
    intros sched1 sched2 t a i s1 s2 H.
    destruct (reach sched1) as [_ _ _ _ _ _ Hlog]. fold s1 in Hlog.
    apply Hlog in H. cbn in H.
    destruct (stable sched1 sched2) as [_ E2]. fold s1 s2 in E2.
    assert (X : nth_error (it s1) (Z.to_nat i) = Some (nth (Z.to_nat i) (it s1) 0)).
    { apply nth_nth_error. unfold zlen in H. lia. }
    pose proof (E2 _ _ X) as Y. pose proof (nth_error_lt _ _ _ Y) as Z.
    split; [exact H|]. split; [unfold zlen; lia|]. eauto.
  Qed.
End Consequences.
