(* C31 — a hygienic occurrence inside a region guarded by an unhygienic condition does not resolve
   beyond the macro boundary. *)
From Coq Require Import ZArith NArith List Bool Lia.
From Elk Require Import Model.C31_Hygiene Model.C31_Cond Proofs.C31_Hygiene.
Import ListNotations.
Open Scope Z_scope.

Lemma lookup_set_other : forall l x y v, N.eqb x y = false -> lookup (set l y v) x = lookup l x.
Proof.
  induction l as [|[z w] l IH]; intros x y v H; cbn.
  - now rewrite H.
  - destruct (N.eqb y z) eqn:Eyz; cbn.
    + apply N.eqb_eq in Eyz. subst z. now rewrite H.
    + destruct (N.eqb x z); [reflexivity|]. now apply IH.
Qed.

Lemma resolve_add_other : forall f r x y v u, N.eqb x y = false ->
  resolve (add f y v :: r) x u = resolve (f :: r) x u.
Proof.
  intros f r x y v u H. cbn [resolve]. unfold get, add. cbn [fvars ftyp].
  now rewrite (lookup_set_other _ _ _ _ H).
Qed.

(* evaluating an expression that does not declare x keeps x hygienically unresolvable *)
Lemma eval_nobind : forall e r u r' v x,
  expr_nobind x e = true -> resolve r x false = None ->
  eval r u e = Some (r', v) -> resolve r' x false = None.
Proof.
  induction e as [z|y|e1 IHe1 e2 IHe2|e IHe|y e IHe|y e IHe];
    intros r u r' v x Hb Hn H; cbn [eval] in H; cbn [expr_nobind] in Hb.
  - injection H as <- <-. exact Hn.
  - destruct (resolve r y u) as [[d w]|]; [|discriminate]. injection H as <- <-. exact Hn.
  - apply andb_true_iff in Hb as [Hb1 Hb2].
    destruct (eval r u e1) as [[r1 a]|] eqn:E1; [|discriminate].
    destruct (eval r1 u e2) as [[r2 b]|] eqn:E2; [|discriminate].
    injection H as <- <-. eapply IHe2; [exact Hb2| |exact E2]. eapply IHe1; eauto.
  - eapply IHe; eauto.
  - apply andb_true_iff in Hb as [Hxy Hb]. apply negb_true_iff in Hxy.
    destruct (eval r u e) as [[[|f r1] w]|] eqn:E; try discriminate.
    injection H as <- <-. rewrite (resolve_add_other _ _ _ _ _ _ Hxy). eapply IHe; eauto.
  - destruct (eval r u e) as [[r1 w]|] eqn:E; [|discriminate].
    destruct (resolve r1 y u) as [[d z]|]; [|discriminate]. injection H as <- <-.
    eapply resolve_none_shape; [symmetry; apply shape_update|]. eapply IHe; eauto.
Qed.

Lemma resolve_push_none : forall t r x, resolve r x false = None -> resolve (push t r) x false = None.
Proof.
  intros t r x H. unfold push. cbn [resolve]. unfold get. cbn. rewrite H. destruct t; reflexivity.
Qed.

(* the checker pass rejects s wherever x does not resolve hygienically *)
Definition stuck (x : name) (s : stmt) : Prop :=
  forall r, resolve r x false = None -> run Static r false s = None.

Lemma stuck_read : forall x, stuck x (SExpr (EVar x)) /\ stuck x (SPrint (EVar x)).
Proof. intro x. split; intros r H; cbn [run eval]; now rewrite H. Qed.

Lemma stuck_assign : forall x e, expr_nobind x e = true -> stuck x (SExpr (ESet x e)).
Proof.
  intros x e Hb r H. cbn [run eval]. destruct (eval r false e) as [[r1 v]|] eqn:E; [|reflexivity].
  now rewrite (eval_nobind _ _ _ _ _ _ Hb H E).
Qed.

Lemma stuck_seq : forall x a b, stuck x a -> stuck x (SSeq a b).
Proof. intros x a b Ha r H. cbn [run]. now rewrite (Ha r H). Qed.

Lemma stuck_if : forall x c t e, expr_nobind x c = true -> stuck x t \/ stuck x e -> stuck x (SIf c t e).
Proof.
  intros x c t e Hb Hte r Hr. cbn [run]. unfold scoped at 1.
  pose proof (resolve_push_none FDefault r x Hr) as H0.
  destruct (eval (push FDefault r) false c) as [[r1 v]|] eqn:E; [|reflexivity].
  pose proof (eval_nobind _ _ _ _ _ _ Hb H0 E) as H1.
  destruct Hte as [Ht|He].
  - unfold bind, scoped at 1. now rewrite (Ht _ (resolve_push_none FCond r1 x H1)).
  - unfold bind. destruct (scoped FCond r1 (fun r2 => run Static r2 false t)) as [[r1' o]|] eqn:Es; [|reflexivity].
    pose proof (scoped_shape _ _ _ _ _ _ _ Es) as Hs.
    assert (H2 : resolve r1' x false = None) by (eapply resolve_none_shape; [symmetry; exact Hs|exact H1]).
    unfold scoped. now rewrite (He _ (resolve_push_none FCond r1' x H2)).
Qed.

Lemma stuck_ifc : forall c x u t e, cond_nobind x c = true -> stuck x t \/ stuck x e -> stuck x (ifc u c t e).
Proof.
  induction c as [e0|c IHc|c1 IHc1 c2 IHc2|c1 IHc1 c2 IHc2|c IHc]; intros x u t e Hb Hte; cbn [ifc]; cbn [cond_nobind] in Hb.
  - apply stuck_if; [destruct u; exact Hb|exact Hte].
  - apply IHc; [exact Hb|tauto].
  - apply andb_true_iff in Hb as [Ha Hb]. destruct Hte as [Ht|He].
    + apply IHc1; [exact Ha|]. left. apply IHc2; [exact Hb|]. now left.
    + apply IHc1; [exact Ha|]. now right.
  - apply andb_true_iff in Hb as [Ha Hb]. destruct Hte as [Ht|He].
    + apply IHc1; [exact Ha|]. now left.
    + apply IHc1; [exact Ha|]. right. apply IHc2; [exact Hb|]. now right.
  - apply IHc; assumption.
Qed.

Theorem unhyg_condition_no_leak : forall x c u t e J b r,
  ftyp b = FBoundary -> (forall f, In f (J ++ [b]) -> get f x = None) ->
  cond_nobind x c = true -> stuck x t \/ stuck x e ->
  run Static (J ++ b :: r) false (ifc u c t e) = None.
Proof.
  intros x c u t e J b r Hb Hf Hc Hte. apply (stuck_ifc c x u t e Hc Hte).
  exact (proj1 (unhyg_only J b r x Hb Hf)).
Qed.

(* a conditional leaves the environment with the frames and names it had *)
Lemma if_shape : forall m r u c t e r' o, run m r u (SIf c t e) = Some (r', o) -> shape r' = shape r.
Proof.
  intros m r u c t e r' o H. cbn [run] in H. unfold scoped at 1 in H. unfold push at 1 in H.
  destruct (eval (mkFrame FDefault [] :: r) u c) as [[r1 v]|] eqn:E; [|discriminate].
  destruct (eval_frame _ _ _ _ _ _ E) as (f1 & r1' & -> & _ & Hs1).
  assert (G : forall r2 o2, (exists s r0, shape r0 = shape (f1 :: r1') /\
              scoped FCond r0 (fun r3 => run m r3 u s) = Some (r2, o2)) -> shape (pop r2) = shape r).
  { intros r2 o2 (s & r0 & Hr0 & Hsc). pose proof (scoped_shape _ _ _ _ _ _ _ Hsc) as Hs2.
    rewrite Hr0 in Hs2. destruct r2 as [|f2 r2']; [discriminate|]. cbn in Hs2. injection Hs2 as _ _ Hs2.
    cbn. unfold shape in *. congruence. }
  destruct m.
  - unfold bind in H.
    destruct (scoped FCond (f1 :: r1') (fun r2 => run Static r2 u t)) as [[ra oa]|] eqn:Ea; [|discriminate].
    destruct (scoped FCond ra (fun r2 => run Static r2 u e)) as [[rb ob]|] eqn:Eb; [|discriminate].
    injection H as <- <-. eapply G. exists e, ra. split; [|exact Eb]. exact (scoped_shape _ _ _ _ _ _ _ Ea).
  - destruct (0 <? v).
    + destruct (scoped FCond (f1 :: r1') (fun r2 => run Dynamic r2 u t)) as [[ra oa]|] eqn:Ea; [|discriminate].
      injection H as <- <-. eapply G. exists t, (f1 :: r1'). split; [reflexivity|exact Ea].
    + destruct (scoped FCond (f1 :: r1') (fun r2 => run Dynamic r2 u e)) as [[ra oa]|] eqn:Ea; [|discriminate].
      injection H as <- <-. eapply G. exists e, (f1 :: r1'). split; [reflexivity|exact Ea].
Qed.

Lemma ifc_shape : forall c m r u0 u t e r' o, run m r u0 (ifc u c t e) = Some (r', o) -> shape r' = shape r.
Proof.
  induction c as [e0|c IHc|c1 IHc1 c2 IHc2|c1 IHc1 c2 IHc2|c IHc]; intros m r u0 u t e r' o H; cbn [ifc] in H; eauto using if_shape.
Qed.

Theorem unhyg_condition_after : forall c m r u0 u t e r' o x u',
  run m r u0 (ifc u c t e) = Some (r', o) -> resolve r x u' = None -> resolve r' x u' = None.
Proof.
  intros c m r u0 u t e r' o x u' H Hn. eapply resolve_none_shape; [symmetry; eapply ifc_shape; exact H|exact Hn].
Qed.
