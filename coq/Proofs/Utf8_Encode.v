(* EncodeRune / DecodeRune round trips (Base/Utf8.v). *)
From Coq Require Import ZifyBool ZifyNat.
From Elk Require Import Base.Utf8 Proofs.Utf8_Decode.
Open Scope Z_scope.

(* ---------- decoding a well-formed sequence of each length ---------- *)

Lemma decode1 b0 t : b0 < 128 -> decode_rune (b0 :: t) = (b0, 1).
Proof. intros H. unfold decode_rune. assert (X : (b0 <? 128) = true) by lia. rewrite X. reflexivity. Qed.

Lemma decode2 b0 b1 t :
  194 <= b0 <= 223 -> 128 <= b1 <= 191 ->
  decode_rune (b0 :: b1 :: t) = ((b0 - 192) * 64 + (b1 - 128), 2).
Proof.
  intros H0 H1. unfold decode_rune.
  assert (X : (b0 <? 128) = false) by lia. rewrite X.
  assert (Y : in_rng 194 223 b0 = true) by (unfold in_rng; lia). rewrite Y.
  assert (W : is_cont b1 = true) by (unfold is_cont, in_rng; lia). rewrite W. reflexivity.
Qed.

Lemma decode3 b0 b1 b2 t :
  224 <= b0 <= 239 -> lo2 b0 <= b1 <= hi2 b0 -> 128 <= b2 <= 191 ->
  decode_rune (b0 :: b1 :: b2 :: t) = (((b0 - 224) * 64 + (b1 - 128)) * 64 + (b2 - 128), 3).
Proof.
  intros H0 H1 H2. unfold decode_rune.
  assert (X : (b0 <? 128) = false) by lia. rewrite X.
  assert (Y : in_rng 194 223 b0 = false) by (unfold in_rng; lia). rewrite Y.
  assert (Y' : in_rng 224 239 b0 = true) by (unfold in_rng; lia). rewrite Y'.
  assert (V : in_rng (lo2 b0) (hi2 b0) b1 = true) by (unfold in_rng; lia). rewrite V.
  assert (W : is_cont b2 = true) by (unfold is_cont, in_rng; lia). rewrite W. reflexivity.
Qed.

Lemma decode4 b0 b1 b2 b3 t :
  240 <= b0 <= 244 -> lo2 b0 <= b1 <= hi2 b0 -> 128 <= b2 <= 191 -> 128 <= b3 <= 191 ->
  decode_rune (b0 :: b1 :: b2 :: b3 :: t) =
    ((((b0 - 240) * 64 + (b1 - 128)) * 64 + (b2 - 128)) * 64 + (b3 - 128), 4).
Proof.
  intros H0 H1 H2 H3. unfold decode_rune.
  assert (X : (b0 <? 128) = false) by lia. rewrite X.
  assert (Y : in_rng 194 223 b0 = false) by (unfold in_rng; lia). rewrite Y.
  assert (Y' : in_rng 224 239 b0 = false) by (unfold in_rng; lia). rewrite Y'.
  assert (Y'' : in_rng 240 244 b0 = true) by (unfold in_rng; lia). rewrite Y''.
  assert (V : in_rng (lo2 b0) (hi2 b0) b1 = true) by (unfold in_rng; lia). rewrite V.
  assert (W : is_cont b2 = true) by (unfold is_cont, in_rng; lia). rewrite W.
  assert (W' : is_cont b3 = true) by (unfold is_cont, in_rng; lia). rewrite W'. reflexivity.
Qed.

(* ---------- decode (encode r) ---------- *)

Lemma valid_rune_iff v :
  valid_rune v = true <-> 0 <= v <= 1114111 /\ ~ (55296 <= v <= 57343).
Proof. unfold valid_rune, is_surrogate, in_rng, MaxRune. lia. Qed.

Lemma norm_rune_is_valid r : valid_rune (norm_rune r) = true.
Proof. unfold norm_rune. destruct (valid_rune r) eqn:E; [exact E|reflexivity]. Qed.

Lemma decode_encode_valid v t :
  valid_rune v = true -> decode_rune (encode_rune v ++ t) = (v, rune_len v).
Proof.
  intros Hv. unfold encode_rune, rune_len. rewrite (norm_rune_valid v Hv). cbv zeta.
  apply valid_rune_iff in Hv. destruct Hv as [R NS].
  destruct (v <? 128) eqn:E1.
  { cbn [app]. apply decode1. lia. }
  destruct (v <? 2048) eqn:E2.
  { cbn [app]. rewrite decode2.
    - f_equal. Z.div_mod_to_equations. lia.
    - Z.div_mod_to_equations. lia.
    - Z.div_mod_to_equations. lia. }
  destruct (v <? 65536) eqn:E3.
  { cbn [app]. rewrite decode3.
    - f_equal. Z.div_mod_to_equations. lia.
    - Z.div_mod_to_equations. lia.
    - unfold lo2, hi2.
      destruct (224 + v / 4096 =? 224) eqn:A; destruct (224 + v / 4096 =? 240) eqn:B;
        destruct (224 + v / 4096 =? 237) eqn:C; destruct (224 + v / 4096 =? 244) eqn:D;
        Z.div_mod_to_equations; lia.
    - Z.div_mod_to_equations. lia. }
  cbn [app]. rewrite decode4.
  - f_equal. Z.div_mod_to_equations. lia.
  - Z.div_mod_to_equations. lia.
  - unfold lo2, hi2.
    destruct (240 + v / 262144 =? 224) eqn:A; destruct (240 + v / 262144 =? 240) eqn:B;
      destruct (240 + v / 262144 =? 237) eqn:C; destruct (240 + v / 262144 =? 244) eqn:D;
      Z.div_mod_to_equations; lia.
  - Z.div_mod_to_equations. lia.
  - Z.div_mod_to_equations. lia.
Qed.

Lemma encode_rune_norm r : encode_rune (norm_rune r) = encode_rune r.
Proof. unfold encode_rune. rewrite norm_rune_idem. reflexivity. Qed.

Lemma rune_len_norm r : rune_len (norm_rune r) = rune_len r.
Proof. unfold rune_len. rewrite norm_rune_idem. reflexivity. Qed.

(* for EVERY r (invalid ones are written as U+FFFD): one decoding step gives back the
   normalised rune and consumes exactly the encoding *)
Lemma decode_encode r t : decode_rune (encode_rune r ++ t) = (norm_rune r, rune_len r).
Proof.
  rewrite <- encode_rune_norm, <- rune_len_norm.
  apply decode_encode_valid, norm_rune_is_valid.
Qed.

Lemma encode_rune_length r : Z.of_nat (length (encode_rune r)) = rune_len r.
Proof. unfold encode_rune, rune_len. cbv zeta. repeat break_if; reflexivity. Qed.

Lemma rune_len_bounds r : 1 <= rune_len r <= 4.
Proof. unfold rune_len. cbv zeta. repeat break_if; lia. Qed.

Lemma encode_rune_nonempty r : encode_rune r <> [].
Proof.
  intros H. pose proof (encode_rune_length r) as L. rewrite H in L.
  pose proof (rune_len_bounds r). cbn in L. lia.
Qed.

(* the decode loop peels one encoded rune *)
Lemma decode_steps_encode r t :
  decode_steps (encode_rune r ++ t) =
    mkStep (norm_rune r) (rune_len r) (hd 0 (encode_rune r)) :: decode_steps t.
Proof.
  rewrite <- (encode_rune_length r).
  apply decode_steps_prefix; [apply encode_rune_nonempty|].
  rewrite encode_rune_length. apply decode_encode.
Qed.

Lemma runes_encode r t : runes (encode_rune r ++ t) = norm_rune r :: runes t.
Proof. unfold runes. rewrite decode_steps_encode. reflexivity. Qed.

Lemma rune_count_encode r t : rune_count (encode_rune r ++ t) = 1 + rune_count t.
Proof. unfold rune_count. rewrite decode_steps_encode. cbn [length]. lia. Qed.

(* an encoded rune is never an "invalid byte" step *)
Lemma encode_step_valid r : step_invalid (mkStep (norm_rune r) (rune_len r) (hd 0 (encode_rune r))) = false.
Proof.
  unfold step_invalid. cbn [st_rune st_size].
  destruct (norm_rune r =? RuneError) eqn:E; [|reflexivity].
  assert (H : norm_rune r = RuneError) by lia.
  rewrite <- rune_len_norm, H. reflexivity.
Qed.

Lemma runes_encode_all rs : runes (encode_all rs) = map norm_rune rs.
Proof.
  induction rs as [|r rs IH]; [reflexivity|].
  cbn [encode_all flat_map map]. rewrite runes_encode. f_equal. exact IH.
Qed.

Lemma decode_all_encode_all rs :
  decode_all (encode_all rs) = map (fun r => (norm_rune r, rune_len r)) rs.
Proof.
  induction rs as [|r rs IH]; [reflexivity|].
  cbn [encode_all flat_map map]. unfold decode_all in *. rewrite decode_steps_encode.
  cbn [map st_rune st_size]. f_equal. exact IH.
Qed.

Lemma valid_string_encode_all rs : valid_string (encode_all rs) = true.
Proof.
  induction rs as [|r rs IH]; [reflexivity|].
  cbn [encode_all flat_map]. unfold valid_string in *. rewrite decode_steps_encode.
  cbn [forallb]. rewrite encode_step_valid. exact IH.
Qed.

Lemma rune_count_encode_all rs : rune_count (encode_all rs) = Z.of_nat (length rs).
Proof. rewrite rune_count_runes, runes_encode_all, map_length. reflexivity. Qed.

(* ---------- encode (decode s) : a well-formed step re-encodes to the bytes it consumed ---------- *)

Lemma encode_decode_step b t :
  0 <= b ->
  let r := fst (decode_rune (b :: t)) in
  let n := snd (decode_rune (b :: t)) in
  negb ((r =? RuneError) && (n =? 1)) = true ->
  valid_rune r = true /\ encode_rune r = firstn (Z.to_nat n) (b :: t).
Proof.
  intros Hb. cbv zeta. unfold decode_rune.
  destruct (b <? 128) eqn:E1.
  { cbn [fst snd]. intros _.
    assert (V : valid_rune b = true) by (apply valid_rune_iff; lia).
    split; [exact V|]. unfold encode_rune. rewrite (norm_rune_valid b V). rewrite E1. reflexivity. }
  destruct (in_rng 194 223 b) eqn:E2.
  { destruct t as [|b1 t]; [cbn; discriminate|].
    destruct (is_cont b1) eqn:C1; [|cbn; discriminate].
    cbn [fst snd]. intros _.
    unfold is_cont, in_rng in *.
    assert (V : valid_rune ((b - 192) * 64 + (b1 - 128)) = true) by (apply valid_rune_iff; lia).
    split; [exact V|]. unfold encode_rune. rewrite (norm_rune_valid _ V).
    assert (X1 : ((b - 192) * 64 + (b1 - 128) <? 128) = false) by lia. rewrite X1.
    assert (X2 : ((b - 192) * 64 + (b1 - 128) <? 2048) = true) by lia. rewrite X2.
    change (Z.to_nat 2) with 2%nat. cbn [firstn].
    f_equal; [|f_equal]; Z.div_mod_to_equations; lia. }
  destruct (in_rng 224 239 b) eqn:E3.
  { destruct t as [|b1 [|b2 t]]; [cbn; discriminate|cbn; discriminate|].
    destruct (in_rng (lo2 b) (hi2 b) b1 && is_cont b2) eqn:C1; [|cbn; discriminate].
    cbn [fst snd]. intros _.
    unfold is_cont, in_rng, lo2, hi2 in *.
    set (v := ((b - 224) * 64 + (b1 - 128)) * 64 + (b2 - 128)).
    assert (R : 2048 <= v < 65536 /\ ~ (55296 <= v <= 57343)).
    { subst v. destruct (b =? 224) eqn:A; destruct (b =? 240) eqn:B;
        destruct (b =? 237) eqn:C; destruct (b =? 244) eqn:D; lia. }
    assert (V : valid_rune v = true) by (apply valid_rune_iff; lia).
    split; [exact V|]. unfold encode_rune. rewrite (norm_rune_valid _ V).
    assert (X1 : (v <? 128) = false) by lia. rewrite X1.
    assert (X2 : (v <? 2048) = false) by lia. rewrite X2.
    assert (X3 : (v <? 65536) = true) by lia. rewrite X3.
    change (Z.to_nat 3) with 3%nat. cbn [firstn].
    assert (B1 : 128 <= b1 <= 191) by (destruct (b =? 224); destruct (b =? 240); destruct (b =? 237); destruct (b =? 244); lia).
    f_equal; [|f_equal; [|f_equal]]; subst v; Z.div_mod_to_equations; lia. }
  destruct (in_rng 240 244 b) eqn:E4.
  { destruct t as [|b1 [|b2 [|b3 t]]]; [cbn; discriminate|cbn; discriminate|cbn; discriminate|].
    destruct (in_rng (lo2 b) (hi2 b) b1 && is_cont b2 && is_cont b3) eqn:C1; [|cbn; discriminate].
    cbn [fst snd]. intros _.
    unfold is_cont, in_rng, lo2, hi2 in *.
    set (v := (((b - 240) * 64 + (b1 - 128)) * 64 + (b2 - 128)) * 64 + (b3 - 128)).
    assert (R : 65536 <= v <= 1114111).
    { subst v. destruct (b =? 224) eqn:A; destruct (b =? 240) eqn:B;
        destruct (b =? 237) eqn:C; destruct (b =? 244) eqn:D; lia. }
    assert (V : valid_rune v = true) by (apply valid_rune_iff; lia).
    split; [exact V|]. unfold encode_rune. rewrite (norm_rune_valid _ V).
    assert (X1 : (v <? 128) = false) by lia. rewrite X1.
    assert (X2 : (v <? 2048) = false) by lia. rewrite X2.
    assert (X3 : (v <? 65536) = false) by lia. rewrite X3.
    change (Z.to_nat 4) with 4%nat. cbn [firstn].
    assert (B1 : 128 <= b1 <= 191) by (destruct (b =? 224); destruct (b =? 240); destruct (b =? 237); destruct (b =? 244); lia).
    f_equal; [|f_equal; [|f_equal; [|f_equal]]]; subst v; Z.div_mod_to_equations; lia. }
  cbn. discriminate.
Qed.

Lemma in_skipn_weak {A} (x : A) n l : In x (skipn n l) -> In x l.
Proof. intros H. rewrite <- (firstn_skipn n l). apply in_or_app. right. exact H. Qed.

(* valid strings are exactly the encodings of their runes *)
Lemma encode_all_runes s :
  Forall (fun b => 0 <= b) s -> valid_string s = true -> encode_all (runes s) = s.
Proof.
  induction s as [|b t IH] using decode_ind; intros Hb Hv; [reflexivity|].
  unfold valid_string, runes in *. rewrite decode_steps_cons in *.
  cbn [forallb map st_rune encode_all flat_map] in *.
  apply andb_prop in Hv. destruct Hv as [H1 H2].
  unfold step_invalid in H1. cbn [st_rune st_size] in H1.
  assert (B0 : 0 <= b) by (inversion Hb; assumption).
  destruct (encode_decode_step b t B0 H1) as [_ En].
  rewrite En.
  fold (encode_all (map st_rune (decode_steps (skipn (Z.to_nat (snd (decode_rune (b :: t)))) (b :: t))))).
  rewrite IH; [apply firstn_skipn| |exact H2].
  apply Forall_forall. intros x Hx. rewrite Forall_forall in Hb. apply Hb.
  eapply in_skipn_weak; exact Hx.
Qed.

(* ---------- packaged statements (Props/C20.v) ---------- *)

Lemma utf8_decode_encode_all r t :
  decode_rune (encode_rune r ++ t) = (norm_rune r, rune_len r) /\
  Z.of_nat (length (encode_rune r)) = rune_len r /\
  (valid_rune r = true -> norm_rune r = r).
Proof. split; [apply decode_encode|split; [apply encode_rune_length|apply norm_rune_valid]]. Qed.

Lemma utf8_sizes_all s :
  zsum (map snd (decode_all s)) = Z.of_nat (length s) /\
  Forall (fun x => 1 <= st_size x <= 4) (decode_steps s) /\
  0 <= rune_count s <= Z.of_nat (length s) /\
  concat (chunks (decode_steps s) s) = s.
Proof.
  split; [apply decode_all_sizes_sum|split; [apply step_sizes_bounds|split; [|apply chunks_concat]]].
  split; [apply rune_count_nonneg|apply rune_count_le_bytes].
Qed.

Lemma utf8_valid_roundtrip_all :
  (forall rs, runes (encode_all rs) = map norm_rune rs /\ valid_string (encode_all rs) = true) /\
  (forall s, Forall (fun b => 0 <= b) s -> valid_string s = true -> encode_all (runes s) = s).
Proof.
  split; [intros rs; split; [apply runes_encode_all|apply valid_string_encode_all]|apply encode_all_runes].
Qed.
