(* C06 extension: negation, exponentiation, comparisons, bitwise operators. *)
From Elk Require Import Base.GoSem Model.C06_Int Proofs.C06_Int.
From Coq Require Import ZifyBool.
Open Scope Z_scope.

(* ---------- negation ---------- *)
Lemma ineg_ok x : canonical x = true -> den (ineg x) = - den x /\ canonical (ineg x) = true.
Proof.
  destruct x as [a|a]; simpl; intros C.
  - destruct (a =? min64) eqn:E.
    + apply Z.eqb_eq in E. subst a. split; reflexivity.
    + apply Z.eqb_neq in E. apply fits64_b in C. unfold min64 in E.
      assert (F : fits64 (- a) = true) by (apply fits64_b; lia).
      rewrite wrap64_id by exact F. simpl. split; [reflexivity|exact F].
  - split; [apply norm_den|apply norm_canonical].
Qed.

(* ---------- exponentiation ---------- *)
Lemma big_exp_nonneg a b : 0 <= b -> big_exp a b = a ^ b.
Proof.
  intros Hb. unfold big_exp. destruct (b <=? 0) eqn:E; [|reflexivity].
  assert (b = 0) by lia. subst b. reflexivity.
Qed.

Lemma ipow_ok x y : den (ipow x y) = big_exp (den x) (den y) /\ canonical (ipow x y) = true.
Proof. destruct x, y; simpl; split; (apply norm_den || apply norm_canonical). Qed.

(* ---------- comparisons ---------- *)
Lemma big_cmp_cases a b :
  (a < b /\ big_cmp a b = -1) \/ (a = b /\ big_cmp a b = 0) \/ (a > b /\ big_cmp a b = 1).
Proof.
  unfold big_cmp. destruct (Z.compare_spec a b) as [H|H|H]; [right; left|left|right; right]; split; auto; lia.
Qed.

Lemma small_cmp_big a b : small_cmp a b = big_cmp a b.
Proof.
  unfold small_cmp. destruct (big_cmp_cases a b) as [[H E]|[[H E]|[H E]]]; rewrite E;
    destruct (a >? b) eqn:G; destruct (a <? b) eqn:L; lia.
Qed.

Lemma icmp_ok o x y : icmp o x y = cmp_spec o (den x) (den y).
Proof.
  assert (G : forall a b, (let c := big_cmp a b in
      match o with CGt => c =? 1 | CGe => c >=? 0 | CLt => c =? -1 | CLe => c <=? 0 | CEq => c =? 0 end)
      = cmp_spec o a b).
  { intros a b. cbv zeta. destruct (big_cmp_cases a b) as [[H E]|[[H E]|[H E]]]; rewrite E;
      destruct o; unfold cmp_spec; lia. }
  destruct x as [a|a], y as [b|b]; simpl; try apply G. reflexivity.
Qed.

Lemma icompare_ok x y :
  den (icompare x y) = big_cmp (den x) (den y) /\ canonical (icompare x y) = true.
Proof.
  assert (F : forall a b, fits64 (big_cmp a b) = true).
  { intros a b. destruct (big_cmp_cases a b) as [[H E]|[[H E]|[H E]]]; rewrite E; reflexivity. }
  destruct x as [a|a], y as [b|b]; simpl; try (split; [reflexivity|apply F]).
  rewrite small_cmp_big. split; [reflexivity|apply F].
Qed.

(* ---------- bitwise ---------- *)
(* a 64-bit signed value is one whose bits from position 63 upwards are all equal *)
Lemma fits64_shiftr z : fits64 z = true <-> (Z.shiftr z 63 = 0 \/ Z.shiftr z 63 = -1).
Proof.
  rewrite fits64_b, Z.shiftr_div_pow2 by lia.
  assert (P : 0 < 2 ^ 63) by reflexivity.
  pose proof (Z.div_mod z (2 ^ 63) ltac:(lia)) as D.
  pose proof (Z.mod_pos_bound z (2 ^ 63) P) as B.
  split; intros H; lia.
Qed.

Lemma bit_z_fits o a b : fits64 a = true -> fits64 b = true -> fits64 (bit_z o a b) = true.
Proof.
  intros Ha Hb. apply fits64_shiftr in Ha, Hb. apply fits64_shiftr.
  destruct o; unfold bit_z.
  - rewrite Z.shiftr_land. destruct Ha as [-> | ->], Hb as [-> | ->]; vm_compute; auto.
  - rewrite Z.shiftr_lor. destruct Ha as [-> | ->], Hb as [-> | ->]; vm_compute; auto.
  - rewrite Z.shiftr_lxor. destruct Ha as [-> | ->], Hb as [-> | ->]; vm_compute; auto.
  - rewrite Z.shiftr_ldiff. destruct Ha as [-> | ->], Hb as [-> | ->]; vm_compute; auto.
Qed.

Lemma ibit_ok o x y : canonical x = true -> canonical y = true ->
  den (ibit o x y) = bit_z o (den x) (den y) /\ canonical (ibit o x y) = true.
Proof.
  intros Cx Cy. destruct x as [a|a], y as [b|b]; simpl; try (split; [apply norm_den|apply norm_canonical]).
  split; [reflexivity|]. apply bit_z_fits; assumption.
Qed.
