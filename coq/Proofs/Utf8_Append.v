(* How decoding behaves under concatenation (Base/Utf8.v).
   In general decode_steps (s ++ t) <> decode_steps s ++ decode_steps t: a truncated sequence at
   the end of s can be completed by continuation bytes at the start of t ("\xC3" ++ "\xA9" = "é").
   It does distribute when s is valid UTF-8, or when t does not start with a continuation byte. *)
From Coq Require Import ZifyBool ZifyNat.
From Elk Require Import Base.Utf8 Proofs.Utf8_Decode Proofs.Utf8_Encode.
Open Scope Z_scope.

Lemma in_rng_lo2_cont b0 c : in_rng (lo2 b0) (hi2 b0) c = true -> is_cont c = true.
Proof.
  unfold is_cont, in_rng, lo2, hi2.
  destruct (b0 =? 224); destruct (b0 =? 240); destruct (b0 =? 237); destruct (b0 =? 244); lia.
Qed.

(* t "starts a new sequence": empty, or its first byte is not a continuation byte *)
Definition starts_fresh (t : list Z) : bool :=
  match t with [] => true | c :: _ => negb (is_cont c) end.

Ltac split_ands :=
  repeat match goal with
  | H : (_ && _) = true |- _ => apply andb_prop in H; destruct H
  end.

Ltac cont_contra :=
  exfalso; split_ands;
  repeat match goal with
  | H : in_rng (lo2 _) (hi2 _) _ = true |- _ => apply in_rng_lo2_cont in H
  end;
  congruence.

Lemma decode_rune_app_fresh s t :
  s <> [] -> starts_fresh t = true -> decode_rune (s ++ t) = decode_rune s.
Proof.
  intros Hs Ht.
  destruct s as [|b0 [|b1 [|b2 [|b3 s']]]]; [contradiction| | | |reflexivity];
    destruct t as [|c0 [|c1 [|c2 t']]]; cbn [app]; try reflexivity;
    cbn [starts_fresh] in Ht; apply negb_true_iff in Ht;
    unfold decode_rune; repeat break_if; try reflexivity; cont_contra.
Qed.

Lemma decode_rune_app_valid s t :
  s <> [] ->
  negb ((fst (decode_rune s) =? RuneError) && (snd (decode_rune s) =? 1)) = true ->
  decode_rune (s ++ t) = decode_rune s.
Proof.
  intros Hs Hv.
  destruct s as [|b0 [|b1 [|b2 [|b3 s']]]]; [contradiction| | | |reflexivity];
    destruct t as [|c0 [|c1 [|c2 t']]]; cbn [app]; try reflexivity;
    revert Hv; unfold decode_rune; repeat break_if; cbn [fst snd]; intros Hv;
    try reflexivity; try (cbn in Hv; discriminate).
Qed.

Lemma skipn_app_le {A} n (s t : list A) : (n <= length s)%nat -> skipn n (s ++ t) = skipn n s ++ t.
Proof.
  intros H. rewrite skipn_app. replace (n - length s)%nat with 0%nat by lia. reflexivity.
Qed.

(* one generic step lemma: if the first step of s is unchanged by appending t, the loop peels it *)
Lemma decode_steps_app_step b s' t :
  decode_rune ((b :: s') ++ t) = decode_rune (b :: s') ->
  decode_steps ((b :: s') ++ t) =
    mkStep (fst (decode_rune (b :: s'))) (snd (decode_rune (b :: s'))) b
      :: decode_steps (skipn (Z.to_nat (snd (decode_rune (b :: s')))) (b :: s') ++ t).
Proof.
  intros E. change ((b :: s') ++ t) with (b :: (s' ++ t)) in *.
  rewrite decode_steps_cons, E. f_equal.
  change (b :: s' ++ t) with ((b :: s') ++ t).
  rewrite skipn_app_le; [reflexivity|].
  pose proof (decode_rune_size_le (b :: s')). lia.
Qed.

Lemma decode_steps_app_fresh s t :
  starts_fresh t = true -> decode_steps (s ++ t) = decode_steps s ++ decode_steps t.
Proof.
  intros Ht. induction s as [|b s' IH] using decode_ind; [reflexivity|].
  rewrite decode_steps_app_step by (apply decode_rune_app_fresh; [discriminate|exact Ht]).
  rewrite IH, (decode_steps_cons b s'). reflexivity.
Qed.

Lemma decode_steps_app_valid s t :
  valid_string s = true -> decode_steps (s ++ t) = decode_steps s ++ decode_steps t.
Proof.
  induction s as [|b s' IH] using decode_ind; intros Hv; [reflexivity|].
  unfold valid_string in Hv. rewrite decode_steps_cons in Hv. cbn [forallb] in Hv.
  apply andb_prop in Hv. destruct Hv as [H1 H2].
  unfold step_invalid in H1. cbn [st_rune st_size] in H1.
  rewrite decode_steps_app_step by (apply decode_rune_app_valid; [discriminate|exact H1]).
  rewrite IH by exact H2. rewrite (decode_steps_cons b s'). reflexivity.
Qed.

Lemma rune_count_app_fresh s t :
  starts_fresh t = true -> rune_count (s ++ t) = rune_count s + rune_count t.
Proof. intros H. unfold rune_count. rewrite decode_steps_app_fresh, app_length by exact H. lia. Qed.

Lemma rune_count_app_valid s t :
  valid_string s = true -> rune_count (s ++ t) = rune_count s + rune_count t.
Proof. intros H. unfold rune_count. rewrite decode_steps_app_valid, app_length by exact H. lia. Qed.

Lemma valid_string_app s t :
  valid_string s = true -> valid_string t = true -> valid_string (s ++ t) = true.
Proof.
  intros Hs Ht. unfold valid_string. rewrite decode_steps_app_valid by exact Hs.
  rewrite forallb_app. unfold valid_string in Hs, Ht. rewrite Hs, Ht. reflexivity.
Qed.

(* an encoded rune never begins with a continuation byte *)
Lemma encode_rune_starts_fresh r t : starts_fresh (encode_rune r ++ t) = true.
Proof.
  pose proof (norm_rune_is_valid r) as V. apply valid_rune_iff in V. destruct V as [R _].
  unfold encode_rune. cbv zeta. set (v := norm_rune r) in *.
  repeat break_if; cbn [app starts_fresh]; unfold is_cont, in_rng;
    apply negb_true_iff; Z.div_mod_to_equations; lia.
Qed.
