(* C25 — proofs about Model/C25_Sched.v (controlled multi-thread scripts, blocked calls as state). *)
From Coq Require Import Lia ZifyBool ZifyNat.
From Elk Require Import Base.GoSem Model.C25_Sync Model.C25_Sched Proofs.C25_Sync.
Open Scope Z_scope.

(* ================================================================ the mirror, micro-step level *)

(* native holders = mirrored flag/counter + the calls between their two halves;
   mirrored flag/counter + releasing calls = completed locks - completed unlocks *)
Lemma mirror_agrees sched :
  let s := rrun true sched rinit in
  Z.b2z (r_w s) = Z.b2z (r_wflag s) + Z.of_nat (r_wacq s) + Z.of_nat (r_wrel s) /\
  Z.of_nat (r_r s) = Z.of_nat (r_rcount s) + Z.of_nat (r_racq s) + Z.of_nat (r_rrel s) /\
  wheld (rtrace s) = Z.b2z (r_wflag s) + Z.of_nat (r_wrel s) /\
  rheld (rtrace s) = Z.of_nat (r_rcount s) + Z.of_nat (r_rrel s).
Proof.
  cbn zeta. destruct (rinv_run sched) as [A [B [C [D [E F]]]]]. repeat split; assumption.
Qed.

Lemma mutex_mirror_agrees sched :
  let s := mrun true sched minit in
  Z.b2z (m_native s) = Z.b2z (m_flag s) + Z.of_nat (m_acq s) + Z.of_nat (m_rel s) /\
  mheld (mtrace s) = Z.b2z (m_flag s) + Z.of_nat (m_rel s).
Proof.
  cbn zeta. destruct (minv_run sched) as [A [B C]]. split; assumption.
Qed.

(* ================================================================ scripts: RWMutex *)

Definition slog (s : sstate) : Prop := s_lock s = rrun true (List.rev (s_log s)) rinit.
Definition sinv (s : sstate) : Prop := slog s /\ rquiet (s_lock s).

Lemma slog_stp s t a : slog s -> slog (stp false s t a).
Proof.
  unfold slog, stp. cbn [s_lock s_log]. intros H.
  cbn [List.rev]. unfold rrun. rewrite fold_left_app. cbn [fold_left].
  unfold rrun in H. rewrite <- H. reflexivity.
Qed.

Lemma rquiet_lock_pair l t :
  rquiet l -> rquiet (rstep' true (rstep' true l (t, RLock)) (t, RLockDone)).
Proof.
  intros [A [B [C D]]]. destruct l as [w r wf rc wa wr ra rr tr]. cbn in A, B, C, D. subst.
  unfold rstep', rquiet. cbn. destruct (go_rw_lock w r); cbn; auto.
Qed.

Lemma rquiet_rlock_pair l t :
  rquiet l -> rquiet (rstep' true (rstep' true l (t, RRLock)) (t, RRLockDone)).
Proof.
  intros [A [B [C D]]]. destruct l as [w r wf rc wa wr ra rr tr]. cbn in A, B, C, D. subst.
  unfold rstep', rquiet. cbn. destruct (go_rw_rlock w); cbn; auto.
Qed.

Lemma rquiet_unlock_pair l t :
  rquiet l -> rquiet (rstep' true (rstep' true l (t, RUnlock)) (t, RUnlockDone)).
Proof.
  intros [A [B [C D]]]. destruct l as [w r wf rc wa wr ra rr tr]. cbn in A, B, C, D. subst.
  unfold rstep', rquiet. cbn. destruct wf; cbn; [destruct w; cbn; auto | auto].
Qed.

Lemma rquiet_unlock_err l t :
  rquiet l -> r_wflag l = false -> rquiet (rstep' true l (t, RUnlock)).
Proof.
  intros [A [B [C D]]] W. destruct l as [w r wf rc wa wr ra rr tr]. cbn in A, B, C, D, W. subst.
  unfold rstep', rquiet. cbn. auto.
Qed.

Lemma rquiet_runlock_pair l t :
  rquiet l -> rquiet (rstep' true (rstep' true l (t, RRUnlock)) (t, RRUnlockDone)).
Proof.
  intros [A [B [C D]]]. destruct l as [w r wf rc wa wr ra rr tr]. cbn in A, B, C, D. subst.
  unfold rstep', rquiet. cbn. destruct rc; cbn; [auto | destruct r; cbn; auto].
Qed.

Lemma rquiet_runlock_err l t :
  rquiet l -> r_rcount l = 0%nat -> rquiet (rstep' true l (t, RRUnlock)).
Proof.
  intros [A [B [C D]]] W. destruct l as [w r wf rc wa wr ra rr tr]. cbn in A, B, C, D, W. subst.
  unfold rstep', rquiet. cbn. auto.
Qed.

Lemma sinv_set_blk s b : sinv s -> sinv (set_blk s b).
Proof. intros H; exact H. Qed.
Lemma sinv_set_pw s p : sinv s -> sinv (set_pw s p).
Proof. intros H; exact H. Qed.

Lemma sinv_wacq s t : sinv s -> sinv (wacq false s t).
Proof.
  intros [L Q]. split.
  - unfold wacq. apply slog_stp, slog_stp, L.
  - unfold wacq, stp; cbn [s_lock]. apply rquiet_lock_pair, Q.
Qed.

Lemma sinv_racq_post s t : sinv s -> sinv (racq_post false s t).
Proof.
  intros [L Q]. split.
  - unfold racq_post. apply slog_stp, slog_stp, L.
  - unfold racq_post, stp; cbn [s_lock]. apply rquiet_rlock_pair, Q.
Qed.

Lemma sinv_unlock s t : sinv s -> sinv (stp false (stp false s t RUnlock) t RUnlockDone).
Proof.
  intros [L Q]. split; [apply slog_stp, slog_stp, L|].
  unfold stp; cbn [s_lock]. apply rquiet_unlock_pair, Q.
Qed.

Lemma sinv_unlock_err s t : sinv s -> r_wflag (s_lock s) = false -> sinv (stp false s t RUnlock).
Proof.
  intros [L Q] W. split; [apply slog_stp, L|].
  unfold stp; cbn [s_lock]. apply rquiet_unlock_err; assumption.
Qed.

Lemma sinv_runlock s t : sinv s -> sinv (stp false (stp false s t RRUnlock) t RRUnlockDone).
Proof.
  intros [L Q]. split; [apply slog_stp, slog_stp, L|].
  unfold stp; cbn [s_lock]. apply rquiet_runlock_pair, Q.
Qed.

Lemma sinv_runlock_err s t : sinv s -> r_rcount (s_lock s) = 0%nat -> sinv (stp false s t RRUnlock).
Proof.
  intros [L Q] W. split; [apply slog_stp, L|].
  unfold stp; cbn [s_lock]. apply rquiet_runlock_err; assumption.
Qed.

Lemma sinv_fold_racq rs : forall s, sinv s -> sinv (fold_left (racq_post false) rs s).
Proof.
  induction rs as [|x rs IH]; intros s H; cbn [fold_left]; [exact H|].
  apply IH, sinv_racq_post, H.
Qed.

Lemma sinv_wake_readers s : sinv s -> sinv (fst (wake_readers false s)).
Proof.
  intros H. unfold wake_readers. cbn [fst]. apply sinv_set_blk, sinv_fold_racq, H.
Qed.

Lemma sinv_next_writer s p : sinv s -> In p (next_writer false s) -> sinv (fst p).
Proof.
  intros H I. unfold next_writer in I. destruct (s_blk s) as [|b bs] eqn:E.
  - destruct I as [I|[]]. subst p. exact H.
  - apply in_map_iff in I. destruct I as [x [Hx _]]. subst p.
    match goal with |- context [if ?c then _ else _] => destruct c end; cbn [fst].
    + apply sinv_wacq, sinv_set_blk, H.
    + apply sinv_set_pw, sinv_set_blk, H.
Qed.

Lemma sinv_scall s t o p : sinv s -> In p (scall false s t o) -> sinv (fst p).
Proof.
  intros H I. unfold scall in I. destruct (sbusy s t).
  { destruct I as [I|[]]. subst p. exact H. }
  destruct o.
  - (* Lock *)
    destruct (r_w (s_lock s) || is_some (s_pw s)).
    { destruct I as [I|[]]. subst p. apply sinv_set_blk, H. }
    destruct (Nat.eqb (r_r (s_lock s)) 0); destruct I as [I|[]]; subst p; cbn [fst].
    + apply sinv_wacq, H.
    + apply sinv_set_pw, H.
  - (* Unlock *)
    destruct (r_wflag (s_lock s)) eqn:W.
    + apply in_map_iff in I. destruct I as [q [Hq Iq]]. subst p. cbn [fst].
      eapply sinv_next_writer; [|exact Iq]. apply sinv_wake_readers, sinv_unlock, H.
    + destruct I as [I|[]]. subst p. apply sinv_unlock_err; assumption.
  - (* ReadLock *)
    cbn [racq_pre] in I.
    destruct (r_w (s_lock s) || is_some (s_pw s)); destruct I as [I|[]]; subst p; cbn [fst].
    + apply sinv_set_blk, H.
    + apply sinv_racq_post, H.
  - (* ReadUnlock *)
    destruct (r_rcount (s_lock s)) eqn:RC.
    + destruct I as [I|[]]. subst p. apply sinv_runlock_err; assumption.
    + pose proof (sinv_runlock s t H) as H1.
      cbn [stp s_pw] in I.
      destruct (s_pw s) as [x|].
      * match type of I with context [if ?c then _ else _] => destruct c end;
          destruct I as [I|[]]; subst p; cbn [fst].
        -- apply sinv_wacq, sinv_set_pw, H1.
        -- exact H1.
      * destruct I as [I|[]]. subst p. exact H1.
Qed.

Lemma sinv_srun script : forall s toks s', sinv s -> In (toks, s') (srun false script s) -> sinv s'.
Proof.
  induction script as [|[t o] rest IH]; intros s toks s' H I; cbn [srun] in I.
  - destruct I as [I|[]]. inversion I; subst. exact H.
  - apply in_flat_map in I. destruct I as [p [Ip Iq]].
    apply in_map_iff in Iq. destruct Iq as [q [Hq Iq]]. inversion Hq; subst.
    destruct q as [qt qs]. cbn [snd] in *. eapply IH; [|exact Iq].
    eapply sinv_scall; eauto.
Qed.

Lemma sinv_init : sinv sinit.
Proof. split; [reflexivity|]. unfold rquiet, sinit, rinit; cbn. auto. Qed.

(* at every script boundary, whatever calls are blocked: the state is a state of the proved
   micro-step machine, the mirrored flag/counter EQUAL the native holders, and both equal the
   lock calls that returned and were not released *)
Lemma sched_mirror_agrees script toks s :
  In (toks, s) (srun false script sinit) ->
  (exists sched, s_lock s = rrun true sched rinit) /\
  r_wflag (s_lock s) = r_w (s_lock s) /\ r_rcount (s_lock s) = r_r (s_lock s) /\
  wheld (rtrace (s_lock s)) = Z.b2z (r_w (s_lock s)) /\
  rheld (rtrace (s_lock s)) = Z.of_nat (r_r (s_lock s)).
Proof.
  intros I. destruct (sinv_srun script sinit toks s sinv_init I) as [L [A [B [C D]]]].
  split; [eexists; exact L|].
  pose proof (mirror_agrees (List.rev (s_log s))) as M. cbn zeta in M. unfold slog in L. rewrite <- L in M.
  destruct M as [M1 [M2 [M3 M4]]]. rewrite A, B in M1. rewrite C, D in M2. rewrite B in M3. rewrite D in M4.
  repeat split.
  - destruct (r_wflag (s_lock s)), (r_w (s_lock s)); cbn [Z.b2z] in M1; auto; lia.
  - lia.
  - lia.
  - lia.
Qed.

(* hence the outcome of an unlock depends only on the calls that RETURNED *)
Lemma sched_unlock_outcomes script toks s t :
  In (toks, s) (srun false script sinit) -> sbusy s t = false ->
  (rheld (rtrace (s_lock s)) = 0 ->
     scall false s t SRUnlock = [(stp false s t RRUnlock, mkRes (IErr E_RW_UNLOCKED_R) [])]) /\
  (rheld (rtrace (s_lock s)) > 0 -> forall p, In p (scall false s t SRUnlock) -> sr_imm (snd p) = IOk) /\
  (wheld (rtrace (s_lock s)) = 0 ->
     scall false s t SUnlock = [(stp false s t RUnlock, mkRes (IErr E_RW_UNLOCKED_W) [])]) /\
  (wheld (rtrace (s_lock s)) > 0 -> forall p, In p (scall false s t SUnlock) -> sr_imm (snd p) = IOk).
Proof.
  intros I Bz. destruct (sched_mirror_agrees script toks s I) as [_ [A [B [C D]]]].
  unfold scall. rewrite Bz. repeat split.
  - intros H. destruct (r_rcount (s_lock s)); [reflexivity|lia].
  - intros H p Ip. destruct (r_rcount (s_lock s)); [lia|].
    cbn [stp s_pw] in Ip. destruct (s_pw s).
    + match type of Ip with context [if ?c then _ else _] => destruct c end;
        destruct Ip as [Ip|[]]; subst p; reflexivity.
    + destruct Ip as [Ip|[]]; subst p; reflexivity.
  - intros H. rewrite A. destruct (r_w (s_lock s)); cbn [Z.b2z] in C; [lia|reflexivity].
  - intros H p Ip. rewrite A in Ip. destruct (r_w (s_lock s)); cbn [Z.b2z] in C; [|lia].
    apply in_map_iff in Ip. destruct Ip as [q [Hq _]]. subst p. reflexivity.
Qed.

(* ================================================================ scripts: Mutex *)

Definition xinv (s : xstate) : Prop := x_lock s = mrun true (List.rev (x_log s)) minit /\ mquiet (x_lock s).

Lemma xinv_xtp_log s t a :
  x_lock s = mrun true (List.rev (x_log s)) minit -> x_lock (xtp s t a) = mrun true (List.rev (x_log (xtp s t a))) minit.
Proof.
  unfold xtp. cbn [x_lock x_log]. intros H. cbn [List.rev]. unfold mrun. rewrite fold_left_app. cbn [fold_left].
  unfold mrun in H. rewrite <- H. reflexivity.
Qed.

Lemma mquiet_lock_pair l t : mquiet l -> mquiet (mstep' true (mstep' true l (t, MLock)) (t, MLockDone)).
Proof.
  intros [A B]. destruct l as [n f acq rel tr]. cbn in A, B. subst.
  unfold mstep', mquiet. cbn. destruct n; cbn; auto.
Qed.

Lemma mquiet_unlock_pair l t : mquiet l -> mquiet (mstep' true (mstep' true l (t, MUnlock)) (t, MUnlockDone)).
Proof.
  intros [A B]. destruct l as [n f acq rel tr]. cbn in A, B. subst.
  unfold mstep', mquiet. cbn. destruct f; cbn; [destruct n; cbn; auto | auto].
Qed.

Lemma mquiet_unlock_err l t : mquiet l -> m_flag l = false -> mquiet (mstep' true l (t, MUnlock)).
Proof.
  intros [A B] W. destruct l as [n f acq rel tr]. cbn in A, B, W. subst.
  unfold mstep', mquiet. cbn. auto.
Qed.

Lemma xinv_xacq s t : xinv s -> xinv (xacq s t).
Proof.
  intros [L Q]. split.
  - unfold xacq. apply xinv_xtp_log, xinv_xtp_log, L.
  - unfold xacq, xtp; cbn [x_lock]. apply mquiet_lock_pair, Q.
Qed.

Lemma xinv_xcall s t o p : xinv s -> In p (xcall s t o) -> xinv (fst p).
Proof.
  intros H I. unfold xcall in I. destruct (existsb (Nat.eqb t) (x_blk s)).
  { destruct I as [I|[]]. subst p. exact H. }
  destruct o.
  - destruct (m_native (x_lock s)); destruct I as [I|[]]; subst p; cbn [fst].
    + exact H.
    + apply xinv_xacq, H.
  - destruct (m_flag (x_lock s)) eqn:F.
    + assert (H1 : xinv (xtp (xtp s t MUnlock) t MUnlockDone)).
      { destruct H as [L Q]. split; [apply xinv_xtp_log, xinv_xtp_log, L|].
        unfold xtp; cbn [x_lock]. apply mquiet_unlock_pair, Q. }
      cbn [xtp x_blk] in I. destruct (x_blk s) as [|b bs].
      * destruct I as [I|[]]. subst p. exact H1.
      * apply in_map_iff in I. destruct I as [x [Hx _]]. subst p. cbn [fst].
        apply xinv_xacq. exact H1.
    + destruct I as [I|[]]. subst p. destruct H as [L Q]. split; [apply xinv_xtp_log, L|].
      unfold xtp; cbn [x_lock]. apply mquiet_unlock_err; assumption.
Qed.

Lemma xinv_xrun script : forall s toks s', xinv s -> In (toks, s') (xrun script s) -> xinv s'.
Proof.
  induction script as [|[t o] rest IH]; intros s toks s' H I; cbn [xrun] in I.
  - destruct I as [I|[]]. inversion I; subst. exact H.
  - apply in_flat_map in I. destruct I as [p [Ip Iq]].
    apply in_map_iff in Iq. destruct Iq as [q [Hq Iq]]. inversion Hq; subst.
    destruct q as [qt qs]. cbn [snd] in *. eapply IH; [|exact Iq].
    eapply xinv_xcall; eauto.
Qed.

Lemma mutex_sched_mirror_agrees script toks s :
  In (toks, s) (xrun script xinit) ->
  (exists sched, x_lock s = mrun true sched minit) /\
  m_flag (x_lock s) = m_native (x_lock s) /\ mheld (mtrace (x_lock s)) = Z.b2z (m_native (x_lock s)).
Proof.
  intros I.
  assert (X0 : xinv xinit). { split; [reflexivity|]. unfold mquiet, xinit, minit; cbn. auto. }
  destruct (xinv_xrun script xinit toks s X0 I) as [L [A B]].
  split; [eexists; exact L|].
  pose proof (mutex_mirror_agrees (List.rev (x_log s))) as M. cbn zeta in M. rewrite <- L in M.
  destruct M as [M1 M2]. rewrite A, B in M1. rewrite B in M2. split.
  - destruct (m_flag (x_lock s)), (m_native (x_lock s)); cbn [Z.b2z] in M1; auto; lia.
  - destruct (m_flag (x_lock s)), (m_native (x_lock s)); cbn [Z.b2z] in *; lia.
Qed.

(* ================================================================ no lost wake-up *)

Definition sjustP (s : sstate) : Prop :=
  (s_blk s <> [] -> r_w (s_lock s) = true \/ s_pw s <> None) /\
  (forall x, s_pw s = Some x -> r_w (s_lock s) = false /\ r_r (s_lock s) <> 0%nat).

Lemma sinv_mirror s : sinv s ->
  r_wflag (s_lock s) = r_w (s_lock s) /\ r_rcount (s_lock s) = r_r (s_lock s) /\
  (r_w (s_lock s) = true -> r_r (s_lock s) = 0%nat).
Proof.
  intros [L [A [B [C D]]]]. unfold slog in L.
  pose proof (rinv_run (List.rev (s_log s))) as R. rewrite <- L in R.
  destruct R as [R1 [R2 [R3 _]]]. rewrite A, B in R1. rewrite C, D in R2.
  repeat split; [|lia|exact R3].
  destruct (r_wflag (s_lock s)), (r_w (s_lock s)); cbn [Z.b2z] in R1; auto; lia.
Qed.

Lemma eff_lock l t : rquiet l -> r_w l = false -> r_r l = 0%nat ->
  let l' := rstep' true (rstep' true l (t, RLock)) (t, RLockDone) in r_w l' = true /\ r_r l' = 0%nat.
Proof.
  intros [A [B [C D]]] W R. destruct l as [w r wf rc wa wr ra rr tr]. cbn in *. subst.
  unfold rstep'. cbn. auto.
Qed.

Lemma eff_rlock l t : rquiet l -> r_w l = false ->
  let l' := rstep' true (rstep' true l (t, RRLock)) (t, RRLockDone) in r_w l' = false /\ r_r l' = S (r_r l).
Proof.
  intros [A [B [C D]]] W. destruct l as [w r wf rc wa wr ra rr tr]. cbn in *. subst.
  unfold rstep'. cbn. auto.
Qed.

Lemma eff_unlock l t : rquiet l -> r_wflag l = true -> r_w l = true ->
  let l' := rstep' true (rstep' true l (t, RUnlock)) (t, RUnlockDone) in r_w l' = false /\ r_r l' = r_r l.
Proof.
  intros [A [B [C D]]] F W. destruct l as [w r wf rc wa wr ra rr tr]. cbn in *. subst.
  unfold rstep'. cbn. auto.
Qed.

Lemma eff_unlock_err l t : r_wflag l = false ->
  let l' := rstep' true l (t, RUnlock) in r_w l' = r_w l /\ r_r l' = r_r l.
Proof.
  intros F. destruct l as [w r wf rc wa wr ra rr tr]. cbn in *. subst. unfold rstep'. cbn. auto.
Qed.

Lemma eff_runlock l t k : rquiet l -> r_rcount l = S k -> r_r l = S k ->
  let l' := rstep' true (rstep' true l (t, RRUnlock)) (t, RRUnlockDone) in r_w l' = r_w l /\ r_r l' = k.
Proof.
  intros [A [B [C D]]] F W. destruct l as [w r wf rc wa wr ra rr tr]. cbn in *. subst.
  unfold rstep'. cbn. auto.
Qed.

Lemma eff_runlock_err l t : r_rcount l = 0%nat ->
  let l' := rstep' true l (t, RRUnlock) in r_w l' = r_w l /\ r_r l' = r_r l.
Proof.
  intros F. destruct l as [w r wf rc wa wr ra rr tr]. cbn in *. subst. unfold rstep'. cbn. auto.
Qed.

Lemma fold_racq_eff rs : forall s, sinv s -> r_w (s_lock s) = false ->
  let s' := fold_left (racq_post false) rs s in
  r_w (s_lock s') = false /\ s_blk s' = s_blk s /\ s_pw s' = s_pw s.
Proof.
  induction rs as [|x rs IH]; intros s H W; cbn [fold_left]; [auto|].
  pose proof (sinv_racq_post s x H) as H1.
  destruct H as [_ Q]. destruct (eff_rlock (s_lock s) x Q W) as [W1 _].
  specialize (IH (racq_post false s x) H1 W1). cbn zeta in IH. destruct IH as [I1 [I2 I3]].
  repeat split; assumption.
Qed.

Lemma sjust_scall s t o p : sinv s -> sjustP s -> In p (scall false s t o) -> sjustP (fst p).
Proof.
  intros H [J1 J2] I. destruct (sinv_mirror s H) as [MW [MR MC]]. pose proof H as [_ Q].
  unfold scall in I. destruct (sbusy s t).
  { destruct I as [I|[]]. subst p. split; assumption. }
  destruct o.
  - (* Lock *)
    destruct (r_w (s_lock s) || is_some (s_pw s)) eqn:G.
    { destruct I as [I|[]]. subst p. split; cbn [fst set_blk s_blk s_lock s_pw]; [|exact J2].
      intros _. destruct (r_w (s_lock s)); [left; reflexivity|]. right. destruct (s_pw s); [discriminate|discriminate]. }
    apply orb_false_iff in G. destruct G as [W P]. destruct (s_pw s) as [y|] eqn:PW; [discriminate|].
    destruct (Nat.eqb_spec (r_r (s_lock s)) 0) as [R0|R0]; destruct I as [I|[]]; subst p; cbn [fst].
    + destruct (eff_lock (s_lock s) t Q W R0) as [W1 _]. split.
      * intros _. left. exact W1.
      * cbn [wacq stp s_pw]. rewrite PW. discriminate.
    + split; cbn [set_pw s_blk s_lock s_pw].
      * intros _. right. discriminate.
      * intros x _. split; assumption.
  - (* Unlock *)
    destruct (r_wflag (s_lock s)) eqn:F.
    + assert (W : r_w (s_lock s) = true) by (rewrite <- MW; reflexivity).
      assert (PW : s_pw s = None).
      { destruct (s_pw s) as [y|] eqn:E; [|reflexivity]. destruct (J2 y eq_refl) as [X _]. congruence. }
      specialize (MC W).
      apply in_map_iff in I. destruct I as [q [Hq Iq]]. subst p. cbn [fst].
      set (s1 := stp false (stp false s t RUnlock) t RUnlockDone) in *.
      assert (H1 : sinv s1) by (apply sinv_unlock, H).
      destruct (eff_unlock (s_lock s) t Q F W) as [W1 R1].
      assert (W1' : r_w (s_lock s1) = false) by exact W1.
      unfold wake_readers in Iq. cbn [fst] in Iq.
      set (rs := map fst (filter (fun x : nat * bool => negb (snd x)) (s_blk s1))) in *.
      destruct (fold_racq_eff rs s1 H1 W1') as [W2 [B2 P2]].
      set (s2 := set_blk (fold_left (racq_post false) rs s1) (filter (fun x : nat * bool => snd x) (s_blk s1))) in *.
      assert (H2 : sinv s2) by (apply sinv_set_blk, sinv_fold_racq, H1).
      assert (W2' : r_w (s_lock s2) = false) by exact W2.
      assert (P2' : s_pw s2 = None) by (cbn [s2 set_blk s_pw]; rewrite P2; exact PW).
      unfold next_writer in Iq. destruct (s_blk s2) as [|b bs] eqn:E2.
      * destruct Iq as [Iq|[]]. subst q. cbn [fst]. split.
        -- intros X. rewrite E2 in X. congruence.
        -- intros x X. rewrite P2' in X. discriminate.
      * apply in_map_iff in Iq. destruct Iq as [x [Hx _]]. subst q.
        set (s3 := set_blk s2 _) in *.
        assert (W3 : r_w (s_lock s3) = false) by exact W2'.
        assert (P3 : s_pw s3 = None) by exact P2'.
        assert (H3 : sinv s3) by (apply sinv_set_blk, H2).
        destruct (Nat.eqb_spec (r_r (s_lock s3)) 0) as [R0|R0]; cbn [fst].
        -- destruct H3 as [_ Q3]. destruct (eff_lock (s_lock s3) (fst x) Q3 W3 R0) as [W4 _]. split.
           ++ intros _. left. exact W4.
           ++ cbn [wacq stp s_pw]. rewrite P3. discriminate.
        -- split; cbn [set_pw s_blk s_lock s_pw].
           ++ intros _. right. discriminate.
           ++ intros y _. split; assumption.
    + destruct I as [I|[]]. subst p. cbn [fst stp s_blk s_lock s_pw].
      destruct (eff_unlock_err (s_lock s) t F) as [W1 R1].
      split; cbn [s_blk s_lock s_pw].
      * intros X. destruct (J1 X) as [Y|Y]; [left; exact (eq_trans W1 Y)|right; exact Y].
      * intros x X. destruct (J2 x X) as [Y1 Y2]. split; [exact (eq_trans W1 Y1)|].
        intros Z. apply Y2. exact (eq_trans (eq_sym R1) Z).
  - (* ReadLock *)
    cbn [racq_pre] in I.
    destruct (r_w (s_lock s) || is_some (s_pw s)) eqn:G.
    { destruct I as [I|[]]. subst p. split; cbn [fst set_blk s_blk s_lock s_pw]; [|exact J2].
      intros _. destruct (r_w (s_lock s)); [left; reflexivity|]. right. destruct (s_pw s); [discriminate|discriminate]. }
    apply orb_false_iff in G. destruct G as [W P]. destruct (s_pw s) as [y|] eqn:PW; [discriminate|].
    destruct I as [I|[]]. subst p. cbn [fst].
    destruct (eff_rlock (s_lock s) t Q W) as [W1 R1]. split.
    + cbn [racq_post stp s_blk]. intros X. destruct (J1 X) as [Y|Y]; [congruence|]. try rewrite PW in Y. congruence.
    + cbn [racq_post stp s_pw]. rewrite PW. discriminate.
  - (* ReadUnlock *)
    destruct (r_rcount (s_lock s)) as [|k] eqn:RC.
    + destruct I as [I|[]]. subst p. cbn [fst stp s_blk s_lock s_pw].
      destruct (eff_runlock_err (s_lock s) t RC) as [W1 R1].
      split; cbn [s_blk s_lock s_pw].
      * intros X. destruct (J1 X) as [Y|Y]; [left; exact (eq_trans W1 Y)|right; exact Y].
      * intros x X. destruct (J2 x X) as [Y1 Y2]. split; [exact (eq_trans W1 Y1)|].
        intros Z. apply Y2. exact (eq_trans (eq_sym R1) Z).
    + assert (RR : r_r (s_lock s) = S k) by (rewrite <- MR; reflexivity).
      assert (W : r_w (s_lock s) = false).
      { destruct (r_w (s_lock s)) eqn:E; [|reflexivity]. specialize (MC eq_refl). congruence. }
      set (s1 := stp false (stp false s t RRUnlock) t RRUnlockDone) in *.
      assert (H1 : sinv s1) by (apply sinv_runlock, H).
      destruct (eff_runlock (s_lock s) t k Q RC RR) as [W1 R1].
      assert (W1' : r_w (s_lock s1) = false) by (rewrite <- W; exact W1).
      assert (R1' : r_r (s_lock s1) = k) by exact R1.
      assert (B1 : s_blk s1 = s_blk s) by reflexivity.
      assert (P1 : s_pw s1 = s_pw s) by reflexivity.
      destruct (s_pw s1) as [x|] eqn:PW1.
      * destruct (Nat.eqb_spec (r_r (s_lock s1)) 0) as [R0|R0]; destruct I as [I|[]]; subst p; cbn [fst].
        -- assert (H2 : sinv (set_pw s1 None)) by (apply sinv_set_pw, H1).
           destruct H2 as [_ Q2]. destruct (eff_lock (s_lock (set_pw s1 None)) x Q2 W1' R0) as [W4 _]. split.
           ++ intros _. left. exact W4.
           ++ cbn [wacq stp set_pw s_pw]. discriminate.
        -- split.
           ++ intros _. right. rewrite PW1. discriminate.
           ++ intros y _. split; assumption.
      * destruct I as [I|[]]. subst p. cbn [fst]. split.
        -- intros X. rewrite B1 in X. destruct (J1 X) as [Y|Y]; [congruence|]. rewrite <- P1 in Y. congruence.
        -- intros y Y. rewrite PW1 in Y. discriminate.
Qed.

Lemma sjust_srun script : forall s toks s', sinv s -> sjustP s -> In (toks, s') (srun false script s) -> sjustP s'.
Proof.
  induction script as [|[t o] rest IH]; intros s toks s' H J I; cbn [srun] in I.
  - destruct I as [I|[]]. inversion I; subst. exact J.
  - apply in_flat_map in I. destruct I as [p [Ip Iq]].
    apply in_map_iff in Iq. destruct Iq as [q [Hq Iq]]. inversion Hq; subst.
    destruct q as [qt qs]. cbn [snd] in *. eapply IH; [| |exact Iq].
    + eapply sinv_scall; eauto.
    + eapply sjust_scall; eauto.
Qed.

Lemma sched_no_lost_wakeup script toks s :
  In (toks, s) (srun false script sinit) ->
  (s_blk s <> [] -> r_w (s_lock s) = true \/ s_pw s <> None) /\
  (forall x, s_pw s = Some x -> r_w (s_lock s) = false /\ r_r (s_lock s) <> 0%nat).
Proof.
  intros I. apply (sjust_srun script sinit toks s sinv_init); [|exact I].
  split; [intros X; exfalso; apply X; reflexivity | intros x X; discriminate].
Qed.

(* ---- Mutex *)

Definition xjustP (s : xstate) : Prop := x_blk s <> [] -> m_native (x_lock s) = true.

Lemma xinv_mirror s : xinv s -> m_flag (x_lock s) = m_native (x_lock s).
Proof.
  intros [L [A B]]. pose proof (minv_run (List.rev (x_log s))) as R. rewrite <- L in R.
  destruct R as [R1 _]. rewrite A, B in R1.
  destruct (m_flag (x_lock s)), (m_native (x_lock s)); cbn [Z.b2z] in R1; auto; lia.
Qed.

Lemma eff_mlock l t : mquiet l -> m_native l = false ->
  m_native (mstep' true (mstep' true l (t, MLock)) (t, MLockDone)) = true.
Proof.
  intros [A B] W. destruct l as [n f acq rel tr]. cbn in *. subst. unfold mstep'. cbn. reflexivity.
Qed.

Lemma eff_munlock l t : mquiet l -> m_flag l = true -> m_native l = true ->
  m_native (mstep' true (mstep' true l (t, MUnlock)) (t, MUnlockDone)) = false.
Proof.
  intros [A B] F W. destruct l as [n f acq rel tr]. cbn in *. subst. unfold mstep'. cbn. reflexivity.
Qed.

Lemma eff_munlock_err l t : m_flag l = false -> m_native (mstep' true l (t, MUnlock)) = m_native l.
Proof.
  intros F. destruct l as [n f acq rel tr]. cbn in *. subst. unfold mstep'. cbn. reflexivity.
Qed.

Lemma xjust_xcall s t o p : xinv s -> xjustP s -> In p (xcall s t o) -> xjustP (fst p).
Proof.
  intros H J I. pose proof (xinv_mirror s H) as M. pose proof H as [_ Q].
  unfold xcall in I. destruct (existsb (Nat.eqb t) (x_blk s)).
  { destruct I as [I|[]]. subst p. exact J. }
  destruct o.
  - destruct (m_native (x_lock s)) eqn:N; destruct I as [I|[]]; subst p; cbn [fst].
    + intros _. exact N.
    + intros _. exact (eff_mlock (x_lock s) t Q N).
  - destruct (m_flag (x_lock s)) eqn:F.
    + assert (N : m_native (x_lock s) = true) by (rewrite <- M; reflexivity).
      pose proof (eff_munlock (x_lock s) t Q F N) as N1.
      assert (H1 : xinv (xtp (xtp s t MUnlock) t MUnlockDone)).
      { destruct H as [L Q0]. split; [apply xinv_xtp_log, xinv_xtp_log, L|].
        unfold xtp; cbn [x_lock]. apply mquiet_unlock_pair, Q0. }
      cbn [xtp x_blk] in I. destruct (x_blk s) as [|b bs] eqn:B.
      * destruct I as [I|[]]. subst p. cbn [fst xtp x_blk]. intros X. exfalso. apply X. exact B.
      * apply in_map_iff in I. destruct I as [x [Hx _]]. subst p. cbn [fst]. intros _.
        destruct H1 as [_ Q1].
        exact (eff_mlock _ x Q1 N1).
    + destruct I as [I|[]]. subst p. cbn [fst xtp x_blk x_lock]. intros X.
      exact (eq_trans (eff_munlock_err (x_lock s) t F) (J X)).
Qed.

Lemma xjust_xrun script : forall s toks s', xinv s -> xjustP s -> In (toks, s') (xrun script s) -> xjustP s'.
Proof.
  induction script as [|[t o] rest IH]; intros s toks s' H J I; cbn [xrun] in I.
  - destruct I as [I|[]]. inversion I; subst. exact J.
  - apply in_flat_map in I. destruct I as [p [Ip Iq]].
    apply in_map_iff in Iq. destruct Iq as [q [Hq Iq]]. inversion Hq; subst.
    destruct q as [qt qs]. cbn [snd] in *. eapply IH; [| |exact Iq].
    + eapply xinv_xcall; eauto.
    + eapply xjust_xcall; eauto.
Qed.

Lemma mutex_sched_no_lost_wakeup script toks s :
  In (toks, s) (xrun script xinit) -> x_blk s <> [] -> m_native (x_lock s) = true.
Proof.
  intros I. apply (xjust_xrun script xinit toks s); [| |exact I].
  - split; [reflexivity|]. unfold mquiet, xinit, minit; cbn. auto.
  - intros X. exfalso. apply X. reflexivity.
Qed.
