(* C01 - soundness of the core checker of Model/C01_Core.v for the typed-dispatch interpreter,
   under the guard that no closure and no loop body assigns a narrowed local. *)
From Coq Require Import ZArith List Bool Lia Arith.
From Elk Require Import Model.C01_Core Proofs.C01_Core.
Import ListNotations.
Local Open Scope nat_scope.

Definition types_ok (G : ctx) (fr : list val) : Prop :=
  length fr = length G /\
  forall x ch v, nth_error G x = Some ch -> nth_error fr x = Some v ->
    exists t r, ch = t :: r /\ has_type v t = true.

(* ---------------------------------------------------------------- expressions and conditions *)

Lemma chkE_sound G fr e :
  types_ok G fr -> forall t, chkE G e = Some t -> exists v, evalE fr e = Some v /\ has_type v t = true.
Proof.
  intros [L H].
  assert (forall a b r (f : Z -> Z -> val) t,
    (forall t, chkE G a = Some t -> exists v, evalE fr a = Some v /\ has_type v t = true) ->
    (forall t, chkE G b = Some t -> exists v, evalE fr b = Some v /\ has_type v t = true) ->
    match chkE G a, chkE G b with
    | Some ta, Some tb => if sub ta tInt && sub tb tInt then Some r else None
    | _, _ => None
    end = Some t ->
    (forall x y, has_type (f x y) r = true) ->
    exists v, int_op f (evalE fr a) (evalE fr b) = Some v /\ has_type v t = true) as Hint.
  { intros a b r f t IHa IHb C Hf.
    destruct (chkE G a) as [ta|] eqn:Ca; [|discriminate].
    destruct (chkE G b) as [tb|] eqn:Cb; [|discriminate].
    destruct (sub ta tInt && sub tb tInt) eqn:S; [|discriminate].
    apply andb_prop in S. destruct S as [Sa Sb]. inversion C; subst.
    destruct (IHa _ eq_refl) as (va & Ea & Ha). destruct (IHb _ eq_refl) as (vb & Eb & Hb).
    destruct (has_type_int _ _ Ha Sa) as [za ->]. destruct (has_type_int _ _ Hb Sb) as [zb ->].
    rewrite Ea, Eb. simpl. eauto. }
  induction e; intros t C; simpl in C.
  1-5: inversion C; subst; simpl; eexists; split; reflexivity.
  - unfold cur in C. destruct (nth_error G x) as [[|t0 r]|] eqn:E; try discriminate. inversion C; subst.
    destruct (nth_some_of_len G fr x _ (eq_sym L) E) as [v Hv]. exists v. split; auto.
    destruct (H x _ v E Hv) as (t1 & r1 & E1 & Ht). inversion E1; subst; auto.
  - simpl. eapply Hint; eauto.
  - simpl. eapply Hint; eauto.
  - simpl. eapply Hint; eauto.
  - simpl. eapply Hint; eauto. intros x y. destruct (x <? y)%Z; reflexivity.
  - simpl. eapply Hint; eauto. intros x y. destruct (x =? y)%Z; reflexivity.
Qed.

Lemma chkC_sound G fr c : types_ok G fr -> chkC G c = true -> exists b, evalC fr c = Some b.
Proof.
  intros T. induction c; intros C.
  - simpl in *. unfold cur in C. destruct (nth_error G x) as [[|t0 r]|] eqn:E; try discriminate.
    destruct T as [L _]. destruct (nth_some_of_len G fr x _ (eq_sym L) E) as [v ->]. simpl. eauto.
  - simpl in *. destruct (IHc C) as [b ->]. simpl. eauto.
  - assert (chkE G (ELt a b) = Some tBool) as Ce.
    { simpl in *. destruct (chkE G a), (chkE G b); try discriminate. rewrite C. reflexivity. }
    destruct (chkE_sound G fr (ELt a b) T tBool Ce) as (v & Ev & _).
    change (evalC fr (CLt a b)) with (option_map truthy (evalE fr (ELt a b))). rewrite Ev. simpl. eauto.
  - assert (chkE G (EEq a b) = Some tBool) as Ce.
    { simpl in *. destruct (chkE G a), (chkE G b); try discriminate. rewrite C. reflexivity. }
    destruct (chkE_sound G fr (EEq a b) T tBool Ce) as (v & Ev & _).
    change (evalC fr (CEq a b)) with (option_map truthy (evalE fr (EEq a b))). rewrite Ev. simpl. eauto.
Qed.

Lemma narrow_var_eval fr c : forall b x q,
  evalC fr c = Some b -> narrow_var c b = Some (x, q) ->
  exists v, nth_error fr x = Some v /\ truthy v = q.
Proof.
  induction c; simpl; intros pol y q E V; try discriminate.
  - inversion V; subst. destruct (nth_error fr y) as [v|]; [|discriminate]. inversion E. eauto.
  - destruct (evalC fr c) as [b0|] eqn:E0; [|discriminate]. inversion E; subst.
    rewrite negb_involutive in V. eapply IHc; eauto.
Qed.

Lemma narrow_sound G fr c b : types_ok G fr -> evalC fr c = Some b -> types_ok (narrow G c b) fr.
Proof.
  intros [L H] E. unfold narrow. split; [rewrite length_push_from; auto|].
  intros x ch v Hc Hv. rewrite nth_push_from in Hc. simpl in Hc.
  destruct (nth_error G x) as [ch0|] eqn:E0; [|discriminate]. inversion Hc; subst. clear Hc.
  destruct (H x ch0 v E0 Hv) as (t & r & -> & Ht). simpl. eexists _, _. split; [reflexivity|].
  unfold narrow_ty. destruct (narrow_var c b) as [[y q]|] eqn:V; auto.
  destruct (Nat.eqb y x) eqn:Ey; auto. apply Nat.eqb_eq in Ey. subst y.
  destruct (narrow_var_eval fr c b x q E V) as (v' & Hv' & Tq). rewrite Hv in Hv'. inversion Hv'; subst v'.
  unfold has_type, truthy in *.
  destruct q; unfold non_falsy, non_truthy; rewrite Ht; simpl;
    destruct (falsy_tag (tag_of v)); simpl in *; congruence.
Qed.

(* ---------------------------------------------------------------- frames and contexts *)

Section Dyn.
Variable ds : list ty.
Variable N : list nat.

Lemma types_ok_le G G' fr : ctx_le G G' -> types_ok G fr -> types_ok G' fr.
Proof.
  intros [L Hle] [Lf H]. split; [congruence|]. intros x b v Hb Hv.
  destruct (nth_some_of_len G' G x b (eq_sym L) Hb) as [a Ha].
  destruct (H x a v Ha Hv) as (t & r & -> & Ht).
  specialize (Hle x _ _ Ha Hb). inversion Hle; subst. eexists _, _. split; [reflexivity|].
  eapply sub_has_type; eauto.
Qed.

Lemma types_ok_pop G fr : ctx_ok ds N G -> types_ok G fr -> types_ok (pop G) fr.
Proof.
  intros [L Hok] [Lf H]. split; [rewrite length_pop; auto|]. intros x b v Hb Hv.
  rewrite nth_pop in Hb. destruct (nth_error G x) as [a|] eqn:Ha; [|discriminate]. inversion Hb; subst.
  destruct (H x a v Ha Hv) as (t & r & -> & Ht).
  destruct (nth_some_of_len G ds x _ L Ha) as [d Hd]. destruct (Hok x d _ Hd Ha) as [Hc _].
  inversion Hc; subst; simpl; eexists _, _; split; try reflexivity; auto.
  eapply sub_has_type; eauto.
Qed.

(* values of narrowed locals unchanged, other locals still at (a subtype of) their declared type *)
Lemma reestablish G G2 fr fr1 :
  ctx_ok ds N G -> ctx_ok ds N G2 -> types_ok G fr -> types_ok G2 fr1 ->
  (forall x, In x N -> nth_error fr1 x = nth_error fr x) -> types_ok G fr1.
Proof.
  intros [L Hok] [L2 Hok2] [Lf H] [Lf1 H1] Same. split; [congruence|]. intros x ch v Hc Hv.
  destruct (in_dec Nat.eq_dec x N) as [I|NI].
  - rewrite (Same x I) in Hv. eauto.
  - destruct (nth_some_of_len G ds x _ L Hc) as [d Hd]. destruct (Hok x d _ Hd Hc) as [Hch Hall].
    specialize (Hall NI). destruct (chain_ok_nonempty _ _ Hch) as (t & r & ->).
    inversion Hall; subst. eexists _, _. split; [reflexivity|].
    destruct (nth_some_of_len G G2 x _ (eq_trans L (eq_sym L2)) Hc) as [c2 Hc2].
    destruct (H1 x c2 v Hc2 Hv) as (t2 & r2 & -> & Ht2).
    destruct (Hok2 x t _ Hd Hc2) as [Hch2 _]. eapply sub_has_type; [eapply chain_ok_hd; eauto|auto].
Qed.

Lemma assign_sound G x te G' fr v :
  ctx_ok ds N G -> assign G x te = Some G' -> types_ok G fr -> has_type v te = true ->
  exists fr', store fr x v = Some fr' /\ types_ok G' fr' /\
              (forall y, y <> x -> nth_error fr' y = nth_error fr y).
Proof.
  intros Hok As [Lf H] Hv.
  destruct (assign_ok ds N G x te G' Hok As) as (Hok' & [L' _] & Same & (t & r & Hx & St)).
  assert (x < length fr) as Hlt.
  { rewrite Lf. unfold assign in As. destruct (nth_error G x) eqn:E; [|discriminate].
    apply nth_error_Some. congruence. }
  unfold store. apply Nat.ltb_lt in Hlt. rewrite Hlt. eexists. split; [reflexivity|]. split.
  - split; [rewrite length_set_nth; congruence|]. intros y ch w Hc Hw.
    destruct (Nat.eq_dec y x) as [->|Ne].
    + rewrite Hx in Hc. inversion Hc; subst. apply Nat.ltb_lt in Hlt.
      destruct (nth_error fr x) as [w0|] eqn:E0; [|apply nth_error_None in E0; lia].
      rewrite (nth_set_nth_eq fr x v w0 E0) in Hw. inversion Hw; subst.
      eexists _, _. split; [reflexivity|]. eapply sub_has_type; eauto.
    + rewrite nth_set_nth_neq in Hw by auto. rewrite Same in Hc by auto. eauto.
  - intros y Ne. apply nth_set_nth_neq. auto.
Qed.

End Dyn.

Lemma types_ok_ctx0 ds fr :
  Forall2 (fun v t => has_type v t = true) fr ds -> types_ok (ctx0 ds) fr.
Proof.
  intros F. split. { unfold ctx0. rewrite map_length. induction F; simpl; auto. }
  intros x ch v Hc Hv. unfold ctx0 in Hc. rewrite nth_error_map in Hc.
  destruct (nth_error ds x) as [d|] eqn:Hd; [|discriminate]. inversion Hc; subst.
  eexists _, _. split; [reflexivity|].
  clear Hc. revert x Hv Hd. induction F as [|v0 t0 fr0 ds0 Hvt F IHF]; intros [|n] Hv Hd; simpl in *; try discriminate.
  - inversion Hv; inversion Hd; subst. auto.
  - eauto.
Qed.

Lemma types_ok_decl ds N G fr : ctx_ok ds N G -> types_ok G fr -> types_ok (ctx0 ds) fr.
Proof.
  intros [L Hok] [Lf H]. split. { unfold ctx0. rewrite map_length. congruence. }
  intros x ch v Hc Hv. unfold ctx0 in Hc. rewrite nth_error_map in Hc.
  destruct (nth_error ds x) as [d|] eqn:Hd; [|discriminate]. inversion Hc; subst.
  eexists _, _. split; [reflexivity|].
  destruct (nth_some_of_len ds G x _ (eq_sym L) Hd) as [c Hg].
  destruct (H x c v Hg Hv) as (t & r & -> & Ht). destruct (Hok x d _ Hd Hg) as [Hch _].
  eapply sub_has_type; [eapply chain_ok_hd; eauto|auto].
Qed.

Lemma chk_args_sound G fr args : types_ok G fr -> forall ps,
  chk_args G args ps = true ->
  exists vs, eval_args fr args = Some vs /\ Forall2 (fun v t => has_type v t = true) vs ps.
Proof.
  intros T. induction args as [|a r IH]; intros [|p ps] C; simpl in C; try discriminate.
  - exists []. split; auto.
  - destruct (chkE G a) as [t|] eqn:Ca; [|discriminate]. apply andb_prop in C. destruct C as [S C].
    destruct (chkE_sound G fr a T t Ca) as (v & Ev & Hv). destruct (IH ps C) as (vs & Evs & F).
    simpl. rewrite Ev, Evs. eexists. split; [reflexivity|]. constructor; auto.
    eapply sub_has_type; eauto.
Qed.

(* ---------------------------------------------------------------- the main lemma *)

Definition subset (a b : list nat) : Prop := forall x, In x a -> In x b.

(* what [wt] and the guard give for one method *)
Record meth_ok (ms : list msig) (m : meth) : Prop := {
  mo_locals : Forall (fun d => has_type (snd d) (fst d) = true) (m_locals m);
  mo_clos : forall k b, nth_error (m_clos m) k = Some b ->
      (exists G', chk ms k (ctx0 (m_decls m)) b = Some G') /\
      (forall x, In x (assigned b) -> ~ In x (m_subjects m)) /\
      loops_ok (m_subjects m) b = true /\ subset (subjects b) (m_subjects m);
  mo_body : exists G1 t, chk ms (length (m_clos m)) (ctx0 (m_decls m)) (m_body m) = Some G1 /\
      chkE G1 (m_ret m) = Some t /\ sub t (m_rty m) = true;
  mo_loops : loops_ok (m_subjects m) (m_body m) = true;
  mo_subj : subset (subjects (m_body m)) (m_subjects m)
}.

Section Main.
Variable p : prog.
Let ms := map sig_of p.
Hypothesis Hp : forall g m, nth_error p g = Some m -> meth_ok ms m.

Definition post (N : list nat) (s : stmt) (G' : ctx) (fr : list val) (r : result) : Prop :=
  match r with
  | RCrash => False
  | RFuel => True
  | ROk fr' _ => types_ok G' fr' /\
                 (forall x, In x N -> ~ In x (assigned s) -> nth_error fr' x = nth_error fr x)
  end.

Lemma exec_sound : forall fuel m s nclo G G' fr out,
  meth_ok ms m -> nclo <= length (m_clos m) ->
  ctx_ok (m_decls m) (m_subjects m) G -> subset (subjects s) (m_subjects m) ->
  loops_ok (m_subjects m) s = true ->
  chk ms nclo G s = Some G' -> types_ok G fr ->
  post (m_subjects m) s G' fr (exec fuel p (m_clos m) s fr out).
Proof.
  induction fuel as [|f IH]; intros m s nclo G G' fr out Hm Hn Hok Hsub Hloop C T; [exact I|].
  set (ds := m_decls m) in *. set (N := m_subjects m) in *.
  destruct s as [|x e|s1 s2|c s1 s2|c s1|e|k|x g args]; simpl in C; simpl exec.
  - (* skip *) inversion C; subst. split; auto.
  - (* assign *)
    destruct (chkE G e) as [te|] eqn:Ce; [|discriminate].
    destruct (chkE_sound G fr e T te Ce) as (v & -> & Hv).
    destruct (assign_sound ds N G x te G' fr v Hok C T Hv) as (fr' & -> & T' & Same).
    split; auto. intros y _ Hy. apply Same. intros ->. apply Hy. simpl. auto.
  - (* seq *)
    destruct (chk ms nclo G s1) as [G1|] eqn:C1; [|discriminate].
    simpl in Hloop. apply andb_prop in Hloop. destruct Hloop as [Hl1 Hl2].
    assert (subset (subjects s1) N) as Hs1 by (intros y Hy; apply Hsub; simpl; apply in_or_app; auto).
    assert (subset (subjects s2) N) as Hs2 by (intros y Hy; apply Hsub; simpl; apply in_or_app; auto).
    pose proof (IH m s1 nclo G G1 fr out Hm Hn Hok Hs1 Hl1 C1 T) as P1.
    destruct (exec f p (m_clos m) s1 fr out) as [fr1 out1| |]; simpl in P1; auto.
    destruct P1 as [T1 F1].
    destruct (chk_static ds N ms s1 nclo G G1 Hok Hs1 C1) as (Hok1 & _ & _).
    pose proof (IH m s2 nclo G1 G' fr1 out1 Hm Hn Hok1 Hs2 Hl2 C T1) as P2.
    destruct (exec f p (m_clos m) s2 fr1 out1) as [fr2 out2| |]; simpl in P2; auto.
    destruct P2 as [T2 F2]. split; auto.
    intros y Hy Hny. simpl in Hny. rewrite F2, F1; auto; intros Hi; apply Hny, in_or_app; auto.
  - (* if *)
    destruct (chkC G c) eqn:Cc; [|discriminate].
    destruct (chk ms nclo (narrow G c true) s1) as [G1|] eqn:C1; [|discriminate].
    destruct (chk ms nclo (narrow (pop G1) c false) s2) as [G2|] eqn:C2; [|discriminate].
    inversion C; subst G'. clear C.
    simpl in Hloop. apply andb_prop in Hloop. destruct Hloop as [Hl1 Hl2].
    assert (subset (cond_subject c) N) as Hsc by (intros y Hy; apply Hsub; simpl; apply in_or_app; auto).
    assert (subset (subjects s1) N) as Hs1
      by (intros y Hy; apply Hsub; simpl; apply in_or_app; right; apply in_or_app; auto).
    assert (subset (subjects s2) N) as Hs2
      by (intros y Hy; apply Hsub; simpl; apply in_or_app; right; apply in_or_app; auto).
    pose proof (narrow_ok ds N G c true Hok Hsc) as Hokn1.
    destruct (chk_static ds N ms s1 nclo _ G1 Hokn1 Hs1 C1) as (A1 & B1 & S1).
    destruct (scope ds N G c true G1 (assigned s1) Hok A1 B1 S1) as (Pa & Pb & Pc).
    pose proof (narrow_ok ds N (pop G1) c false Pa Hsc) as Hokn2.
    destruct (chk_static ds N ms s2 nclo _ G2 Hokn2 Hs2 C2) as (A2 & B2 & S2).
    destruct (scope ds N (pop G1) c false G2 (assigned s2) Pa A2 B2 S2) as (Qa & Qb & Qc).
    destruct (chkC_sound G fr c T Cc) as [b Eb]. rewrite Eb. destruct b.
    + pose proof (IH m s1 nclo _ G1 fr out Hm Hn Hokn1 Hs1 Hl1 C1 (narrow_sound G fr c true T Eb)) as P1.
      destruct (exec f p (m_clos m) s1 fr out) as [fr1 out1| |]; simpl in P1; auto.
      destruct P1 as [T1 F1]. split.
      * eapply types_ok_le; [exact Qb|]. eapply types_ok_pop; eauto.
      * intros y Hy Hny. apply F1; auto. intros Hi. apply Hny. simpl. apply in_or_app; auto.
    + assert (types_ok (pop G1) fr) as Tp by (eapply types_ok_le; eauto).
      pose proof (IH m s2 nclo _ G2 fr out Hm Hn Hokn2 Hs2 Hl2 C2 (narrow_sound _ fr c false Tp Eb)) as P2.
      destruct (exec f p (m_clos m) s2 fr out) as [fr2 out2| |]; simpl in P2; auto.
      destruct P2 as [T2 F2]. split.
      * eapply types_ok_pop; eauto.
      * intros y Hy Hny. apply F2; auto. intros Hi. apply Hny. simpl. apply in_or_app; auto.
  - (* while *)
    destruct (chkC G c) eqn:Cc; [|discriminate].
    destruct (chk ms nclo (narrow G c true) s1) as [G1|] eqn:C1; [|discriminate].
    inversion C; subst G'. clear C.
    assert (chk ms nclo G (SWhile c s1) = Some (pop G1)) as Cw by (simpl; rewrite Cc, C1; reflexivity).
    pose proof Hloop as Hloopw.
    simpl in Hloop. apply andb_prop in Hloop. destruct Hloop as [Hd Hl1].
    assert (subset (cond_subject c) N) as Hsc by (intros y Hy; apply Hsub; simpl; apply in_or_app; auto).
    assert (subset (subjects s1) N) as Hs1 by (intros y Hy; apply Hsub; simpl; apply in_or_app; auto).
    pose proof (narrow_ok ds N G c true Hok Hsc) as Hokn1.
    destruct (chk_static ds N ms s1 nclo _ G1 Hokn1 Hs1 C1) as (A1 & B1 & S1).
    destruct (scope ds N G c true G1 (assigned s1) Hok A1 B1 S1) as (Pa & Pb & Pc).
    destruct (chkC_sound G fr c T Cc) as [b Eb]. rewrite Eb. destruct b.
    + pose proof (IH m s1 nclo _ G1 fr out Hm Hn Hokn1 Hs1 Hl1 C1 (narrow_sound G fr c true T Eb)) as P1.
      destruct (exec f p (m_clos m) s1 fr out) as [fr1 out1| |]; simpl in P1; auto.
      destruct P1 as [T1 F1].
      assert (types_ok G fr1) as Tg.
      { eapply (reestablish ds N G G1 fr fr1); eauto. intros y Hy. apply F1; auto.
        intros Hi. eapply disjointb_spec; eauto. }
      pose proof (IH m (SWhile c s1) nclo G (pop G1) fr1 out1 Hm Hn Hok Hsub Hloopw Cw Tg) as P2.
      destruct (exec f p (m_clos m) (SWhile c s1) fr1 out1) as [fr2 out2| |]; simpl in P2; auto.
      destruct P2 as [T2 F2]. split; auto.
      intros y Hy Hny. simpl in *. rewrite F2, F1; auto.
    + split; auto. eapply types_ok_le; eauto.
  - (* print *)
    destruct (chkE G e) as [te|] eqn:Ce; [|discriminate]. inversion C; subst G'.
    destruct (chkE_sound G fr e T te Ce) as (v & -> & Hv). split; auto.
  - (* closure call *)
    destruct (Nat.ltb k nclo) eqn:Hk; [|discriminate]. inversion C; subst G'. clear C.
    apply Nat.ltb_lt in Hk.
    destruct (nth_error (m_clos m) k) as [b|] eqn:Eb; [|apply nth_error_None in Eb; lia].
    destruct (mo_clos ms m Hm k b Eb) as ((Gb & Cb) & Hasg & Hlb & Hsb).
    assert (k <= length (m_clos m)) as Hk' by lia.
    pose proof (IH m b k (ctx0 ds) Gb fr out Hm Hk' (ctx0_ok ds N) Hsb Hlb Cb
                   (types_ok_decl ds N G fr Hok T)) as P1.
    destruct (exec f p (m_clos m) b fr out) as [fr1 out1| |]; simpl in P1; auto.
    destruct P1 as [T1 F1].
    destruct (chk_static ds N ms b k _ Gb (ctx0_ok ds N) Hsb Cb) as (A1 & _ & _).
    split.
    + eapply (reestablish ds N G Gb fr fr1); eauto. intros y Hy. apply F1; auto.
      intros Hi. eapply Hasg; eauto.
    + intros y Hy _. apply F1; auto. intros Hi. eapply Hasg; eauto.
  - (* method call *)
    destruct (nth_error ms g) as [[ps rt]|] eqn:Eg; [|discriminate].
    destruct (chk_args G args ps) eqn:Ca; [|discriminate].
    unfold ms in Eg. rewrite nth_error_map in Eg.
    destruct (nth_error p g) as [m'|] eqn:Em; [|discriminate]. simpl in Eg. inversion Eg; subst ps rt.
    destruct (chk_args_sound G fr args T _ Ca) as (vs & -> & Fv).
    pose proof (Hp g m' Em) as Hm'.
    destruct (mo_body ms m' Hm') as (G1 & t & Cb & Cr & Sr).
    assert (types_ok (ctx0 (m_decls m')) (vs ++ map snd (m_locals m'))) as T0.
    { apply types_ok_ctx0. unfold m_decls. apply Forall2_app; auto.
      pose proof (mo_locals ms m' Hm') as Fl. induction Fl; simpl; constructor; auto. }
    pose proof (IH m' (m_body m') (length (m_clos m')) _ G1 _ out Hm' (le_n _)
                   (ctx0_ok (m_decls m') (m_subjects m')) (mo_subj ms m' Hm') (mo_loops ms m' Hm') Cb T0) as P1.
    destruct (exec f p (m_clos m') (m_body m') (vs ++ map snd (m_locals m')) out) as [fr1 out1| |];
      simpl in P1; auto.
    destruct P1 as [T1 _].
    destruct (chkE_sound G1 fr1 (m_ret m') T1 t Cr) as (v & -> & Hv).
    assert (has_type v (m_rty m') = true) as Hv' by (eapply sub_has_type; eauto).
    destruct (assign_sound ds N G x _ G' fr v Hok C T Hv') as (fr' & -> & T' & Same).
    split; auto. intros y _ Hy. apply Same. intros ->. apply Hy. simpl. auto.
Qed.

End Main.
