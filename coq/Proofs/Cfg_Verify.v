(* Proofs/Cfg_Verify.v — soundness of the structural validator of Base/Cfg.v. *)
From Coq Require Import NArith ZArith List Bool Lia ZifyBool ZifyNat ZifyN.
From Elk Require Import Base.Cfg.
Import ListNotations.
Open Scope N_scope.

(* ---------- contiguity ---------- *)
Lemma contig_bounds : forall l o e i,
  contig l o e = true -> In i l -> o <= i_off i /\ nxt i <= e /\ 0 < i_size i.
Proof.
  induction l as [|a r IH]; intros o e i Hc Hin; [inversion Hin|].
  cbn [contig] in Hc. apply andb_prop in Hc as [Hc Hr]. apply andb_prop in Hc as [Ho Hs].
  apply N.eqb_eq in Ho. apply N.ltb_lt in Hs.
  assert (Hend : o + i_size a <= e).
  { clear IH Hin. revert Hr. generalize (o + i_size a). clear.
    induction r as [|b r IH]; intros s Hr; cbn [contig] in Hr.
    - apply N.eqb_eq in Hr. lia.
    - apply andb_prop in Hr as [Hr1 Hr2]. apply andb_prop in Hr1 as [_ Hs].
      apply N.ltb_lt in Hs. specialize (IH _ Hr2). lia. }
  destruct Hin as [->|Hin].
  - unfold nxt. lia.
  - destruct (IH _ _ _ Hr Hin) as (H1 & H2 & H3). lia.
Qed.

Lemma contig_unique : forall l o e i j,
  contig l o e = true -> In i l -> In j l -> i_off i = i_off j -> i = j.
Proof.
  induction l as [|a r IH]; intros o e i j Hc Hi Hj Heq; [inversion Hi|].
  pose proof Hc as Hc0.
  cbn [contig] in Hc. apply andb_prop in Hc as [Hc Hr]. apply andb_prop in Hc as [Ho Hs].
  apply N.eqb_eq in Ho. apply N.ltb_lt in Hs.
  destruct Hi as [->|Hi], Hj as [->|Hj]; auto.
  - destruct (contig_bounds _ _ _ _ Hr Hj) as (H1 & _ & _). lia.
  - destruct (contig_bounds _ _ _ _ Hr Hi) as (H1 & _ & _). lia.
  - eapply IH; eauto.
Qed.

Lemma instr_at_some : forall f o i,
  instr_at f o = Some i -> In i (f_instrs f) /\ i_off i = o.
Proof.
  unfold instr_at. intros f o i H. apply find_some in H as [Hin He].
  apply N.eqb_eq in He. auto.
Qed.

Lemma is_start_instr : forall f o, is_start f o = true -> exists i, instr_at f o = Some i.
Proof. unfold is_start. intros f o H. destruct (instr_at f o); [eauto|discriminate]. Qed.

(* ---------- paths ---------- *)
(* reach f n o: offset o is reached from the entry (offset 0) by n control-flow steps; a step
   follows any ordinary successor or any exception/finally handler edge (succs). *)
Inductive reach (f : func) : nat -> N -> Prop :=
  | reach0 : reach f 0 0
  | reachS : forall n a i b,
      reach f n a -> instr_at f a = Some i -> In b (succs f i) -> reach f (S n) b.

Definition idx_okP (f : func) (rv : role * N) : Prop := idx_ok f rv = true.

(* what holds at every reached offset *)
Definition good_at (f : func) (o : N) : Prop :=
  exists i,
    instr_at f o = Some i /\ In i (f_instrs f) /\ i_off i = o /\
    0 < i_size i /\ nxt i <= f_len f /\
    Forall (idx_okP f) (i_idx i) /\
    (forall t, In t (succs f i) -> is_start f t = true) /\
    (forall j, In j (f_instrs f) -> i_off j = o -> j = i).

Lemma verify_parts : forall f, verify f = true ->
  nonempty (f_instrs f) = true /\ contig (f_instrs f) 0 (f_len f) = true /\
  forallb (instr_ok f) (f_instrs f) = true /\ forallb (catch_ok f) (f_catches f) = true.
Proof.
  unfold verify. intros f H.
  apply andb_prop in H as [H H4]. apply andb_prop in H as [H H3]. apply andb_prop in H as [H1 H2].
  auto.
Qed.

Lemma good_of_start : forall f o,
  verify f = true -> is_start f o = true -> good_at f o.
Proof.
  intros f o Hv Hs. destruct (verify_parts _ Hv) as (_ & Hc & Hi & _).
  destruct (is_start_instr _ _ Hs) as [i Hat].
  destruct (instr_at_some _ _ _ Hat) as [Hin Hoff].
  destruct (contig_bounds _ _ _ _ Hc Hin) as (_ & Hnx & Hsz).
  rewrite forallb_forall in Hi. specialize (Hi _ Hin). unfold instr_ok in Hi.
  apply andb_prop in Hi as [Hsu Hix].
  exists i. repeat split; auto.
  - apply Forall_forall. rewrite forallb_forall in Hix. exact Hix.
  - rewrite forallb_forall in Hsu. exact Hsu.
  - intros j Hj Hjo. eapply contig_unique; eauto. congruence.
Qed.

Lemma entry_is_start : forall f, verify f = true -> is_start f 0 = true.
Proof.
  intros f Hv. destruct (verify_parts _ Hv) as (Hne & Hc & _ & _).
  unfold is_start, instr_at. destruct (f_instrs f) as [|a r]; [discriminate|].
  cbn [contig] in Hc. apply andb_prop in Hc as [Hc _]. apply andb_prop in Hc as [Ho _].
  cbn [find]. rewrite Ho. reflexivity.
Qed.

Theorem verify_sound : forall f, verify f = true -> forall n o, reach f n o -> good_at f o.
Proof.
  intros f Hv n o Hr. induction Hr as [|n a i b Hr IH Hat Hin].
  - apply good_of_start; auto. apply entry_is_start; auto.
  - destruct IH as (i' & Hat' & _ & _ & _ & _ & _ & Hsu & _).
    rewrite Hat in Hat'. injection Hat' as <-.
    apply good_of_start; auto.
Qed.

(* every catch entry of a verified function is on instruction boundaries (or covers nothing) *)
Lemma verify_catches : forall f c, verify f = true -> In c (f_catches f) ->
  (0 <= c_jump c)%Z /\ is_start f (Z.to_N (c_jump c)) = true /\
  ((c_to c <= c_from c)%Z \/ (bound_ok f (c_from c) = true /\ bound_ok f (c_to c) = true)).
Proof.
  intros f c Hv Hin. destruct (verify_parts _ Hv) as (_ & _ & _ & Hc).
  rewrite forallb_forall in Hc. specialize (Hc _ Hin). unfold catch_ok in Hc.
  apply andb_prop in Hc as [Hc H3]. apply andb_prop in Hc as [H1 H2].
  split; [lia|]. split; [exact H2|].
  apply orb_prop in H3 as [H3|H3]; [left; lia|right].
  apply andb_prop in H3. exact H3.
Qed.

(* ---------- pool kinds ---------- *)
(* the kind of pool entry the VM casts the operand to (unchecked pointer cast), per role *)
Definition pool_role (r : role) : bool :=
  match r with RVal | RSym | RCall | RCallBC | RCallNT => true | _ => false end.

Definition kind_required (r : role) (k : vkind) : Prop :=
  match r with
  | RSym => k = VSym
  | RCall => k = VCall
  | RCallBC => k = VCallBC
  | RCallNT => k = VCallNT
  | _ => True
  end.

Lemma idx_ok_kind : forall f r v, idx_ok f (r, v) = true -> pool_role r = true ->
  exists k, nth_error (f_vals f) (N.to_nat v) = Some k /\ kind_required r k.
Proof.
  intros f r v H Hp. unfold idx_ok, vkind_is in H.
  destruct r; try discriminate Hp;
    (destruct (nth_error (f_vals f) (N.to_nat v)) as [k|]; [|discriminate H]);
    exists k; (split; [reflexivity|]); cbn [kind_required]; auto;
    destruct k; try discriminate H; reflexivity.
Qed.

(* at every offset reached by any path, every pool operand of the instruction names an existing
   pool entry of exactly the kind its opcode makes the VM assume *)
Theorem verify_kinds_sound : forall f, verify f = true -> forall n o, reach f n o ->
  exists i, instr_at f o = Some i /\
    forall r v, In (r, v) (i_idx i) -> pool_role r = true ->
      exists k, nth_error (f_vals f) (N.to_nat v) = Some k /\ kind_required r k.
Proof.
  intros f Hv n o Hr. destruct (verify_sound f Hv n o Hr) as (i & Hat & _ & _ & _ & _ & Hix & _).
  exists i. split; [exact Hat|]. intros r v Hin Hp.
  rewrite Forall_forall in Hix. specialize (Hix _ Hin). apply idx_ok_kind; auto.
Qed.
