(* C13 — the open-upvalue list invariant (all traces, unbounded) and the bounded
   refinement check of the implementation machine against the store-semantics spec. *)
From Coq Require Import ZArith List Lia Bool ZifyBool ZifyNat PeanoNat.
From Elk Require Import Base.GoSem Model.C10_Stack Proofs.C10_Stack.
Import ListNotations.
Open Scope Z_scope.

(* strictly descending by slot address (hence duplicate-free) *)
Fixpoint sdesc (h : nat -> ucell) (l : list nat) : Prop :=
  match l with
  | [] => True
  | u :: r => (forall v, In v r -> addr_of (h v) < addr_of (h u)) /\ sdesc h r
  end.

Record OInv (s : st) : Prop := mkOInv {
  oi_sp : aligned (base s) (sp s);
  oi_fp : aligned (base s) (fp s);
  oi_frames : Forall (aligned (base s)) (frames s);
  oi_sorted : sdesc (heap s) (opens s);
  oi_members : forall u, In u (opens s) ->
      (u < nheap s)%nat /\ exists k, heap s u = UOpen (base s + W * k);
  oi_all : forall u a, (u < nheap s)%nat -> heap s u = UOpen a -> In u (opens s)
}.

Lemma sdesc_mono h h' l :
  (forall u v, In u l -> In v l -> addr_of (h v) < addr_of (h u) -> addr_of (h' v) < addr_of (h' u)) ->
  sdesc h l -> sdesc h' l.
Proof.
  induction l as [|x r IH]; intros M S; [exact I|].
  destruct S as [S1 S2]. split.
  - intros v Hv. apply M; [left; reflexivity | right; exact Hv | apply S1; exact Hv].
  - apply IH; [|exact S2]. intros u v Hu Hv. apply M; right; assumption.
Qed.

Lemma sdesc_ext h h' l : (forall u, In u l -> h' u = h u) -> sdesc h l -> sdesc h' l.
Proof.
  intros E. apply sdesc_mono. intros u v Hu Hv. rewrite (E u Hu), (E v Hv). exact (fun x => x).
Qed.

Lemma sdesc_notin h x r : sdesc h (x :: r) -> ~ In x r.
Proof. intros [S _] Hin. specialize (S x Hin). lia. Qed.

Lemma sdesc_nodup h l : sdesc h l -> NoDup l.
Proof.
  induction l as [|x r IH]; intros S; constructor.
  - eapply sdesc_notin; exact S.
  - apply IH. exact (proj2 S).
Qed.

(* ---- captureUpvalue ---- *)
Lemma cap_ins_spec h slot n : forall l l' id,
  sdesc h l -> (forall u, In u l -> u <> n /\ exists a, h u = UOpen a) ->
  cap_ins h slot n l = (l', id) ->
  (id <> n /\ l' = l /\ In id l /\ h id = UOpen slot) \/
  (id = n /\ sdesc (upd h n (UOpen slot)) l' /\ (forall u, In u l' <-> u = n \/ In u l)).
Proof.
  induction l as [|x r IH]; intros l' id S M E.
  - cbn in E. inversion E; subst. right. split; [reflexivity|]. split.
    + cbn. split; [intros v []|exact I].
    + intros u. cbn. intuition congruence.
  - cbn [cap_ins] in E.
    destruct (M x (or_introl eq_refl)) as [Hxn [ax Hx]].
    destruct S as [S1 S2].
    assert (Mr : forall u, In u r -> u <> n /\ exists a, h u = UOpen a) by (intros u Hu; apply M; right; exact Hu).
    assert (Eh : forall u, In u (x :: r) -> upd h n (UOpen slot) u = h u).
    { intros u Hu. unfold upd. destruct (Nat.eqb_spec u n) as [->|_]; [destruct (M n Hu) as [C _]; congruence|reflexivity]. }
    destruct (addr_of (h x) <=? slot) eqn:C1.
    + destruct (addr_of (h x) =? slot) eqn:C2.
      * inversion E; subst. left. split; [exact Hxn|]. split; [reflexivity|]. split; [left; reflexivity|].
        rewrite Hx in C2 |- *. cbn in C2. f_equal. lia.
      * inversion E; subst. right. split; [reflexivity|]. split.
        -- split.
           ++ intros v Hv. rewrite (Eh v Hv). unfold upd. rewrite Nat.eqb_refl. cbn [addr_of].
              destruct Hv as [<-|Hv]; [lia|]. specialize (S1 v Hv). lia.
           ++ apply (sdesc_ext h); [exact Eh|]. split; assumption.
        -- intros u. cbn. intuition congruence.
    + destruct (cap_ins h slot n r) as [r' id'] eqn:Er. inversion E; subst.
      destruct (IH r' id S2 Mr eq_refl) as [[A [B [C D]]]|[A [B C]]].
      * left. subst r'. split; [exact A|]. split; [reflexivity|]. split; [right; exact C|exact D].
      * right. split; [exact A|]. split.
        -- cbn [sdesc]. split; [|exact B].
           intros v Hv. rewrite (Eh x (or_introl eq_refl)).
           apply C in Hv. destruct Hv as [->|Hv].
           ++ unfold upd. rewrite Nat.eqb_refl. cbn [addr_of]. lia.
           ++ rewrite (Eh v (or_intror Hv)). apply S1. exact Hv.
        -- intros u. cbn. rewrite C. intuition congruence.
Qed.

(* ---- opCloseUpvalues ---- *)
Lemma close_to_spec last m : forall l h h' l',
  sdesc h l -> (forall u, In u l -> exists a, h u = UOpen a) ->
  close_to last m h l = (h', l') ->
  sdesc h' l' /\ (forall u, In u l' -> In u l /\ h' u = h u) /\
  (forall u, ~ In u l -> h' u = h u) /\
  (forall u, In u l -> ~ In u l' -> exists v, h' u = UClosed v).
Proof.
  induction l as [|x r IH]; intros h h' l' S M E.
  - cbn in E. inversion E; subst. split; [exact I|]. split; [intros u []|]. split; [reflexivity|]. intros u [].
  - cbn [close_to] in E. destruct (addr_of (h x) <? last) eqn:C.
    + inversion E; subst. split; [exact S|]. split; [intros u Hu; split; [exact Hu|reflexivity]|].
      split; [reflexivity|]. intros u Hu Hn. contradiction.
    + pose proof (sdesc_notin _ _ _ S) as Hnin.
      destruct S as [S1 S2].
      set (h2 := upd h x (close_cell m (h x))) in *.
      assert (Eh : forall u, In u r -> h2 u = h u).
      { intros u Hu. unfold h2, upd. destruct (Nat.eqb_spec u x) as [->|_]; [contradiction|reflexivity]. }
      assert (S2' : sdesc h2 r) by (apply (sdesc_ext h); assumption).
      assert (M' : forall u, In u r -> exists a, h2 u = UOpen a).
      { intros u Hu. rewrite (Eh u Hu). apply M. right. exact Hu. }
      destruct (IH h2 h' l' S2' M' E) as [A [B [C' D]]].
      split; [exact A|]. split; [|split].
      * intros u Hu. destruct (B u Hu) as [B1 B2]. split; [right; exact B1|]. rewrite B2. apply Eh. exact B1.
      * intros u Hu. rewrite C' by (intro; apply Hu; right; assumption).
        unfold h2, upd. destruct (Nat.eqb_spec u x) as [->|_]; [exfalso; apply Hu; left; reflexivity|reflexivity].
      * intros u [<-|Hu] Hn.
        -- rewrite C' by exact Hnin. unfold h2, upd. rewrite Nat.eqb_refl.
           destruct (M x (or_introl eq_refl)) as [a ->]. cbn. eexists. reflexivity.
        -- apply D; assumption.
Qed.

Lemma close_to_oinv last m b l h h' l' (n : nat) :
  sdesc h l ->
  (forall u, In u l -> (u < n)%nat /\ exists k, h u = UOpen (b + W * k)) ->
  (forall u a, (u < n)%nat -> h u = UOpen a -> In u l) ->
  close_to last m h l = (h', l') ->
  sdesc h' l' /\
  (forall u, In u l' -> (u < n)%nat /\ exists k, h' u = UOpen (b + W * k)) /\
  (forall u a, (u < n)%nat -> h' u = UOpen a -> In u l').
Proof.
  intros S M A E.
  assert (M0 : forall u, In u l -> exists a, h u = UOpen a).
  { intros u Hu. destruct (M u Hu) as [_ [k Hk]]. eexists. exact Hk. }
  destruct (close_to_spec last m l h h' l' S M0 E) as [P1 [P2 [P3 P4]]].
  split; [exact P1|]. split.
  - intros u Hu. destruct (P2 u Hu) as [Q1 Q2]. rewrite Q2. apply M. exact Q1.
  - intros u a Hu Ha.
    destruct (in_dec Nat.eq_dec u l) as [Hin|Hnin].
    + destruct (in_dec Nat.eq_dec u l') as [Hin'|Hnin']; [exact Hin'|].
      destruct (P4 u Hin Hnin') as [v Hv]. congruence.
    + exfalso. apply Hnin. apply (A u a Hu). rewrite <- P3 by exact Hnin. exact Ha.
Qed.

Lemma aligned_add b a k : aligned b a -> aligned b (a + W * k).
Proof. intros [j ->]. exists (j + k). lia. Qed.

Lemma aligned_sub b a k : aligned b a -> aligned b (a - W * k).
Proof. intros [j ->]. exists (j - k). lia. Qed.

(* every operation of the machine preserves the invariant (no guard needed) *)
Lemma step_oinv s o : OInv s -> OInv (step s o).
Proof.
  intros [Hsp Hfp Hfr Hso Hme Hall].
  destruct s as [b c m p f fr ol h n hd k ou].
  cbn [base cap mem sp fp frames opens heap nheap handles nh out] in *.
  destruct o as [v| |i|i v|i|x|x v|i|a| |nb|i|a lc|a lc|].
  - (* push *) constructor; cbn -[Z.mul Z.add Z.sub]; auto. replace (p + W) with (p + W * 1) by lia. apply aligned_add; assumption.
  - (* pop *) constructor; cbn -[Z.mul Z.add Z.sub]; auto. replace (p - W) with (p - W * 1) by lia. apply aligned_sub; assumption.
  - constructor; cbn -[Z.mul Z.add Z.sub]; auto.
  - constructor; cbn -[Z.mul Z.add Z.sub]; auto.
  - (* capture *)
    cbn [step]. destruct (cap_ins h (f + W * i) n ol) as [ol' id] eqn:E.
    assert (M0 : forall u, In u ol -> u <> n /\ exists a, h u = UOpen a).
    { intros u Hu. destruct (Hme u Hu) as [Hlt [j Hj]]. split; [lia|eexists; exact Hj]. }
    destruct (cap_ins_spec h (f + W * i) n ol ol' id Hso M0 E) as [[A [B [C D]]]|[A [B C]]].
    + apply Nat.eqb_neq in A. rewrite A. subst ol'. constructor; cbn -[Z.mul Z.add Z.sub]; auto.
    + subst id. rewrite Nat.eqb_refl. constructor; cbn -[Z.mul Z.add Z.sub]; auto.
      * intros u Hu. apply C in Hu. destruct Hu as [->|Hu].
        -- split; [lia|]. unfold upd. rewrite Nat.eqb_refl.
           destruct Hfp as [j ->]. exists (j + i). f_equal. unfold W. lia.
        -- destruct (Hme u Hu) as [Hlt [j Hj]]. split; [lia|]. exists j.
           unfold upd. destruct (Nat.eqb_spec u n) as [->|_]; [lia|exact Hj].
      * intros u a Hu Ha. apply C. unfold upd in Ha.
        destruct (Nat.eqb_spec u n) as [->|Hne]; [left; reflexivity|].
        right. apply (Hall u a); [lia|exact Ha].
  - constructor; cbn -[Z.mul Z.add Z.sub]; auto.
  - (* set upvalue *)
    cbn [step]. destruct (h (hd x)) as [a|v0] eqn:E.
    + constructor; cbn -[Z.mul Z.add Z.sub]; auto.
    + assert (Eh : forall u, In u ol -> upd h (hd x) (UClosed v) u = h u).
      { intros u Hu. unfold upd. destruct (Nat.eqb_spec u (hd x)) as [->|_]; [|reflexivity].
        destruct (Hme _ Hu) as [_ [j Hj]]. congruence. }
      constructor; cbn -[Z.mul Z.add Z.sub]; auto.
      * apply (sdesc_ext h); assumption.
      * intros u Hu. rewrite (Eh u Hu). apply Hme. exact Hu.
      * intros u a Hu Ha. unfold upd in Ha. destruct (Nat.eqb_spec u (hd x)) as [->|_]; [discriminate|].
        apply (Hall u a); assumption.
  - (* close *)
    cbn [step]. destruct (close_to (f + W * i) m h ol) as [h' ol'] eqn:E.
    destruct (close_to_oinv _ _ b _ _ _ _ n Hso Hme Hall E) as [A [B C]].
    constructor; cbn -[Z.mul Z.add Z.sub]; auto.
  - (* call *)
    constructor; cbn -[Z.mul Z.add Z.sub]; auto. apply aligned_sub; assumption.
  - (* return *)
    cbn [step]. destruct (close_to f m h ol) as [h' ol'] eqn:E.
    destruct (close_to_oinv _ _ b _ _ _ _ n Hso Hme Hall E) as [A [B C]].
    constructor; cbn -[Z.mul Z.add Z.sub]; auto.
    + replace (f + W) with (f + W * 1) by lia. apply aligned_add; assumption.
    + destruct fr as [|g fr']; cbn; [assumption|]. inversion Hfr; assumption.
    + destruct fr as [|g fr']; cbn; [constructor|]. inversion Hfr; assumption.
  - (* grow *)
    cbn [step]. unfold grow. cbn [base cap mem sp fp frames opens heap nheap handles nh out].
    pose proof (sdesc_nodup _ _ Hso) as ND.
    assert (Hh : forall u, fold_left (fun h0 u0 => upd h0 u0 (rebase_cell off_from_to b nb (h0 u0))) ol h u =
                           if in_dec Nat.eq_dec u ol then rebase_cell off_from_to b nb (h u) else h u).
    { intros u. apply (fold_upd_char (rebase_cell off_from_to b nb)). exact ND. }
    assert (Hin : forall u, In u ol -> exists j, h u = UOpen (b + W * j) /\
              fold_left (fun h0 u0 => upd h0 u0 (rebase_cell off_from_to b nb (h0 u0))) ol h u = UOpen (nb + W * j)).
    { intros u Hu. destruct (Hme u Hu) as [_ [j Hj]]. exists j. split; [exact Hj|].
      rewrite Hh. destruct (in_dec Nat.eq_dec u ol) as [_|C]; [|contradiction].
      rewrite Hj. cbn [rebase_cell]. rewrite off_from_to_slot. reflexivity. }
    constructor; cbn [base cap mem sp fp frames opens heap nheap handles nh out].
    + eexists. reflexivity.
    + eexists. reflexivity.
    + apply Forall_forall. intros a Ha. apply in_map_iff in Ha. destruct Ha as [a0 [<- _]]. eexists. reflexivity.
    + apply (sdesc_mono h); [|exact Hso]. intros u v Hu Hv.
      destruct (Hin u Hu) as [ju [Eu ->]]. destruct (Hin v Hv) as [jv [Ev ->]].
      rewrite Eu, Ev. cbn [addr_of]. unfold W. lia.
    + intros u Hu. destruct (Hin u Hu) as [j [_ ->]]. destruct (Hme u Hu) as [Hlt _]. split; [exact Hlt|].
      exists j. reflexivity.
    + intros u a Hu Ha. rewrite Hh in Ha.
      destruct (in_dec Nat.eq_dec u ol) as [I|I]; [exact I|]. apply (Hall u a); assumption.
  - (* new variable instance: the machine does nothing *)
    constructor; cbn -[Z.mul Z.add Z.sub]; auto.
  - (* tail call, fixed *)
    cbn [step]. destruct (close_to f m h ol) as [h' ol'] eqn:E.
    destruct (close_to_oinv _ _ b _ _ _ _ n Hso Hme Hall E) as [A [B C]].
    constructor; cbn -[Z.mul Z.add Z.sub]; auto. apply aligned_sub; assumption.
  - (* tail call, as found *)
    constructor; cbn -[Z.mul Z.add Z.sub]; auto. apply aligned_sub; assumption.
  - (* error unwinding of one frame *)
    cbn [step]. destruct (close_to f m h ol) as [h' ol'] eqn:E.
    destruct (close_to_oinv _ _ b _ _ _ _ n Hso Hme Hall E) as [A [B C]].
    constructor; cbn -[Z.mul Z.add Z.sub]; auto.
    + replace (f + W) with (f + W * 1) by lia. apply aligned_add; assumption.
    + destruct fr as [|g fr']; cbn; [assumption|]. inversion Hfr; assumption.
    + destruct fr as [|g fr']; cbn; [constructor|]. inversion Hfr; assumption.
Qed.

Lemma init_oinv b c : OInv (init_st b c).
Proof.
  constructor; cbn; try (exists 0; lia); auto.
  - intros u [].
  - intros u a Hu. lia.
Qed.

Lemma run_oinv : forall l s, OInv s -> OInv (run s l).
Proof.
  induction l as [|o r IH]; intros s H; [exact H|]. cbn. apply IH. apply step_oinv. exact H.
Qed.

(* what the invariant means for the program: one upvalue per slot, so two captures of the
   same live slot share it *)
Lemma oinv_one_per_slot s u v :
  OInv s -> In u (opens s) -> In v (opens s) -> addr_of (heap s u) = addr_of (heap s v) -> u = v.
Proof.
  intros [_ _ _ S _ _]. revert S. generalize (heap s) as h. generalize (opens s) as l.
  induction l as [|x r IH]; intros h S Hu Hv E; [destruct Hu|].
  destruct S as [S1 S2].
  destruct Hu as [->|Hu]; destruct Hv as [->|Hv]; auto.
  - specialize (S1 v Hv). lia.
  - specialize (S1 u Hu). lia.
  - apply (IH h); assumption.
Qed.

(* ---- bounded refinement: exhaustive over all traces up to a length over an alphabet.
   Superseded by the unbounded proof in Proofs/C13_Sim.v (Props no longer use it); kept with a small
   bound as an executable regression check of the model inside Coq. ---- *)
Fixpoint zlist_eqb (a b : list Z) : bool :=
  match a, b with
  | [], [] => true
  | x :: a', y :: b' => (x =? y) && zlist_eqb a' b'
  | _, _ => false
  end.

Lemma zlist_eqb_eq a : forall b, zlist_eqb a b = true -> a = b.
Proof.
  induction a as [|x a IH]; intros [|y b] H; cbn in H; try discriminate; [reflexivity|].
  apply andb_prop in H. destruct H as [H1 H2]. apply Z.eqb_eq in H1. subst. f_equal. apply IH. exact H2.
Qed.

Fixpoint sim_check (alpha : list op) (n : nat) (s : st) (t : sst) : bool :=
  zlist_eqb (out s) (sout t) &&
  match n with
  | O => true
  | S n' => forallb (fun o => if ok t o && fits s o then sim_check alpha n' (step s o) (sstep t o) else true) alpha
  end.

Lemma sim_check_sound alpha : forall n s t, sim_check alpha n s t = true ->
  forall l, (length l <= n)%nat -> Forall (fun o => In o alpha) l ->
  D t l = true -> fits_run s l = true -> out (run s l) = sout (srun t l).
Proof.
  induction n as [|n IH]; intros s t H l Hlen Hal HD Hf.
  - destruct l; [|cbn in Hlen; lia]. cbn in *. apply andb_prop in H. apply zlist_eqb_eq. exact (proj1 H).
  - cbn [sim_check] in H. apply andb_prop in H. destruct H as [H0 H1].
    destruct l as [|o r]; [cbn; apply zlist_eqb_eq; exact H0|].
    cbn [D fits_run] in HD, Hf. apply andb_prop in HD. apply andb_prop in Hf.
    destruct HD as [HD1 HD2]. destruct Hf as [Hf1 Hf2].
    inversion Hal as [|? ? Ho Hr]; subst.
    rewrite forallb_forall in H1. specialize (H1 o Ho). rewrite HD1, Hf1 in H1. cbn in H1.
    cbn [run srun fold_left]. apply (IH _ _ H1); [cbn in Hlen; lia|assumption|assumption|assumption].
Qed.

Lemma srun_grow_invariant : forall l t, srun t l = srun t (filter (fun o => match o with OGrow _ => false | _ => true end) l).
Proof.
  induction l as [|o r IH]; intros t; [reflexivity|].
  destruct o; cbn [filter srun fold_left]; try apply IH.
  destruct t. cbn [sstep]. apply IH.
Qed.

Definition alphabet : list op :=
  [OPush 1; OPop; OGetLocal 0; OGetLocal 1; OSetLocal 0 7; OSetLocal 1 8; OCapture 0; OCapture 1;
   OGetUp 0; OGetUp 1; OSetUp 0 5; OSetUp 1 6; OClose 0; OClose 1; OCall 1; OCall 2; ORet; OGrow 5000; OGrow 1048;
   ONewVar 0; ONewVar 1; OTailCall 1 1; OTailCall 1 2; OUnwind].

Definition BOUND : nat := 5.

Lemma sim_check_bound_a : sim_check alphabet BOUND (init_st 1000 4) init_sst = true.
Proof. vm_compute. reflexivity. Qed.

Lemma sim_check_bound_b : sim_check alphabet BOUND (init_st 777000 3) init_sst = true.
Proof. vm_compute. reflexivity. Qed.

Definition no_grow (o : op) : bool := match o with OGrow _ => false | _ => true end.

(* size/growth independence, bounded: two runs of the same program (same operations once the
   growth steps are erased) from different bases/capacities with growth at different places *)
Lemma run_indep_bounded l1 l2 :
  (length l1 <= BOUND)%nat -> (length l2 <= BOUND)%nat ->
  Forall (fun o => In o alphabet) l1 -> Forall (fun o => In o alphabet) l2 ->
  filter no_grow l1 = filter no_grow l2 ->
  D init_sst l1 = true -> D init_sst l2 = true ->
  fits_run (init_st 1000 4) l1 = true -> fits_run (init_st 777000 3) l2 = true ->
  out (run (init_st 1000 4) l1) = out (run (init_st 777000 3) l2).
Proof.
  intros L1 L2 A1 A2 E D1 D2 F1 F2.
  rewrite (sim_check_sound alphabet BOUND _ _ sim_check_bound_a l1 L1 A1 D1 F1).
  rewrite (sim_check_sound alphabet BOUND _ _ sim_check_bound_b l2 L2 A2 D2 F2).
  rewrite (srun_grow_invariant l1), (srun_grow_invariant l2).
  fold no_grow. rewrite E. reflexivity.
Qed.

(* ---- the discipline is necessary ---- *)
(* a slot is given to a new variable instance (next loop iteration) while the closure of the
   previous iteration still has an OPEN upvalue on it: the machine shares one upvalue between
   both closures, the spec does not.  With CLOSE_UPVALUES_TO before the new instance the reads
   agree. *)
Definition reuse_witness (close : bool) : list op :=
  [OPush 0; OPush 1; OCapture 1] ++ (if close then [OClose 1] else []) ++
  [ONewVar 1; OSetLocal 1 2; OCapture 1; OGetUp 0; OGetUp 1].

Lemma reuse_without_close :
  D init_sst (reuse_witness false) = false /\
  out (run (init_st 1000 8) (reuse_witness false)) = [2; 2] /\
  sout (srun init_sst (reuse_witness false)) = [2; 1] /\
  D init_sst (reuse_witness true) = true /\
  out (run (init_st 1000 8) (reuse_witness true)) = [2; 1] /\
  sout (srun init_sst (reuse_witness true)) = [2; 1].
Proof. repeat split; vm_compute; reflexivity. Qed.

(* a tail call reuses the frame while a closure created by the caller has an open upvalue on a
   parameter slot: without opCloseUpvalues(fp) the closure reads the callee's argument *)
Definition tailcall_witness : list op :=
  [OPush 0; OPush 3; OCapture 1; OPush 0; OPush 2; OTailCall 2 2; OGetUp 0; OSetLocal 1 9; OGetUp 0].

Lemma tailcall_without_close :
  D init_sst tailcall_witness = true /\
  fits_run (init_st 1000 8) tailcall_witness = true /\
  out (run (init_st 1000 8) tailcall_witness) = [3; 3] /\
  sout (srun init_sst tailcall_witness) = [3; 3] /\
  out (run (init_st 1000 8) (map as_found tailcall_witness)) = [9; 2].
Proof. repeat split; vm_compute; reflexivity. Qed.

(* error unwinding: an error thrown in a callee is caught in the frame that holds a captured local which is
   still in scope.  rethrow discards the callee's frame (OUnwind) and pushes stack trace + error; the handler
   pops them (and the slot the discarded frame left behind); afterwards the frame writes the local and the
   closure reads it.  Closing from the POPPED frame's base leaves the caller's upvalue open (reads agree with
   the spec); closing from the caller's restored frame pointer closes it: the closure keeps a stale copy. *)
Definition unwind_witness : list op :=
  [OPush 0; OPush 3; OCapture 1; OPush 5; OCall 1; OPush 7; OUnwind; OPush 0; OPush 8; OPop; OPop; OPop;
   OSetLocal 1 9; OGetUp 0; OSetUp 0 11; OGetLocal 1].

Lemma unwind_close_from_caller :
  D init_sst unwind_witness = true /\
  fits_run (init_st 1000 16) unwind_witness = true /\
  out (run (init_st 1000 16) unwind_witness) = [11; 9] /\
  sout (srun init_sst unwind_witness) = [11; 9] /\
  out (run_caller_close (init_st 1000 16) unwind_witness) = [9; 3].
Proof. repeat split; vm_compute; reflexivity. Qed.

(* the error crosses two frames before it is caught: the intermediate frame's captured local dies with its
   frame (closed with the right value), the catching frame's stays shared *)
Definition unwind_witness2 : list op :=
  [OPush 0; OPush 3; OCapture 1; OPush 5; OCall 1; OPush 6; OCapture 1; OPush 4; OCall 1; OSetUp 1 60; OPush 7;
   OUnwind; OUnwind; OPush 0; OPush 8; OPop; OPop; OPop; OSetLocal 1 9; OGetUp 0; OGetUp 1].

Lemma unwind_two_frames :
  D init_sst unwind_witness2 = true /\
  fits_run (init_st 1000 16) unwind_witness2 = true /\
  out (run (init_st 1000 16) unwind_witness2) = [60; 9] /\
  sout (srun init_sst unwind_witness2) = [60; 9] /\
  out (run_caller_close (init_st 1000 16) unwind_witness2) = [60; 3].
Proof. repeat split; vm_compute; reflexivity. Qed.
