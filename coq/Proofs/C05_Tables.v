(* C05 — the agreement condition on the REGENERATED tables (Gen/C05_PrecTables.v is rewritten
   from /repo on every run, so this finite obligation is re-proved against the current code). *)
From Coq Require Import NArith List Bool.
From Elk Require Import Model.C05_Prec Proofs.C05_Prec Gen.C05_PrecTables.
Import ListNotations.
Open Scope N_scope.

(* finite: nb * (nb + nu) + nu * (nb + nu) table entries *)
Lemma tables_ok : compat tables = true.
Proof. vm_compute. reflexivity. Qed.

Lemma printer_unambiguous : ambiguous_printer = false.
Proof. vm_compute. reflexivity. Qed.

Lemma roundtrip_elk : forall e, wf tables e = true -> parse tables (tokens (print tables e)) = Some e.
Proof. exact (roundtrip tables tables_ok). Qed.
