(* C02 - proofs about the recursion guard fragment (Model/C02_IfaceRec.v). *)
From Coq Require Import ZArith List Bool.
From Elk Require Import Model.C02_Iface Proofs.C02_Iface Model.C02_IfaceRec.
Import ListNotations.
Open Scope Z_scope.

Lemma imeths_r_it : forall R, imeths (r_it R) (r_ifc R) = r_im R.
Proof. intro R. unfold imeths, r_it. cbn [zfind]. rewrite Z.eqb_refl. reflexivity. Qed.

(* when the nested instantiation itself conforms, `s.rec.m(..)` has its static type r[t0] *)
Lemma rec_nested_sound : forall R m p R0 arg,
  rtab_ok R = true ->
  isub (r_ct R) (r_it R) (GC (r_cls R) (r_s0 R)) (GI (r_ifc R) (r_t0 R)) = true ->
  In (m, (p, R0)) (r_im R) ->
  arg_fits (bat [] (r_t0 R)) p arg ->
  exists r, rcall R m arg = Some r /\ bmem (bat [] (r_t0 R)) R0 r = true.
Proof.
  intros R m p R0 arg Hok Hs Hin Ha. unfold rtab_ok in Hok. apply andb_true_iff in Hok.
  destruct Hok as [Hct Hlit].
  assert (Hv : gmem (r_ct R) (r_it R) (GC (r_cls R) (r_s0 R)) (VO (r_cls R) (r_lit R))).
  { cbn [gmem]. split; [reflexivity | exact Hlit]. }
  rewrite <- imeths_r_it in Hin.
  destruct (iface_pass_call_sound _ _ _ _ _ _ _ _ _ _ Hct Hs Hv Hin Ha) as [d [item [r [Hvo [Hc Hr]]]]].
  inversion Hvo. subst d item. exists r. split; [exact Hc | exact Hr].
Qed.

Lemma rsub_fixed_sound : forall R s t m p R0 arg,
  rtab_ok R = true -> rsub true R s t = true ->
  In (m, (p, R0)) (r_im R) -> arg_fits (bat [] (r_t0 R)) p arg ->
  exists r, rcall R m arg = Some r /\ bmem (bat [] (r_t0 R)) R0 r = true.
Proof.
  intros R s t m p R0 arg Hok Hs. unfold rsub in Hs. apply andb_true_iff in Hs. destruct Hs as [_ Hn].
  apply rec_nested_sound; assumption.
Qed.
