(* C27 — proofs about Model/C27_Repl.v *)
From Coq Require Import ZArith NArith List Bool Lia.
Import ListNotations.
From Elk Require Import Model.C27_Repl.

(* ------------------------------------------------------------ slots vs names *)

Lemma slot_get_combine : forall slots stack v,
  length stack = length slots ->
  slot_get slots stack v = lookup (combine slots stack) v.
Proof.
  unfold slot_get.
  induction slots as [|s ss IH]; intros stack v Hlen; destruct stack as [|x xs]; simpl in *; try discriminate; auto.
  destruct (N.eqb s v) eqn:E; simpl; auto.
  injection Hlen as Hlen. rewrite <- (IH xs v Hlen).
  destruct (index_of v ss); reflexivity.
Qed.

Lemma slot_set_combine : forall slots stack v x,
  length stack = length slots ->
  match lookup (combine slots stack) v with
  | Some _ => exists stk, slot_set slots stack v x = Some stk
                          /\ length stk = length slots
                          /\ combine slots stk = aupd (combine slots stack) v x
  | None => slot_set slots stack v x = None
  end.
Proof.
  unfold slot_set.
  induction slots as [|s ss IH]; intros stack v x Hlen; destruct stack as [|y ys]; simpl in *; try discriminate; auto.
  injection Hlen as Hlen.
  destruct (N.eqb s v) eqn:E; simpl.
  - exists (x :: ys). simpl. try rewrite E. repeat split; auto.
  - specialize (IH ys v x Hlen).
    destruct (lookup (combine ss ys) v) eqn:L.
    + destruct IH as [stk [H1 [H2 H3]]].
      destruct (index_of v ss) as [i|]; try discriminate.
      destruct (Nat.ltb i (length ys)) eqn:Lt; try discriminate.
      injection H1 as H1. subst stk.
      exists (y :: upd_nth ys i x). simpl.
      change (Nat.ltb (S i) (S (length ys))) with (Nat.ltb i (length ys)). rewrite Lt.
      repeat split; auto; simpl in *; congruence.
    + destruct (index_of v ss) as [i|]; auto.
      destruct (Nat.ltb i (length ys)) eqn:Lt; try discriminate.
      change (Nat.ltb (S i) (S (length ys))) with (Nat.ltb i (length ys)). rewrite Lt. reflexivity.
Qed.

Lemma eval_ext : forall fuel ms ks l1 l2 p e,
  (forall v, l1 v = l2 v) -> eval fuel ms ks l1 p e = eval fuel ms ks l2 p e.
Proof.
  induction fuel as [|f IH]; intros ms ks l1 l2 p e H; simpl; auto.
  destruct e; auto.
  - rewrite H; reflexivity.
  - rewrite (IH ms ks l1 l2 p e H). reflexivity.
  - rewrite (IH ms ks l1 l2 p e1 H), (IH ms ks l1 l2 p e2 H). reflexivity.
  - rewrite (IH ms ks l1 l2 p e1 H), (IH ms ks l1 l2 p e2 H). reflexivity.
  - rewrite (IH ms ks l1 l2 p e1 H), (IH ms ks l1 l2 p e2 H). reflexivity.
Qed.

Arguments eval : simpl never.
Opaque FUEL.

(* the relation between the VM side and the reference *)
Definition rel (slots : list N) (r : rstate) (b : bstate) : Prop :=
  r_meths r = b_meths b /\ r_consts r = b_consts b /\
  length (r_stack r) = length slots /\ b_locals b = combine slots (r_stack r).

Lemma stmts_sim : forall slots inp r b i out,
  rel slots r b ->
  exists r1 b1 out1 st1,
    vm_stmts slots r inp i out = (r1, out1, st1) /\
    ref_stmts b inp i out = (b1, out1, st1) /\ rel slots r1 b1.
Proof.
  induction inp as [|st rest IH]; intros r b i out R.
  - simpl. exists r, b, out, Done. auto.
  - destruct R as [Hm [Hk [Hlen Hl]]].
    assert (EV : forall e, eval FUEL (r_meths r) (r_consts r) (slot_get slots (r_stack r)) None e
                         = eval FUEL (b_meths b) (b_consts b) (lookup (b_locals b)) None e).
    { intro e. rewrite Hm, Hk, Hl. apply eval_ext. intro v. apply slot_get_combine; auto. }
    assert (SET : forall v e, 
      exists r1 b1 out1 st1,
      match eval FUEL (r_meths r) (r_consts r) (slot_get slots (r_stack r)) None e with
      | RVal x => match slot_set slots (r_stack r) v x with
                  | Some stk => vm_stmts slots (mkR (r_meths r) (r_consts r) stk) rest (S i) out
                  | None => (r, out, Crash i) end
      | x => (r, out, stop_of x i) end = (r1, out1, st1) /\
      match eval FUEL (b_meths b) (b_consts b) (lookup (b_locals b)) None e with
      | RVal x => match lookup (b_locals b) v with
                  | Some _ => ref_stmts (mkB (b_meths b) (b_consts b) (aupd (b_locals b) v x)) rest (S i) out
                  | None => (b, out, Crash i) end
      | x => (b, out, stop_of x i) end = (b1, out1, st1) /\ rel slots r1 b1).
    { intros v e. rewrite (EV e).
      destruct (eval FUEL (b_meths b) (b_consts b) (lookup (b_locals b)) None e) as [x| | |];
        try (eexists r, b, out, _; repeat split; eauto; fail).
      pose proof (slot_set_combine slots (r_stack r) v x Hlen) as SS.
      rewrite <- Hl in SS.
      destruct (lookup (b_locals b) v) eqn:L.
      - destruct SS as [stk [S1 [S2 S3]]]. rewrite S1.
        apply IH. repeat split; simpl; auto; try congruence.
      - rewrite SS. exists r, b, out, (Crash i). repeat split; auto. }
    destruct st; simpl.
    + apply IH. repeat split; auto.
    + rewrite (EV e).
      destruct (eval FUEL (b_meths b) (b_consts b) (lookup (b_locals b)) None e) as [x| | |];
        try (eexists r, b, out, _; repeat split; eauto; fail).
      apply IH. repeat split; simpl; auto; try congruence.
    + apply SET.
    + apply SET.
    + rewrite (EV e).
      destruct (eval FUEL (b_meths b) (b_consts b) (lookup (b_locals b)) None e) as [x| | |];
        try (eexists r, b, out, _; repeat split; eauto; fail).
      apply IH. repeat split; auto.
    + apply IH. repeat split; auto.
    + apply IH. repeat split; auto.
    + apply IH. repeat split; auto.
Qed.

(* allocation of the slots of an input vs. creation of its locals in the reference *)
Lemma memN_lookup_combine : forall slots (stack : list val) v,
  length stack = length slots ->
  memN v slots = match lookup (combine slots stack) v with Some _ => true | None => false end.
Proof.
  induction slots as [|s ss IH]; intros stack v Hlen; destruct stack as [|x xs]; simpl in *; try discriminate; auto.
  destruct (N.eqb s v); auto.
Qed.

Lemma fold_add_slot_len : forall names slots, length slots <= length (fold_left add_slot names slots).
Proof.
  induction names as [|v names IH]; intros slots; simpl; auto.
  eapply Nat.le_trans; [|apply IH]. unfold add_slot. destruct (memN v slots); auto.
  rewrite app_length. simpl. lia.
Qed.

Lemma combine_snoc : forall (slots : list N) (stack : list val) v x,
  length stack = length slots ->
  combine (slots ++ [v]) (stack ++ [x]) = combine slots stack ++ [(v, x)].
Proof.
  induction slots as [|s ss IH]; intros stack v x Hlen; destruct stack as [|y ys]; simpl in *; try discriminate; auto.
  rewrite IH; auto.
Qed.

Lemma nils_len : forall n, length (nils n) = n.
Proof. induction n; simpl; auto. Qed.

Lemma alloc_sim : forall names slots stack,
  length stack = length slots ->
  let slots' := fold_left add_slot names slots in
  length (pad stack (length slots')) = length slots' /\
  combine slots' (pad stack (length slots')) = fold_left add_local names (combine slots stack).
Proof.
  unfold pad.
  induction names as [|v names IH]; intros slots stack Hlen; simpl.
  - rewrite Hlen, Nat.sub_diag. simpl. rewrite app_nil_r. auto.
  - pose proof (memN_lookup_combine slots stack v Hlen) as ML.
    unfold add_local at 2.
    destruct (lookup (combine slots stack) v) eqn:L.
    + assert (AS : add_slot slots v = slots) by (unfold add_slot; rewrite ML; reflexivity).
      rewrite AS. apply IH; auto.
    + assert (AS : add_slot slots v = slots ++ [v]) by (unfold add_slot; rewrite ML; reflexivity).
      rewrite AS.
      assert (Hlen1 : length (stack ++ [VNil]) = length (slots ++ [v])) by (rewrite !app_length; simpl; lia).
      assert (EL : length (stack ++ [VNil]) = length stack + 1) by (rewrite app_length; reflexivity).
      pose proof (IH (slots ++ [v]) (stack ++ [VNil]) Hlen1) as IH1. simpl in IH1. rewrite EL in IH1.
      pose proof (fold_add_slot_len names (slots ++ [v])) as LE.
      rewrite app_length in LE. simpl in LE.
      replace (length (fold_left add_slot names (slots ++ [v])) - length stack)
        with (S (length (fold_left add_slot names (slots ++ [v])) - (length stack + 1))) by lia.
      simpl. 
      replace (stack ++ VNil :: nils (length (fold_left add_slot names (slots ++ [v])) - (length stack + 1)))
        with ((stack ++ [VNil]) ++ nils (length (fold_left add_slot names (slots ++ [v])) - (length stack + 1)))
        by (rewrite <- app_assoc; reflexivity).
      rewrite <- (combine_snoc slots stack v VNil Hlen). apply IH1.
Qed.

Lemma input_sim : forall slots inp r b,
  rel slots r b ->
  let slots' := fold_left add_slot (decl_names inp) slots in
  exists r1 b1 res,
    vm_input slots' r inp = (r1, res) /\ ref_input b inp = (b1, res) /\
    is_ran res = true /\ rel slots' r1 b1.
Proof.
  intros slots inp r b [Hm [Hk [Hlen Hl]]] slots'.
  unfold vm_input, ref_input, ref_input_gen.
  destruct (alloc_sim (decl_names inp) slots (r_stack r) Hlen) as [A1 A2]. fold slots' in A1, A2.
  set (r0 := mkR (hoist_defs (r_meths r) inp) (r_consts r) (pad (r_stack r) (length slots'))).
  set (b0 := mkB (hoist_defs (b_meths b) inp) (b_consts b) (fold_left add_local (decl_names inp) (b_locals b))).
  assert (R0 : rel slots' r0 b0).
  { unfold r0, b0. repeat split; simpl; auto. rewrite Hm; auto. rewrite Hl. auto. }
  destruct (stmts_sim slots' inp r0 b0 O [] R0) as [r1 [b1 [out1 [st1 [V [Rf R1]]]]]].
  rewrite V, Rf. exists r1, b1, (Ran out1 st1). auto.
Qed.

(* ------------------------------------------------------------ the checker phases *)

Lemma ph_namespaces : forall inp s,
  c_comp (phase_namespaces s inp) = c_comp s /\ (c_err (phase_namespaces s inp) = false -> c_err s = false).
Proof.
  induction inp as [|st r IH]; intros s; simpl; auto.
  destruct st; try apply IH.
  - destruct (memN k (c_consts s)).
    + destruct (IH (fail s)) as [A B]. split; [exact A|]. intro H. apply B in H. discriminate.
    + match goal with |- context [phase_namespaces ?s1 r] => destruct (IH s1) as [A B] end. auto.
  - destruct (IH (fail s)) as [A B]. split; [exact A|]. intro H. apply B in H. discriminate.
  - destruct (lookup (c_tdefs s) a).
    + destruct (IH (fail s)) as [A B]. split; [exact A|]. intro H. apply B in H. discriminate.
    + match goal with |- context [phase_namespaces ?s1 r] => destruct (IH s1) as [A B] end. auto.
  - destruct (memN c (c_classes s)); try apply IH.
    match goal with |- context [phase_namespaces ?s1 r] => destruct (IH s1) as [A B] end. auto.
Qed.

Lemma ph_types : forall inp s,
  c_comp (phase_types s inp) = c_comp s /\ (c_err (phase_types s inp) = false -> c_err s = false).
Proof.
  induction inp as [|st r IH]; intros s; simpl; auto.
  destruct st; try apply IH.
  match goal with |- context [phase_types ?s1 r] => destruct (IH s1) as [A B] end.
  simpl in *. split; auto. intro H. apply B in H. apply orb_false_elim in H. tauto.
Qed.

Lemma ph_hoist : forall inp s,
  c_comp (phase_hoist s inp) = c_comp s /\ (c_err (phase_hoist s inp) = false -> c_err s = false).
Proof.
  induction inp as [|st r IH]; intros s; simpl; auto.
  destruct st; try apply IH.
  match goal with |- context [phase_hoist ?s1 r] => destruct (IH s1) as [A B] end.
  simpl in *. split; auto. intro H. apply B in H. apply orb_false_elim in H. tauto.
Qed.

Lemma ph_consts : forall inp s,
  c_comp (phase_consts s inp) = c_comp s /\ (c_err (phase_consts s inp) = false -> c_err s = false).
Proof.
  induction inp as [|st r IH]; intros s; simpl; auto.
  destruct st; try apply IH.
  destruct (ty_is _ TInt); try apply IH.
  destruct (IH (fail s)) as [A B]. split; [exact A|]. intro H. apply B in H. discriminate.
Qed.

Lemma ph_bodies : forall s,
  c_comp (phase_bodies s) = c_comp s /\ (c_err (phase_bodies s) = false -> c_err s = false).
Proof.
  intro s. unfold phase_bodies. destruct (bodies_ok _ _ _); auto. simpl. split; auto. discriminate.
Qed.

Lemma ph_exprs : forall inp s,
  c_comp (phase_exprs s inp) = c_comp s /\ (c_err (phase_exprs s inp) = false -> c_err s = false).
Proof.
  induction inp as [|st r IH]; intros s; simpl; auto.
  destruct st; try apply IH;
  match goal with |- context [phase_exprs ?s1 r] => destruct (IH s1) as [A B] end;
  simpl in *; (split; auto); intro H; apply B in H; apply orb_false_elim in H; tauto.
Qed.

Lemma check_program_comp : forall s inp,
  c_err (check_program s inp) = false ->
  c_comp (check_program s inp) = CMain (fold_left add_slot (decl_names inp) (comp_slots (c_comp s))).
Proof.
  intros s inp. unfold check_program.
  set (s1 := phase_namespaces s inp). set (s1' := phase_types s1 inp). set (s2 := phase_compilers s1').
  set (s3 := phase_hoist s2 inp). set (s4 := phase_consts s3 inp).
  set (s5 := phase_bodies s4). set (s6 := phase_exprs s5 inp).
  unfold phase_compile. destruct (c_err s6) eqn:E6; [intro H; congruence|]. simpl. intros _.
  destruct (ph_exprs inp s5) as [C6 M6]. fold s6 in C6, M6.
  destruct (ph_bodies s4) as [C5 M5]. fold s5 in C5, M5.
  destruct (ph_consts inp s3) as [C4 M4]. fold s4 in C4, M4.
  destruct (ph_hoist inp s2) as [C3 M3]. fold s3 in C3, M3.
  destruct (ph_types inp s1) as [C1' M1']. fold s1' in C1', M1'.
  destruct (ph_namespaces inp s) as [C1 M1]. fold s1 in C1, M1.
  assert (E2 : c_err s2 = false) by auto.
  rewrite C6, C5, C4, C3. unfold s2, phase_compilers in *. simpl in *. rewrite E2. simpl. rewrite C1', C1. reflexivity.
Qed.

(* ------------------------------------------------------------ CheckSource / evaluate *)

Lemma check_source_rejected : forall s inp,
  c_err (check_source true s inp) = true ->
  let c1 := check_source true s inp in
  c_meths c1 = c_meths s /\ c_consts c1 = c_consts s /\ c_locals c1 = c_locals s /\ c_comp c1 = c_comp s /\
  c_tdefs c1 = c_tdefs s /\ c_classes c1 = c_classes s.
Proof.
  intros s inp. unfold check_source.
  destruct (c_err (check_program (reset s) inp)) eqn:E; simpl; [repeat split; auto|congruence].
Qed.

Lemma check_source_accepted : forall fx s inp,
  c_err (check_source fx s inp) = false ->
  c_comp (check_source fx s inp) = CMain (fold_left add_slot (decl_names inp) (comp_slots (c_comp s))).
Proof.
  intros fx s inp. unfold check_source.
  destruct (c_err (check_program (reset s) inp)) eqn:E; simpl; [discriminate|].
  intros _. rewrite (check_program_comp (reset s) inp E). reflexivity.
Qed.

Theorem rollback : forall st inp st1,
  incr_step true st inp = (st1, Rejected) -> visible st1 = visible st.
Proof.
  intros st inp st1. unfold incr_step; cbv zeta.
  destruct (c_err (check_source true (i_c st) inp)) eqn:E.
  - intro H. injection H as H. subst st1.
    destruct (check_source_rejected (i_c st) inp E) as [A [B [C [D [T K]]]]].
    unfold visible. simpl. rewrite A, B, C, D, T, K. reflexivity.
  - destruct (vm_input _ _ _) as [r1 res] eqn:V. unfold vm_input in V.
    destruct (vm_stmts _ _ _ _ _) as [[? ?] ?]. injection V as _ V. subst res. discriminate.
Qed.

(* in particular: a type expression denotes after a rejected input what it denoted before it
   (a named type or class that only the rejected input declared stays undefined) *)
Corollary rollback_types : forall st inp st1 x,
  incr_step true st inp = (st1, Rejected) ->
  resolve_in (c_tdefs (i_c st1)) (c_classes (i_c st1)) x = resolve_in (c_tdefs (i_c st)) (c_classes (i_c st)) x.
Proof.
  intros st inp st1 x H. pose proof (rollback st inp st1 H) as V. unfold visible in V.
  injection V as _ _ _ _ Ht Hn _ _ _. rewrite Ht, Hn. reflexivity.
Qed.

Lemma check_source_vis : forall fx s1 s2 inp,
  c_meths s1 = c_meths s2 -> c_consts s1 = c_consts s2 -> c_locals s1 = c_locals s2 -> c_comp s1 = c_comp s2 ->
  c_tdefs s1 = c_tdefs s2 -> c_classes s1 = c_classes s2 ->
  check_source fx s1 inp = check_source fx s2 inp.
Proof.
  intros fx [m1 k1 l1 c1 b1 e1 t1 n1] [m2 k2 l2 c2 b2 e2 t2 n2] inp; simpl; intros; subst.
  unfold check_source, reset. simpl. reflexivity.
Qed.

Lemma incr_step_vis : forall fx st1 st2 inp,
  visible st1 = visible st2 -> incr_step fx st1 inp = incr_step fx st2 inp.
Proof.
  intros fx [c1 r1] [c2 r2] inp. unfold visible. simpl. intro H.
  injection H as Hm Hk Hl Hc Ht Hn Hrm Hrk Hrs.
  unfold incr_step; cbv zeta. simpl.
  rewrite (check_source_vis fx c1 c2 inp Hm Hk Hl Hc Ht Hn).
  destruct r1, r2; simpl in *; subst. reflexivity.
Qed.

Theorem rejected_no_trace : forall st inp st1 rest,
  incr_step true st inp = (st1, Rejected) ->
  incr true st (inp :: rest) = (Rejected :: fst (incr true st rest), snd (incr true st1 rest))
  /\ fst (incr true st1 rest) = fst (incr true st rest).
Proof.
  intros st inp st1 rest H.
  pose proof (rollback st inp st1 H) as V.
  assert (G : forall h a b, visible a = visible b -> fst (incr true a h) = fst (incr true b h)).
  { induction h as [|i h IH]; intros a b Vab; simpl; auto.
    rewrite (incr_step_vis true a b i Vab).
    destruct (incr_step true b i) as [b1 res].
    specialize (IH b1 b1 eq_refl).
    destruct (incr true b1 h); reflexivity. }
  split.
  - simpl. rewrite H. destruct (incr true st1 rest) as [rs st2] eqn:E. simpl.
    pose proof (G rest st1 st V) as G1. rewrite E in G1. simpl in G1. rewrite G1. reflexivity.
  - apply G; auto.
Qed.

(* ------------------------------------------------------------ incremental = batch *)

Definition inv (st : istate) (b : bstate) : Prop := rel (comp_slots (c_comp (i_c st))) (i_r st) b.

Lemma step_sim : forall st b inp st1 res,
  inv st b -> incr_step true st inp = (st1, res) ->
  (res = Rejected /\ inv st1 b) \/
  (exists b1, ref_input b inp = (b1, res) /\ is_ran res = true /\ inv st1 b1).
Proof.
  intros st b inp st1 res I. unfold incr_step; cbv zeta.
  destruct (c_err (check_source true (i_c st) inp)) eqn:E.
  - intro H. injection H as H1 H2. subst. left. split; auto.
    destruct (check_source_rejected (i_c st) inp E) as [_ [_ [_ [D _]]]].
    unfold inv in *. simpl. rewrite D. exact I.
  - rewrite (check_source_accepted true (i_c st) inp E). simpl.
    destruct (input_sim (comp_slots (c_comp (i_c st))) inp (i_r st) b I) as [r1 [b1 [res1 [V [Rf [Ran R1]]]]]].
    rewrite V. intro H. injection H as H1 H2. subst. right. exists b1. split; [exact Rf|]. split; [exact Ran|].
    unfold inv, clear_errors. cbn [i_c i_r c_comp]. rewrite (check_source_accepted true (i_c st) inp E). cbn [comp_slots]. exact R1.
Qed.

Theorem incremental_eq_batch_gen : forall h st b,
  inv st b ->
  ran_results (fst (incr true st h)) = ref_run b (accepted true st h).
Proof.
  unfold accepted.
  induction h as [|inp h IH]; intros st b I; simpl; auto.
  destruct (incr_step true st inp) as [st1 res] eqn:S.
  destruct (step_sim st b inp st1 res I S) as [[Hr I1] | [b1 [Rf [Ran I1]]]].
  - subst res. specialize (IH st1 b I1).
    destruct (incr true st1 h) as [rs st2]. simpl in *. exact IH.
  - specialize (IH st1 b1 I1).
    destruct (incr true st1 h) as [rs st2]. simpl in *. rewrite Ran. simpl.
    unfold ref_run in *. simpl. fold ref_input. rewrite Rf. rewrite IH. reflexivity.
Qed.

Lemma inv_init : inv i_init b_init.
Proof. unfold inv, rel. simpl. auto. Qed.

Theorem incremental_eq_batch : forall h,
  ran_results (fst (incr true i_init h)) = ref_run b_init (accepted true i_init h).
Proof. intro h. apply incremental_eq_batch_gen. apply inv_init. Qed.
