(* Facts about Go-style UTF-8 decoding (Base/Utf8.v): size bounds, unfolding equation of
   decode_steps, sum of sizes = byte length, rune count <= byte count. *)
From Coq Require Import ZifyBool ZifyNat.
From Elk Require Import Base.Utf8.
Open Scope Z_scope.

Ltac break_if :=
  match goal with
  | |- context [if ?c then _ else _] => destruct c eqn:?
  end.

(* ---------- one step ---------- *)

Lemma decode_rune_size_cases s :
  let n := snd (decode_rune s) in
  (s = [] /\ n = 0) \/ (s <> [] /\ 1 <= n <= 4 /\ n <= Z.of_nat (length s)).
Proof.
  destruct s as [|b0 t]; [left; split; reflexivity|right].
  split; [discriminate|].
  unfold decode_rune.
  destruct t as [|b1 [|b2 [|b3 t]]]; cbn [length]; repeat break_if; cbn [snd]; lia.
Qed.

Lemma decode_rune_size_pos b t : 1 <= snd (decode_rune (b :: t)) <= 4.
Proof.
  destruct (decode_rune_size_cases (b :: t)) as [[H _]|[_ [H _]]]; [discriminate|exact H].
Qed.

Lemma decode_rune_size_le s : 0 <= snd (decode_rune s) <= Z.of_nat (length s).
Proof.
  destruct (decode_rune_size_cases s) as [[-> H]|[_ [H1 H2]]]; cbn in *; lia.
Qed.

Lemma decode_rune_size0 s : snd (decode_rune s) = 0 <-> s = [].
Proof.
  destruct (decode_rune_size_cases s) as [[-> H]|[Hn [H1 H2]]]; split; intros; try reflexivity; try lia.
  - contradiction.
Qed.

(* the result depends only on the first four bytes *)
Lemma decode_rune_firstn s : decode_rune (firstn 4 s) = decode_rune s.
Proof.
  destruct s as [|b0 [|b1 [|b2 [|b3 t]]]]; reflexivity.
Qed.


(* ---------- iteration ---------- *)

Lemma decode_steps_aux_skip : forall s k, decode_steps_aux k s = decode_steps (skipn k s).
Proof.
  induction s as [|b t IH]; intros k.
  - destruct k; reflexivity.
  - destruct k as [|k]; [reflexivity|]. cbn [decode_steps_aux skipn]. apply IH.
Qed.

(* the loop equation:  r, n := DecodeRune(s); emit; s = s[n:] *)
Lemma decode_steps_cons b t :
  decode_steps (b :: t) =
    mkStep (fst (decode_rune (b :: t))) (snd (decode_rune (b :: t))) b
      :: decode_steps (skipn (Z.to_nat (snd (decode_rune (b :: t)))) (b :: t)).
Proof.
  unfold decode_steps at 1. cbn [decode_steps_aux].
  destruct (decode_rune (b :: t)) as [r n] eqn:E. cbn [fst snd].
  f_equal. rewrite decode_steps_aux_skip.
  pose proof (decode_rune_size_pos b t) as P. rewrite E in P. cbn [snd] in P.
  assert (N : Z.to_nat n = S (Z.to_nat n - 1)) by lia.
  rewrite N at 2. reflexivity.
Qed.

(* strong induction following the decoding loop *)
Lemma decode_ind (P : list Z -> Prop) :
  P [] ->
  (forall b t, P (skipn (Z.to_nat (snd (decode_rune (b :: t)))) (b :: t)) -> P (b :: t)) ->
  forall s, P s.
Proof.
  intros H0 Hs s.
  assert (G : forall n s, (length s <= n)%nat -> P s).
  { induction n as [|n IH]; intros s' L.
    - destruct s'; [exact H0|cbn in L; lia].
    - destruct s' as [|b t]; [exact H0|]. apply Hs. apply IH.
      pose proof (decode_rune_size_pos b t) as Q.
      rewrite skipn_length. cbn [length] in *. lia. }
  apply (G (length s)). lia.
Qed.

Lemma step_sizes_bounds s : Forall (fun x => 1 <= st_size x <= 4) (decode_steps s).
Proof.
  induction s as [|b t IH] using decode_ind; [constructor|].
  rewrite decode_steps_cons. constructor; [|exact IH]. cbn [st_size]. apply decode_rune_size_pos.
Qed.

(* sum of the sizes = byte length *)
Lemma sizes_sum s : zsum (sizes s) = Z.of_nat (length s).
Proof.
  unfold sizes.
  induction s as [|b t IH] using decode_ind; [reflexivity|].
  rewrite decode_steps_cons. cbn [map zsum fold_right st_size].
  fold (zsum (map st_size (decode_steps (skipn (Z.to_nat (snd (decode_rune (b :: t)))) (b :: t))))).
  rewrite IH, skipn_length.
  pose proof (decode_rune_size_le (b :: t)) as Q. lia.
Qed.

Lemma decode_all_sizes_sum s : zsum (map snd (decode_all s)) = Z.of_nat (length s).
Proof.
  unfold decode_all. rewrite map_map. cbn [snd]. exact (sizes_sum s).
Qed.

Lemma zsum_ge_length l : Forall (fun z => 1 <= z) l -> Z.of_nat (length l) <= zsum l.
Proof.
  induction 1 as [|z l Hz _ IH]; cbn [zsum fold_right length]; [lia|].
  fold (zsum l). lia.
Qed.

(* rune count <= byte count *)
Lemma rune_count_le_bytes s : rune_count s <= Z.of_nat (length s).
Proof.
  unfold rune_count. rewrite <- (sizes_sum s). unfold sizes.
  rewrite <- (map_length st_size). apply zsum_ge_length.
  apply Forall_forall. intros z Hz. apply in_map_iff in Hz. destruct Hz as [x [<- Hx]].
  pose proof (step_sizes_bounds s) as F. rewrite Forall_forall in F. specialize (F x Hx). lia.
Qed.

Lemma rune_count_nonneg s : 0 <= rune_count s.
Proof. unfold rune_count. lia. Qed.

Lemma rune_count_nil_iff s : rune_count s = 0 <-> s = [].
Proof.
  unfold rune_count. split; intros H.
  - destruct s as [|b t]; [reflexivity|]. rewrite decode_steps_cons in H. cbn [length] in H. lia.
  - subst. reflexivity.
Qed.

Lemma rune_count_runes s : rune_count s = Z.of_nat (length (runes s)).
Proof. unfold rune_count, runes. rewrite map_length. reflexivity. Qed.

Lemma rune_count_decode_all s : rune_count s = Z.of_nat (length (decode_all s)).
Proof. unfold rune_count, decode_all. rewrite map_length. reflexivity. Qed.

(* a prefix that decodes as one whole step can be peeled off *)
Lemma decode_steps_prefix p t r :
  p <> [] -> decode_rune (p ++ t) = (r, Z.of_nat (length p)) ->
  decode_steps (p ++ t) = mkStep r (Z.of_nat (length p)) (hd 0 p) :: decode_steps t.
Proof.
  intros Hp E. destruct p as [|b p']; [contradiction|].
  change ((b :: p') ++ t) with (b :: (p' ++ t)) in *.
  rewrite decode_steps_cons. rewrite E. cbn [fst snd hd]. f_equal.
  rewrite Nat2Z.id. change (b :: p' ++ t) with ((b :: p') ++ t).
  rewrite skipn_app, skipn_all, Nat.sub_diag. reflexivity.
Qed.

(* every step consumes exactly the bytes it reports: concatenating the consumed chunks
   gives the string back *)
Fixpoint chunks (l : list step) (s : list Z) : list (list Z) :=
  match l with
  | [] => []
  | x :: r => firstn (Z.to_nat (st_size x)) s :: chunks r (skipn (Z.to_nat (st_size x)) s)
  end.

Lemma chunks_concat s : concat (chunks (decode_steps s) s) = s.
Proof.
  induction s as [|b t IH] using decode_ind; [reflexivity|].
  rewrite decode_steps_cons. cbn [chunks concat st_size].
  rewrite IH. apply firstn_skipn.
Qed.

Lemma offsets_length o l : length (offsets_from o l) = length l.
Proof. revert o. induction l as [|x l IH]; intros o; cbn; [reflexivity|]. rewrite IH. reflexivity. Qed.
