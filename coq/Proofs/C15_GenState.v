(* C15 — proofs about the suspend/resume mechanism model (Model/C15_GenState.v). *)
From Coq Require Import ZArith List Bool Arith Lia.
From Elk Require Import Model.C15_GenState.
Import ListNotations.

Lemma skipn_app_exact : forall (A : Type) (l1 l2 : list A), skipn (length l1) (l1 ++ l2) = l2.
Proof. induction l1 as [| a l1 IH]; intros l2; simpl; [ reflexivity | apply IH ]. Qed.

Lemma firstn_app_exact : forall (A : Type) (l1 l2 : list A), firstn (length l1) (l1 ++ l2) = l1.
Proof. induction l1 as [| a l1 IH]; intros l2; simpl; [ reflexivity | rewrite IH; reflexivity ]. Qed.

Lemma firstn_pred_removelast : forall (A : Type) (l : list A), firstn (length l - 1) l = removelast l.
Proof. intros A l. rewrite removelast_firstn_len. f_equal. lia. Qed.

Lemma nth_skipn_add : forall (A : Type) n (l : list A) i d, nth i (skipn n l) d = nth (n + i) l d.
Proof.
  induction n as [| n IH]; intros l i d; [ reflexivity | ].
  destruct l as [| a l]; [ destruct i; reflexivity | ].
  simpl. apply IH.
Qed.

Lemma nth_removelast_lt : forall (A : Type) (l : list A) i d, i < length l - 1 -> nth i (removelast l) d = nth i l d.
Proof.
  induction l as [| a l IH]; intros i d Hi; [ simpl in Hi; lia | ].
  destruct l as [| b l]; [ simpl in Hi; lia | ].
  destruct i as [| i]; [ reflexivity | ].
  change (removelast (a :: b :: l)) with (a :: removelast (b :: l)).
  cbn [nth]. apply IH. simpl in Hi |- *. lia.
Qed.

Lemma slice_spec : forall whole t, fp t <= length (stack t) ->
  slice whole t = if whole then skipn (fp t) (stack t) else removelast (skipn (fp t) (stack t)).
Proof.
  intros whole t Hle. unfold slice. destruct whole.
  - rewrite Nat.sub_0_r. rewrite <- (skipn_length (fp t) (stack t)). apply firstn_all.
  - rewrite <- firstn_pred_removelast. rewrite skipn_length. f_equal. lia.
Qed.

(* suspend, then resume on ANY thread t2 (another pool thread, another stack depth): the frame is back *)
Theorem save_restore_id : forall whole np t g t1,
  Inv whole t -> suspend whole np t = Some (g, t1) ->
  forall t2,
    let t3 := resume g t2 in
    skipn (fp t3) (stack t3) = (if whole then skipn (fp t) (stack t) else removelast (skipn (fp t) (stack t))) /\
    ip t3 = ip t /\
    length (stack t3) - fp t3 = length (stack t) - fp t - (if whole then 0 else 1) /\
    (forall i, i < length (stack t) - fp t - (if whole then 0 else 1) -> local i t3 = local i t) /\
    firstn (fp t3) (stack t3) = stack t2 /\
    frames t3 = mkCF (fp t2) (ip t2) (lc t2) :: frames t2.
Proof.
  intros whole np t g t1 [Hfr Hlen] Hs t2. unfold suspend in Hs.
  destruct (frames t) as [| cf rest]; [ congruence | ].
  inversion Hs; subst g t1; clear Hs.
  assert (Hle : fp t <= length (stack t)) by (destruct whole; lia).
  cbn [resume stack fp ip frames g_stack g_ip].
  rewrite skipn_app_exact, firstn_app_exact, (slice_spec whole t Hle).
  assert (Hsl : length (if whole then skipn (fp t) (stack t) else removelast (skipn (fp t) (stack t)))
                = length (stack t) - fp t - (if whole then 0 else 1)).
  { destruct whole.
    - rewrite skipn_length. lia.
    - rewrite <- firstn_pred_removelast. rewrite firstn_length, skipn_length. lia. }
  repeat split.
  - rewrite app_length, Hsl. lia.
  - intros i Hi. unfold local, resume. cbn [stack fp g_stack].
    rewrite app_nth2 by lia. replace (length (stack t2) + i - length (stack t2)) with i by lia.
    destruct whole.
    + apply nth_skipn_add.
    + rewrite nth_removelast_lt; [ apply nth_skipn_add | rewrite skipn_length; lia ].
Qed.

(* the caller of `next` gets its own stack back, with the yielded value (or the awaited promise) on top,
   and its registers *)
Theorem suspend_caller : forall whole np t g t1 cf rest,
  frames t = cf :: rest -> suspend whole np t = Some (g, t1) ->
  stack t1 = firstn (fp t) (stack t) ++ [last (stack t) 0%Z] /\
  fp t1 = cf_fp cf /\ ip t1 = cf_ip cf /\ lc t1 = cf_lc cf /\ frames t1 = rest.
Proof.
  intros whole np t g t1 cf rest Hf Hs. unfold suspend in Hs. rewrite Hf in Hs.
  inversion Hs; subst. cbn. repeat split; reflexivity.
Qed.

(* resume then suspend (nothing executed in between): the generator object is unchanged *)
Theorem resume_suspend_id : forall g t2,
  fst (match suspend true (g_np g) (resume g t2) with Some p => p | None => (g, t2) end) = g.
Proof.
  intros [gs gi gn] t2. unfold suspend, resume. cbn [frames fst g_stack g_ip g_np ip].
  f_equal. unfold slice. cbn [stack fp].
  rewrite skipn_app_exact, app_length.
  replace (length (stack t2) + length gs - 0 - length (stack t2)) with (length gs) by lia.
  apply firstn_all.
Qed.

(* localCount is NOT part of what is saved: after a resume it is parameterCount + 1 whatever it was *)
Theorem resume_resets_localcount : forall g t2, lc (resume g t2) = g_np g + 1.
Proof. reflexivity. Qed.

Lemma filter_all : forall (A : Type) (p : A -> bool) l, forallb p l = true -> filter p l = l.
Proof.
  induction l as [| a l IH]; intros H; [ reflexivity | ].
  simpl in H. apply andb_true_iff in H. destruct H as [Ha Hl].
  simpl. rewrite Ha. rewrite (IH Hl). reflexivity.
Qed.

Lemma filter_none : forall (A : Type) (p : A -> bool) l, forallb p l = true -> filter (fun x => negb (p x)) l = [].
Proof.
  induction l as [| a l IH]; intros H; [ reflexivity | ].
  simpl in H. apply andb_true_iff in H. destruct H as [Ha Hl].
  simpl. rewrite Ha. simpl. exact (IH Hl).
Qed.

(* when no open upvalue points into the frame, suspension leaves every upvalue as it was *)
Theorem suspend_keeps_upvalues : forall whole np t g t1,
  no_frame_capture t -> suspend whole np t = Some (g, t1) ->
  open_uv t1 = open_uv t /\ closed_uv t1 = closed_uv t.
Proof.
  intros whole np t g t1 Hn Hs. unfold suspend in Hs.
  destruct (frames t) as [| cf rest]; [ discriminate | ].
  inversion Hs; subst. cbn [open_uv closed_uv]. unfold no_frame_capture in Hn.
  rewrite (filter_all _ _ _ Hn), (filter_none _ _ _ Hn). simpl. rewrite app_nil_r. split; reflexivity.
Qed.

(* ... but a captured local of the frame is split from its closure by a suspension: the upvalue is closed
   (gets its own copy), the resumed body writes the stack slot, the closure no longer sees the write *)
Theorem capture_split_witness :
  Inv false wit /\ coherent wit 0 1 /\
  exists t', wit_roundtrip = Some t' /\ local 1 t' = 6%Z /\ read_uv t' 0 = Some 5%Z /\ ~ coherent t' 0 1.
Proof.
  split; [ | split ].
  - split; [ discriminate | vm_compute; repeat constructor ].
  - reflexivity.
  - eexists. split; [ vm_compute; reflexivity | ].
    split; [ reflexivity | split; [ reflexivity | ] ].
    unfold coherent. vm_compute. intros H. discriminate H.
Qed.

(* ---- the array model: a resume that makes the value stack grow ---------------------------------------- *)

Lemma write_at_live : forall (at_ : nat) (src arr : list Z),
  at_ + length src <= length arr ->
  firstn (at_ + length src) (write_at at_ src arr) = firstn at_ arr ++ src.
Proof.
  intros at_ src arr Hroom. unfold write_at.
  assert (Hl : length (firstn at_ arr) = at_) by (rewrite firstn_length; lia).
  rewrite (firstn_all2 (n := length arr - at_) src) by lia.
  rewrite app_assoc.
  replace (at_ + length src) with (length (firstn at_ arr ++ src)) by (rewrite app_length, Hl; reflexivity).
  apply firstn_app_exact.
Qed.

Lemma write_at_length : forall (at_ : nat) (src arr : list Z),
  at_ + length src <= length arr -> length (write_at at_ src arr) = length arr.
Proof.
  intros at_ src arr Hroom. unfold write_at.
  rewrite !app_length, !firstn_length, skipn_length. lia.
Qed.

Lemma grow_arr_prefix : forall (arr : list Z) n, n <= length arr -> firstn n (grow_arr arr) = firstn n arr.
Proof.
  intros arr n Hn. unfold grow_arr. rewrite firstn_app.
  replace (n - length arr) with 0 by lia. cbn [firstn]. apply app_nil_r.
Qed.

Lemma grow_arr_length : forall arr : list Z, length (grow_arr arr) = 2 * length arr.
Proof. intros arr. unfold grow_arr. rewrite app_length, repeat_length. lia. Qed.

(* resume AFTER growth: whatever the growth policy decides (never, the 70 % rule, always), when the frame fits
   into the array the live stack afterwards is the old live stack followed by the saved frame: exactly the
   list-level [resume]; nothing below is touched, the capacity never shrinks. *)
Theorem resume_after_grow : forall policy g a,
  a_sp a + length (g_stack g) <= length (a_arr a) ->
  let a' := resume_arr policy g a in
  live a' = live a ++ g_stack g /\
  a_sp a' = a_sp a + length (g_stack g) /\
  skipn (a_sp a) (live a') = g_stack g /\
  firstn (a_sp a) (live a') = live a /\
  length (a_arr a') = (if policy (a_sp a + length (g_stack g)) (length (a_arr a)) then 2 * length (a_arr a) else length (a_arr a)).
Proof.
  intros policy g a Hroom a'.
  assert (Hlive : live a' = live a ++ g_stack g).
  { unfold a', resume_arr, live. cbn [a_arr a_sp].
    destruct (policy (a_sp a + length (g_stack g)) (length (a_arr a))).
    - rewrite write_at_live by (rewrite grow_arr_length; lia).
      rewrite grow_arr_prefix by lia. reflexivity.
    - rewrite write_at_live by lia. reflexivity. }
  assert (Hlen : length (live a) = a_sp a) by (unfold live; rewrite firstn_length; lia).
  split; [ exact Hlive | ]. split; [ reflexivity | ].
  split; [ rewrite Hlive, <- Hlen; apply skipn_app_exact | ].
  split; [ rewrite Hlive, <- Hlen; apply firstn_app_exact | ].
  unfold a', resume_arr. cbn [a_arr].
  destruct (policy (a_sp a + length (g_stack g)) (length (a_arr a))).
  - rewrite write_at_length by (rewrite grow_arr_length; lia). apply grow_arr_length.
  - apply write_at_length. lia.
Qed.

(* the array-level resume refines the list-level one the other theorems are about *)
Corollary resume_arr_refines : forall policy g a t,
  a_sp a + length (g_stack g) <= length (a_arr a) ->
  stack t = live a -> stack (resume g t) = live (resume_arr policy g a).
Proof.
  intros policy g a t Hroom Hst.
  destruct (resume_after_grow policy g a Hroom) as [Hlive _].
  cbn [resume stack]. rewrite Hst. symmetry. exact Hlive.
Qed.

(* destination computed BEFORE the growth check: under the 70 % rule the resumed body runs on stale slots *)
Theorem resume_before_grow_witness :
  a_sp wit_arr + length (g_stack wit_gen) <= length (a_arr wit_arr) /\
  needs_grow (a_sp wit_arr + length (g_stack wit_gen)) (length (a_arr wit_arr)) = true /\
  live (resume_arr needs_grow wit_gen wit_arr) = [1; 2; 3; 4; 5; 6; 7; 100; 5]%Z /\
  live (resume_arr_stale needs_grow wit_gen wit_arr) = [1; 2; 3; 4; 5; 6; 7; 0; 0]%Z /\
  live (resume_arr_stale needs_grow wit_gen wit_arr) <> live wit_arr ++ g_stack wit_gen.
Proof.
  split; [ vm_compute; repeat constructor | ].
  split; [ reflexivity | ]. split; [ reflexivity | ]. split; [ reflexivity | ].
  vm_compute. intros H. discriminate H.
Qed.

(* ... and it is only the growing resume that goes wrong: without growth both agree *)
Theorem resume_stale_same_without_growth : forall policy g a,
  policy (a_sp a + length (g_stack g)) (length (a_arr a)) = false ->
  resume_arr_stale policy g a = resume_arr policy g a.
Proof. intros policy g a H. unfold resume_arr_stale, resume_arr. rewrite H. reflexivity. Qed.
