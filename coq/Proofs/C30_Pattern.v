(* C30 — proofs about the reference matcher of Model/C30_Pattern.v *)
From Coq Require Import ZArith List Bool Lia Permutation.
From Elk Require Import Model.C30_Pattern.
Import ListNotations.

(* ---------- induction principle for the nested inductive [pat] ---------- *)
Section PatInd.
  Variable P : pat -> Prop.
  Hypothesis Hlit : forall a, P (PLit a).
  Hypothesis Hcmp : forall o z, P (PCmp o z).
  Hypothesis Hrange : forall k lo hi, P (PRange k lo hi).
  Hypothesis Hbind : forall x, P (PBind x).
  Hypothesis Hwild : P PWild.
  Hypothesis Hseq : forall t pre r post, Forall P pre -> Forall P post -> P (PSeq t pre r post).
  Hypothesis Hdict : forall rc es, Forall (fun kp => P (snd kp)) es -> P (PDict rc es).
  Hypothesis Hor : forall p q, P p -> P q -> P (POr p q).
  Hypothesis Hand : forall p q, P p -> P q -> P (PAnd p q).
  Hypothesis Has : forall p x, P p -> P (PAs p x).

  Fixpoint pat_ind2 (p : pat) : P p :=
    match p with
    | PLit a => Hlit a
    | PCmp o z => Hcmp o z
    | PRange k lo hi => Hrange k lo hi
    | PBind x => Hbind x
    | PWild => Hwild
    | PSeq t pre r post =>
        Hseq t pre r post
          ((fix go (l : list pat) : Forall P l :=
              match l with [] => Forall_nil P | x :: l' => Forall_cons x (pat_ind2 x) (go l') end) pre)
          ((fix go (l : list pat) : Forall P l :=
              match l with [] => Forall_nil P | x :: l' => Forall_cons x (pat_ind2 x) (go l') end) post)
    | PDict rc es =>
        Hdict rc es
          ((fix go (l : list (atom * pat)) : Forall (fun kp => P (snd kp)) l :=
              match l with
              | [] => Forall_nil _
              | x :: l' => Forall_cons x (pat_ind2 (snd x)) (go l')
              end) es)
    | POr p q => Hor p q (pat_ind2 p) (pat_ind2 q)
    | PAnd p q => Hand p q (pat_ind2 p) (pat_ind2 q)
    | PAs p x => Has p x (pat_ind2 p)
    end.
End PatInd.

(* ---------- switch selects the least matching index ---------- *)
Lemma switch_from_some : forall cs v i k e,
  switch_from i cs v = Some (k, e) ->
  exists j p, k = (i + j)%nat /\ nth_error cs j = Some p /\ matches p v = Some e /\
              forall j' q, (j' < j)%nat -> nth_error cs j' = Some q -> matches q v = None.
Proof.
  induction cs as [|c cs IH]; intros v i k e H; cbn [switch_from] in H; [discriminate|].
  destruct (matches c v) as [e0|] eqn:Hc.
  - inversion H; subst. exists 0%nat, c.
    split; [lia|]. split; [reflexivity|]. split; [exact Hc|]. intros j' q Hlt; lia.
  - apply IH in H. destruct H as (j & p & Hk & Hn & Hm & Hall).
    exists (S j), p. split; [lia|]. split; [exact Hn|]. split; [exact Hm|].
    intros j' q Hlt Hq. destruct j' as [|j']; cbn in Hq.
    + inversion Hq; subst; exact Hc.
    + eapply Hall; [|exact Hq]. lia.
Qed.

Lemma switch_from_complete : forall cs v i j p e,
  nth_error cs j = Some p -> matches p v = Some e ->
  (forall j' q, (j' < j)%nat -> nth_error cs j' = Some q -> matches q v = None) ->
  switch_from i cs v = Some ((i + j)%nat, e).
Proof.
  induction cs as [|c cs IH]; intros v i j p e Hn Hm Hall.
  - destruct j; discriminate.
  - cbn [switch_from]. destruct j as [|j]; cbn in Hn.
    + inversion Hn; subst. rewrite Hm. f_equal. f_equal. lia.
    + rewrite (Hall 0%nat c); [|lia|reflexivity].
      rewrite (IH v (S i) j p e Hn Hm).
      * f_equal. f_equal. lia.
      * intros j' q Hlt Hq. apply (Hall (S j') q); [lia|exact Hq].
Qed.

Lemma switch_from_none : forall cs v i,
  switch_from i cs v = None <-> (forall p, In p cs -> matches p v = None).
Proof.
  induction cs as [|c cs IH]; intros v i; cbn [switch_from].
  - split; [intros _ p []|reflexivity].
  - destruct (matches c v) as [e0|] eqn:Hc.
    + split; [discriminate|]. intros H. rewrite (H c) in Hc; [discriminate|left; reflexivity].
    + rewrite IH. split.
      * intros H p [<-|Hin]; auto.
      * intros H p Hin. apply H. right; exact Hin.
Qed.

Lemma first_match : forall cs v i e,
  switch cs v = Some (i, e) <->
  exists p, nth_error cs i = Some p /\ matches p v = Some e /\
            forall j q, (j < i)%nat -> nth_error cs j = Some q -> matches q v = None.
Proof.
  intros cs v i e. unfold switch. split.
  - intros H. apply switch_from_some in H. destruct H as (j & p & Hk & Hn & Hm & Hall).
    cbn in Hk; subst j. exists p; auto.
  - intros (p & Hn & Hm & Hall).
    exact (switch_from_complete cs v 0%nat i p e Hn Hm Hall).
Qed.

Lemma no_match : forall cs v,
  switch cs v = None <-> (forall p, In p cs -> matches p v = None).
Proof. intros; apply switch_from_none. Qed.

Lemma switch_deterministic : forall cs v i1 e1 i2 e2,
  switch cs v = Some (i1, e1) -> switch cs v = Some (i2, e2) -> i1 = i2 /\ e1 = e2.
Proof. intros cs v i1 e1 i2 e2 H1 H2. rewrite H1 in H2. inversion H2; auto. Qed.

(* ---------- bindings: domain ---------- *)
Lemma match_all_length : forall m ps vs e, match_all m ps vs = Some e -> length ps = length vs.
Proof.
  induction ps as [|p ps IH]; intros [|v vs] e H; cbn in H; try discriminate; auto.
  destruct (m p v); [|discriminate].
  destruct (match_all m ps vs) eqn:Hr; [|discriminate].
  cbn. f_equal. eapply IH; eauto.
Qed.

Lemma match_all_dom : forall (f : pat -> list var) ps,
  Forall (fun p => forall v e, matches p v = Some e -> map fst e = f p) ps ->
  forall vs e, match_all matches ps vs = Some e -> map fst e = flat_map f ps.
Proof.
  intros f ps HF. induction HF as [|p ps Hp HF IH]; intros [|v vs] e H; cbn in H; try discriminate.
  - inversion H; reflexivity.
  - destruct (matches p v) as [e1|] eqn:H1; [|discriminate].
    destruct (match_all matches ps vs) as [e2|] eqn:H2; [|discriminate].
    inversion H; subst. rewrite map_app. cbn [flat_map]. f_equal; eauto.
Qed.

Lemma match_dict_dom : forall (f : pat -> list var) kvs es,
  Forall (fun kp => forall v e, matches (snd kp) v = Some e -> map fst e = f (snd kp)) es ->
  forall e, match_dict matches kvs es = Some e -> map fst e = flat_map (fun kp => f (snd kp)) es.
Proof.
  intros f kvs es HF. induction HF as [|[k p] es Hp HF IH]; intros e H; cbn in H.
  - inversion H; reflexivity.
  - destruct (matches p (lookup k kvs)) as [e1|] eqn:H1; [|discriminate].
    destruct (match_dict matches kvs es) as [e2|] eqn:H2; [|discriminate].
    inversion H; subst. rewrite map_app. cbn [flat_map snd]. f_equal; eauto.
Qed.

Lemma var_list_eqb_eq : forall a b, var_list_eqb a b = true -> a = b.
Proof.
  unfold var_list_eqb. induction a as [|x a IH]; intros [|y b] H; cbn in H; try discriminate; auto.
  apply andb_true_iff in H. destruct H as [Hl H]. cbn in H. apply andb_true_iff in H. destruct H as [Hx H].
  apply Z.eqb_eq in Hx. subst. f_equal. apply IH. apply andb_true_iff. split; auto.
Qed.

Lemma Forall_forallb_imp : forall (A : Type) (f : A -> bool) (P : A -> Prop) l,
  Forall (fun x => f x = true -> P x) l -> forallb f l = true -> Forall P l.
Proof.
  intros A f P l H. induction H as [|x l Hx H IH]; intros Hb; [constructor|].
  cbn in Hb. apply andb_true_iff in Hb. destruct Hb. constructor; auto.
Qed.

Lemma rest_env_dom : forall r m, map fst (rest_env r m) = rest_vars r.
Proof. intros [| |x] m; reflexivity. Qed.

Lemma bindings_balanced : forall p, balanced p = true ->
  forall v e, matches p v = Some e -> map fst e = bound_vars p.
Proof.
  induction p as [a|o z|k lo hi|x| |t pre r post IHpre IHpost|rc es IHes|p1 p2 IHp1 IHp2|p1 p2 IHp1 IHp2|p x IHp] using pat_ind2; intros Hb v e H; cbn [matches] in H.
  - destruct v as [b| | | |]; try discriminate. destruct (atom_eqb a b); inversion H; reflexivity.
  - destruct v as [[n| | | |]| | | |]; try discriminate. destruct (cmp o n z); inversion H; reflexivity.
  - destruct v as [[n| | | |]| | | |]; try discriminate. destruct (in_range k lo hi n); inversion H; reflexivity.
  - inversion H; reflexivity.
  - inversion H; reflexivity.
  - cbn [balanced] in Hb. apply andb_true_iff in Hb. destruct Hb as [Hb1 Hb2].
    destruct (seq_elems t v) as [l|]; [|discriminate].
    destruct (len_ok r (length pre + length post) (length l)); [|discriminate].
    destruct (match_all matches pre _) as [e1|] eqn:H1; [|discriminate].
    destruct (match_all matches post _) as [e3|] eqn:H3; [|discriminate].
    inversion H; subst. rewrite !map_app, rest_env_dom. cbn [bound_vars].
    f_equal; [|f_equal].
    + eapply match_all_dom; [|exact H1].
      eapply Forall_forallb_imp with (f := balanced); [|exact Hb1].
      eapply Forall_impl; [|exact IHpre]. cbn. intros a0 Ha Hba; exact (Ha Hba).
    + eapply match_all_dom; [|exact H3].
      eapply Forall_forallb_imp with (f := balanced); [|exact Hb2].
      eapply Forall_impl; [|exact IHpost]. cbn. intros a0 Ha Hba; exact (Ha Hba).
  - cbn [balanced] in Hb.
    destruct (dict_entries rc v) as [kvs|]; [|discriminate].
    cbn [bound_vars]. eapply match_dict_dom; [|exact H].
    eapply Forall_forallb_imp with (f := fun kp => balanced (snd kp)); [|exact Hb].
    eapply Forall_impl; [|exact IHes]. cbn. intros a0 Ha Hba; exact (Ha Hba).
  - cbn [balanced] in Hb. apply andb_true_iff in Hb. destruct Hb as [Hb Heq].
    apply andb_true_iff in Hb. destruct Hb as [Hb1 Hb2]. apply var_list_eqb_eq in Heq.
    cbn [bound_vars]. destruct (matches p1 v) as [e1|] eqn:H1.
    + inversion H; subst. eauto.
    + rewrite Heq. eauto.
  - cbn [balanced] in Hb. apply andb_true_iff in Hb. destruct Hb as [Hb1 Hb2].
    destruct (matches p1 v) as [e1|] eqn:H1; [|discriminate].
    destruct (matches p2 v) as [e2|] eqn:H2; [|discriminate].
    inversion H; subst. rewrite map_app. cbn [bound_vars]. f_equal; eauto.
  - cbn [balanced] in Hb. destruct (matches p v) as [e1|] eqn:H1; [|discriminate].
    inversion H; subst. cbn [map fst bound_vars]. f_equal. eauto.
Qed.

(* an alternative-free pattern is balanced and binds all of its variables *)
Lemma flat_map_ext_Forall : forall (A B : Type) (f g : A -> list B) l,
  Forall (fun x => f x = g x) l -> flat_map f l = flat_map g l.
Proof. intros A B f g l H. induction H; cbn; congruence. Qed.

Lemma orfree_balanced : forall p, orfree p = true -> balanced p = true /\ bound_vars p = vars p.
Proof.
  induction p as [a|o z|k lo hi|x| |t pre r post IHpre IHpost|rc es IHes|p1 p2 IHp1 IHp2|p1 p2 IHp1 IHp2|p x IHp] using pat_ind2; intros Ho; cbn [orfree] in Ho; cbn [balanced bound_vars vars]; auto.
  - apply andb_true_iff in Ho. destruct Ho as [Ho1 Ho2].
    assert (F1 : Forall (fun p => balanced p = true /\ bound_vars p = vars p) pre).
    { eapply Forall_forallb_imp with (f := orfree); [|exact Ho1]. exact IHpre. }
    assert (F2 : Forall (fun p => balanced p = true /\ bound_vars p = vars p) post).
    { eapply Forall_forallb_imp with (f := orfree); [|exact Ho2]. exact IHpost. }
    split.
    + apply andb_true_iff. split; apply forallb_forall; intros x Hx.
      * rewrite Forall_forall in F1. apply F1; exact Hx.
      * rewrite Forall_forall in F2. apply F2; exact Hx.
    + f_equal; [|f_equal]; apply flat_map_ext_Forall.
      * eapply Forall_impl; [|exact F1]. cbn. intros a0 [_ Ha]; exact Ha.
      * eapply Forall_impl; [|exact F2]. cbn. intros a0 [_ Ha]; exact Ha.
  - assert (F : Forall (fun kp => balanced (snd kp) = true /\ bound_vars (snd kp) = vars (snd kp)) es).
    { eapply Forall_forallb_imp with (f := fun kp => orfree (snd kp)); [|exact Ho]. exact IHes. }
    split.
    + apply forallb_forall. intros x Hx. rewrite Forall_forall in F. apply F; exact Hx.
    + apply flat_map_ext_Forall. eapply Forall_impl; [|exact F]. cbn. intros a0 [_ Ha]; exact Ha.
  - discriminate.
  - apply andb_true_iff in Ho. destruct Ho as [Ho1 Ho2].
    destruct (IHp1 Ho1) as [B1 E1]. destruct (IHp2 Ho2) as [B2 E2].
    rewrite B1, B2, E1, E2. auto.
  - destruct (IHp Ho) as [B E]. rewrite E. auto.
Qed.

Lemma bindings_orfree : forall p v e,
  orfree p = true -> matches p v = Some e -> map fst e = vars p.
Proof.
  intros p v e Ho H. destruct (orfree_balanced p Ho) as [B E]. rewrite <- E.
  eapply bindings_balanced; eauto.
Qed.

(* without any side condition: only variables of the pattern are bound *)
Lemma match_all_incl : forall ps,
  Forall (fun p => forall v e, matches p v = Some e -> incl (map fst e) (vars p)) ps ->
  forall vs e, match_all matches ps vs = Some e -> incl (map fst e) (flat_map vars ps).
Proof.
  intros ps HF. induction HF as [|p ps Hp HF IH]; intros [|v vs] e H; cbn in H; try discriminate.
  - inversion H. intros x [].
  - destruct (matches p v) as [e1|] eqn:H1; [|discriminate].
    destruct (match_all matches ps vs) as [e2|] eqn:H2; [|discriminate].
    inversion H; subst. rewrite map_app. cbn [flat_map].
    apply incl_app; [apply incl_appl|apply incl_appr]; eauto.
Qed.

Lemma match_dict_incl : forall kvs es,
  Forall (fun kp => forall v e, matches (snd kp) v = Some e -> incl (map fst e) (vars (snd kp))) es ->
  forall e, match_dict matches kvs es = Some e -> incl (map fst e) (flat_map (fun kp => vars (snd kp)) es).
Proof.
  intros kvs es HF. induction HF as [|[k p] es Hp HF IH]; intros e H; cbn in H.
  - inversion H. intros x [].
  - destruct (matches p (lookup k kvs)) as [e1|] eqn:H1; [|discriminate].
    destruct (match_dict matches kvs es) as [e2|] eqn:H2; [|discriminate].
    inversion H; subst. rewrite map_app. cbn [flat_map snd].
    apply incl_app; [apply incl_appl|apply incl_appr]; eauto.
Qed.

Lemma bindings_incl : forall p v e, matches p v = Some e -> incl (map fst e) (vars p).
Proof.
  induction p as [a|o z|k lo hi|x| |t pre r post IHpre IHpost|rc es IHes|p1 p2 IHp1 IHp2|p1 p2 IHp1 IHp2|p x IHp] using pat_ind2; intros v e H; cbn [matches] in H.
  - destruct v as [b| | | |]; try discriminate. destruct (atom_eqb a b); inversion H; intros x [].
  - destruct v as [[n| | | |]| | | |]; try discriminate. destruct (cmp o n z); inversion H; intros x [].
  - destruct v as [[n| | | |]| | | |]; try discriminate. destruct (in_range k lo hi n); inversion H; intros y [].
  - inversion H. cbn. apply incl_refl.
  - inversion H. intros x [].
  - destruct (seq_elems t v) as [l|]; [|discriminate].
    destruct (len_ok r (length pre + length post) (length l)); [|discriminate].
    destruct (match_all matches pre _) as [e1|] eqn:H1; [|discriminate].
    destruct (match_all matches post _) as [e3|] eqn:H3; [|discriminate].
    inversion H; subst. rewrite !map_app, rest_env_dom. cbn [vars].
    apply incl_app; [apply incl_appl|apply incl_appr; apply incl_app; [apply incl_appl|apply incl_appr]].
    + eapply match_all_incl; eauto.
    + apply incl_refl.
    + eapply match_all_incl; eauto.
  - destruct (dict_entries rc v) as [kvs|]; [|discriminate].
    cbn [vars]. eapply match_dict_incl; eauto.
  - cbn [vars]. destruct (matches p1 v) as [e1|] eqn:H1.
    + inversion H; subst. apply incl_appl. eauto.
    + apply incl_appr. eauto.
  - destruct (matches p1 v) as [e1|] eqn:H1; [|discriminate].
    destruct (matches p2 v) as [e2|] eqn:H2; [|discriminate].
    inversion H; subst. rewrite map_app. cbn [vars].
    apply incl_app; [apply incl_appl|apply incl_appr]; eauto.
  - destruct (matches p v) as [e1|] eqn:H1; [|discriminate].
    inversion H; subst. cbn [map fst vars].
    intros y [<-|Hy]; [left; reflexivity|right; eapply IHp; eauto].
Qed.

Lemma bindings_domain : forall p v e,
  matches p v = Some e ->
  incl (map fst e) (vars p) /\
  (balanced p = true -> map fst e = bound_vars p) /\
  (orfree p = true -> map fst e = vars p).
Proof.
  intros p v e H. split; [exact (bindings_incl p v e H)|]. split.
  - intros B. exact (bindings_balanced p B v e H).
  - intros O. exact (bindings_orfree p v e O H).
Qed.

Lemma or_left_biased : forall p q v,
  matches (POr p q) v = match matches p v with Some e => Some e | None => matches q v end.
Proof. reflexivity. Qed.

(* ---------- bindings: every bound value is a part of the scrutinee ---------- *)
Lemma In_firstn : forall (A : Type) (x : A) n l, In x (firstn n l) -> In x l.
Proof. intros A x n l H. rewrite <- (firstn_skipn n l). apply in_or_app; left; exact H. Qed.
Lemma In_skipn : forall (A : Type) (x : A) n l, In x (skipn n l) -> In x l.
Proof. intros A x n l H. rewrite <- (firstn_skipn n l). apply in_or_app; right; exact H. Qed.

Lemma match_all_part : forall ps,
  Forall (fun p => forall v e x w, matches p v = Some e -> In (x, w) e -> part v w) ps ->
  forall vs e x w, match_all matches ps vs = Some e -> In (x, w) e -> exists u, In u vs /\ part u w.
Proof.
  intros ps HF. induction HF as [|p ps Hp HF IH]; intros [|v vs] e x w H Hin; cbn in H; try discriminate.
  - inversion H; subst. destruct Hin.
  - destruct (matches p v) as [e1|] eqn:H1; [|discriminate].
    destruct (match_all matches ps vs) as [e2|] eqn:H2; [|discriminate].
    inversion H; subst. apply in_app_or in Hin. destruct Hin as [Hin|Hin].
    + exists v. split; [left; reflexivity|eauto].
    + destruct (IH vs e2 x w H2 Hin) as (u & Hu & Hp'). exists u. split; [right; exact Hu|exact Hp'].
Qed.

Lemma match_dict_part : forall kvs es,
  Forall (fun kp => forall v e x w, matches (snd kp) v = Some e -> In (x, w) e -> part v w) es ->
  forall e x w, match_dict matches kvs es = Some e -> In (x, w) e -> exists k, part (lookup k kvs) w.
Proof.
  intros kvs es HF. induction HF as [|[k p] es Hp HF IH]; intros e x w H Hin; cbn in H.
  - inversion H; subst. destruct Hin.
  - destruct (matches p (lookup k kvs)) as [e1|] eqn:H1; [|discriminate].
    destruct (match_dict matches kvs es) as [e2|] eqn:H2; [|discriminate].
    inversion H; subst. apply in_app_or in Hin. destruct Hin as [Hin|Hin].
    + exists k. eapply Hp; eauto.
    + eauto.
Qed.

Lemma skipn_skipn' : forall (A : Type) (a b : nat) (l : list A), skipn a (skipn b l) = skipn (b + a) l.
Proof.
  intros A a b. induction b as [|b IH]; intros l; cbn [skipn plus]; auto.
  destruct l as [|x l]; [destruct a; reflexivity|apply IH].
Qed.

Lemma split3 : forall (A : Type) (l : list A) np nq,
  (np + nq <= length l)%nat ->
  l = firstn np l ++ firstn (length l - np - nq) (skipn np l) ++ skipn (length l - nq) l.
Proof.
  intros A l np nq Hle.
  rewrite <- (firstn_skipn np l) at 1. f_equal.
  rewrite <- (firstn_skipn (length l - np - nq) (skipn np l)) at 1. f_equal.
  rewrite skipn_skipn'. f_equal. lia.
Qed.

Lemma len_ok_le : forall r k n, len_ok r k n = true -> (k <= n)%nat.
Proof.
  intros [| |x] k n H; cbn in H.
  - apply Nat.eqb_eq in H. lia.
  - apply Nat.leb_le in H. exact H.
  - apply Nat.leb_le in H. exact H.
Qed.

Lemma bindings_part : forall p v e x w, matches p v = Some e -> In (x, w) e -> part v w.
Proof.
  induction p as [a|o z|k lo hi|x| |t pre r post IHpre IHpost|rc es IHes|p1 p2 IHp1 IHp2|p1 p2 IHp1 IHp2|p x IHp] using pat_ind2; intros v e y w H Hin; cbn [matches] in H.
  - destruct v as [b| | | |]; try discriminate. destruct (atom_eqb a b); inversion H; subst; destruct Hin.
  - destruct v as [[n| | | |]| | | |]; try discriminate. destruct (cmp o n z); inversion H; subst; destruct Hin.
  - destruct v as [[n| | | |]| | | |]; try discriminate. destruct (in_range k lo hi n); inversion H; subst; destruct Hin.
  - inversion H; subst. destruct Hin as [Heq|[]]. inversion Heq; subst. constructor.
  - inversion H; subst. destruct Hin.
  - destruct (seq_elems t v) as [l|] eqn:Hs; [|discriminate].
    destruct (len_ok r (length pre + length post) (length l)) eqn:Hl; [|discriminate].
    destruct (match_all matches pre _) as [e1|] eqn:H1; [|discriminate].
    destruct (match_all matches post _) as [e3|] eqn:H3; [|discriminate].
    inversion H; subst. apply len_ok_le in Hl.
    apply in_app_or in Hin. destruct Hin as [Hin|Hin]; [|apply in_app_or in Hin; destruct Hin as [Hin|Hin]].
    + destruct (match_all_part pre IHpre _ _ _ _ H1 Hin) as (u & Hu & Hp).
      eapply part_elem; [exact Hs|eapply In_firstn; exact Hu|exact Hp].
    + destruct r as [| |z]; cbn in Hin; try destruct Hin as [Heq|[]]; try destruct Hin.
      inversion Heq; subst. eapply part_slice; [exact Hs|]. apply split3; exact Hl.
    + destruct (match_all_part post IHpost _ _ _ _ H3 Hin) as (u & Hu & Hp).
      eapply part_elem; [exact Hs|eapply In_skipn; exact Hu|exact Hp].
  - destruct (dict_entries rc v) as [kvs|] eqn:Hd; [|discriminate].
    destruct (match_dict_part kvs es IHes _ _ _ H Hin) as (k & Hp).
    eapply part_key; [exact Hd|exact Hp].
  - destruct (matches p1 v) as [e1|] eqn:H1.
    + inversion H; subst. eauto.
    + eauto.
  - destruct (matches p1 v) as [e1|] eqn:H1; [|discriminate].
    destruct (matches p2 v) as [e2|] eqn:H2; [|discriminate].
    inversion H; subst. apply in_app_or in Hin. destruct Hin; eauto.
  - destruct (matches p v) as [e1|] eqn:H1; [|discriminate].
    inversion H; subst. destruct Hin as [Heq|Hin].
    + inversion Heq; subst. constructor.
    + eauto.
Qed.

(* ---------- rest element: prefix ++ rest ++ suffix = the sequence ---------- *)
Lemma rest_partition : forall t pre x post v e,
  matches (PSeq t pre (RNamed x) post) v = Some e ->
  exists l a m b e1 e3,
    seq_elems t v = Some l /\ l = a ++ m ++ b /\
    length a = length pre /\ length b = length post /\
    match_all matches pre a = Some e1 /\ match_all matches post b = Some e3 /\
    e = e1 ++ [(x, VList m)] ++ e3.
Proof.
  intros t pre x post v e H. cbn [matches] in H.
  destruct (seq_elems t v) as [l|] eqn:Hs; [|discriminate].
  destruct (len_ok (RNamed x) (length pre + length post) (length l)) eqn:Hl; [|discriminate].
  destruct (match_all matches pre _) as [e1|] eqn:H1; [|discriminate].
  destruct (match_all matches post _) as [e3|] eqn:H3; [|discriminate].
  inversion H; subst. apply len_ok_le in Hl.
  exists l, (firstn (length pre) l),
    (firstn (length l - length pre - length post) (skipn (length pre) l)),
    (skipn (length l - length post) l), e1, e3.
  repeat split; auto.
  - apply split3; exact Hl.
  - symmetry. eapply match_all_length; exact H1.
  - symmetry. eapply match_all_length; exact H3.
Qed.

(* without a rest element the sequence has exactly as many elements as the pattern *)
Lemma norest_length : forall t pre post v e,
  matches (PSeq t pre RNone post) v = Some e ->
  exists l, seq_elems t v = Some l /\ length l = (length pre + length post)%nat.
Proof.
  intros t pre post v e H. cbn [matches] in H.
  destruct (seq_elems t v) as [l|] eqn:Hs; [|discriminate].
  destruct (len_ok RNone (length pre + length post) (length l)) eqn:Hl; [|discriminate].
  exists l. split; auto. cbn in Hl. apply Nat.eqb_eq in Hl. exact Hl.
Qed.

(* ---------- maps are finite maps: entry order is irrelevant ---------- *)
Lemma atom_eqb_eq : forall a b, atom_eqb a b = true <-> a = b.
Proof.
  intros [x|x|x| |x] [y|y|y| |y]; cbn; split; intros H; try discriminate; try reflexivity;
    try (apply Z.eqb_eq in H; subst; reflexivity);
    try (inversion H; subst; apply Z.eqb_refl).
  - apply Bool.eqb_prop in H. subst; reflexivity.
  - inversion H; subst. apply Bool.eqb_reflx.
Qed.

Lemma lookup_perm : forall kvs kvs',
  Permutation kvs kvs' -> NoDup (map fst kvs) -> forall k, lookup k kvs = lookup k kvs'.
Proof.
  intros kvs kvs' HP. induction HP as [|[k0 w0] l l' HP IH|[k1 w1] [k2 w2] l|l l' l'' HP1 IH1 HP2 IH2];
    intros ND k; cbn [lookup].
  - reflexivity.
  - cbn in ND. inversion ND; subst. rewrite IH; auto.
  - cbn in ND. inversion ND as [|? ? Hnot ND']; subst.
    destruct (atom_eqb k k1) eqn:E1; destruct (atom_eqb k k2) eqn:E2; auto.
    apply atom_eqb_eq in E1. apply atom_eqb_eq in E2. subst. exfalso. apply Hnot. left; reflexivity.
  - rewrite IH1; auto. apply IH2.
    eapply Permutation_NoDup; [|exact ND]. apply Permutation_map. exact HP1.
Qed.

Lemma match_dict_ext : forall m kvs kvs' es,
  (forall k, lookup k kvs = lookup k kvs') -> match_dict m kvs es = match_dict m kvs' es.
Proof.
  intros m kvs kvs' es Hl. induction es as [|[k p] es IH]; cbn; auto.
  rewrite Hl, IH. reflexivity.
Qed.

(* Which clause is selected does not depend on the order of the entries of a map / record
   scrutinee with distinct keys (the bound values may of course contain the reordered map). *)
Lemma dict_order_matched : forall p mk kvs kvs',
  (mk = VMap \/ mk = VRec) ->
  Permutation kvs kvs' -> NoDup (map fst kvs) ->
  matched (matches p (mk kvs)) = matched (matches p (mk kvs')).
Proof.
  induction p as [a|o z|k lo hi|x| |t pre r post IHpre IHpost|rc es IHes|p1 p2 IHp1 IHp2|p1 p2 IHp1 IHp2|p x IHp] using pat_ind2;
    intros mk kvs kvs' Hmk HP ND; cbn [matches].
  - destruct Hmk as [-> | ->]; reflexivity.
  - destruct Hmk as [-> | ->]; reflexivity.
  - destruct Hmk as [-> | ->]; reflexivity.
  - reflexivity.
  - reflexivity.
  - destruct Hmk as [-> | ->]; reflexivity.
  - destruct Hmk as [-> | ->]; cbn [dict_entries].
    + rewrite (match_dict_ext matches kvs kvs' es); [reflexivity|]. apply lookup_perm; auto.
    + destruct rc; [|reflexivity].
      rewrite (match_dict_ext matches kvs kvs' es); [reflexivity|]. apply lookup_perm; auto.
  - specialize (IHp1 mk kvs kvs' Hmk HP ND). specialize (IHp2 mk kvs kvs' Hmk HP ND).
    destruct (matches p1 (mk kvs)), (matches p1 (mk kvs')), (matches p2 (mk kvs)), (matches p2 (mk kvs'));
      cbn in *; congruence.
  - specialize (IHp1 mk kvs kvs' Hmk HP ND). specialize (IHp2 mk kvs kvs' Hmk HP ND).
    destruct (matches p1 (mk kvs)), (matches p1 (mk kvs')), (matches p2 (mk kvs)), (matches p2 (mk kvs'));
      cbn in *; congruence.
  - specialize (IHp mk kvs kvs' Hmk HP ND).
    destruct (matches p (mk kvs)), (matches p (mk kvs')); cbn in *; congruence.
Qed.

Lemma dict_order_selection : forall cs mk kvs kvs',
  (mk = VMap \/ mk = VRec) ->
  Permutation kvs kvs' -> NoDup (map fst kvs) ->
  option_map fst (switch cs (mk kvs)) = option_map fst (switch cs (mk kvs')).
Proof.
  intros cs mk kvs kvs' Hmk HP ND. unfold switch. generalize 0%nat.
  induction cs as [|c cs IH]; intros i; cbn [switch_from]; [reflexivity|].
  pose proof (dict_order_matched c mk kvs kvs' Hmk HP ND) as Hc.
  destruct (matches c (mk kvs)), (matches c (mk kvs')); cbn in *; try congruence; try reflexivity; apply IH.
Qed.

(* ---------- every variable is assigned when alternatives are balanced ---------- *)
Lemma env_get_in : forall x e w, env_get x e = Some w -> In (x, w) e.
Proof.
  intros x e. induction e as [|[y u] r IH]; intros w H; cbn [env_get] in H; [discriminate|].
  destruct (env_get x r) as [w'|] eqn:Hr.
  - inversion H; subst. right. apply IH. reflexivity.
  - destruct (Z.eqb x y) eqn:E; [|discriminate]. apply Z.eqb_eq in E. inversion H; subst. left; reflexivity.
Qed.

Lemma env_get_dom : forall x e, In x (map fst e) -> exists w, env_get x e = Some w.
Proof.
  intros x e. induction e as [|[y u] r IH]; intros H; [destruct H|]. cbn [env_get].
  destruct (env_get x r) as [w'|] eqn:Hr; [eexists; reflexivity|].
  destruct H as [H|H].
  - cbn in H. subst. rewrite Z.eqb_refl. eexists; reflexivity.
  - destruct (IH H) as [w Hw]. discriminate.
Qed.

Lemma bindings_total_balanced : forall p v e,
  balanced p = true -> matches p v = Some e ->
  forall x, In x (bound_vars p) -> exists w, env_get x e = Some w /\ part v w.
Proof.
  intros p v e B H x Hx. rewrite <- (bindings_balanced p B v e H) in Hx.
  destruct (env_get_dom x e Hx) as [w Hw]. exists w. split; [exact Hw|].
  eapply bindings_part; [exact H|]. apply env_get_in. exact Hw.
Qed.

(* [v1, 1] || [2, v2] on [5, 1]: accepted by the checker, matches, and v2 is never assigned *)
Lemma unbalanced_or_witness :
  exists p v e x, matches p v = Some e /\ In x (vars p) /\ env_get x e = None.
Proof.
  exists (POr (PSeq false [PBind 1%Z; PLit (AInt 1%Z)] RNone []) (PSeq false [PLit (AInt 2%Z); PBind 2%Z] RNone [])),
         (VList [VAtom (AInt 5%Z); VAtom (AInt 1%Z)]), [(1%Z, VAtom (AInt 5%Z))], 2%Z.
  repeat split; vm_compute; auto.
Qed.
