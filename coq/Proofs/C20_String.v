(* C20 - lemmas about the model of value/string.go (Model/C20_String.v). *)
From Coq Require Import ZifyBool ZifyNat.
From Elk Require Import Base.GoSem Base.Utf8 Model.C20_String
  Proofs.Utf8_Decode Proofs.Utf8_Encode Proofs.Utf8_Append.
Open Scope Z_scope.

(* the index a possibly negative i denotes in a sequence of n elements *)
Definition norm_index (n i : Z) : Z := if i <? 0 then n + i else i.

(* ---------------------------------------------------------------- small list facts *)

Lemma skipn_nth_cons {A} (d : A) : forall (l : list A) (k : nat),
  (k < length l)%nat -> skipn k l = nth k l d :: skipn (S k) l.
Proof.
  induction l as [|a l IH]; intros k H; cbn [length] in H; [lia|].
  destruct k as [|k]; [reflexivity|].
  cbn [skipn nth]. rewrite IH by lia. reflexivity.
Qed.

Lemma skipn_add {A} : forall (b a : nat) (l : list A), skipn (a + b) l = skipn a (skipn b l).
Proof.
  induction b as [|b IH]; intros a l.
  - rewrite Nat.add_0_r. reflexivity.
  - destruct l as [|x l].
    + rewrite !skipn_nil. reflexivity.
    + replace (a + S b)%nat with (S (a + b)) by lia. cbn [skipn]. apply IH.
Qed.

Lemma skipn_nil_iff {A} (l : list A) k : skipn k l = [] <-> (length l <= k)%nat.
Proof.
  split; intros H.
  - pose proof (skipn_length k l) as L. rewrite H in L. cbn in L. lia.
  - apply skipn_all2. exact H.
Qed.

Lemma repeat_list_length {A} (s : list A) k : length (repeat_list s k) = (k * length s)%nat.
Proof. induction k as [|k IH]; cbn [repeat_list]; [reflexivity|]. rewrite app_length, IH. lia. Qed.

Lemma nth_error_map_some {A B} (f : A -> B) l k a :
  nth_error l k = Some a -> nth_error (map f l) k = Some (f a).
Proof. intros H. rewrite nth_error_map, H. reflexivity. Qed.

(* ---------------------------------------------------------------- counts and iterators *)

Lemma chars_length s : Z.of_nat (length (chars s)) = char_count s.
Proof. unfold chars, char_count, rune_count. rewrite map_length. reflexivity. Qed.

Lemma chars_cons b t :
  chars (b :: t) =
    (if (fst (decode_rune (b :: t)) =? RuneError) && (snd (decode_rune (b :: t)) =? 1)
     then b else fst (decode_rune (b :: t)))
      :: chars (skipn (Z.to_nat (snd (decode_rune (b :: t)))) (b :: t)).
Proof. unfold chars. rewrite decode_steps_cons. reflexivity. Qed.

Lemma drain_char_iter s : forall fuel off,
  0 <= off -> (length (skipn (Z.to_nat off) s) < fuel)%nat ->
  drain (char_iter_next s) fuel off = Some (chars (skipn (Z.to_nat off) s)).
Proof.
  induction fuel as [|f IH]; intros off H0 Hf; [lia|].
  cbn [drain]. unfold char_iter_next, byte_count.
  destruct (off >=? Z.of_nat (length s)) eqn:E.
  - rewrite skipn_all2 by lia. reflexivity.
  - destruct (skipn (Z.to_nat off) s) as [|b t] eqn:R.
    { apply skipn_nil_iff in R. lia. }
    rewrite chars_cons. destruct (decode_rune (b :: t)) as [r n] eqn:D. cbn [fst snd hd].
    pose proof (decode_rune_size_pos b t) as P. rewrite D in P. cbn [snd] in P.
    rewrite IH.
    + replace (Z.to_nat (off + n)) with (Z.to_nat n + Z.to_nat off)%nat by lia.
      rewrite skipn_add, R. reflexivity.
    + lia.
    + replace (Z.to_nat (off + n)) with (Z.to_nat n + Z.to_nat off)%nat by lia.
      rewrite skipn_add, R. rewrite skipn_length. cbn [length] in *. lia.
Qed.

Lemma char_iter_all_chars s : char_iter_all s = Some (chars s).
Proof. unfold char_iter_all. rewrite drain_char_iter; [reflexivity|lia|]. cbn [Z.to_nat skipn]. lia. Qed.

Lemma drain_byte_iter s : forall fuel off,
  0 <= off -> (length (skipn (Z.to_nat off) s) < fuel)%nat ->
  drain (byte_iter_next s) fuel off = Some (skipn (Z.to_nat off) s).
Proof.
  induction fuel as [|f IH]; intros off H0 Hf; [lia|].
  cbn [drain]. unfold byte_iter_next, byte_count.
  destruct (off >=? Z.of_nat (length s)) eqn:E.
  - rewrite skipn_all2 by lia. reflexivity.
  - assert (K : (Z.to_nat off < length s)%nat) by lia.
    rewrite skipn_length in Hf.
    rewrite IH; [|lia|rewrite skipn_length; lia].
    rewrite (skipn_nth_cons 0 s (Z.to_nat off) K).
    replace (Z.to_nat (off + 1)) with (S (Z.to_nat off)) by lia. reflexivity.
Qed.

Lemma byte_iter_all_bytes s : byte_iter_all s = Some s.
Proof. unfold byte_iter_all. rewrite drain_byte_iter; [reflexivity|lia|]. cbn [Z.to_nat skipn]. lia. Qed.

Lemma drain_grapheme_iter : forall (st : list (list Z)) fuel,
  (forall c, In c st -> c <> []) -> (length st < fuel)%nat ->
  drain grapheme_iter_next fuel st = Some st.
Proof.
  induction st as [|c r IH]; intros fuel Hne Hf.
  - destruct fuel; [lia|]. reflexivity.
  - destruct fuel as [|f]; [lia|]. cbn [drain]. unfold grapheme_iter_next.
    assert (Hc : c <> []) by (apply Hne; left; reflexivity).
    cbn [concat]. destruct c as [|x c']; [contradiction|]. cbn [app].
    rewrite IH; [reflexivity| |cbn [length] in Hf; lia].
    intros c0 Hin. apply Hne. right. exact Hin.
Qed.

Section WithOracle.
Variable gseg : list Z -> list (list Z).
Hypothesis gseg_concat : forall s, concat (gseg s) = s.
Hypothesis gseg_nonempty : forall s c, In c (gseg s) -> c <> [].

Lemma grapheme_iter_all_clusters s : grapheme_iter_all gseg s = Some (gseg s).
Proof. unfold grapheme_iter_all. apply drain_grapheme_iter; [apply gseg_nonempty|lia]. Qed.

Lemma concat_length_ge (l : list (list Z)) :
  (forall c, In c l -> c <> []) -> (length l <= length (concat l))%nat.
Proof.
  induction l as [|c r IH]; intros H; [cbn; lia|].
  cbn [concat length]. rewrite app_length.
  assert (Hc : c <> []) by (apply H; left; reflexivity).
  destruct c; [contradiction|]. cbn [length].
  specialize (IH (fun c0 Hin => H c0 (or_intror Hin))). lia.
Qed.

Lemma grapheme_count_le_bytes s : grapheme_count gseg s <= byte_count s.
Proof.
  unfold grapheme_count, byte_count.
  pose proof (concat_length_ge (gseg s) (gseg_nonempty s)) as H.
  rewrite gseg_concat in H. lia.
Qed.

Lemma counts_all s :
  char_count s = Z.of_nat (length (chars s)) /\
  byte_count s = Z.of_nat (length s) /\
  grapheme_count gseg s = Z.of_nat (length (gseg s)) /\
  char_iter_all s = Some (chars s) /\
  byte_iter_all s = Some s /\
  grapheme_iter_all gseg s = Some (gseg s).
Proof.
  repeat split.
  - symmetry. apply chars_length.
  - apply char_iter_all_chars.
  - apply byte_iter_all_bytes.
  - apply grapheme_iter_all_clusters.
Qed.

(* ---------------------------------------------------------------- indexed access *)

Lemma get_loop_spec : forall l j i, j <= i ->
  get_loop l j i =
    match nth_error (map char_of_step l) (Z.to_nat (i - j)) with
    | Some c => Ok c | None => Err E_INDEX end.
Proof.
  induction l as [|x l IH]; intros j i H.
  - cbn [get_loop map]. destruct (Z.to_nat (i - j)); reflexivity.
  - cbn [get_loop map]. destruct (j =? i) eqn:E.
    + replace (i - j) with 0 by lia. reflexivity.
    + rewrite IH by lia. replace (Z.to_nat (i - j)) with (S (Z.to_nat (i - (j + 1)))) by lia.
      reflexivity.
Qed.

Lemma gat_loop_spec : forall (l : list (list Z)) j i, j <= i ->
  gat_loop l j i =
    match nth_error l (Z.to_nat (i - j)) with
    | Some c => Ok c | None => Err E_INDEX end.
Proof.
  induction l as [|x l IH]; intros j i H.
  - cbn [gat_loop]. destruct (Z.to_nat (i - j)); reflexivity.
  - cbn [gat_loop]. destruct (j =? i) eqn:E.
    + replace (i - j) with 0 by lia. reflexivity.
    + rewrite IH by lia. replace (Z.to_nat (i - j)) with (S (Z.to_nat (i - (j + 1)))) by lia.
      reflexivity.
Qed.

Lemma nth_error_in_range {A} (l : list A) k :
  (k < length l)%nat -> exists a, nth_error l k = Some a.
Proof.
  intros H. destruct (nth_error l k) eqn:E; [eauto|]. apply nth_error_None in E. lia.
Qed.

Lemma fits64_small i n : n <= max64 -> - n <= i < n -> fits64 i = true.
Proof. intros Hn Hi. apply fits64_iff. unfold min64, max64 in *. lia. Qed.

Lemma char_at_spec s i :
  byte_count s <= max64 ->
  let n := Z.of_nat (length (chars s)) in
  (- n <= i < n ->
     exists c, nth_error (chars s) (Z.to_nat (norm_index n i)) = Some c /\ char_at s i = Ok c) /\
  (~ (- n <= i < n) -> char_at s i = Err E_INDEX).
Proof.
  intros Hlen n.
  assert (Hn : n = char_count s) by apply chars_length.
  pose proof (rune_count_le_bytes s) as Hle. unfold byte_count in Hlen.
  split.
  - intros Hi. unfold char_at. rewrite (fits64_small i n) by (unfold char_count in *; lia).
    unfold get, norm_index. fold n in Hn. rewrite <- Hn.
    destruct (i <? 0) eqn:E.
    + assert (X : (n + i <? 0) = false) by lia. rewrite X.
      rewrite get_loop_spec by lia. fold (chars s). rewrite Z.sub_0_r.
      destruct (nth_error_in_range (chars s) (Z.to_nat (n + i))) as [c Hc]; [lia|].
      rewrite Hc. eauto.
    + rewrite get_loop_spec by lia. fold (chars s). rewrite Z.sub_0_r.
      destruct (nth_error_in_range (chars s) (Z.to_nat i)) as [c Hc]; [lia|].
      rewrite Hc. eauto.
  - intros Hi. unfold char_at. destruct (fits64 i); [|reflexivity].
    unfold get. rewrite <- Hn.
    destruct (i <? 0) eqn:E.
    + assert (X : (n + i <? 0) = true) by lia. rewrite X. reflexivity.
    + rewrite get_loop_spec by lia. fold (chars s). rewrite Z.sub_0_r.
      assert (N : nth_error (chars s) (Z.to_nat i) = None) by (apply nth_error_None; lia).
      rewrite N. reflexivity.
Qed.

Lemma byte_at_spec s i :
  byte_count s <= max64 ->
  let n := Z.of_nat (length s) in
  (- n <= i < n ->
     exists b, nth_error s (Z.to_nat (norm_index n i)) = Some b /\ byte_at s i = Ok b) /\
  (~ (- n <= i < n) -> byte_at s i = Err E_INDEX).
Proof.
  intros Hlen n. unfold byte_count in Hlen. split.
  - intros Hi. unfold byte_at. rewrite (fits64_small i n) by lia.
    unfold byte_at_int, byte_count, norm_index. fold n.
    assert (X : ((i >=? n) || (i <? - n)) = false) by lia. rewrite X.
    destruct (nth_error_in_range s (Z.to_nat (if i <? 0 then n + i else i))) as [b Hb].
    { destruct (i <? 0) eqn:E; lia. }
    exists b. split; [exact Hb|]. f_equal. apply nth_error_nth. exact Hb.
  - intros Hi. unfold byte_at. destruct (fits64 i); [|reflexivity].
    unfold byte_at_int, byte_count. fold n.
    assert (X : ((i >=? n) || (i <? - n)) = true) by lia. rewrite X. reflexivity.
Qed.

Lemma grapheme_at_spec s i :
  byte_count s <= max64 ->
  let n := Z.of_nat (length (gseg s)) in
  (- n <= i < n ->
     exists c, nth_error (gseg s) (Z.to_nat (norm_index n i)) = Some c /\ grapheme_at gseg s i = Ok c) /\
  (~ (- n <= i < n) -> grapheme_at gseg s i = Err E_INDEX).
Proof.
  intros Hlen n.
  pose proof (grapheme_count_le_bytes s) as Hle. unfold grapheme_count in Hle. fold n in Hle.
  split.
  - intros Hi. unfold grapheme_at. rewrite (fits64_small i n) by lia.
    unfold grapheme_at_int, grapheme_count, norm_index. fold n.
    destruct (i <? 0) eqn:E.
    + assert (X : (n + i <? 0) = false) by lia. rewrite X.
      rewrite gat_loop_spec by lia. rewrite Z.sub_0_r.
      destruct (nth_error_in_range (gseg s) (Z.to_nat (n + i))) as [c Hc]; [lia|].
      rewrite Hc. eauto.
    + rewrite gat_loop_spec by lia. rewrite Z.sub_0_r.
      destruct (nth_error_in_range (gseg s) (Z.to_nat i)) as [c Hc]; [lia|].
      rewrite Hc. eauto.
  - intros Hi. unfold grapheme_at. destruct (fits64 i); [|reflexivity].
    unfold grapheme_at_int, grapheme_count. fold n.
    destruct (i <? 0) eqn:E.
    + assert (X : (n + i <? 0) = true) by lia. rewrite X. reflexivity.
    + rewrite gat_loop_spec by lia. rewrite Z.sub_0_r.
      assert (N : nth_error (gseg s) (Z.to_nat i) = None) by (apply nth_error_None; lia).
      rewrite N. reflexivity.
Qed.

Lemma index_all s i :
  byte_count s <= max64 ->
  (let n := Z.of_nat (length (chars s)) in
   (- n <= i < n ->
      exists c, nth_error (chars s) (Z.to_nat (norm_index n i)) = Some c /\ char_at s i = Ok c) /\
   (~ (- n <= i < n) -> char_at s i = Err E_INDEX)) /\
  (let n := Z.of_nat (length s) in
   (- n <= i < n ->
      exists b, nth_error s (Z.to_nat (norm_index n i)) = Some b /\ byte_at s i = Ok b) /\
   (~ (- n <= i < n) -> byte_at s i = Err E_INDEX)) /\
  (let n := Z.of_nat (length (gseg s)) in
   (- n <= i < n ->
      exists c, nth_error (gseg s) (Z.to_nat (norm_index n i)) = Some c /\ grapheme_at gseg s i = Ok c) /\
   (~ (- n <= i < n) -> grapheme_at gseg s i = Err E_INDEX)).
Proof.
  intros H. split; [apply char_at_spec; exact H|split; [apply byte_at_spec; exact H|apply grapheme_at_spec; exact H]].
Qed.

End WithOracle.

(* ---------------------------------------------------------------- justification *)

Lemma chars_app_fresh s t : starts_fresh t = true -> chars (s ++ t) = chars s ++ chars t.
Proof. intros H. unfold chars. rewrite decode_steps_app_fresh by exact H. apply map_app. Qed.

Lemma chars_app_valid s t : valid_string s = true -> chars (s ++ t) = chars s ++ chars t.
Proof. intros H. unfold chars. rewrite decode_steps_app_valid by exact H. apply map_app. Qed.

Lemma chars_encode r t : chars (encode_rune r ++ t) = norm_rune r :: chars t.
Proof.
  unfold chars. rewrite decode_steps_encode. cbn [map]. f_equal.
  unfold char_of_step. rewrite encode_step_valid. reflexivity.
Qed.

Lemma padding_fresh k c t : starts_fresh (repeat_list (encode_rune c) k ++ t) = starts_fresh t \/
                            starts_fresh (repeat_list (encode_rune c) k ++ t) = true.
Proof.
  destruct k as [|k]; [left; reflexivity|right].
  cbn [repeat_list]. rewrite <- app_assoc. apply encode_rune_starts_fresh.
Qed.

Lemma padding_starts_fresh k c : starts_fresh (repeat_list (encode_rune c) k) = true.
Proof.
  destruct (padding_fresh k c []) as [H|H]; rewrite app_nil_r in H; exact H.
Qed.

Lemma chars_padding_app k c t :
  chars (repeat_list (encode_rune c) k ++ t) = List.repeat (norm_rune c) k ++ chars t.
Proof.
  induction k as [|k IH]; [reflexivity|].
  cbn [repeat_list List.repeat]. rewrite <- app_assoc, chars_encode, IH. reflexivity.
Qed.

Lemma chars_padding k c : chars (repeat_list (encode_rune c) k) = List.repeat (norm_rune c) k.
Proof.
  pose proof (chars_padding_app k c []) as H. rewrite !app_nil_r in H. exact H.
Qed.

Lemma char_count_chars s : char_count s = Z.of_nat (length (chars s)).
Proof. symmetry. apply chars_length. Qed.

Lemma just_all s w c :
  let k := Z.to_nat (w - char_count s) in
  rjust s w c = padding (w - char_count s) c ++ s /\
  ljust s w c = s ++ padding (w - char_count s) c /\
  chars (rjust s w c) = List.repeat (norm_rune c) k ++ chars s /\
  chars (ljust s w c) = chars s ++ List.repeat (norm_rune c) k /\
  char_count (rjust s w c) = Z.max w (char_count s) /\
  char_count (ljust s w c) = Z.max w (char_count s).
Proof.
  intros k.
  assert (R : rjust s w c = padding (w - char_count s) c ++ s).
  { unfold rjust. destruct (char_count s >=? w) eqn:E; [|reflexivity].
    unfold padding. replace (Z.to_nat (w - char_count s)) with 0%nat by lia. reflexivity. }
  assert (L : ljust s w c = s ++ padding (w - char_count s) c).
  { unfold ljust. destruct (char_count s >=? w) eqn:E; [|reflexivity].
    unfold padding. replace (Z.to_nat (w - char_count s)) with 0%nat by lia.
    cbn [repeat_list]. rewrite app_nil_r. reflexivity. }
  assert (CR : chars (rjust s w c) = List.repeat (norm_rune c) k ++ chars s).
  { rewrite R. unfold padding. apply chars_padding_app. }
  assert (CL : chars (ljust s w c) = chars s ++ List.repeat (norm_rune c) k).
  { rewrite L. unfold padding. rewrite chars_app_fresh by apply padding_starts_fresh.
    rewrite chars_padding. reflexivity. }
  pose proof (rune_count_nonneg s) as NN. change (rune_count s) with (char_count s) in NN.
  repeat split; try assumption.
  - rewrite <- (chars_length (rjust s w c)), CR, app_length, repeat_length, Nat2Z.inj_add, (chars_length s).
    subst k. lia.
  - rewrite <- (chars_length (ljust s w c)), CL, app_length, repeat_length, Nat2Z.inj_add, (chars_length s).
    subst k. lia.
Qed.

(* ---------------------------------------------------------------- + and * *)

Lemma concat_all s t c :
  byte_count (concat_string s t) = byte_count s + byte_count t /\
  (valid_string s = true \/ starts_fresh t = true ->
     chars (concat_string s t) = chars s ++ chars t /\
     char_count (concat_string s t) = char_count s + char_count t) /\
  concat_char s c = concat_string s (encode_rune c) /\
  chars (concat_char s c) = chars s ++ [norm_rune c] /\
  char_count (concat_char s c) = char_count s + 1.
Proof.
  unfold concat_string, concat_char, byte_count.
  assert (F : starts_fresh (encode_rune c) = true).
  { pose proof (encode_rune_starts_fresh c []) as H. rewrite app_nil_r in H. exact H. }
  assert (C1 : chars (encode_rune c) = [norm_rune c]).
  { pose proof (chars_encode c []) as H. rewrite app_nil_r in H. exact H. }
  repeat split.
  - rewrite app_length. lia.
  - destruct H as [H|H]; [apply chars_app_valid|apply chars_app_fresh]; exact H.
  - unfold char_count. destruct H as [H|H]; [apply rune_count_app_valid|apply rune_count_app_fresh]; exact H.
  - rewrite chars_app_fresh by exact F. rewrite C1. reflexivity.
  - unfold char_count. rewrite rune_count_app_fresh by exact F.
    rewrite (rune_count_runes (encode_rune c)).
    pose proof (runes_encode c []) as H. rewrite app_nil_r in H. rewrite H. reflexivity.
Qed.

Lemma valid_repeat_list s k : valid_string s = true -> valid_string (repeat_list s k) = true.
Proof.
  intros H. induction k as [|k IH]; [reflexivity|]. cbn [repeat_list]. apply valid_string_app; assumption.
Qed.

Lemma rune_count_repeat_list s k :
  valid_string s = true -> rune_count (repeat_list s k) = Z.of_nat k * rune_count s.
Proof.
  intros H. induction k as [|k IH]; [reflexivity|].
  cbn [repeat_list]. rewrite rune_count_app_valid by exact H. rewrite IH. lia.
Qed.

Lemma repeat_all s n :
  (fits64 n = false -> repeat s n = Err E_RANGE) /\
  (fits64 n = true -> n < 0 -> repeat s n = Err E_RANGE) /\
  (fits64 n = true -> 0 <= n -> byte_count s * n <= max64 ->
     repeat s n = Ok (repeat_list s (Z.to_nat n)) /\
     byte_count (repeat_list s (Z.to_nat n)) = n * byte_count s /\
     (valid_string s = true -> char_count (repeat_list s (Z.to_nat n)) = n * char_count s)) /\
  (fits64 n = true -> 2 <= n -> byte_count s * n > max64 -> repeat s n = Panic P_REPEAT_OVERFLOW).
Proof.
  unfold repeat, repeat_int. split; [|split; [|split]].
  - intros F. rewrite F. reflexivity.
  - intros F Hn. rewrite F. assert (X : (n <? 0) = true) by lia. rewrite X. reflexivity.
  - intros F Hn Hb. rewrite F. assert (X : (n <? 0) = false) by lia. rewrite X.
    assert (Y : ((2 <=? n) && (byte_count s * n >? max64)) = false) by lia. rewrite Y.
    split; [reflexivity|]. split.
    + unfold byte_count. rewrite repeat_list_length, Nat2Z.inj_mul, Z2Nat.id by lia. reflexivity.
    + intros V. unfold char_count. rewrite rune_count_repeat_list by exact V.
      rewrite Z2Nat.id by lia. reflexivity.
  - intros F H2 H3. rewrite F. assert (X : (n <? 0) = false) by lia. rewrite X.
    assert (Y : ((2 <=? n) && (byte_count s * n >? max64)) = true) by lia. rewrite Y. reflexivity.
Qed.

(* ---------------------------------------------------------------- remove suffix *)

Lemma is_prefix_app p r : is_prefix p (p ++ r) = true.
Proof. induction p as [|a p IH]; [reflexivity|]. cbn [is_prefix app]. rewrite Z.eqb_refl, IH. reflexivity. Qed.

Lemma is_prefix_true : forall p l, is_prefix p l = true -> exists r, l = p ++ r.
Proof.
  induction p as [|a p IH]; intros l H; [exists l; reflexivity|].
  destruct l as [|b l]; [discriminate|]. cbn [is_prefix] in H.
  apply andb_prop in H. destruct H as [H1 H2]. apply Z.eqb_eq in H1. subst b.
  destruct (IH l H2) as [r ->]. exists r. reflexivity.
Qed.

Lemma cut_suffix_app p t : cut_suffix (p ++ t) t = p.
Proof.
  unfold cut_suffix. rewrite rev_app_distr, is_prefix_app, app_length.
  replace (length p + length t - length t)%nat with (length p + 0)%nat by lia.
  rewrite firstn_app_2. cbn [firstn]. apply app_nil_r.
Qed.

Lemma cut_suffix_other s t : (forall p, s <> p ++ t) -> cut_suffix s t = s.
Proof.
  intros H. unfold cut_suffix. destruct (is_prefix (rev t) (rev s)) eqn:E; [|reflexivity].
  exfalso. apply is_prefix_true in E. destruct E as [r E].
  apply (H (rev r)). rewrite <- (rev_involutive s), E, rev_app_distr, rev_involutive. reflexivity.
Qed.

Lemma remove_all :
  (forall p t, remove_suffix (p ++ t) t = p) /\
  (forall s t, (forall p, s <> p ++ t) -> remove_suffix s t = s) /\
  (forall s c, remove_suffix_char s c = remove_suffix s (encode_rune c)) /\
  (forall s c, remove_suffix_char (concat_char s c) c = s).
Proof.
  repeat split.
  - intros. apply cut_suffix_app.
  - intros. apply cut_suffix_other. assumption.
  - intros. unfold remove_suffix_char, concat_char. apply cut_suffix_app.
Qed.

(* ---------------------------------------------------------------- comparison *)

Lemma cmp_range : forall x y, cmp x y = -1 \/ cmp x y = 0 \/ cmp x y = 1.
Proof.
  induction x as [|a x IH]; destruct y as [|b y]; cbn [cmp]; try lia.
  destruct (a <? b); [lia|]. destruct (b <? a); [lia|]. apply IH.
Qed.

Lemma cmp_refl : forall x, cmp x x = 0.
Proof. induction x as [|a x IH]; [reflexivity|]. cbn [cmp]. rewrite Z.ltb_irrefl. exact IH. Qed.

Lemma cmp_eq : forall x y, cmp x y = 0 -> x = y.
Proof.
  induction x as [|a x IH]; destruct y as [|b y]; cbn [cmp]; intros H; try reflexivity; try lia.
  destruct (a <? b) eqn:E1; [lia|]. destruct (b <? a) eqn:E2; [lia|].
  f_equal; [lia|apply IH; exact H].
Qed.

Lemma cmp_antisym : forall x y, cmp y x = - cmp x y.
Proof.
  induction x as [|a x IH]; destruct y as [|b y]; cbn [cmp]; try reflexivity.
  destruct (a <? b) eqn:E1; destruct (b <? a) eqn:E2; first [lia | apply IH].
Qed.

Lemma cmp_trans : forall x y z, cmp x y <= 0 -> cmp y z <= 0 -> cmp x z <= 0.
Proof.
  induction x as [|a x IH]; destruct y as [|b y]; destruct z as [|c z]; cbn [cmp]; try lia.
  destruct (a <? b) eqn:E1; destruct (b <? a) eqn:E2; destruct (b <? c) eqn:E3; destruct (c <? b) eqn:E4;
    destruct (a <? c) eqn:E5; destruct (c <? a) eqn:E6; first [lia | apply IH].
Qed.

Lemma cmp_total_order :
  (forall x, cmp x x = 0) /\
  (forall x y, cmp x y <= 0 -> cmp y x <= 0 -> x = y) /\
  (forall x y z, cmp x y <= 0 -> cmp y z <= 0 -> cmp x z <= 0) /\
  (forall x y, cmp x y <= 0 \/ cmp y x <= 0) /\
  (forall x y, cmp y x = - cmp x y /\ (cmp x y = -1 \/ cmp x y = 0 \/ cmp x y = 1)) /\
  (forall x y, lt x y = (cmp x y =? -1) /\ le x y = negb (cmp x y =? 1) /\
               gt x y = (cmp x y =? 1) /\ ge x y = negb (cmp x y =? -1) /\
               (eqs x y = true <-> x = y)).
Proof.
  repeat split.
  - apply cmp_refl.
  - intros x y H1 H2. apply cmp_eq. rewrite (cmp_antisym x y) in H2. lia.
  - apply cmp_trans.
  - intros x y. rewrite (cmp_antisym x y). lia.
  - apply cmp_antisym.
  - apply cmp_range.
  - unfold lt. destruct (cmp_range x y) as [H|[H|H]]; rewrite H; reflexivity.
  - unfold le. destruct (cmp_range x y) as [H|[H|H]]; rewrite H; reflexivity.
  - unfold gt. destruct (cmp_range x y) as [H|[H|H]]; rewrite H; reflexivity.
  - unfold ge. destruct (cmp_range x y) as [H|[H|H]]; rewrite H; reflexivity.
  - unfold eqs. intros H. apply cmp_eq. lia.
  - unfold eqs. intros ->. rewrite cmp_refl. reflexivity.
Qed.

(* ---------------------------------------------------------------- case mapping *)

Lemma map_runes_encode_all f s : map_runes f s = encode_all (map f (runes s)).
Proof.
  unfold map_runes, encode_all, runes. rewrite !flat_map_concat_map, !map_map. reflexivity.
Qed.

Lemma case_all (f : Z -> Z) s :
  runes (map_runes f s) = map (fun r => norm_rune (f r)) (runes s) /\
  char_count (map_runes f s) = char_count s /\
  valid_string (map_runes f s) = true.
Proof.
  rewrite map_runes_encode_all. repeat split.
  - rewrite runes_encode_all, map_map. reflexivity.
  - unfold char_count. rewrite rune_count_encode_all, map_length, rune_count_runes. reflexivity.
  - apply valid_string_encode_all.
Qed.

(* ---------------------------------------------------------------- a grapheme oracle exists *)

(* one cluster per byte: satisfies both laws assumed of uniseg, so the hypotheses of the
   theorems are satisfiable *)
Definition gseg_bytes (s : list Z) : list (list Z) := map (fun b => [b]) s.

Lemma gseg_bytes_laws :
  (forall s, concat (gseg_bytes s) = s) /\ (forall s c, In c (gseg_bytes s) -> c <> []).
Proof.
  split.
  - induction s as [|b s IH]; [reflexivity|]. cbn. f_equal. exact IH.
  - intros s c H. unfold gseg_bytes in H. apply in_map_iff in H. destruct H as [b [<- _]]. discriminate.
Qed.
