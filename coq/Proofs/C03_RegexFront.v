(* C03 - totality of the regex front-end model: enough fuel is linear in the input length. *)
From Coq Require Import ZArith List Bool Arith Lia.
From Elk Require Import Model.C21_RegexSyntax Model.C03_RegexFront.
Import ListNotations.
Open Scope Z_scope.

(* ================================================================= lexer *)

Lemma scan_digits_len : forall s, (length (snd (scan_digits s)) <= length s)%nat.
Proof.
  induction s as [|c r IH]; simpl; [lia|]. destruct (is_digit c); simpl; [|lia].
  destruct (scan_digits r) as [ds r']. simpl in *. lia.
Qed.

Lemma scan_quoted_len : forall s, (length (snd (scan_quoted s)) <= length s)%nat.
Proof.
  induction s as [|c r IH]; simpl; [lia|]. destruct (c =? 92).
  - destruct r as [|c2 r']; simpl; [lia|]. destruct (c2 =? 69); simpl; lia.
  - destruct (scan_quoted r) as [o r']. simpl in *. lia.
Qed.

Lemma lex_escape_len : forall s, (length (snd (lex_escape s)) <= length s)%nat.
Proof.
  intros [|c r]; simpl; [lia|]. destruct (c =? 81).
  - pose proof (scan_quoted_len r). destruct (scan_quoted r). simpl in *. lia.
  - destruct (escape_tok c); simpl; [lia|]. destruct (is_digit c) eqn:Ed; simpl; [|lia].
    pose proof (scan_digits_len (c :: r)) as H. simpl in H. rewrite Ed in H.
    destruct (scan_digits r) as [ds r']. simpl in *. lia.
Qed.

Lemma lex_comment_ok : forall f s, (length s + 1 <= f)%nat ->
  exists o, lex_comment true f s = Some o /\
            match o with Some r => (length r < length s)%nat | None => True end.
Proof.
  induction f as [|f IH]; intros s H; [lia|]. destruct s as [|c r]; simpl.
  - exists None. auto.
  - destruct (c =? 41).
    + exists (Some r). split; [reflexivity|]. simpl. lia.
    + simpl in H. destruct (IH r) as [o [E Ho]]; [lia|]. exists o. split; [exact E|].
      destruct o; simpl; [lia|exact I].
Qed.

Lemma starts_comment_len : forall r r0, starts_comment r = Some r0 -> (length r0 < length r)%nat.
Proof.
  intros [|c2 [|c3 r']] r0 H; simpl in H; try discriminate.
  destruct ((c2 =? 63) && (c3 =? 35)); inversion H; subst. simpl. lia.
Qed.

Theorem lex_total : forall f s, (length s + 1 <= f)%nat ->
  exists ts, lex true f s = Some ts /\ (length ts <= length s)%nat.
Proof.
  induction f as [|f IH]; intros s H; [lia|]. destruct s as [|c r]; simpl.
  - exists []. auto.
  - simpl in H. destruct (c =? 40).
    + destruct (starts_comment r) as [r0|] eqn:Es.
      * pose proof (starts_comment_len _ _ Es) as Hl.
        destruct (lex_comment_ok f r0) as [o [E Ho]]; [lia|]. rewrite E. destruct o as [r'|].
        -- destruct (IH r') as [ts [E2 L2]]; [lia|]. exists ts. split; [exact E2|lia].
        -- exists [TError]. split; [reflexivity|]. simpl. lia.
      * destruct (IH r) as [ts [E2 L2]]; [lia|]. rewrite E2. exists (TLParen :: ts). split; [reflexivity|]. simpl. lia.
    + destruct (c =? 92).
      * pose proof (lex_escape_len r) as Hl. destruct (lex_escape r) as [t r']. simpl in Hl.
        destruct (IH r') as [ts [E2 L2]]; [lia|]. rewrite E2. exists (t :: ts). split; [reflexivity|]. simpl. lia.
      * destruct (IH r) as [ts [E2 L2]]; [lia|]. rewrite E2.
        eexists. split; [reflexivity|]. simpl. lia.
Qed.

(* the code as found: an unterminated `(?#` never ends, whatever the fuel *)
Lemma lex_comment_spins : forall f, lex_comment false f [] = None.
Proof. induction f as [|f IH]; simpl; [reflexivity|exact IH]. Qed.

Theorem lex_hang : forall f, lex false f [40; 63; 35] = None.
Proof. intros [|f]; [reflexivity|]. simpl. rewrite lex_comment_spins. reflexivity. Qed.

(* ================================================================= parser helpers *)

Notation rest3 x := (snd (fst x)).

Lemma scan_until_len : forall stop ts, (length (snd (scan_until stop ts)) <= length ts)%nat.
Proof.
  induction ts as [|t r IH]; simpl; [lia|]. destruct (stop t); simpl; [lia|].
  destruct (scan_until stop r). simpl in *. lia.
Qed.

Lemma brace_payload_len : forall ts, (length (rest3 (brace_payload ts)) <= length ts)%nat.
Proof.
  intros ts. unfold brace_payload. pose proof (scan_until_len is_rbrace ts) as H.
  destruct (scan_until is_rbrace ts) as [a b]. simpl in H.
  destruct b as [|t r]; simpl; [lia|]. destruct t; simpl in *; lia.
Qed.

Lemma skipn_len : forall (A : Type) n (l : list A), (length (skipn n l) <= length l)%nat.
Proof. intros. rewrite skipn_length. lia. Qed.

Lemma p_hex_len : forall n ts, (length (rest3 (p_hex n ts)) <= length ts)%nat.
Proof.
  intros n ts. unfold p_hex.
  assert (D : (length (rest3 (let a := firstn n ts in let '(ds, ok) := chars_of is_hex a in
                                 (AHex ds, skipn n ts, negb (ok && Nat.eqb (length a) n)))) <= length ts)%nat).
  { cbv zeta. destruct (chars_of is_hex (firstn n ts)). cbn [fst snd]. apply skipn_len. }
  destruct ts as [|t r]; [exact D|]. destruct t; try exact D.
  pose proof (brace_payload_len r) as H. destruct (brace_payload r) as [[a r'] c]. simpl in H.
  destruct (chars_of is_hex a). simpl. lia.
Qed.

Lemma p_oct_len : forall ts, (length (rest3 (p_oct ts)) <= length ts)%nat.
Proof.
  intros ts. unfold p_oct.
  assert (D : (length (rest3 (let a := firstn 3 ts in let '(ds, ok) := chars_of is_octal a in
                                 (AOct ds, skipn 3 ts, negb (ok && Nat.eqb (length a) 3)))) <= length ts)%nat).
  { cbv zeta. destruct (chars_of is_octal (firstn 3 ts)). cbn [fst snd]. apply skipn_len. }
  destruct ts as [|t r]; [exact D|]. destruct t; try exact D.
  pose proof (brace_payload_len r) as H. destruct (brace_payload r) as [[a r'] c]. simpl in H.
  destruct (chars_of is_octal a). simpl. lia.
Qed.

Lemma p_uniclass_len : forall neg ts, (length (rest3 (p_uniclass neg ts)) <= length ts)%nat.
Proof.
  intros neg ts. destruct ts as [|t r]; [simpl; lia|].
  destruct t; try (simpl; lia).
  unfold p_uniclass.
  set (Y := match r with TCaret :: r1 => (true, r1) | _ => (false, r) end).
  assert (HY : (length (snd Y) <= length r)%nat).
  { unfold Y. destruct r as [|t2 r2]; [simpl; lia|]. destruct t2; simpl; lia. }
  destruct Y as [ng r0]. simpl in HY.
  pose proof (brace_payload_len r0) as H. destruct (brace_payload r0) as [[a r'] c]. simpl in H.
  destruct (chars_of is_uni_letter a). simpl. lia.
Qed.

Lemma p_caret_len : forall ts, (length (rest3 (p_caret ts)) <= length ts)%nat.
Proof. intros [|t r]; simpl; [lia|]. destruct t; simpl; lia. Qed.

Lemma consume_len : forall w ts, (length (fst (consume w ts)) <= length ts)%nat.
Proof. intros w [|t r]; simpl; lia. Qed.

Lemma p_group_flags_len : forall r, (length (rest3 (p_group_flags r)) <= length r)%nat.
Proof.
  intros r. unfold p_group_flags. pose proof (scan_until_len (fun t => is_rparen t || is_colon t) r) as H.
  destruct (scan_until _ r) as [a b]. simpl in H. destruct (flags_of false no_flags no_flags a) as [[st un] ok].
  destruct b as [|t b']; simpl; [lia|]. destruct t; simpl in *; lia.
Qed.

Lemma p_group_name_len : forall stop g r, (length (rest3 (p_group_name stop g r)) <= length r)%nat.
Proof.
  intros stop g r. unfold p_group_name. pose proof (scan_until_len (fun t => stop t || is_rparen t) r) as H.
  destruct (scan_until _ r) as [a b]. simpl in H. destruct (chars_of is_letter a).
  pose proof (consume_len stop b) as H2. destruct (consume stop b). simpl in *. lia.
Qed.

Lemma p_group_header_len : forall ts, (length (rest3 (p_group_header ts)) <= length ts)%nat.
Proof.
  intros ts. unfold p_group_header. destruct ts as [|t r]; [simpl; lia|].
  destruct t; try (simpl; lia).
  pose proof (p_group_flags_len r) as HF.
  destruct r as [|t1 r1]; [simpl in *; lia|].
  destruct t1; try (simpl in *; lia).
  - destruct (c =? 80).
    + pose proof (consume_len is_langle r1) as H1. destruct (consume is_langle r1) as [r1' g0]. simpl in H1.
      pose proof (p_group_name_len is_rangle g0 r1'). simpl. lia.
    + simpl in *. lia.
  - pose proof (p_group_name_len is_squote true r1). simpl. lia.
  - pose proof (p_group_name_len is_rangle true r1). simpl. lia.
Qed.

Lemma p_lazy_len : forall ts, (length (snd (p_lazy ts)) <= length ts)%nat.
Proof. intros [|t r]; simpl; [lia|]. destruct t; simpl; lia. Qed.

Lemma p_digits_len : forall stop ts, (length (rest3 (p_digits stop ts)) <= length ts)%nat.
Proof.
  intros stop ts. unfold p_digits. pose proof (scan_until_len stop ts) as H.
  destruct (scan_until stop ts) as [a b]. destruct (chars_of is_digit a). simpl in *. lia.
Qed.

Lemma p_braces_max_len : forall mn ok b1, (length (rest3 (p_braces_max mn ok b1)) <= length b1)%nat.
Proof.
  intros mn ok b1. unfold p_braces_max.
  assert (D : (length (rest3 (let '(mx, b2, ok2) := p_digits stop_rb b1 in ((true, mn, mx), b2, ok && ok2))) <= length b1)%nat).
  { pose proof (p_digits_len stop_rb b1) as H. destruct (p_digits stop_rb b1) as [[mx b2] ok2]. simpl in *. lia. }
  destruct b1 as [|t r]; [exact D|]. destruct t; try exact D; simpl; lia.
Qed.

Lemma p_braces_min_len : forall r, (length (rest3 (p_braces_min r)) <= length r)%nat.
Proof.
  intros r. unfold p_braces_min. pose proof (p_digits_len stop_rb_comma r) as H.
  destruct (p_digits stop_rb_comma r) as [[mn b] ok1]. simpl in H.
  destruct b as [|t b1]; [simpl; lia|]. destruct t; try (simpl in *; lia).
  pose proof (p_braces_max_len mn ok1 b1). simpl in *. lia.
Qed.

Lemma p_braces_len : forall r, (length (rest3 (p_braces r)) <= length r)%nat.
Proof.
  intros r. unfold p_braces. destruct r as [|t r']; [apply p_braces_min_len|].
  destruct t; try apply p_braces_min_len.
  pose proof (p_digits_len stop_rb r') as H. destruct (p_digits stop_rb r') as [[mx b] ok]. simpl in *. lia.
Qed.

Lemma p_quant_suffix_len : forall r0 ts, (length (rest3 (p_quant_suffix r0 ts)) <= length ts)%nat.
Proof.
  intros r0 ts. unfold p_quant_suffix. destruct ts as [|t r]; [simpl; lia|].
  destruct t; try (simpl; lia).
  - pose proof (p_braces_len r) as H. destruct (p_braces r) as [[[[comma mn] mx] r1] ok]. simpl in H.
    pose proof (consume_len is_rbrace r1) as H1. destruct (consume is_rbrace r1) as [r2 got]. simpl in H1.
    pose proof (p_lazy_len r2) as H2. destruct (p_lazy r2) as [alt r3]. simpl in H2.
    destruct comma; simpl; lia.
  - pose proof (p_lazy_len r). destruct (p_lazy r). simpl in *. lia.
  - pose proof (p_lazy_len r). destruct (p_lazy r). simpl in *. lia.
  - pose proof (p_lazy_len r). destruct (p_lazy r). simpl in *. lia.
Qed.

Lemma p_cls_primary_len : forall t r, (length (rest3 (p_cls_primary (t :: r))) <= length r)%nat.
Proof.
  intros t r. unfold p_cls_primary. destruct (cls_char_tok t); [simpl; lia|].
  pose proof (p_hex_len 8 r). pose proof (p_hex_len 4 r). pose proof (p_hex_len 2 r).
  pose proof (p_oct_len r). destruct t; simpl; try lia; apply p_uniclass_len.
Qed.

Lemma p_cls_elem_len : forall t r, (length (rest3 (p_cls_elem (t :: r))) <= length r)%nat.
Proof.
  intros t r.
  assert (D : (length (rest3 (let '(l, r0, e1) := p_cls_primary (t :: r) in
                 if valid_range_left l then
                   match r0 with
                   | TDash :: r1 => let '(rt, r2, e2) := p_cls_primary r1 in (CIRange l rt, r2, e1 || e2)
                   | _ => (CIAtom l, r0, e1)
                   end
                 else (CIAtom l, r0, e1))) <= length r)%nat).
  { pose proof (p_cls_primary_len t r) as H. destruct (p_cls_primary (t :: r)) as [[l r0] e1]. simpl in H.
    destruct (valid_range_left l); [|simpl; lia].
    destruct r0 as [|t0 r1]; [simpl; lia|]. destruct t0; try (simpl in *; lia).
    destruct r1 as [|t1 r2].
    - simpl in *. lia.
    - pose proof (p_cls_primary_len t1 r2) as H2. destruct (p_cls_primary (t1 :: r2)) as [[rt r3] e2]. simpl in *. lia. }
  unfold p_cls_elem. destruct t; try exact D.
  destruct r as [|t1 r1]; [simpl; lia|]. destruct t1; try (simpl; lia).
  set (Y := match r1 with TCaret :: r' => (true, r') | _ => (false, r1) end).
  assert (HY : (length (snd Y) <= length r1)%nat).
  { unfold Y. destruct r1 as [|t2 r2]; [simpl; lia|]. destruct t2; simpl; lia. }
  destruct Y as [neg r2]. simpl in HY.
  pose proof (scan_until_len is_colon r2) as H. destruct (scan_until is_colon r2) as [a b]. simpl in H.
  destruct (chars_of is_letter a). destruct b as [|tb b1]; [simpl in *; lia|].
  destruct tb; try (simpl in *; lia).
  pose proof (consume_len is_rbracket b1) as H3. destruct (consume is_rbracket b1). simpl in *. lia.
Qed.

Lemma p_cls_loop_total : forall f acc ts e, (length ts + 1 <= f)%nat ->
  exists items r e', p_cls_loop f acc ts e = Some (items, r, e') /\ (length r <= length ts)%nat.
Proof.
  induction f as [|f IH]; intros acc ts e H; [lia|]. destruct ts as [|t r].
  - simpl. eexists _, _, _. split; [reflexivity|]. simpl. lia.
  - assert (D : exists items r' e',
               (let '(it, r0, e1) := p_cls_elem (t :: r) in p_cls_loop f (acc ++ [it]) r0 (e || e1)) = Some (items, r', e')
               /\ (length r' <= length (t :: r))%nat).
    { pose proof (p_cls_elem_len t r) as Hl. destruct (p_cls_elem (t :: r)) as [[it r0] e1]. simpl in Hl.
      simpl in H. destruct (IH (acc ++ [it]) r0 (e || e1)) as (items & r' & e' & E & L); [lia|].
      exists items, r', e'. split; [exact E|]. simpl. lia. }
    simpl p_cls_loop. destruct t; try exact D.
    eexists _, _, _. split; [reflexivity|]. simpl. lia.
Qed.

(* ================================================================= the recursive part *)

Lemma atom_res_len : forall x (r : list tok), (length (rest3 x) <= length r)%nat ->
  exists y r1 e, atom_res x = Some (y, r1, e) /\ (length r1 <= length r)%nat.
Proof. intros [[a r1] e] r H. simpl in *. eexists _, _, _. split; [reflexivity|exact H]. Qed.

(* fuel needed: 3 per token still to read, plus the depth of the current call chain *)
Definition elem_ok (f : nat) : Prop :=
  forall ts, ts <> [] -> (3 * length ts + 1 <= f)%nat ->
    exists x r e, p_elem f ts = Some (x, r, e) /\ (length r < length ts)%nat.
Definition concat_ok (f : nat) : Prop :=
  forall ing acc ts, (3 * length ts + 2 <= f)%nat ->
    exists x r e, p_concat f ing acc ts = Some (x, r, e) /\ (length r <= length ts)%nat.
Definition union_ok (f : nat) : Prop :=
  forall ing l ts, (3 * length ts + 2 <= f)%nat ->
    exists x r e, p_union_loop f ing l ts = Some (x, r, e) /\ (length r <= length ts)%nat.

Lemma front_ok : forall f, elem_ok f /\ concat_ok f /\ union_ok f.
Proof.
  induction f as [|f [IHe [IHc IHu]]].
  - repeat split; intros; intro; intros; lia.
  - assert (He : elem_ok (S f)).
    { intros ts Hne Hf. destruct ts as [|t r]; [congruence|]. clear Hne. simpl length in Hf.
      (* the primary *)
      assert (Hprim : exists x r1 e,
         match t with
            | TChar _ | TComma | TRBrace | TRBracket | TDash | TColon | TLAngle | TRAngle | TSQuote =>
                Some (RAtom (AChar (tok_char t)), r, false)
            | TMeta c => Some (RAtom (AMeta c), r, false)
            | TQuoted txt => Some (RQuoted txt, r, false)
            | TSimple k => Some (RAtom (ASimple k), r, false)
            | TAbsBeg => Some (RAbsBeg, r, false)
            | TAbsEnd => Some (RAbsEnd, r, false)
            | TCaret => Some (RBol, r, false)
            | TDollar => Some (REol, r, false)
            | TDot => Some (RAny, r, false)
            | TWordB => Some (RWordB, r, false)
            | TNotWordB => Some (RNotWordB, r, false)
            | TPre neg p => Some (RAtom (APre neg p), r, false)
            | TCaretEsc => atom_res (p_caret r)
            | TLongUni => atom_res (p_hex 8 r)
            | TUni => atom_res (p_hex 4 r)
            | THex => atom_res (p_hex 2 r)
            | TOct => atom_res (p_oct r)
            | TSimpleOct ds => Some (RAtom (AOct ds), r, false)
            | TUniClass neg => atom_res (p_uniclass neg r)
            | TLBracket =>
                let '(neg, r1) := match r with TCaret :: r' => (true, r') | _ => (false, r) end in
                match p_cls_loop f [] r1 false with
                | None => None
                | Some (items, r2, e) => Some (RClass neg items, r2, e)
                end
            | TLParen =>
                let '(k, content, r1, e0) := p_group_header r in
                if content then
                  match p_concat f true [] r1 with
                  | None => None
                  | Some (lft, r2, e1) =>
                      match p_union_loop f true lft r2 with
                      | None => None
                      | Some (body, r3, e2) =>
                          let '(r4, got) := consume is_rparen r3 in
                          Some (RGroup k (Some body), r4, e0 || e1 || e2 || negb got)
                      end
                  end
                else
                  let '(r4, got) := consume is_rparen r1 in
                  Some (RGroup k None, r4, e0 || negb got)
            | _ => Some (invalid, r, true)
            end = Some (x, r1, e) /\ (length r1 <= length r)%nat).
      { pose proof (p_caret_len r). pose proof (p_hex_len 8 r). pose proof (p_hex_len 4 r).
        pose proof (p_hex_len 2 r). pose proof (p_oct_len r).
        destruct t; try (eexists _, _, _; split; [reflexivity|]; simpl; lia);
          try (apply atom_res_len; assumption).
        - (* ( *)
          pose proof (p_group_header_len r) as Hh. destruct (p_group_header r) as [[[k content] r1] e0]. simpl in Hh.
          destruct content.
          + destruct (IHc true [] r1) as (lft & r2 & e1 & E1 & L1); [lia|]. rewrite E1.
            destruct (IHu true lft r2) as (body & r3 & e2 & E2 & L2); [lia|]. rewrite E2.
            pose proof (consume_len is_rparen r3) as Hc. destruct (consume is_rparen r3) as [r4 got]. simpl in Hc.
            eexists _, _, _. split; [reflexivity|]. lia.
          + pose proof (consume_len is_rparen r1) as Hc. destruct (consume is_rparen r1) as [r4 got]. simpl in Hc.
            eexists _, _, _. split; [reflexivity|]. lia.
        - (* [ *)
          set (Y := match r with TCaret :: r' => (true, r') | _ => (false, r) end).
          assert (HY : (length (snd Y) <= length r)%nat).
          { unfold Y. destruct r as [|t2 r2]; [simpl; lia|]. destruct t2; simpl; lia. }
          destruct Y as [neg r1]. simpl in HY.
          destruct (p_cls_loop_total f [] r1 false) as (items & r2 & e' & E & L); [lia|]. rewrite E.
          eexists _, _, _. split; [reflexivity|]. lia.
        - (* \p *) apply atom_res_len. apply p_uniclass_len. }
      destruct Hprim as (x & r1 & e & Ep & Lp).
      cbn [p_elem]. rewrite Ep.
      pose proof (p_quant_suffix_len x r1) as Hq. destruct (p_quant_suffix x r1) as [[q r'] e'']. simpl in Hq.
      eexists _, _, _. split; [reflexivity|]. simpl. lia. }
    assert (Hc : concat_ok (S f)).
    { intros ing acc ts Hf. cbn [p_concat]. destruct ts as [|t r].
      - eexists _, _, _. split; [reflexivity|]. simpl. lia.
      - destruct (stops ing t).
        + eexists _, _, _. split; [reflexivity|]. lia.
        + simpl length in Hf. destruct (IHe (t :: r)) as (x & r1 & e & E & L); [congruence|simpl; lia|].
          rewrite E. simpl in L. destruct (IHc ing (acc ++ [x]) r1) as (res & r' & e' & E2 & L2); [lia|]. rewrite E2.
          eexists _, _, _. split; [reflexivity|]. simpl. lia. }
    assert (Hu : union_ok (S f)).
    { intros ing l ts Hf. cbn [p_union_loop].
      assert (D : exists x r e, Some (l, ts, false) = Some (x, r, e) /\ (length r <= length ts)%nat)
        by (eexists _, _, _; split; [reflexivity|lia]).
      destruct ts as [|t r]; [exact D|]. destruct t; try exact D.
      simpl length in Hf. destruct (IHc ing [] r) as (rgt & r' & e & E & L); [lia|]. rewrite E.
      destruct (IHu ing (RUnion l rgt) r') as (res & r'' & e' & E2 & L2); [lia|]. rewrite E2.
      eexists _, _, _. split; [reflexivity|]. simpl. lia. }
    auto.
Qed.

Theorem parse_total : forall f ts, (3 * length ts + 2 <= f)%nat -> parse_tokens f ts <> OutOfFuel.
Proof.
  intros f ts H. unfold parse_tokens. destruct (front_ok f) as (_ & Hc & Hu).
  destruct (Hc false [] ts H) as (l & r & e1 & E & L). rewrite E.
  destruct (Hu false l r) as (res & r' & e2 & E2 & _); [lia|]. rewrite E2.
  destruct (e1 || e2 || existsb is_error ts); discriminate.
Qed.

Theorem regex_front_total : forall s, regex_front true (enough s) s <> OutOfFuel.
Proof.
  intros s. unfold regex_front, enough. destruct (lex_total (3 * length s + 6) s) as [ts [E L]]; [lia|].
  rewrite E. apply parse_total. lia.
Qed.

Theorem regex_front_monotone_enough : forall s f, (enough s <= f)%nat -> regex_front true f s <> OutOfFuel.
Proof.
  intros s f H. unfold regex_front, enough in *. destruct (lex_total f s) as [ts [E L]]; [lia|].
  rewrite E. apply parse_total. lia.
Qed.

(* every result is a diagnostic list or a tree *)
Theorem regex_front_outcome : forall s, regex_front true (enough s) s = RDiag \/ exists a, regex_front true (enough s) s = ROk a.
Proof.
  intros s. pose proof (regex_front_total s) as H. destruct (regex_front true (enough s) s); [congruence|auto|eauto].
Qed.

Theorem regex_front_hang_as_found : forall f, regex_front false f [40; 63; 35] = OutOfFuel.
Proof. intros f. unfold regex_front. rewrite lex_hang. reflexivity. Qed.
