(* C09 - bounded Int ranges: the element list of the reference interpreter is exactly the set of
   integers the bounds describe, in increasing consecutive order, and Sref's for-in over a range
   visits exactly those elements. *)
From Elk Require Import Base.GoSem Model.C06_Int Model.C09_Backends.
From Coq Require Import ZArith List String Bool Lia.
Import ListNotations.
Open Scope Z_scope.

Lemma relements_length o a b :
  List.length (relements o a b) = Z.to_nat (range_last o b - range_first o a + 1).
Proof. unfold relements. rewrite map_length, seq_length. reflexivity. Qed.

Lemma relements_in o a b z :
  In z (relements o a b) <-> range_first o a <= z <= range_last o b.
Proof.
  unfold relements. rewrite in_map_iff. split.
  - intros [i [E Hi]]. apply in_seq in Hi. lia.
  - intros H. exists (Z.to_nat (z - range_first o a)). split; [lia|]. apply in_seq. lia.
Qed.

Lemma relements_nth o a b i :
  (i < List.length (relements o a b))%nat ->
  nth i (relements o a b) 0 = range_first o a + Z.of_nat i.
Proof.
  intros H. rewrite relements_length in H. unfold relements.
  set (f := fun k : nat => range_first o a + Z.of_nat k).
  rewrite (nth_indep _ 0 (f 0%nat)) by (rewrite map_length, seq_length; exact H).
  rewrite (map_nth f). rewrite seq_nth by exact H. reflexivity.
Qed.

Lemma relements_exact o a b :
  (forall z, In z (relements o a b) <->
     (match o with RClosed | RRightOpen => a <= z | RLeftOpen | ROpen => a < z end) /\
     (match o with RClosed | RLeftOpen => z <= b | RRightOpen | ROpen => z < b end)) /\
  (forall i, (i < List.length (relements o a b))%nat ->
     nth i (relements o a b) 0 = range_first o a + Z.of_nat i).
Proof.
  split.
  - intros z. rewrite relements_in. destruct o; unfold range_first, range_last; lia.
  - intros i. apply relements_nth.
Qed.

Lemma forin_range_elements n p env out x e body rest o a b out1 :
  eval n p env out e = ROk (VRange o a b) out1 ->
  exec (S n) p env out (SForIn x e body :: rest) =
  rbind (iter_list (fun v1 env1 o1 => exec n p (set_nth x v1 env1) o1 body)
           (map VInt (relements o a b)) env out1)
    (fun fl out2 => match fl with
                    | FReturn r => ROk (FReturn r) out2
                    | FNormal env' => exec n p env' out2 rest
                    end).
Proof. intros E. cbn [exec]. rewrite E. reflexivity. Qed.
