(* C10 — growValueStack is invisible in the offset view (fixed formulas), and the formulas
   of the unfixed code are not. *)
From Coq Require Import ZArith List Lia Bool ZifyBool ZifyNat PeanoNat.
From Elk Require Import Base.GoSem Model.C10_Stack.
Import ListNotations.
Open Scope Z_scope.

Definition aligned (b a : Z) : Prop := exists k, a = b + W * k.

(* what growValueStack may rely on: pointers are slot addresses of the current array, the
   open list has no duplicates, its members are open, and every open upvalue is on it *)
Record GInv (s : st) : Prop := mkGInv {
  gi_sp : exists k, sp s = base s + W * k /\ 0 <= k <= cap s;
  gi_fp : aligned (base s) (fp s);
  gi_frames : Forall (aligned (base s)) (frames s);
  gi_nodup : NoDup (opens s);
  gi_opens : forall u, In u (opens s) -> exists k, heap s u = UOpen (base s + W * k);
  gi_all : forall u a, (u < nheap s)%nat -> heap s u = UOpen a -> In u (opens s)
}.

Lemma quot_slot b k : Z.quot (b + W * k - b) W = k.
Proof.
  replace (b + W * k - b) with (k * W) by lia.
  apply Z.quot_mul. unfold W. lia.
Qed.

Lemma off_from_to_slot b k : off_from_to b (b + W * k) = k.
Proof. unfold off_from_to. apply quot_slot. Qed.

Lemma fold_upd_char (g : ucell -> ucell) (l : list nat) :
  forall h, NoDup l ->
  forall u, fold_left (fun h u => upd h u (g (h u))) l h u =
            if in_dec Nat.eq_dec u l then g (h u) else h u.
Proof.
  induction l as [|x r IH]; intros h ND u.
  - reflexivity.
  - inversion ND as [|? ? Hnin ND']; subst.
    cbn [fold_left]. rewrite IH by assumption.
    destruct (in_dec Nat.eq_dec u r) as [Hin|Hnin'];
      destruct (in_dec Nat.eq_dec u (x :: r)) as [Hin2|Hnin2].
    + unfold upd. destruct (Nat.eqb_spec u x) as [->|Hne]; [contradiction|reflexivity].
    + exfalso. apply Hnin2. right. assumption.
    + destruct Hin2 as [->|Hin2]; [|contradiction].
      unfold upd. rewrite Nat.eqb_refl. reflexivity.
    + unfold upd. destruct (Nat.eqb_spec u x) as [->|Hne].
      * exfalso. apply Hnin2. left. reflexivity.
      * reflexivity.
Qed.

Lemma zseq_in n j : In j (zseq n) -> 0 <= j < n.
Proof.
  unfold zseq. rewrite in_map_iff. intros [x [<- Hx]]. apply in_seq in Hx. lia.
Qed.

Lemma grow_invisible s nb : GInv s -> abs (grow s nb) = abs_resized s.
Proof.
  intros [[k [Hsp Hk]] [kf Hfp] Hfr ND Hop Hall].
  destruct s as [b c m p f fr ol h n hd x ou]. cbn [base cap mem sp fp frames opens heap nheap handles nh out] in *.
  subst p f.
  unfold abs_resized, abs, grow.
  cbn [base cap mem sp fp frames opens heap nheap handles nh out a_cap a_sp a_fp a_frames a_stack a_opens a_heap a_handles a_out].
  rewrite !off_from_to_slot.
  f_equal.
  - lia.
  - lia.
  - rewrite map_map. apply map_ext_in. intros a Ha.
    rewrite Forall_forall in Hfr. destruct (Hfr a Ha) as [ka ->].
    rewrite off_from_to_slot. lia.
  - rewrite !quot_slot. apply map_ext_in. intros j Hj. apply zseq_in in Hj.
    unfold copy_mem.
    destruct (Z.eqb_spec (nb + W * j) (nb + W * (2 * c - 1))) as [E|_]; [unfold W in E; lia|].
    assert (R : (nb <=? nb + W * j) && (nb + W * j <? nb + W * c) = true).
    { apply andb_true_intro; split; [apply Z.leb_le | apply Z.ltb_lt]; unfold W; lia. }
    rewrite R. f_equal. lia.
  - apply map_ext_in. intros u Hu. apply in_seq in Hu.
    rewrite fold_upd_char by assumption.
    destruct (in_dec Nat.eq_dec u ol) as [Hin|Hnin].
    + destruct (Hop u Hin) as [ku ->]. cbn [rebase_cell acell_of].
      rewrite off_from_to_slot. f_equal. lia.
    + destruct (h u) as [a|v] eqn:E.
      * exfalso. apply Hnin. apply (Hall u a); [lia|assumption].
      * reflexivity.
Qed.

(* ---- the formulas of the unfixed code fail: two live frames suffice ---- *)
Definition witness_two_frames : st :=
  run (init_st 1000 8) [OPush 1; OPush 2; OPush 3; OPush 4; OCall 2; OPush 5; OPush 6; OCall 1].

Lemma witness_two_frames_inv : GInv witness_two_frames.
Proof.
  constructor; cbn -[Z.mul Z.add Z.sub Z.le Z.lt].
  - exists 6. unfold W. lia.
  - exists 5. unfold W. lia.
  - repeat constructor; [exists 2 | exists 0]; unfold W; lia.
  - constructor.
  - intros u [].
  - intros u a Hu. lia.
Qed.

Lemma grow_old_visible :
  exists s nb reach, GInv s /\ abs (grow_old s nb reach) <> abs_resized s.
Proof.
  exists witness_two_frames, 50000, []. split; [exact witness_two_frames_inv|].
  vm_compute. intro H. discriminate H.
Qed.

(* an open upvalue: not rebased when it is only on the open list; negated when reached
   once; left pointing into the OLD array when reached twice (closure called recursively,
   or one upvalue shared by cf.upvalues of two frames) *)
Definition witness_upvalue : st :=
  run (init_st 1000 8) [OPush 1; OPush 2; OPush 3; OCapture 1].

Lemma witness_upvalue_inv : GInv witness_upvalue.
Proof.
  constructor; cbn -[Z.mul Z.add Z.sub Z.le Z.lt].
  - exists 3. unfold W. lia.
  - exists 0. unfold W. lia.
  - constructor.
  - repeat constructor. intros [].
  - intros u [<-|[]]. exists 1. reflexivity.
  - intros u a Hu. assert (u = 0%nat) by lia. subst. intros _. left. reflexivity.
Qed.

Lemma grow_old_upvalue_visible :
  GInv witness_upvalue /\
  forall reach, In reach [[]; [0%nat]; [0%nat; 0%nat]] ->
    abs (grow_old witness_upvalue 50000 reach) <> abs_resized witness_upvalue.
Proof.
  split; [exact witness_upvalue_inv|].
  intros reach [<-|[<-|[<-|[]]]]; vm_compute; intro H; discriminate H.
Qed.

(* ---- a raw slot ADDRESS cached across a growth is stale: the write that replaces the top slot is visible
   when no growth happened in between and LOST (it lands in the abandoned array) when the stack was
   reallocated - the program's result then depends on the initial stack size.  The machine's operations
   (`step`) only ever address slots relative to the CURRENT sp/fp; `poke` is not one of them. ---- *)
Lemma stale_slot_address :
  exists s nb v, GInv s /\
    let a := sp s - W in
    abs (poke s a v) <> abs s /\
    abs (poke (grow s nb) a v) = abs (grow s nb) /\
    abs (poke (grow s nb) (sp (grow s nb) - W) v) <> abs (grow s nb).
Proof.
  exists witness_two_frames, 50000, 77. split; [exact witness_two_frames_inv|].
  cbv zeta. split; [|split].
  - vm_compute. intro H. discriminate H.
  - vm_compute. reflexivity.
  - vm_compute. intro H. discriminate H.
Qed.
