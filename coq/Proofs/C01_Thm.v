(* C01 - the theorems stated in Props/C01.v *)
From Coq Require Import ZArith List Bool Lia Arith.
From Elk Require Import Model.C01_Core Proofs.C01_Core Proofs.C01_Sound.
Import ListNotations.
Local Open Scope nat_scope.

Lemma chk_clos_nth ms G0 cl : forall k0 j b,
  chk_clos ms G0 k0 cl = true -> nth_error cl j = Some b ->
  exists G', chk ms (k0 + j) G0 b = Some G'.
Proof.
  induction cl as [|c r IH]; intros k0 [|j] b C E; simpl in *; try discriminate.
  - inversion E; subst. rewrite Nat.add_0_r. destruct (chk ms k0 G0 b); [eauto|discriminate].
  - destruct (chk ms k0 G0 c); [|discriminate].
    replace (k0 + S j) with (S k0 + j) by lia. eauto.
Qed.

Lemma meth_ok_of ms m : wt_meth ms m = true -> guard_meth m = true -> meth_ok ms m.
Proof.
  unfold wt_meth, guard_meth. intros W Gd.
  apply andb_prop in W. destruct W as [W Wb]. apply andb_prop in W. destruct W as [Wl Wc].
  apply andb_prop in Gd. destruct Gd as [Gc Gb].
  rewrite forallb_forall in Wl, Gc.
  constructor.
  - apply Forall_forall. auto.
  - intros k b E.
    destruct (chk_clos_nth _ _ _ 0 k b Wc E) as [G' HG]. simpl in HG.
    pose proof (Gc b (nth_error_In _ _ E)) as Hb. apply andb_prop in Hb. destruct Hb as [Hd Hl].
    split; [eauto|]. split; [|split; auto].
    + intros x Hx. eapply disjointb_spec; eauto.
    + intros x Hx. unfold m_subjects. apply in_or_app. right. apply in_flat_map.
      exists b. split; auto. eapply nth_error_In; eauto.
  - destruct (chk ms (length (m_clos m)) (ctx0 (m_decls m)) (m_body m)) as [G1|]; [|discriminate].
    destruct (chkE G1 (m_ret m)) as [t|] eqn:Ce; [|discriminate]. eauto.
  - exact Gb.
  - intros x Hx. unfold m_subjects. apply in_or_app. auto.
Qed.

Theorem soundness_partial p :
  wt p = true -> no_narrowed_local_assigned_in_closure_or_loop p = true ->
  forall fuel, run fuel p <> RCrash.
Proof.
  unfold wt, no_narrowed_local_assigned_in_closure_or_loop. intros W Gd fuel.
  apply andb_prop in W. destruct W as [W W0].
  rewrite forallb_forall in W, Gd.
  assert (forall g m, nth_error p g = Some m -> meth_ok (map sig_of p) m) as Hp.
  { intros g m E. apply nth_error_In in E. apply meth_ok_of; auto. }
  unfold run. destruct p as [|m r]; [discriminate|].
  destruct (m_params m) eqn:Ep; [|discriminate].
  pose proof (Hp 0 m eq_refl) as Hm.
  destruct (mo_body _ m Hm) as (G1 & t & Cb & Cr & Sr).
  assert (types_ok (ctx0 (m_decls m)) (map snd (m_locals m))) as T0.
  { apply types_ok_ctx0. unfold m_decls. rewrite Ep. simpl.
    pose proof (mo_locals _ m Hm) as Fl. induction Fl; simpl; constructor; auto. }
  pose proof (exec_sound (m :: r) Hp fuel m (m_body m) (length (m_clos m)) _ G1 _ [] Hm (le_n _)
                (ctx0_ok (m_decls m) (m_subjects m)) (mo_subj _ m Hm) (mo_loops _ m Hm) Cb T0) as P.
  destruct (exec fuel (m :: r) (m_clos m) (m_body m) (map snd (m_locals m)) []) as [fr out| |];
    simpl in P; try discriminate; [|contradiction].
  destruct P as [T1 _]. destruct (chkE_sound G1 fr (m_ret m) T1 t Cr) as (v & -> & _). discriminate.
Qed.

(* DESIGN section 6 #21: var a: Int? = 1; c0 := -> a = nil; if a; c0.(); println(a + 1); end *)
Definition tIntOpt : ty := mk_ty true false false true false.
Definition witness_closure : prog :=
  [ {| m_params := []; m_locals := [(tIntOpt, VInt 1)];
       m_clos := [SAssign 0 ENil];
       m_body := SIf (CVar 0) (SSeq (SCallClo 0) (SPrint (EAdd (EVar 0) (EInt 1)))) SSkip;
       m_ret := EInt 0; m_rty := tInt |} ].

(* var a: Int? = 1; var i: Int = 0; if a; while i < 2; println(a + 1); a = nil; i = i + 1; end; end *)
Definition witness_loop : prog :=
  [ {| m_params := []; m_locals := [(tIntOpt, VInt 1); (tInt, VInt 0)];
       m_clos := [];
       m_body := SIf (CVar 0)
                   (SWhile (CLt (EVar 1) (EInt 2))
                      (SSeq (SPrint (EAdd (EVar 0) (EInt 1)))
                         (SSeq (SAssign 0 ENil) (SAssign 1 (EAdd (EVar 1) (EInt 1))))))
                   SSkip;
       m_ret := EInt 0; m_rty := tInt |} ].

Theorem narrow_refuted : exists p fuel, wt p = true /\ run fuel p = RCrash.
Proof. exists witness_closure, 10. vm_compute. auto. Qed.

Theorem narrow_loop_refuted : exists p fuel, wt p = true /\ run fuel p = RCrash.
Proof. exists witness_loop, 20. vm_compute. auto. Qed.

(* ---------------------------------------------------------------- mutex wrappers *)

Definition tracked (e : elkmutex) : Prop := e_w e = g_w (e_go e) /\ e_r e = g_r (e_go e).

Lemma elk_step_tracked e o :
  tracked e ->
  match elk_step true e o with
  | SOk e' | SErr e' => tracked e'
  | SFatal => False
  | SBlock => True
  end.
Proof.
  destruct e as [[gw gr] ew er]. unfold tracked. simpl. intros [-> ->].
  destruct o; simpl.
  - destruct gw; simpl; auto. destruct gr; simpl; auto.
  - destruct gw; simpl; auto.
  - destruct gw; simpl; auto.
  - destruct gr; simpl; auto.
Qed.

Theorem unlock_total ops : forall e, tracked e -> elk_run true e ops <> SFatal.
Proof.
  induction ops as [|o r IH]; intros e T; simpl; [discriminate|].
  pose proof (elk_step_tracked e o T) as S.
  destruct (elk_step true e o); auto; try discriminate.
Qed.

Theorem unlock_refuted : exists ops, elk_run false e_new ops = SFatal.
Proof. exists [MUnlock]. reflexivity. Qed.
