(* C16 — proofs about the await/settle protocol model (Model/C16_Await.v). *)
From Coq Require Import List Arith Bool Lia.
From Elk Require Import Model.C16_Await.
Import ListNotations.

(* ------------------------------------------------------------------ list helpers *)
Lemma upd_length : forall A i (x : A) l, length (upd i x l) = length l.
Proof. induction i; destruct l; simpl; auto. Qed.

Lemma nth_upd_same : forall A i (x d : A) l, i < length l -> nth i (upd i x l) d = x.
Proof. induction i; destruct l; simpl; intros; try lia; auto. apply IHi. lia. Qed.

Lemma nth_upd_other : forall A i k (x d : A) l, k <> i -> nth k (upd i x l) d = nth k l d.
Proof. induction i; destruct l; destruct k; simpl; intros; auto; try lia. Qed.

Lemma nth_error_upd_same : forall A i (x : A) l, i < length l -> nth_error (upd i x l) i = Some x.
Proof. induction i; destruct l; simpl; intros; try lia; auto. apply IHi. lia. Qed.

Lemma nth_error_upd_other : forall A i k (x : A) l, k <> i -> nth_error (upd i x l) k = nth_error l k.
Proof. induction i; destruct l; destruct k; simpl; intros; auto; try lia. Qed.

Lemma nth_error_lt : forall A (l : list A) i x, nth_error l i = Some x -> i < length l.
Proof. intros. apply nth_error_Some. congruence. Qed.

Lemma nth_error_nth' : forall A (l : list A) i x d, nth_error l i = Some x -> nth i l d = x.
Proof. induction l; destruct i; simpl; intros; try discriminate. congruence. eauto. Qed.

Lemma in_upd : forall A i (x y : A) l, In y (upd i x l) -> y = x \/ In y l.
Proof.
  induction i; destruct l; simpl; intros; auto.
  - destruct H; auto.
  - destruct H; auto. apply IHi in H. tauto.
Qed.

Lemma in_upd_keep : forall A i (x y z : A) l,
  In y l -> nth_error l i = Some z -> y <> z -> In y (upd i x l).
Proof.
  induction i; destruct l; simpl; intros; try contradiction.
  - inversion H0; subst. destruct H; [congruence | auto].
  - destruct H; auto. right. eapply IHi; eauto.
Qed.

Lemma in_upd_new : forall A i (x : A) l, i < length l -> In x (upd i x l).
Proof. induction i; destruct l; simpl; intros; try lia; auto. right. apply IHi. lia. Qed.

Lemma forallb_false_ex : forall A (f : A -> bool) l, forallb f l = false -> exists x, In x l /\ f x = false.
Proof.
  induction l; simpl; intros; try discriminate.
  destruct (f a) eqn:E; simpl in H.
  - destruct (IHl H) as [x [? ?]]. eauto.
  - eauto.
Qed.

(* ------------------------------------------------------------------ progress *)
Definition can_send (c : cfg) (s : state) : Prop := c_mode c = Fixed \/ queue_full c s = false.

Lemma enq_total : forall c s s0 t, can_send c s -> s_queue s0 = s_queue s -> exists s', enq c s0 t = Some s'.
Proof.
  intros c s s0 t [H | H] Q; unfold enq, queue_full in *; rewrite Q.
  - rewrite H. destruct (c_Q c <=? length (s_queue s)); eauto.
  - rewrite H. eauto.
Qed.

Lemma spawn_total : forall c s j, can_send c s -> exists s', spawn c s j = Some s'.
Proof.
  intros. unfold spawn. destruct (is_new (st_of s j)); eauto.
  eapply enq_total; eauto.
Qed.

Lemma holder_steps : forall c s w x, can_send c s ->
  nth_error (s_ws s) w = Some x -> (exists j, holds_lock j x = true) ->
  exists s', step_fn c s (AWorker w) = Some s'.
Proof.
  intros c s w x G Hn [j Hj]. simpl. unfold step_worker. rewrite Hn.
  destruct x; simpl in Hj; try discriminate; eauto.
  destruct (conts_of s t) eqn:E; eauto.
  eapply enq_total; eauto.
Qed.

Lemma locked_holder : forall s j, locked s j = true ->
  exists w x, nth_error (s_ws s) w = Some x /\ holds_lock j x = true.
Proof.
  unfold locked. intros. apply existsb_exists in H. destruct H as [x [Hin Hh]].
  apply In_nth_error in Hin. destruct Hin as [w Hw]. eauto.
Qed.

Lemma busy_worker_progress : forall c s w x, can_send c s ->
  nth_error (s_ws s) w = Some x -> is_idle x = false ->
  exists a s', step_fn c s a = Some s'.
Proof.
  intros c s w x G Hn Hi.
  destruct x; simpl in Hi; try discriminate.
  - (* WRun *)
    destruct (nth_error (body_of c t) (pc_of s t)) as [[j | j] |] eqn:EI.
    + destruct (spawn_total c s j G) as [s1 H1].
      exists (AWorker w). simpl. unfold step_worker. rewrite Hn, EI, H1. eauto.
    + destruct (locked s j) eqn:EL.
      * destruct (locked_holder _ _ EL) as [w' [x' [Hn' Hh]]].
        exists (AWorker w'). eapply holder_steps; eauto.
      * exists (AWorker w). simpl. unfold step_worker. rewrite Hn, EI, EL.
        destruct (is_done (st_of s j)); eauto.
    + destruct (locked s t) eqn:EL.
      * destruct (locked_holder _ _ EL) as [w' [x' [Hn' Hh]]].
        exists (AWorker w'). eapply holder_steps; eauto.
      * exists (AWorker w). simpl. unfold step_worker. rewrite Hn, EI, EL. eauto.
  - exists (AWorker w). eapply holder_steps; eauto. exists j. simpl. apply Nat.eqb_refl.
  - exists (AWorker w). eapply holder_steps; eauto. exists j. simpl. apply Nat.eqb_refl.
  - exists (AWorker w). eapply holder_steps; eauto. exists t. simpl. apply Nat.eqb_refl.
Qed.

Lemma progress_core : forall c s, can_send c s -> 1 <= c_Q c -> 1 <= length (s_ws s) ->
  (exists a s', step_fn c s a = Some s') \/ quiescent c s = true.
Proof.
  intros c s G HQ HN.
  destruct (forallb is_idle (s_ws s)) eqn:EI.
  2:{ left. apply forallb_false_ex in EI. destruct EI as [x [Hin Hx]].
      apply In_nth_error in Hin. destruct Hin as [w Hw].
      eapply busy_worker_progress; eauto. }
  destruct (s_queue s) as [| t q] eqn:EQ.
  2:{ left. destruct (s_ws s) as [| x ws] eqn:EW; [simpl in HN; lia |].
      simpl in EI. apply andb_true_iff in EI. destruct EI as [Hx _].
      destruct x; simpl in Hx; try discriminate.
      exists (AWorker 0). simpl. unfold step_worker. rewrite EW, EQ. simpl. eauto. }
  destruct (s_ovf s) as [| t o] eqn:EO.
  2:{ left. exists (AFlush 0). simpl. unfold step_flush. rewrite EO. simpl.
      unfold queue_full. rewrite EQ. simpl.
      destruct (c_Q c <=? 0) eqn:E; [apply Nat.leb_le in E; lia | eauto]. }
  unfold quiescent. rewrite EI, EQ, EO. simpl.
  unfold main_waiting.
  destruct (nth_error (c_main c) (s_mainpc s)) as [[j | j] |] eqn:EM; auto.
  - left. destruct (spawn_total c s j G) as [s1 H1].
    exists AMain. simpl. unfold step_main. rewrite EM, H1. eauto.
  - destruct (is_done (st_of s j)) eqn:ED; auto.
    left. exists AMain. simpl. unfold step_main. rewrite EM, ED. eauto.
Qed.

(* ------------------------------------------------------------------ shape invariant: lengths *)
Definition lens (c : cfg) (s : state) : Prop :=
  let n := length (c_tasks c) in
  length (s_ws s) = c_N c /\ length (s_pc s) = n /\ length (s_st s) = n /\ length (s_conts s) = n /\
  length (s_takes s) = n /\ length (s_parks s) = n /\ length (s_settles s) = n.

Lemma enq_fields : forall c s t s', enq c s t = Some s' ->
  s_mainpc s' = s_mainpc s /\ s_pc s' = s_pc s /\ s_st s' = s_st s /\ s_conts s' = s_conts s /\
  s_ws s' = s_ws s /\ s_takes s' = s_takes s /\ s_parks s' = s_parks s /\ s_settles s' = s_settles s /\
  ((s_queue s' = s_queue s ++ [t] /\ s_ovf s' = s_ovf s /\ queue_full c s = false) \/
   (s_queue s' = s_queue s /\ s_ovf s' = s_ovf s ++ [t] /\ c_mode c = Fixed /\ queue_full c s = true)).
Proof.
  unfold enq. intros. destruct (queue_full c s) eqn:E.
  - destruct (c_mode c) eqn:M; try discriminate. inversion H; subst; simpl. tauto.
  - inversion H; subst; simpl. tauto.
Qed.

Lemma incr_length : forall i l, length (incr i l) = length l.
Proof. intros. apply upd_length. Qed.

Ltac destr_step H :=
  repeat match type of H with
         | context [match ?x with _ => _ end] => destruct x eqn:?; try discriminate
         end.

Lemma lens_init : forall c, lens c (init c).
Proof. intros. unfold lens, init. simpl. repeat rewrite repeat_length. tauto. Qed.

Lemma spawn_fields : forall c s j s', spawn c s j = Some s' ->
  (is_new (st_of s j) = false /\ s' = s) \/
  (is_new (st_of s j) = true /\
   s_mainpc s' = s_mainpc s /\ s_pc s' = s_pc s /\ s_st s' = upd j TLive (s_st s) /\ s_conts s' = s_conts s /\
   s_ws s' = s_ws s /\ s_takes s' = s_takes s /\ s_parks s' = s_parks s /\ s_settles s' = s_settles s /\
   ((s_queue s' = s_queue s ++ [j] /\ s_ovf s' = s_ovf s /\ queue_full c s = false) \/
    (s_queue s' = s_queue s /\ s_ovf s' = s_ovf s ++ [j] /\ c_mode c = Fixed /\ queue_full c s = true))).
Proof.
  unfold spawn. intros. destruct (is_new (st_of s j)) eqn:E.
  - right. apply enq_fields in H. simpl in H. tauto.
  - left. inversion H. auto.
Qed.

Ltac use_enq :=
  match goal with
  | E : enq _ _ _ = Some _ |- _ =>
      apply enq_fields in E; simpl in E; decompose [and or] E; clear E
  end.

Ltac use_spawn :=
  match goal with
  | E : spawn _ _ _ = Some _ |- _ =>
      apply spawn_fields in E; simpl in E; decompose [and or] E; clear E; subst
  end.

Ltac rew_all := repeat match goal with E : ?p ?x = _ |- _ => is_var x; rewrite E end.
Ltac rew_hyp HI := repeat match goal with E : ?p ?x = _ |- _ => is_var x; rewrite E in HI end.

Lemma lens_step : forall c s a s', lens c s -> step_fn c s a = Some s' -> lens c s'.
Proof.
  intros c s a s' L H. unfold lens in *.
  destruct a; simpl in H.
  - unfold step_main in H. destr_step H; inversion H; subst; clear H; simpl; auto;
      try use_spawn; simpl; auto; rew_all; repeat rewrite ?upd_length, ?incr_length; tauto.
  - unfold step_worker, bump_pc in H. destr_step H;
      try (inversion H; subst; clear H); simpl; try use_spawn; try use_enq; simpl; auto; rew_all;
      repeat rewrite ?upd_length, ?incr_length; tauto.
  - unfold step_flush in H. destr_step H. inversion H; subst; clear H; simpl. tauto.
Qed.

Lemma lens_reachable : forall c s, reachable c s -> lens c s.
Proof. induction 1; eauto using lens_init, lens_step. Qed.

Theorem progress_fixed : forall c s,
  c_mode c = Fixed -> 1 <= c_N c -> 1 <= c_Q c -> reachable c s ->
  (exists s', step c s s') \/ quiescent c s = true.
Proof.
  intros c s M HN HQ R.
  destruct (progress_core c s) as [[a [s' H]] | H]; auto.
  - left; auto.
  - apply lens_reachable in R. destruct R as [L _]. lia.
  - left. exists s', a. auto.
Qed.

Theorem progress_orig_partial : forall c s,
  1 <= c_N c -> 1 <= c_Q c -> reachable c s -> queue_full c s = false ->
  (exists s', step c s s') \/ quiescent c s = true.
Proof.
  intros c s HN HQ R G.
  destruct (progress_core c s) as [[a [s' H]] | H]; auto.
  - right; auto.
  - apply lens_reachable in R. destruct R as [L _]. lia.
  - left. exists s', a. auto.
Qed.

(* ------------------------------------------------------------------ counting helpers *)
Lemma cnt_app : forall t a b, cnt t (a ++ b) = cnt t a + cnt t b.
Proof. intros. apply count_occ_app. Qed.

Lemma cnt_one : forall t x, cnt t [x] = if Nat.eq_dec x t then 1 else 0.
Proof. intros. unfold cnt. simpl. destruct (Nat.eq_dec x t); auto. Qed.

Lemma cnt_cons : forall t x l, cnt t (x :: l) = cnt t [x] + cnt t l.
Proof. intros. change (x :: l) with ([x] ++ l). apply cnt_app. Qed.

Lemma cnt_nil : forall t, cnt t [] = 0.
Proof. reflexivity. Qed.

Lemma cnt_fm_upd : forall (A : Type) (f : A -> list nat) l i x, nth_error l i = Some x ->
  forall t y, cnt t (flat_map f (upd i y l)) = cnt t (f y) + cnt t (flat_map f (remove_nth i l)).
Proof.
  induction l; destruct i; simpl; intros; try discriminate.
  - rewrite cnt_app. auto.
  - rewrite !cnt_app. erewrite IHl; eauto. lia.
Qed.

Lemma cnt_fm_split : forall (A : Type) (f : A -> list nat) l i x, nth_error l i = Some x ->
  forall t, cnt t (flat_map f l) = cnt t (f x) + cnt t (flat_map f (remove_nth i l)).
Proof.
  induction l; destruct i; simpl; intros; try discriminate.
  - inversion H; subst. rewrite cnt_app. auto.
  - rewrite !cnt_app. erewrite IHl; eauto. lia.
Qed.

Lemma concat_fm : forall (l : list (list nat)), concat l = flat_map (fun x => x) l.
Proof. induction l; simpl; congruence. Qed.

Lemma cnt_remove_nth : forall l k x, nth_error l k = Some x ->
  forall t, cnt t l = cnt t [x] + cnt t (remove_nth k l).
Proof.
  induction l; destruct k; intros x H t; try discriminate.
  - inversion H; subst. apply cnt_cons.
  - change (remove_nth (S k) (a :: l)) with (a :: remove_nth k l).
    rewrite (cnt_cons t a l), (cnt_cons t a (remove_nth k l)).
    simpl in H. rewrite (IHl _ _ H t). lia.
Qed.

Lemma nth_nonnil_error : forall (l : list (list nat)) i k r, nth i l [] = k :: r -> nth_error l i = Some (k :: r).
Proof. induction l; destruct i; simpl; intros; try discriminate; auto. congruence. Qed.

Lemma nth_error_default : forall A (l : list A) i d, i < length l -> nth_error l i = Some (nth i l d).
Proof. induction l; destruct i; simpl; intros; try lia; auto. apply IHl. lia. Qed.

Lemma not_done_lt : forall l j, is_done (nth j l TDone) = false -> j < length l.
Proof.
  intros. destruct (Nat.lt_ge_cases j (length l)); auto.
  rewrite nth_overflow in H by lia. discriminate.
Qed.

Lemma cnt_in : forall t l, In t l -> 1 <= cnt t l.
Proof. intros. unfold cnt. apply (count_occ_In Nat.eq_dec) in H. lia. Qed.

Lemma cnt_pos_in : forall t l, 1 <= cnt t l -> In t l.
Proof. intros. unfold cnt in H. apply (count_occ_In Nat.eq_dec). lia. Qed.

Lemma locked_false_all : forall s j x, locked s j = false -> In x (s_ws s) -> holds_lock j x = false.
Proof.
  unfold locked. intros. destruct (holds_lock j x) eqn:E; auto.
  assert (existsb (holds_lock j) (s_ws s) = true) by (apply existsb_exists; eauto). congruence.
Qed.

(* ------------------------------------------------------------------ the inductive invariant *)
Definition live1 (s : state) (t : nat) : nat := if is_live (st_of s t) then 1 else 0.
Definition done1 (s : state) (t : nat) : nat := if is_done (st_of s t) then 1 else 0.

(* I1: a started, unsettled task is in exactly one place (queue, fallback goroutine, one continuation
       list, one worker); any other task is nowhere *)
Definition I_place (s : state) : Prop := forall t, occ s t = live1 s t.
(* I3: a worker parked inside AWAIT with the mutex held saw the promise unsettled, and it still is *)
Definition I_hold (s : state) : Prop :=
  forall t j, In (WAwaitHold t j) (s_ws s) -> is_done (st_of s j) = false.
(* I4: a registered continuation is never left behind: its promise is unsettled, or the settling
       worker is still holding the mutex and draining the list *)
Definition I_conts (s : state) : Prop :=
  forall p t, In t (conts_of s p) -> is_done (st_of s p) = false \/ In (WSettle p) (s_ws s).
(* I5: resumed exactly once per suspension *)
Definition I_resume (c : cfg) (s : state) : Prop :=
  forall t, t < length (c_tasks c) ->
    nth t (s_takes s) 0 = nth t (s_parks s) 0 + on_worker s t + done1 s t.
(* I6: settled at most once, exactly once when done *)
Definition I_settle (c : cfg) (s : state) : Prop :=
  forall t, t < length (c_tasks c) -> nth t (s_settles s) 0 = done1 s t.

Record Inv (c : cfg) (s : state) : Prop := {
  inv_lens : lens c s;
  inv_place : I_place s;
  inv_hold : I_hold s;
  inv_conts : I_conts s;
  inv_resume : I_resume c s;
  inv_settle : I_settle c s }.

Lemma repeat_nth : forall A (x d : A) n i, i < n -> nth i (repeat x n) d = x.
Proof. induction n; destruct i; simpl; intros; try lia; auto. apply IHn. lia. Qed.

Lemma repeat_nth_or : forall A (x d : A) n i, nth i (repeat x n) d = x \/ nth i (repeat x n) d = d.
Proof. induction n; destruct i; simpl; auto. Qed.

Lemma concat_repeat_nil : forall n, concat (repeat (@nil nat) n) = [].
Proof. induction n; simpl; auto. Qed.

Lemma fm_repeat_idle : forall n, flat_map wtasks (repeat WIdle n) = [].
Proof. induction n; simpl; auto. Qed.

Lemma inv_init : forall c, Inv c (init c).
Proof.
  intros. constructor.
  - apply lens_init.
  - intro t. unfold occ, live1, st_of, init. simpl.
    rewrite concat_repeat_nil, fm_repeat_idle. simpl.
    destruct (repeat_nth_or tstat TNew TDone (length (c_tasks c)) t) as [E | E]; rewrite E; auto.
  - intros t j H. unfold init in H. simpl in H. apply repeat_spec in H. discriminate.
  - intros p t H. unfold conts_of, init in H. simpl in H.
    destruct (repeat_nth_or (list nat) [] [] (length (c_tasks c)) p) as [E | E]; rewrite E in H; destruct H.
  - intros t Ht. unfold on_worker, done1, st_of, init. simpl.
    rewrite fm_repeat_idle. rewrite !repeat_nth by auto. reflexivity.
  - intros t Ht. unfold done1, st_of, init. simpl. rewrite !repeat_nth by auto. reflexivity.
Qed.

(* ------------------------------------------------------------------ preservation *)
Ltac step_cases H :=
  match type of H with step_fn _ _ ?a = Some _ => destruct a; simpl in H end;
  [ unfold step_main in H | unfold step_worker, bump_pc in H | unfold step_flush in H ];
  destr_step H; try (inversion H; subst; clear H); try use_spawn; try use_enq.

Lemma is_new_lt : forall l j, is_new (nth j l TDone) = true -> j < length l.
Proof.
  intros. destruct (Nat.lt_ge_cases j (length l)); auto.
  rewrite nth_overflow in H by lia. discriminate.
Qed.
Lemma is_live_lt : forall l j, is_live (nth j l TDone) = true -> j < length l.
Proof.
  intros. destruct (Nat.lt_ge_cases j (length l)); auto.
  rewrite nth_overflow in H by lia. discriminate.
Qed.

(* rewrite the worker-list update / split using the hypothesis that names worker w's old state *)
Ltac ws_split P :=
  match goal with
  | E : nth_error (s_ws ?s) ?w = Some ?x |- _ =>
      rewrite ?(cnt_fm_upd _ wtasks _ _ _ E); rewrite (cnt_fm_split _ wtasks _ _ _ E) in P
  end.

Ltac st_cases t0 j :=
  destruct (Nat.eq_dec t0 j);
  [ subst; rewrite ?nth_upd_same by (eauto using is_new_lt, is_live_lt)
  | rewrite ?nth_upd_other by auto ].

Ltac one_cases := rewrite ?cnt_app, ?cnt_one in *; repeat match goal with
  | |- context [Nat.eq_dec ?a ?b] => destruct (Nat.eq_dec a b); try subst
  | H : context [Nat.eq_dec ?a ?b] |- _ => destruct (Nat.eq_dec a b); try subst
  end.

Lemma place_step : forall c s a s', Inv c s -> step_fn c s a = Some s' -> I_place s'.
Proof.
  intros c s a s' I H. destruct I as [L P Hh Hc _ _].
  step_cases H.
  - (* main: spawn of an already started task *) exact P.
  - (* main: spawn, queue has room *)
    intro t0. specialize (P t0). unfold occ, live1, st_of in *. simpl. rew_all.
    rewrite cnt_app, cnt_one. unfold st_of in *.
    st_cases t0 j.
    + destruct (nth j (s_st s) TDone); try discriminate. simpl in *. destruct (Nat.eq_dec j j); lia.
    + destruct (Nat.eq_dec j t0); [congruence | lia].
  - (* main: spawn, fallback goroutine *)
    intro t0. specialize (P t0). unfold occ, live1, st_of in *. simpl. rew_all.
    rewrite cnt_app, cnt_one. unfold st_of in *.
    st_cases t0 j.
    + destruct (nth j (s_st s) TDone); try discriminate. simpl in *. destruct (Nat.eq_dec j j); lia.
    + destruct (Nat.eq_dec j t0); [congruence | lia].
  - exact P.
  - (* take *)
    intro t0. specialize (P t0). unfold occ, live1, st_of in *. simpl.
    ws_split P. match goal with E : s_queue s = _ :: _ |- _ => rewrite E in P end. rewrite cnt_cons in P. simpl wtasks in *. rewrite ?cnt_nil in *. lia.
  - exact P.
  - intro t0. specialize (P t0). unfold occ, live1, st_of in *. simpl. rew_all.
    rewrite cnt_app, cnt_one. unfold st_of in *.
    st_cases t0 j.
    + destruct (nth j (s_st s) TDone); try discriminate. simpl in *. destruct (Nat.eq_dec j j); lia.
    + destruct (Nat.eq_dec j t0); [congruence | lia].
  - intro t0. specialize (P t0). unfold occ, live1, st_of in *. simpl. rew_all.
    rewrite cnt_app, cnt_one. unfold st_of in *.
    st_cases t0 j.
    + destruct (nth j (s_st s) TDone); try discriminate. simpl in *. destruct (Nat.eq_dec j j); lia.
    + destruct (Nat.eq_dec j t0); [congruence | lia].
  - intro t0. specialize (P t0). unfold occ, live1, st_of in *. simpl.
    ws_split P. simpl wtasks in *. lia.
  - intro t0. specialize (P t0). unfold occ, live1, st_of in *. simpl.
    ws_split P. simpl wtasks in *. lia.
  - (* settle-lock *)
    intro t0. pose proof (P t) as Pt. specialize (P t0). unfold occ, live1, st_of in *. simpl.
    ws_split P. ws_split Pt. simpl wtasks in *. rewrite ?cnt_nil, ?cnt_one in *.
    destruct (Nat.eq_dec t t); try congruence.
    assert (LT : is_live (nth t (s_st s) TDone) = true).
    { destruct (is_live (nth t (s_st s) TDone)); auto; lia. }
    st_cases t0 t.
    + rewrite LT in *. simpl. destruct (Nat.eq_dec t t); try congruence. lia.
    + destruct (Nat.eq_dec t t0); try congruence; try lia.
  - (* park *)
    assert (JL : j < length (s_conts s)).
    { pose proof (Hh t j (nth_error_In _ _ Heqo)) as D. apply not_done_lt in D.
      destruct L as (_ & _ & L1 & L2 & _). lia. }
    pose proof (nth_error_default _ (s_conts s) j [] JL) as EC.
    intro t0. specialize (P t0). unfold occ, live1, st_of, conts_of in *. simpl.
    ws_split P. rewrite concat_fm in *.
    rewrite (cnt_fm_upd _ (fun x => x) _ _ _ EC). rewrite (cnt_fm_split _ (fun x => x) _ _ _ EC) in P.
    simpl wtasks in *. rewrite cnt_app. rewrite ?cnt_nil in *. lia.
  - (* read-unlock *)
    intro t0. specialize (P t0). unfold occ, live1, st_of in *. simpl.
    ws_split P. simpl wtasks in *. lia.
  - (* settle-unlock *)
    intro t0. specialize (P t0). unfold occ, live1, st_of in *. simpl.
    ws_split P. simpl wtasks in *. lia.
  - (* send one continuation, room *)
    match goal with E : conts_of s t = _ :: _ |- _ => unfold conts_of in E; apply nth_nonnil_error in E; rename E into EC end.
    intro t0. specialize (P t0). unfold occ, live1, st_of in *. rew_all.
    rewrite concat_fm in *.
    rewrite (cnt_fm_upd _ (fun x => x) _ _ _ EC). rewrite (cnt_fm_split _ (fun x => x) _ _ _ EC) in P.
    rewrite cnt_app. rewrite (cnt_cons t0 n l) in P. lia.
  - (* send one continuation, fallback goroutine *)
    match goal with E : conts_of s t = _ :: _ |- _ => unfold conts_of in E; apply nth_nonnil_error in E; rename E into EC end.
    intro t0. specialize (P t0). unfold occ, live1, st_of in *. rew_all.
    rewrite concat_fm in *.
    rewrite (cnt_fm_upd _ (fun x => x) _ _ _ EC). rewrite (cnt_fm_split _ (fun x => x) _ _ _ EC) in P.
    rewrite cnt_app. rewrite (cnt_cons t0 n l) in P. lia.
  - (* flush *)
    intro t0. specialize (P t0). unfold occ, live1, st_of in *. simpl.
    match goal with E : nth_error (s_ovf s) _ = Some _ |- _ => rewrite (cnt_remove_nth _ _ _ E t0) in P end.
    rewrite cnt_app. lia.
Qed.

Ltac in_ws_old HI :=
  match type of HI with
  | In _ (upd _ _ _) => apply in_upd in HI; destruct HI as [HI | HI]; [try discriminate; try (inversion HI; subst; clear HI) | ]
  | _ => idtac
  end.


Lemma hold_step : forall c s a s', Inv c s -> step_fn c s a = Some s' -> I_hold s'.
Proof.
  intros c s a s' I H. destruct I as [L P Hh Hc _ _].
  step_cases H; intros t1 j1 HI; simpl in HI; unfold st_of in *; simpl; rew_hyp HI; rew_all; in_ws_old HI;
    try (pose proof (Hh _ _ HI) as HO; unfold st_of in HO);
    try assumption;
    try (destruct (Nat.eq_dec j1 j);
         [ subst; rewrite nth_upd_same by eauto using is_new_lt; reflexivity
         | rewrite nth_upd_other by auto; assumption ]).
  (* settle-lock: nobody can be parked in AWAIT on t with the mutex held, we hold it *)
  destruct (Nat.eq_dec j1 t).
  - subst. match goal with E : locked s t = false |- _ => pose proof (locked_false_all _ _ _ E HI) as F end.
    simpl in F. rewrite Nat.eqb_refl in F. discriminate.
  - rewrite nth_upd_other by auto. exact HO.
Qed.

Ltac keep_settle W :=
  match goal with
  | E : nth_error (s_ws ?s) ?w = Some ?x |- In (WSettle ?p) (upd ?w _ (s_ws ?s)) =>
      apply (in_upd_keep _ w _ _ x); [exact W | exact E | try discriminate; try congruence]
  end.

Lemma conts_step : forall c s a s', Inv c s -> step_fn c s a = Some s' -> I_conts s'.
Proof.
  intros c s a s' I H. destruct I as [L P Hh Hc _ _].
  step_cases H; intros p1 t1 HI; unfold conts_of, st_of in *; simpl in HI; simpl; rew_hyp HI; rew_all.
  - exact (Hc _ _ HI).
  - destruct (Hc _ _ HI) as [D | W]; auto. left.
    destruct (Nat.eq_dec p1 j); [subst; rewrite nth_upd_same by eauto using is_new_lt; auto | rewrite nth_upd_other by auto; auto].
  - destruct (Hc _ _ HI) as [D | W]; auto. left.
    destruct (Nat.eq_dec p1 j); [subst; rewrite nth_upd_same by eauto using is_new_lt; auto | rewrite nth_upd_other by auto; auto].
  - exact (Hc _ _ HI).
  - destruct (Hc _ _ HI) as [D | W]; auto. right. keep_settle W.
  - exact (Hc _ _ HI).
  - destruct (Hc _ _ HI) as [D | W]; auto. left.
    destruct (Nat.eq_dec p1 j); [subst; rewrite nth_upd_same by eauto using is_new_lt; auto | rewrite nth_upd_other by auto; auto].
  - destruct (Hc _ _ HI) as [D | W]; auto. left.
    destruct (Nat.eq_dec p1 j); [subst; rewrite nth_upd_same by eauto using is_new_lt; auto | rewrite nth_upd_other by auto; auto].
  - destruct (Hc _ _ HI) as [D | W]; auto. right. keep_settle W.
  - destruct (Hc _ _ HI) as [D | W]; auto. right. keep_settle W.
  - (* settle-lock *)
    destruct (Nat.eq_dec p1 t).
    + subst. right. apply in_upd_new. eapply nth_error_lt; eauto.
    + rewrite nth_upd_other by auto. destruct (Hc _ _ HI) as [D | W]; auto. right. keep_settle W.
  - (* park *)
    match goal with E : nth_error (s_ws s) w = Some (WAwaitHold _ _) |- _ =>
      pose proof (Hh _ _ (nth_error_In _ _ E)) as D0; unfold st_of in D0 end.
    destruct (Nat.eq_dec p1 j).
    + subst. auto.
    + rewrite nth_upd_other in HI by auto. destruct (Hc _ _ HI) as [D | W]; auto. right. keep_settle W.
  - destruct (Hc _ _ HI) as [D | W]; auto. right. keep_settle W.
  - (* settle-unlock *)
    destruct (Nat.eq_dec p1 t).
    + subst. match goal with E : nth t (s_conts s) [] = [] |- _ => rewrite E in HI end. destruct HI.
    + destruct (Hc _ _ HI) as [D | W]; auto. right. keep_settle W.
  - destruct (Nat.eq_dec p1 t).
    + subst. right. eapply nth_error_In; eauto.
    + rewrite nth_upd_other in HI by auto. exact (Hc _ _ HI).
  - destruct (Nat.eq_dec p1 t).
    + subst. right. eapply nth_error_In; eauto.
    + rewrite nth_upd_other in HI by auto. exact (Hc _ _ HI).
  - exact (Hc _ _ HI).
Qed.

Lemma live_of_occ : forall s t, I_place s -> 1 <= occ s t -> is_live (st_of s t) = true.
Proof.
  intros s t P H. specialize (P t). unfold live1 in P. destruct (is_live (st_of s t)); auto. lia.
Qed.

Lemma worker_task_live : forall s w x t, I_place s ->
  nth_error (s_ws s) w = Some x -> In t (wtasks x) -> is_live (st_of s t) = true.
Proof.
  intros s w x t P E HI. apply live_of_occ; auto. unfold occ.
  rewrite (cnt_fm_split _ wtasks _ _ _ E). apply cnt_in in HI. lia.
Qed.

Lemma queued_task_live : forall s t, I_place s -> In t (s_queue s) -> is_live (st_of s t) = true.
Proof.
  intros s t P HI. apply live_of_occ; auto. unfold occ. apply cnt_in in HI. lia.
Qed.

Lemma nth_incr : forall l t t0, t < length l ->
  nth t0 (incr t l) 0 = if Nat.eq_dec t0 t then S (nth t l 0) else nth t0 l 0.
Proof.
  intros. unfold incr. destruct (Nat.eq_dec t0 t).
  - subst. apply nth_upd_same. auto.
  - apply nth_upd_other. auto.
Qed.

Lemma live_not_done : forall x, is_live x = true -> is_done x = false.
Proof. destruct x; simpl; auto; discriminate. Qed.
Lemma new_not_done : forall x, is_new x = true -> is_done x = false.
Proof. destruct x; simpl; auto; discriminate. Qed.

Lemma done1_spawn : forall s j t0, is_new (nth j (s_st s) TDone) = true ->
  (if is_done (nth t0 (upd j TLive (s_st s)) TDone) then 1 else 0) =
  (if is_done (nth t0 (s_st s) TDone) then 1 else 0).
Proof.
  intros. destruct (Nat.eq_dec t0 j).
  - subst. rewrite nth_upd_same by eauto using is_new_lt. rewrite (new_not_done _ H). reflexivity.
  - rewrite nth_upd_other by auto. reflexivity.
Qed.

Lemma resume_step : forall c s a s', Inv c s -> step_fn c s a = Some s' -> I_resume c s'.
Proof.
  intros c s a s' I H. destruct I as [L P Hh Hc R _].
  assert (LS : length (s_st s) = length (c_tasks c)) by (destruct L as (_ & _ & L1 & _); exact L1).
  assert (LT : length (s_takes s) = length (c_tasks c)) by (destruct L as (_ & _ & _ & _ & L1 & _); exact L1).
  assert (LP : length (s_parks s) = length (c_tasks c)) by (destruct L as (_ & _ & _ & _ & _ & L1 & _); exact L1).
  step_cases H; intros t0 Ht0; specialize (R t0 Ht0); unfold on_worker, done1, st_of in *; simpl; rew_all;
    rewrite ?done1_spawn by assumption; try exact R.
  - (* take *)
    assert (NL : is_live (st_of s n) = true).
    { apply queued_task_live; auto. rewrite Heql. left; auto. }
    assert (n < length (s_takes s)) by (unfold st_of in NL; apply is_live_lt in NL; lia).
    ws_split R. rewrite nth_incr by auto. simpl wtasks in *. rewrite ?cnt_nil, ?cnt_one in *.
    destruct (Nat.eq_dec t0 n); destruct (Nat.eq_dec n t0); try congruence; subst; try lia.
  - ws_split R. simpl wtasks in *. lia.
  - ws_split R. simpl wtasks in *. lia.
  - (* settle-lock *)
    assert (NL : is_live (st_of s t) = true).
    { eapply worker_task_live; eauto. simpl. auto. }
    unfold st_of in NL. pose proof (is_live_lt _ _ NL) as TL.
    ws_split R. simpl wtasks in *. rewrite ?cnt_nil, ?cnt_one in *.
    destruct (Nat.eq_dec t0 t).
    + subst. rewrite nth_upd_same by auto. rewrite (live_not_done _ NL) in R. simpl.
      destruct (Nat.eq_dec t t); try congruence; try lia.
    + rewrite nth_upd_other by auto. destruct (Nat.eq_dec t t0); try congruence; try lia.
  - (* park *)
    assert (NL : is_live (st_of s t) = true).
    { eapply worker_task_live; eauto. simpl. auto. }
    assert (t < length (s_parks s)) by (unfold st_of in NL; apply is_live_lt in NL; lia).
    ws_split R. rewrite nth_incr by auto. simpl wtasks in *. rewrite ?cnt_nil, ?cnt_one in *.
    destruct (Nat.eq_dec t0 t); destruct (Nat.eq_dec t t0); try congruence; subst; try lia.
  - ws_split R. simpl wtasks in *. lia.
  - ws_split R. simpl wtasks in *. lia.
Qed.

Lemma settle_step : forall c s a s', Inv c s -> step_fn c s a = Some s' -> I_settle c s'.
Proof.
  intros c s a s' I H. destruct I as [L P Hh Hc _ R].
  assert (LS : length (s_st s) = length (c_tasks c)) by (destruct L as (_ & _ & L1 & _); exact L1).
  assert (LT : length (s_settles s) = length (c_tasks c)) by (destruct L as (_ & _ & _ & _ & _ & _ & L1); exact L1).
  step_cases H; intros t0 Ht0; specialize (R t0 Ht0); unfold done1, st_of in *; simpl; rew_all;
    rewrite ?done1_spawn by assumption; try exact R.
  (* settle-lock *)
  assert (NL : is_live (st_of s t) = true).
  { eapply worker_task_live; eauto. simpl. auto. }
  unfold st_of in NL. pose proof (is_live_lt _ _ NL) as TL.
  rewrite nth_incr by lia.
  destruct (Nat.eq_dec t0 t).
  - subst. rewrite nth_upd_same by auto. rewrite (live_not_done _ NL) in R. simpl. lia.
  - rewrite nth_upd_other by auto. exact R.
Qed.

Lemma inv_step : forall c s a s', Inv c s -> step_fn c s a = Some s' -> Inv c s'.
Proof.
  intros. constructor.
  - eapply lens_step; eauto. apply inv_lens; auto.
  - eapply place_step; eauto.
  - eapply hold_step; eauto.
  - eapply conts_step; eauto.
  - eapply resume_step; eauto.
  - eapply settle_step; eauto.
Qed.

Lemma inv_reachable : forall c s, reachable c s -> Inv c s.
Proof. induction 1; eauto using inv_init, inv_step. Qed.

(* ------------------------------------------------------------------ statements used by Props/C16.v *)
Lemma run_reachable : forall c sched s s', reachable c s -> run c sched s = Some s' -> reachable c s'.
Proof.
  induction sched; simpl; intros.
  - inversion H0; subst; auto.
  - destruct (step_fn c s a) eqn:E; try discriminate. eapply IHsched; [| eauto]. econstructor; eauto.
Qed.

Lemma in_seq_map : forall (f : nat -> action) n k, k < n -> In (f k) (map f (seq 0 n)).
Proof. intros. apply in_map. apply in_seq. lia. Qed.

Lemma enabled_nil_no_step : forall c s, enabled c s = [] -> forall a, step_fn c s a = None.
Proof.
  intros c s E a. destruct (step_fn c s a) eqn:S; auto. exfalso.
  assert (IA : In a (all_actions s)).
  { unfold all_actions. destruct a.
    - left; auto.
    - right. apply in_or_app. left. apply in_seq_map.
      simpl in S. unfold step_worker in S. destruct (nth_error (s_ws s) w) eqn:N; try discriminate.
      eapply nth_error_lt; eauto.
    - right. apply in_or_app. right. apply in_seq_map.
      simpl in S. unfold step_flush in S. destruct (nth_error (s_ovf s) k) eqn:N; try discriminate.
      eapply nth_error_lt; eauto. }
  assert (In a (enabled c s)).
  { unfold enabled. apply filter_In. split; auto. rewrite S. reflexivity. }
  rewrite E in H. destruct H.
Qed.

Lemma stuck_no_step : forall c s, stuck c s = true -> (forall s', ~ step c s s') /\ quiescent c s = false.
Proof.
  unfold stuck. intros c s H. apply andb_true_iff in H. destruct H as [H1 H2].
  apply Nat.eqb_eq in H1. apply length_zero_iff_nil in H1.
  split.
  - intros s' [a Ha]. rewrite (enabled_nil_no_step _ _ H1 a) in Ha. discriminate.
  - destruct (quiescent c s); auto; discriminate.
Qed.

Lemma no_lost_wakeup : forall c s, reachable c s ->
  (forall t, occ s t = if is_live (st_of s t) then 1 else 0) /\
  (forall p t, In t (conts_of s p) -> is_done (st_of s p) = false \/ In (WSettle p) (s_ws s)) /\
  (forall t j, In (WAwaitHold t j) (s_ws s) -> is_done (st_of s j) = false).
Proof.
  intros c s R. apply inv_reachable in R. destruct R as [_ P Hh Hc _ _]. auto.
Qed.

Lemma resume_exactly_once : forall c s, reachable c s -> forall t, t < length (c_tasks c) ->
  nth t (s_takes s) 0 = nth t (s_parks s) 0 + on_worker s t + (if is_done (st_of s t) then 1 else 0) /\
  on_worker s t <= 1.
Proof.
  intros c s R t Ht. apply inv_reachable in R. destruct R as [_ P _ _ Rs _]. split.
  - apply Rs; auto.
  - specialize (P t). unfold occ, on_worker, live1 in *. destruct (is_live (st_of s t)); lia.
Qed.

Lemma settle_once : forall c s, reachable c s -> forall t, t < length (c_tasks c) ->
  nth t (s_settles s) 0 = (if is_done (st_of s t) then 1 else 0).
Proof.
  intros c s R t Ht. apply inv_reachable in R. destruct R as [_ _ _ _ _ S]. apply S; auto.
Qed.

Lemma deadlock_witness : exists c s,
  c_mode c = Orig /\ c_N c = 1 /\ c_Q c = 1 /\ wf c = true /\ reachable c s /\
  (forall s', ~ step c s s') /\ quiescent c s = false /\
  (* the only worker holds promise 1's mutex, has a continuation to send, and the queue is full *)
  s_ws s = [WSettle 1] /\ conts_of s 1 = [0] /\ queue_full c s = true.
Proof.
  exists (wit_cfg Orig).
  destruct (run (wit_cfg Orig) wit_sched (init (wit_cfg Orig))) as [s |] eqn:E; [| vm_compute in E; discriminate].
  exists s.
  assert (R : reachable (wit_cfg Orig) s) by (eapply run_reachable; [apply R_init | exact E]).
  assert (K : stuck (wit_cfg Orig) s = true) by (vm_compute in E; inversion E; subst; vm_compute; reflexivity).
  destruct (stuck_no_step _ _ K) as [K1 K2].
  repeat split; auto; vm_compute in E; inversion E; subst; vm_compute; reflexivity.
Qed.

(* the same schedule under the fixed protocol does not get stuck, and running on terminates everything *)
Lemma fixed_witness_runs :
  let c := wit_cfg Fixed in
  let s := run_first c 200 (init c) in
  main_done c s = true /\ all_tasks_done s = true /\ quiescent c s = true /\
  s_takes s = [2; 1; 1; 1] /\ s_parks s = [1; 0; 0; 0] /\ s_settles s = [1; 1; 1; 1].
Proof. vm_compute. repeat split; reflexivity. Qed.

(* ------------------------------------------------------------------ well-formed programs: quiescent = complete *)
Lemma spawned_before_ex : forall b k j, spawned_before b k j = true ->
  exists k', k' < k /\ nth_error b k' = Some (ISpawn j).
Proof.
  induction b; destruct k; simpl; intros; try discriminate.
  { destruct a; discriminate. }
  destruct a.
  - apply orb_true_iff in H. destruct H.
    + apply Nat.eqb_eq in H. subst. exists 0. split; [lia | reflexivity].
    + destruct (IHb _ _ H) as [k' [? ?]]. exists (S k'). split; [lia | auto].
  - destruct (IHb _ _ H) as [k' [? ?]]. exists (S k'). split; [lia | auto].
Qed.

Lemma body_ok_from_spec : forall lo n b full k, body_ok_from lo n b full k = true ->
  forall i, (forall j, nth_error b i = Some (ISpawn j) -> lo <= j /\ j < n) /\
            (forall j, nth_error b i = Some (IAwait j) -> spawned_before full (k + i) j = true).
Proof.
  induction b; intros full k H i.
  - destruct i; simpl; split; intros; discriminate.
  - simpl in H. destruct a.
    + apply andb_true_iff in H. destruct H as [H1 H2]. apply andb_true_iff in H1. destruct H1 as [H0 H1].
      apply Nat.leb_le in H0. apply Nat.ltb_lt in H1.
      destruct i; simpl.
      * split; intros j0 E; inversion E; subst; auto.
      * replace (k + S i) with (S k + i) by lia. apply IHb; auto.
    + apply andb_true_iff in H. destruct H as [H1 H2].
      destruct i; simpl.
      * split; intros j0 E; inversion E; subst. rewrite Nat.add_0_r. auto.
      * replace (k + S i) with (S k + i) by lia. apply IHb; auto.
Qed.

Lemma tasks_ok_nth : forall n l i t b, tasks_ok n i l = true -> nth_error l t = Some b -> body_ok (S (i + t)) n b = true.
Proof.
  induction l; intros i t b H E; destruct t; simpl in *; try discriminate;
    apply andb_true_iff in H; destruct H as [H1 H2].
  - inversion E; subst. rewrite Nat.add_0_r. auto.
  - replace (i + S t) with (S i + t) by lia. eapply IHl; eauto.
Qed.

Lemma wf_task_spawn : forall c t k j, wf c = true -> nth_error (body_of c t) k = Some (ISpawn j) -> t < j.
Proof.
  intros c t k j W E. unfold wf in W. apply andb_true_iff in W. destruct W as [_ W].
  unfold body_of in E. destruct (nth_error (c_tasks c) t) as [l |] eqn:N.
  - assert (EB : nth t (c_tasks c) [] = l) by (apply nth_error_nth'; auto). rewrite EB in E.
    pose proof (tasks_ok_nth _ _ _ _ _ W N) as B. unfold body_ok in B.
    destruct (body_ok_from_spec _ _ _ _ _ B k) as [S1 _]. apply S1 in E. simpl in E. lia.
  - apply nth_error_None in N. rewrite nth_overflow in E by auto. destruct k; discriminate.
Qed.

Lemma wf_task_await : forall c t k j, wf c = true -> nth_error (body_of c t) k = Some (IAwait j) ->
  exists k', k' < k /\ nth_error (body_of c t) k' = Some (ISpawn j).
Proof.
  intros c t k j W E. unfold wf in W. apply andb_true_iff in W. destruct W as [_ W].
  unfold body_of in *. destruct (nth_error (c_tasks c) t) as [l |] eqn:N.
  - assert (EB : nth t (c_tasks c) [] = l) by (apply nth_error_nth'; auto). rewrite EB in *.
    pose proof (tasks_ok_nth _ _ _ _ _ W N) as B. unfold body_ok in B.
    destruct (body_ok_from_spec _ _ _ _ _ B k) as [_ S2]. apply S2 in E. simpl in E.
    apply spawned_before_ex; auto.
  - apply nth_error_None in N. rewrite nth_overflow in E by auto. destruct k; discriminate.
Qed.

Lemma wf_main_await : forall c k j, wf c = true -> nth_error (c_main c) k = Some (IAwait j) ->
  exists k', k' < k /\ nth_error (c_main c) k' = Some (ISpawn j).
Proof.
  intros c k j W E. unfold wf in W. apply andb_true_iff in W. destruct W as [W _].
  unfold body_ok in W. destruct (body_ok_from_spec _ _ _ _ _ W k) as [_ S2]. apply S2 in E. simpl in E.
  apply spawned_before_ex; auto.
Qed.

(* J1: spawn instructions already executed have started their task; J2: who is parked where *)
Record Inv2 (c : cfg) (s : state) : Prop := {
  j_task : forall t k j, k < pc_of s t -> nth_error (body_of c t) k = Some (ISpawn j) -> is_new (st_of s j) = false;
  j_main : forall k j, k < s_mainpc s -> nth_error (c_main c) k = Some (ISpawn j) -> is_new (st_of s j) = false;
  j_hold : forall t j, In (WAwaitHold t j) (s_ws s) -> t < j /\ is_new (st_of s j) = false;
  j_conts : forall p t, In t (conts_of s p) -> t < p /\ is_new (st_of s p) = false }.

Lemma not_new_upd : forall l i v x, is_new v = false ->
  is_new (nth x l TDone) = false -> is_new (nth x (upd i v l) TDone) = false.
Proof.
  intros. destruct (Nat.eq_dec x i).
  - subst. destruct (Nat.lt_ge_cases i (length l)).
    + rewrite nth_upd_same; auto.
    + rewrite nth_overflow; auto. rewrite upd_length. lia.
  - rewrite nth_upd_other; auto.
Qed.

Lemma nth_incr_cases : forall l t t0,
  nth t0 (incr t l) 0 = nth t0 l 0 \/ (t0 = t /\ nth t0 (incr t l) 0 = S (nth t l 0)).
Proof.
  intros. unfold incr. destruct (Nat.eq_dec t0 t).
  - subst. destruct (Nat.lt_ge_cases t (length l)).
    + right. split; auto. apply nth_upd_same; auto.
    + left. rewrite !nth_overflow; auto. rewrite upd_length. lia.
  - left. apply nth_upd_other; auto.
Qed.

Lemma inv2_init : forall c, Inv2 c (init c).
Proof.
  intros. constructor; unfold init, pc_of, conts_of; simpl.
  - intros t k j H. destruct (repeat_nth_or nat 0 0 (length (c_tasks c)) t) as [E | E]; rewrite E in H; lia.
  - intros; lia.
  - intros t j H. apply repeat_spec in H. discriminate.
  - intros p t H. destruct (repeat_nth_or (list nat) [] [] (length (c_tasks c)) p) as [E | E]; rewrite E in H; destruct H.
Qed.

Lemma not_new_mono : forall c s a s' x, step_fn c s a = Some s' ->
  is_new (st_of s x) = false -> is_new (st_of s' x) = false.
Proof.
  intros c s a s' x H N. step_cases H; unfold st_of in *; simpl; rew_all; auto; apply not_new_upd; auto.
Qed.

Lemma j_task_step : forall c s a s', wf c = true -> Inv c s -> Inv2 c s -> step_fn c s a = Some s' ->
  forall t k j, k < pc_of s' t -> nth_error (body_of c t) k = Some (ISpawn j) -> is_new (st_of s' j) = false.
Proof.
  intros c s a s' W I J H. destruct J as [J1 J2 J3 J4]. pose proof H as Hs.
  step_cases H; intros t1 k1 j1 K E; unfold pc_of in K; simpl in K; rew_hyp K;
    try (eapply not_new_mono; [exact Hs |]; eapply J1; eauto; fail).
  all: destruct (nth_incr_cases (s_pc s) t t1) as [EQ | [-> EQ]]; rewrite EQ in K;
    [ eapply not_new_mono; [exact Hs |]; eapply J1; eauto; fail | ];
    (destruct (Nat.eq_dec k1 (pc_of s t)) as [-> | NE];
     [ | eapply not_new_mono; [exact Hs |]; eapply (J1 t k1); eauto; unfold pc_of in *; lia ]);
    match goal with E1 : nth_error (body_of _ _) (pc_of _ _) = _ |- _ => first [ constr_eq E1 E; fail 1 | rewrite E1 in E; inversion E; subst ] end.
  - eapply not_new_mono; [exact Hs | exact H0].
  - unfold st_of. simpl. rew_all. rewrite nth_upd_same by (eapply is_new_lt; eauto). reflexivity.
  - unfold st_of. simpl. rew_all. rewrite nth_upd_same by (eapply is_new_lt; eauto). reflexivity.
Qed.

Lemma j_main_step : forall c s a s', wf c = true -> Inv c s -> Inv2 c s -> step_fn c s a = Some s' ->
  forall k j, k < s_mainpc s' -> nth_error (c_main c) k = Some (ISpawn j) -> is_new (st_of s' j) = false.
Proof.
  intros c s a s' W I J H. destruct J as [J1 J2 J3 J4]. pose proof H as Hs.
  step_cases H; intros k1 j1 K E; simpl in K; rew_hyp K;
    try (eapply not_new_mono; [exact Hs |]; eapply J2; eauto; fail).
  all: (destruct (Nat.eq_dec k1 (s_mainpc s)) as [-> | NE];
     [ | eapply not_new_mono; [exact Hs |]; eapply (J2 k1); eauto; lia ]);
    match goal with E1 : nth_error (c_main _) (s_mainpc _) = _ |- _ => first [ constr_eq E1 E; fail 1 | rewrite E1 in E; inversion E; subst ] end.
  - eapply not_new_mono; [exact Hs | exact H0].
  - unfold st_of. simpl. rew_all. rewrite nth_upd_same by (eapply is_new_lt; eauto). reflexivity.
  - unfold st_of. simpl. rew_all. rewrite nth_upd_same by (eapply is_new_lt; eauto). reflexivity.
Qed.

Lemma j_hold_step : forall c s a s', wf c = true -> Inv c s -> Inv2 c s -> step_fn c s a = Some s' ->
  forall t j, In (WAwaitHold t j) (s_ws s') -> t < j /\ is_new (st_of s' j) = false.
Proof.
  intros c s a s' W I J H. destruct J as [J1 J2 J3 J4]. pose proof H as Hs.
  step_cases H; intros t1 j1 HI; simpl in HI; rew_hyp HI; in_ws_old HI;
    try (destruct (J3 _ _ HI) as [A B]; split; [exact A | eapply not_new_mono; [exact Hs | exact B]]; fail).
  (* await-lock: the awaited promise was started by this very task, earlier in its body *)
  match goal with E1 : nth_error (body_of _ _) (pc_of _ _) = Some (IAwait _) |- _ =>
    destruct (wf_task_await _ _ _ _ W E1) as [k' [K1 K2]] end.
  split.
  - eapply wf_task_spawn; eauto.
  - eapply not_new_mono; [exact Hs |]. eapply J1; eauto.
Qed.

Lemma j_conts_step : forall c s a s', wf c = true -> Inv c s -> Inv2 c s -> step_fn c s a = Some s' ->
  forall p t, In t (conts_of s' p) -> t < p /\ is_new (st_of s' p) = false.
Proof.
  intros c s a s' W I J H. destruct J as [J1 J2 J3 J4]. pose proof H as Hs.
  step_cases H; intros p1 t1 HI; unfold conts_of in HI; simpl in HI; rew_hyp HI;
    try (destruct (J4 _ _ HI) as [A B]; split; [exact A | eapply not_new_mono; [exact Hs | exact B]]; fail).
  - (* park *)
    assert (FIN : forall A B, (A /\ is_new (st_of s p1) = false) -> B = A -> B /\ is_new (st_of
       (set_parks (set_conts (set_ws s (upd w WIdle (s_ws s))) (upd j (conts_of s j ++ [t]) (s_conts s)))
          (incr t (s_parks s))) p1) = false).
    { intros A B [HA HB] ->. split; auto. }
    eapply FIN; [| reflexivity].
    destruct (Nat.eq_dec p1 j) as [-> | NE].
    + destruct (Nat.lt_ge_cases j (length (s_conts s))) as [LT | GE].
      * rewrite nth_upd_same in HI by auto. apply in_app_or in HI. destruct HI as [HI | [<- | []]].
        -- apply (J4 j t1). exact HI.
        -- apply (J3 t j). eapply nth_error_In; eauto.
      * rewrite nth_overflow in HI by (rewrite upd_length; lia). destruct HI.
    + rewrite nth_upd_other in HI by auto. apply (J4 p1 t1). exact HI.
  - destruct (Nat.eq_dec p1 t) as [-> | NE].
    + match goal with E1 : conts_of s t = _ :: _ |- _ =>
        pose proof (nth_nonnil_error _ _ _ _ E1) as EC;
        rewrite nth_upd_same in HI by (eapply nth_error_lt; eauto);
        destruct (J4 t t1) as [A B]; [rewrite E1; right; exact HI |] end.
      split; [exact A | eapply not_new_mono; [exact Hs | exact B]].
    + rewrite nth_upd_other in HI by auto. destruct (J4 _ _ HI) as [A B].
      split; [exact A | eapply not_new_mono; [exact Hs | exact B]].
  - destruct (Nat.eq_dec p1 t) as [-> | NE].
    + match goal with E1 : conts_of s t = _ :: _ |- _ =>
        pose proof (nth_nonnil_error _ _ _ _ E1) as EC;
        rewrite nth_upd_same in HI by (eapply nth_error_lt; eauto);
        destruct (J4 t t1) as [A B]; [rewrite E1; right; exact HI |] end.
      split; [exact A | eapply not_new_mono; [exact Hs | exact B]].
    + rewrite nth_upd_other in HI by auto. destruct (J4 _ _ HI) as [A B].
      split; [exact A | eapply not_new_mono; [exact Hs | exact B]].
Qed.

Lemma inv2_step : forall c s a s', wf c = true -> Inv c s -> Inv2 c s -> step_fn c s a = Some s' -> Inv2 c s'.
Proof.
  intros. constructor.
  - eapply j_task_step; eauto.
  - eapply j_main_step; eauto.
  - eapply j_hold_step; eauto.
  - eapply j_conts_step; eauto.
Qed.

Lemma inv2_reachable : forall c s, wf c = true -> reachable c s -> Inv2 c s.
Proof.
  intros c s W R. induction R.
  - apply inv2_init.
  - eapply inv2_step; eauto. apply inv_reachable; auto.
Qed.

Lemma idle_no_tasks : forall ws, forallb is_idle ws = true ->
  flat_map wtasks ws = [] /\ (forall x, In x ws -> x = WIdle).
Proof.
  induction ws; simpl; intros.
  - split; auto. intros x [].
  - apply andb_true_iff in H. destruct H as [H1 H2]. destruct (IHws H2) as [A B].
    destruct a; simpl in H1; try discriminate. simpl. split; auto.
    intros x [<- | Hx]; auto.
Qed.

Lemma in_concat_nth : forall (l : list (list nat)) t, In t (concat l) -> exists p, In t (nth p l []).
Proof.
  induction l; simpl; intros t H; [destruct H |].
  apply in_app_or in H. destruct H.
  - exists 0. auto.
  - destruct (IHl _ H) as [p Hp]. exists (S p). auto.
Qed.

Lemma quiescent_no_live : forall c s, wf c = true -> reachable c s -> quiescent c s = true ->
  forall m t, length (s_st s) - t <= m -> is_live (st_of s t) = true -> False.
Proof.
  intros c s W R Q.
  pose proof (inv_reachable _ _ R) as I. pose proof (inv2_reachable _ _ W R) as J.
  unfold quiescent in Q. repeat (apply andb_true_iff in Q; destruct Q as [Q ?]).
  apply Nat.eqb_eq in H0, H1. apply length_zero_iff_nil in H0, H1.
  destruct (idle_no_tasks _ Q) as [WT WI].
  induction m; intros t Hm L.
  - unfold st_of in L. apply is_live_lt in L. lia.
  - pose proof (inv_place _ _ I t) as P. unfold occ, live1 in P. rewrite L, H0, H1, WT in P. simpl in P.
    assert (IC : In t (concat (s_conts s))) by (apply cnt_pos_in; lia).
    apply in_concat_nth in IC. destruct IC as [p Hp].
    destruct (j_conts _ _ J p t Hp) as [LT NN].
    destruct (inv_conts _ _ I p t Hp) as [ND | WS].
    + apply (IHm p).
      * pose proof L as L'. unfold st_of in L'. apply is_live_lt in L'. lia.
      * destruct (st_of s p); simpl in *; auto; discriminate.
    + apply WI in WS. discriminate.
Qed.

Lemma quiescent_complete : forall c s,
  wf c = true -> reachable c s -> quiescent c s = true ->
  main_done c s = true /\ all_tasks_done s = true.
Proof.
  intros c s W R Q.
  assert (NL : forall t, is_live (st_of s t) = true -> False).
  { intros t. eapply (quiescent_no_live c s W R Q (length (s_st s) - t)). lia. }
  split.
  - pose proof (inv2_reachable _ _ W R) as J.
    unfold quiescent in Q. apply andb_true_iff in Q. destruct Q as [_ MW].
    unfold main_waiting in MW. unfold main_done.
    destruct (nth_error (c_main c) (s_mainpc s)) as [[j | j] |] eqn:E; try discriminate.
    + exfalso. destruct (wf_main_await _ _ _ W E) as [k' [K1 K2]].
      pose proof (j_main _ _ J _ _ K1 K2) as NN.
      apply (NL j). destruct (st_of s j); simpl in *; auto; discriminate.
    + apply nth_error_None in E. apply Nat.leb_le. exact E.
  - unfold all_tasks_done. apply forallb_forall. intros x Hin.
    destruct (In_nth _ _ TDone Hin) as [i [Hi Hx]].
    destruct (is_live x) eqn:LX; auto. exfalso. apply (NL i). unfold st_of. rewrite Hx. exact LX.
Qed.

(* ------------------------------------------------------------------ conservation law of the settle step *)
(* One "send a continuation" step of the settling worker (both protocols, whenever it is enabled): the head
   continuation k leaves p's list and arrives exactly once in {task queue, fallback goroutines}; every other
   task's count there, every other continuation list, the workers and the task statuses are untouched. *)
Lemma settle_send_conserves : forall c s w p k rest s',
  nth_error (s_ws s) w = Some (WSettle p) -> conts_of s p = k :: rest ->
  step_fn c s (AWorker w) = Some s' ->
  conts_of s' p = rest /\
  (forall q, q <> p -> conts_of s' q = conts_of s q) /\
  s_ws s' = s_ws s /\ s_st s' = s_st s /\
  (forall t, cnt t (s_queue s') + cnt t (s_ovf s') = cnt t (s_queue s) + cnt t (s_ovf s) + cnt t [k]).
Proof.
  intros c s w p k rest s' HW HC HS.
  simpl in HS. unfold step_worker in HS. rewrite HW, HC in HS.
  destruct (enq_fields _ _ _ _ HS) as (_ & _ & Est & Ecs & Ews & _ & _ & _ & Eq).
  simpl in Est, Ecs, Ews.
  pose proof (nth_nonnil_error _ _ _ _ HC) as HE. apply nth_error_lt in HE.
  repeat split; auto.
  - unfold conts_of. rewrite Ecs. apply nth_upd_same. exact HE.
  - intros q Hq. unfold conts_of. rewrite Ecs. apply nth_upd_other. exact Hq.
  - intro t. simpl in Eq. destruct Eq as [(E1 & E2 & _) | (E1 & E2 & _)]; rewrite E1, E2, ?cnt_app; lia.
Qed.

(* state form: once the settlement of p is over (p settled, no worker is draining its list) no continuation is
   left on p, and every started, unsettled task sits in exactly one of: task queue, fallback goroutine, a worker,
   or the continuation list of a promise (which by the first part is unsettled or still being drained) *)
Lemma settled_conts_conserved : forall c s, reachable c s ->
  (forall p, is_done (st_of s p) = true -> ~ In (WSettle p) (s_ws s) -> conts_of s p = []) /\
  (forall t, is_live (st_of s t) = true ->
     cnt t (s_queue s) + cnt t (s_ovf s) + on_worker s t + cnt t (concat (s_conts s)) = 1).
Proof.
  intros c s R. apply inv_reachable in R. destruct R as [_ P _ Hc _ _]. split.
  - intros p D NW. destruct (conts_of s p) as [| t r] eqn:E; auto. exfalso.
    destruct (Hc p t) as [H | H].
    + rewrite E. left. reflexivity.
    + congruence.
    + auto.
  - intros t L. specialize (P t). unfold occ, live1, on_worker in *. rewrite L in P. lia.
Qed.

(* the "skip one" batched fallback (Model: step_fn_skip) breaks both: N = 1, Q = 1, a well-formed 3-task program,
   a run after which task 0 is started, unsettled and in no place at all; the runtime is quiescent with the
   main thread still waiting, so the program hangs although every task body is finite *)
Lemma skip_one_witness : exists c sched s,
  c_N c = 1 /\ c_Q c = 1 /\ wf c = true /\ run_skip c sched (init c) = Some s /\
  is_live (st_of s 0) = true /\ occ s 0 = 0 /\
  (forall p, conts_of s p = []) /\ is_done (st_of s 1) = true /\
  nth 0 (s_parks s) 0 = 1 /\ nth 0 (s_takes s) 0 = 1 /\
  enabled_skip c s = [] /\ quiescent c s = true /\ main_done c s = false.
Proof.
  exists skip_cfg, skip_sched.
  destruct (run_skip skip_cfg skip_sched (init skip_cfg)) as [s |] eqn:E; [| vm_compute in E; discriminate].
  exists s. vm_compute in E. inversion E; subst.
  repeat split; try (vm_compute; reflexivity).
  intro p. destruct p as [| [| [| p]]]; vm_compute; try reflexivity. destruct p; reflexivity.
Qed.

(* the same schedule under the Fixed protocol keeps task 0 (in a fallback goroutine), and running on terminates *)
Lemma skip_sched_fixed_ok :
  let c := skip_cfg in
  (exists s, run c skip_sched (init c) = Some s /\ occ s 0 = 1 /\ s_ovf s = [0]) /\
  let s := run_first c 200 (init c) in main_done c s = true /\ all_tasks_done s = true.
Proof. split; [eexists; vm_compute; repeat split; reflexivity | vm_compute; split; reflexivity]. Qed.
