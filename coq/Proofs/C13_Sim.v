(* C13 / C10 — UNBOUNDED refinement: for every operation sequence satisfying the discipline D
   (and the capacity guard), the reads of the address-level implementation machine equal the
   reads of the store-semantics spec.  Simulation relation R: an open upvalue stands for the
   cell of the live slot it points at, a closed upvalue owns its cell. *)
From Coq Require Import ZArith List Lia Bool ZifyBool ZifyNat PeanoNat.
From Elk Require Import Base.GoSem Model.C10_Stack Proofs.C10_Stack Proofs.C13_Refine.
Import ListNotations.
Open Scope Z_scope.

(* ---- opCloseUpvalues on a sorted list closes exactly the upvalues at or above `last` ---- *)
Lemma close_to_char last m : forall l h h' l',
  sdesc h l -> (forall u, In u l -> exists a, h u = UOpen a) ->
  close_to last m h l = (h', l') ->
  (forall u, In u l -> last <= addr_of (h u) -> h' u = close_cell m (h u)) /\
  (forall u, ~ In u l \/ addr_of (h u) < last -> h' u = h u) /\
  (forall u, In u l' <-> In u l /\ addr_of (h u) < last).
Proof.
  induction l as [|x r IH]; intros h h' l' S M E.
  - cbn in E. inversion E; subst. split; [intros u []|]. split; [reflexivity|].
    intros u. split; [intros []|intros [[] _]].
  - cbn [close_to] in E. destruct (addr_of (h x) <? last) eqn:C.
    + inversion E; subst. destruct S as [S1 S2].
      assert (A : forall u, In u (x :: r) -> addr_of (h' u) < last).
      { intros u [<-|Hu]; [lia|]. specialize (S1 u Hu). lia. }
      split; [|split].
      * intros u Hu Hl. specialize (A u Hu). lia.
      * reflexivity.
      * intros u. split; [intros Hu; split; [exact Hu|apply A; exact Hu]|intros [Hu _]; exact Hu].
    + pose proof (sdesc_notin _ _ _ S) as Hnin.
      destruct S as [S1 S2].
      set (h2 := upd h x (close_cell m (h x))) in *.
      assert (Eh : forall u, u <> x -> h2 u = h u).
      { intros u Hu. unfold h2, upd. destruct (Nat.eqb_spec u x); [contradiction|reflexivity]. }
      assert (Ex : h2 x = close_cell m (h x)) by (unfold h2, upd; rewrite Nat.eqb_refl; reflexivity).
      assert (Er : forall u, In u r -> h2 u = h u) by (intros u Hu; apply Eh; intros ->; contradiction).
      assert (S2' : sdesc h2 r) by (apply (sdesc_ext h); assumption).
      assert (M' : forall u, In u r -> exists a, h2 u = UOpen a).
      { intros u Hu. rewrite (Er u Hu). apply M. right. exact Hu. }
      destruct (IH h2 h' l' S2' M' E) as [A [B C']].
      split; [|split].
      * intros u [<-|Hu] Hl.
        -- rewrite (B x) by (left; exact Hnin). exact Ex.
        -- rewrite (A u Hu) by (rewrite (Er u Hu); exact Hl). rewrite (Er u Hu). reflexivity.
      * intros u [Hu|Hu].
        -- assert (u <> x) by (intros ->; apply Hu; left; reflexivity).
           rewrite (B u) by (left; intro; apply Hu; right; assumption). apply Eh. assumption.
        -- assert (u <> x) by (intros ->; lia).
           rewrite (B u); [apply Eh; assumption|].
           rewrite (Eh u) by assumption. right. exact Hu.
      * intros u. rewrite C'. split.
        -- intros [Hu Hl]. split; [right; exact Hu|]. rewrite <- (Er u Hu). exact Hl.
        -- intros [[<-|Hu] Hl]; [lia|]. split; [exact Hu|]. rewrite (Er u Hu). exact Hl.
Qed.

(* ... stated on a machine state satisfying the list invariant *)
Lemma close_to_heap s last h' ol' :
  OInv s -> close_to last (mem s) (heap s) (opens s) = (h', ol') ->
  forall u, (u < nheap s)%nat ->
    h' u = match heap s u with
           | UOpen a => if last <=? a then UClosed (mem s a) else UOpen a
           | UClosed v => UClosed v
           end.
Proof.
  intros [_ _ _ Hso Hme Hall] E u Hu.
  assert (M0 : forall u, In u (opens s) -> exists a, heap s u = UOpen a).
  { intros v Hv. destruct (Hme v Hv) as [_ [k Hk]]. eexists. exact Hk. }
  destruct (close_to_char last (mem s) _ _ _ _ Hso M0 E) as [A [B _]].
  destruct (heap s u) as [a|v] eqn:Eu.
  - pose proof (Hall u a Hu Eu) as Hin.
    destruct (last <=? a) eqn:C.
    + rewrite (A u Hin) by (rewrite Eu; cbn; lia). rewrite Eu. reflexivity.
    + rewrite (B u) by (right; rewrite Eu; cbn; lia). exact Eu.
  - rewrite (B u); [exact Eu|]. left. intro Hin. destruct (M0 u Hin) as [a Ha]. congruence.
Qed.

(* captureUpvalue that allocates: no upvalue of the list already points at the slot *)
Lemma cap_ins_new h slot n : forall l l' id,
  sdesc h l -> (forall u, In u l -> u <> n) -> cap_ins h slot n l = (l', id) -> id = n ->
  forall u, In u l -> addr_of (h u) <> slot.
Proof.
  induction l as [|x r IH]; intros l' id S M E Hid u Hu; [destruct Hu|].
  cbn [cap_ins] in E. destruct S as [S1 S2].
  destruct (addr_of (h x) <=? slot) eqn:C1.
  - destruct (addr_of (h x) =? slot) eqn:C2.
    + inversion E; subst. exfalso. eapply M; [left; reflexivity|reflexivity].
    + destruct Hu as [<-|Hu]; [lia|]. specialize (S1 u Hu). lia.
  - destruct (cap_ins h slot n r) as [r' id'] eqn:Er. inversion E; subst.
    destruct Hu as [<-|Hu]; [lia|].
    apply (IH r' n S2 (fun v Hv => M v (or_intror Hv)) eq_refl eq_refl u Hu).
Qed.

(* the ascending copy loop of callBytecodeFunctionTCO is a parallel copy when the source region
   lies at or above the destination *)
Lemma tc_copy_n (m : Z -> Z) f src : f <= src -> forall n,
  let m' := fold_left (fun m' i => updz m' (f + W * i) (m' (src + W * i))) (map Z.of_nat (seq 0 n)) m in
  (forall k, (k < n)%nat -> m' (f + W * Z.of_nat k) = m (src + W * Z.of_nat k)) /\
  (forall a, (forall k, (k < n)%nat -> a <> f + W * Z.of_nat k) -> m' a = m a).
Proof.
  intros Hle. induction n as [|n [IH1 IH2]]; cbn zeta.
  - split; [intros k Hk; lia|reflexivity].
  - rewrite seq_S, map_app, fold_left_app. cbn [map fold_left Nat.add].
    set (mn := fold_left (fun m' i => updz m' (f + W * i) (m' (src + W * i))) (map Z.of_nat (seq 0 n)) m) in *.
    assert (Hs : mn (src + W * Z.of_nat n) = m (src + W * Z.of_nat n)).
    { apply IH2. intros k Hk. unfold W. lia. }
    split.
    + intros k Hk. unfold updz. destruct (Z.eqb_spec (f + W * Z.of_nat k) (f + W * Z.of_nat n)) as [E|E].
      * assert (k = n) by (unfold W in E; lia). subst k. exact Hs.
      * apply IH1. assert (k <> n) by (intros ->; apply E; reflexivity). lia.
    + intros a Ha. unfold updz. destruct (Z.eqb_spec a (f + W * Z.of_nat n)) as [E|E].
      * exfalso. apply (Ha n); [lia|exact E].
      * apply IH2. intros k Hk. apply Ha. lia.
Qed.

Lemma tc_copy_spec (m : Z -> Z) f p a : 0 <= a -> f <= p - W * a ->
  (forall k, 0 <= k < a -> tc_copy m f p a (f + W * k) = m (p - W * a + W * k)) /\
  (forall x, (forall k, 0 <= k < a -> x <> f + W * k) -> tc_copy m f p a x = m x).
Proof.
  intros Ha Hle. unfold tc_copy, zseq.
  destruct (tc_copy_n m f (p - W * a) Hle (Z.to_nat a)) as [A B]. cbn zeta in A, B.
  split.
  - intros k Hk. specialize (A (Z.to_nat k)). rewrite Z2Nat.id in A by lia. apply A. lia.
  - intros x Hx. apply B. intros k Hk. apply Hx. lia.
Qed.

(* ---- the simulation relation ---- *)
Record R (s : st) (t : sst) : Prop := mkR {
  r_sp : sp s = base s + W * ssp t;
  r_fp : fp s = base s + W * sfp t;
  r_fr : frames s = map (fun g => base s + W * g) (sframes t);
  r_geo : 0 <= sfp t <= ssp t /\ ssp t <= cap s;
  r_nh : nh s = snh t;
  r_out : out s = sout t;
  r_mem : forall j, 0 <= j < ssp t -> mem s (base s + W * j) = cells t (sslots t j);
  r_inj : forall j1 j2, 0 <= j1 < ssp t -> 0 <= j2 < ssp t -> sslots t j1 = sslots t j2 -> j1 = j2;
  r_fsl : forall j, 0 <= j < ssp t -> (sslots t j < nextc t)%nat;
  r_fh : forall x, (x < snh t)%nat -> (shandles t x < nextc t)%nat /\ (handles s x < nheap s)%nat;
  r_hh : forall x y, (x < snh t)%nat -> (y < snh t)%nat ->
           (handles s x = handles s y <-> shandles t x = shandles t y);
  r_open : forall x a, (x < snh t)%nat -> heap s (handles s x) = UOpen a ->
             exists j, a = base s + W * j /\ 0 <= j < ssp t /\ sslots t j = shandles t x;
  r_closed : forall x v, (x < snh t)%nat -> heap s (handles s x) = UClosed v ->
             v = cells t (shandles t x) /\ forall j, 0 <= j < ssp t -> sslots t j <> shandles t x;
  r_oinv : OInv s
}.

Lemma R_init b c : 0 <= c -> R (init_st b c) init_sst.
Proof.
  intros Hc. constructor; cbn; try reflexivity; try lia; try (intros; lia).
  - apply init_oinv.
Qed.

Lemma no_handle_on_spec t c : no_handle_on t c = true ->
  forall x, (x < snh t)%nat -> shandles t x <> c.
Proof.
  unfold no_handle_on. rewrite forallb_forall. intros H x Hx E.
  specialize (H x). rewrite in_seq in H. specialize (H ltac:(lia)).
  rewrite E, Nat.eqb_refl in H. discriminate.
Qed.

(* ---- every operation preserves the simulation relation ---- *)
Ltac brk := repeat match goal with
  | |- context [Z.eqb ?a ?b] => destruct (Z.eqb_spec a b)
  | |- context [Nat.eqb ?a ?b] => destruct (Nat.eqb_spec a b)
  | H : context [Z.eqb ?a ?b] |- _ => destruct (Z.eqb_spec a b)
  | H : context [Nat.eqb ?a ?b] |- _ => destruct (Nat.eqb_spec a b)
  end.

Ltac setup HR s t :=
  destruct HR as [Hsp Hfp Hfr Hgeo Hnh Hout Hmem Hinj Hfsl Hfh Hhh Hop Hcl HO];
  destruct s as [b c m p f fr ol h n hd k ou];
  destruct t as [p' f' fr' sl ce nx hd' k' ou'];
  cbn [base cap mem sp fp frames opens heap nheap handles nh out ssp sfp sframes sslots cells nextc shandles snh sout] in *;
  subst p f fr k ou.

Ltac flds := cbn [base cap mem sp fp frames opens heap nheap handles nh out ssp sfp sframes sslots cells nextc shandles snh sout].
Ltac fldsin H := cbn [base cap mem sp fp frames opens heap nheap handles nh out ssp sfp sframes sslots cells nextc shandles snh sout] in H.

Ltac fsl j := match goal with H : forall j0, 0 <= j0 < _ -> (_ j0 < _)%nat |- _ => pose proof (H j ltac:(lia)) end.

Lemma sim_push s t v : R s t -> ok t (OPush v) = true -> fits s (OPush v) = true ->
  R (step s (OPush v)) (sstep t (OPush v)).
Proof.
  intros HR Hok Hfit. pose proof (step_oinv s (OPush v) (r_oinv _ _ HR)) as HO'.
  setup HR s t. cbn [step sstep fits] in *. fldsin Hfit.
  constructor; flds; unfold W in *; try reflexivity; try lia; try assumption; try exact HO'.
  - intros j Hj. unfold updz, upd. brk. all: try lia. all: try (fsl j; lia). all: try (apply Hmem; lia).
  - intros j1 j2 H1 H2. unfold updz. brk; intros E. all: try lia. all: try (fsl j1; lia). all: try (fsl j2; lia).
    all: try (apply Hinj; try lia; exact E).
  - intros j Hj. unfold updz. brk. all: try lia. all: try (fsl j; lia).
  - intros x Hx. destruct (Hfh x Hx). split; lia.
  - intros x a Hx Ha. destruct (Hop x a Hx Ha) as [j [E1 [E2 E3]]]. exists j. split; [exact E1|]. split; [lia|].
    unfold updz. brk. all: try lia. all: try exact E3.
  - intros x v0 Hx Hv. destruct (Hcl x v0 Hx Hv) as [E1 E2]. destruct (Hfh x Hx) as [F1 F2]. split.
    + unfold upd. brk. all: try lia. all: try exact E1.
    + intros j Hj. unfold updz. brk. all: try lia. all: try (apply E2; lia).
Qed.

Lemma sim_pop s t : R s t -> ok t OPop = true ->
  R (step s OPop) (sstep t OPop).
Proof.
  intros HR Hok. pose proof (step_oinv s OPop (r_oinv _ _ HR)) as HO'.
  setup HR s t. cbn [step sstep ok] in *. fldsin Hok.
  apply andb_prop in Hok. destruct Hok as [Hk1 Hk2].
  pose proof (no_handle_on_spec _ _ Hk2) as NH. fldsin NH.
  constructor; flds; unfold W in *; try reflexivity; try lia; try assumption; try exact HO'.
  - intros j Hj. unfold updz. brk. all: try lia. all: try (apply Hmem; lia).
  - intros j1 j2 H1 H2. apply Hinj; lia.
  - intros j Hj. apply Hfsl. lia.
  - intros x a Hx Ha. destruct (Hop x a Hx Ha) as [j [E1 [E2 E3]]]. exists j. split; [exact E1|]. split; [|exact E3].
    assert (j <> p' - 1) by (intros ->; apply (NH x Hx); symmetry; exact E3). lia.
  - intros x v0 Hx Hv. destruct (Hcl x v0 Hx Hv) as [E1 E2]. split; [exact E1|]. intros j Hj. apply E2. lia.
Qed.

Lemma sim_getlocal s t i : R s t -> ok t (OGetLocal i) = true ->
  R (step s (OGetLocal i)) (sstep t (OGetLocal i)).
Proof.
  intros HR Hok. pose proof (step_oinv s (OGetLocal i) (r_oinv _ _ HR)) as HO'.
  setup HR s t. cbn [step sstep ok] in *. fldsin Hok.
  constructor; flds; unfold W in *; try reflexivity; try lia; try assumption; try exact HO'.
  f_equal; try exact Hout. replace (b + 24 * f' + 24 * i) with (b + 24 * (f' + i)) by lia. apply Hmem. lia.
Qed.

Lemma sim_setlocal s t i v : R s t -> ok t (OSetLocal i v) = true ->
  R (step s (OSetLocal i v)) (sstep t (OSetLocal i v)).
Proof.
  intros HR Hok. pose proof (step_oinv s (OSetLocal i v) (r_oinv _ _ HR)) as HO'.
  setup HR s t. cbn [step sstep ok] in *. fldsin Hok.
  constructor; flds; unfold W in *; try reflexivity; try lia; try assumption; try exact HO'.
  - intros j Hj. unfold updz, upd. brk. all: try lia. all: try (apply Hmem; lia).
    all: try (exfalso; assert (j = f' + i) by (apply Hinj; try lia; assumption); lia).
    all: try (assert (j = f' + i) by lia; subst j; congruence).
  - intros x v0 Hx Hv. destruct (Hcl x v0 Hx Hv) as [E1 E2]. split; [|exact E2].
    unfold upd. brk; [|exact E1]. exfalso. apply (E2 (f' + i)); [lia|congruence].
Qed.

Lemma sim_getup s t x : R s t -> ok t (OGetUp x) = true ->
  R (step s (OGetUp x)) (sstep t (OGetUp x)).
Proof.
  intros HR Hok. pose proof (step_oinv s (OGetUp x) (r_oinv _ _ HR)) as HO'.
  setup HR s t. cbn [step sstep ok] in *. fldsin Hok.
  constructor; flds; unfold W in *; try reflexivity; try lia; try assumption; try exact HO'.
  f_equal; try exact Hout. unfold uget. flds.
  destruct (h (hd x)) as [a|v] eqn:E.
  - destruct (Hop x a ltac:(lia) E) as [j [E1 [E2 E3]]]. subst a. rewrite <- E3. apply Hmem. lia.
  - destruct (Hcl x v ltac:(lia) E) as [E1 _]. exact E1.
Qed.

Lemma sim_setup s t x v : R s t -> ok t (OSetUp x v) = true ->
  R (step s (OSetUp x v)) (sstep t (OSetUp x v)).
Proof.
  intros HR Hok. pose proof (step_oinv s (OSetUp x v) (r_oinv _ _ HR)) as HO'.
  setup HR s t. cbn [step sstep ok] in *. fldsin Hok.
  destruct (h (hd x)) as [a|v1] eqn:E.
  - destruct (Hop x a ltac:(lia) E) as [j [E1 [E2 E3]]]. subst a.
    constructor; flds; unfold W in *; try reflexivity; try lia; try assumption; try exact HO'.
    + intros j0 Hj. unfold updz, upd. brk. all: try lia. all: try (apply Hmem; lia).
      all: try (exfalso; assert (j0 = j) by (apply Hinj; try lia; congruence); lia).
      all: try (assert (j0 = j) by lia; subst j0; congruence).
    + intros y v0 Hy Hv. destruct (Hcl y v0 Hy Hv) as [F1 F2]. split; [|exact F2].
      unfold upd. brk; [|exact F1]. exfalso. apply (F2 j); [lia|congruence].
  - destruct (Hcl x v1 ltac:(lia) E) as [E1 E2].
    constructor; flds; unfold W in *; try reflexivity; try lia; try assumption; try exact HO'.
    + intros j Hj. unfold upd. brk. all: try (apply Hmem; lia). all: try (exfalso; apply (E2 j Hj); congruence).
    + intros y a Hy Ha. unfold upd in Ha. brk; [discriminate|]. apply Hop; assumption.
    + intros y v0 Hy Hv. unfold upd in Hv |- *.
      destruct (Nat.eqb_spec (hd y) (hd x)) as [Eh|Eh].
      * inversion Hv; subst v0. assert (Ec : hd' y = hd' x) by (apply Hhh; try lia; exact Eh).
        rewrite Ec, Nat.eqb_refl. split; [reflexivity|exact E2].
      * destruct (Hcl y v0 Hy Hv) as [F1 F2]. split; [|exact F2].
        destruct (Nat.eqb_spec (hd' y) (hd' x)) as [Ec|Ec]; [|exact F1].
        exfalso. apply Eh. apply Hhh; try lia; try exact Ec.
Qed.

Lemma sim_call s t a : R s t -> ok t (OCall a) = true ->
  R (step s (OCall a)) (sstep t (OCall a)).
Proof.
  intros HR Hok. pose proof (step_oinv s (OCall a) (r_oinv _ _ HR)) as HO'.
  setup HR s t. cbn [step sstep ok] in *. fldsin Hok.
  constructor; flds; unfold W in *; try reflexivity; try lia; try assumption; try exact HO'.
Qed.

Lemma sim_newvar s t i : R s t -> ok t (ONewVar i) = true ->
  R (step s (ONewVar i)) (sstep t (ONewVar i)).
Proof.
  intros HR Hok. pose proof (step_oinv s (ONewVar i) (r_oinv _ _ HR)) as HO'.
  setup HR s t. cbn [step sstep ok] in *. fldsin Hok.
  apply andb_prop in Hok. destruct Hok as [Hk1 Hk2].
  pose proof (no_handle_on_spec _ _ Hk2) as NH. fldsin NH.
  constructor; flds; unfold W in *; try reflexivity; try lia; try assumption; try exact HO'.
  - intros j Hj. unfold updz, upd. brk. all: try lia. all: try (fsl j; lia). all: try (apply Hmem; lia).
    all: try (subst j; apply Hmem; lia).
  - intros j1 j2 H1 H2. unfold updz. brk; intros E. all: try lia. all: try (fsl j1; lia). all: try (fsl j2; lia).
    all: try (apply Hinj; try lia; exact E).
  - intros j Hj. unfold updz. brk. all: try lia. all: try (fsl j; lia).
  - intros x Hx. destruct (Hfh x Hx). split; lia.
  - intros x a Hx Ha. destruct (Hop x a Hx Ha) as [j [E1 [E2 E3]]]. exists j. split; [exact E1|]. split; [lia|].
    unfold updz. brk. all: try exact E3. exfalso. apply (NH x Hx). subst j. symmetry. exact E3.
  - intros x v0 Hx Hv. destruct (Hcl x v0 Hx Hv) as [E1 E2]. destruct (Hfh x Hx) as [F1 F2]. split.
    + unfold upd. brk. all: try lia. all: try exact E1.
    + intros j Hj. unfold updz. brk. all: try lia. all: try (apply E2; lia).
Qed.

Lemma sim_capture s t i : R s t -> ok t (OCapture i) = true ->
  R (step s (OCapture i)) (sstep t (OCapture i)).
Proof.
  intros HR Hok. pose proof (step_oinv s (OCapture i) (r_oinv _ _ HR)) as HO'.
  setup HR s t. cbn [step sstep ok] in *. fldsin Hok.
  pose proof HO as HO0. destruct HO as [_ _ _ Hso Hme Hall].
  cbn [base cap mem sp fp frames opens heap nheap handles nh out] in *.
  destruct (cap_ins h (b + W * f' + W * i) n ol) as [ol' id] eqn:E.
  assert (M0 : forall u, In u ol -> u <> n /\ exists a, h u = UOpen a).
  { intros u Hu. destruct (Hme u Hu) as [Hlt [j Hj]]. split; [lia|eexists; exact Hj]. }
  assert (Hc0 : (sl (f' + i)%Z < nx)%nat) by (apply Hfsl; lia).
  assert (Hslot : b + W * f' + W * i = b + W * (f' + i)) by lia.
  assert (KEY : forall y, (y < k')%nat -> hd' y = sl (f' + i) -> In (hd y) ol /\ h (hd y) = UOpen (b + W * f' + W * i)).
  { intros y Hy Ey. destruct (h (hd y)) as [a|v] eqn:Ea.
    - destruct (Hop y a Hy Ea) as [j [E1 [E2 E3]]].
      assert (j = f' + i) by (apply Hinj; try lia; congruence). subst j a.
      split; [apply (Hall _ _ (proj2 (Hfh y Hy)) Ea)|rewrite Hslot; reflexivity].
    - exfalso. destruct (Hcl y v Hy Ea) as [_ F]. apply (F (f' + i)); [lia|congruence]. }
  destruct (cap_ins_spec h _ n ol ol' id Hso M0 E) as [[A [B [C D]]]|[A [B C]]].
  - (* shared *)
    apply Nat.eqb_neq in A. rewrite A in HO' |- *. apply Nat.eqb_neq in A. subst ol'.
    destruct (Hme id C) as [Hidn _].
    constructor; flds; unfold W in *; try reflexivity; try lia; try assumption; try exact HO'.
    + intros x Hx. unfold upd. brk; [split; lia|]. apply Hfh. lia.
    + intros x y Hx Hy. unfold upd. brk; try tauto.
      * subst x. split; intros Q.
        -- rewrite Q in D. destruct (Hop y _ ltac:(lia) D) as [j [E1 [E2 E3]]].
           assert (j = f' + i) by lia. subst j. congruence.
        -- destruct (KEY y ltac:(lia) (eq_sym Q)) as [K1 K2].
           apply (oinv_one_per_slot _ _ _ HO0); cbn [opens heap]; try assumption. rewrite K2, D. reflexivity.
      * subst y. split; intros Q.
        -- rewrite <- Q in D. destruct (Hop x _ ltac:(lia) D) as [j [E1 [E2 E3]]].
           assert (j = f' + i) by lia. subst j. congruence.
        -- destruct (KEY x ltac:(lia) Q) as [K1 K2].
           apply (oinv_one_per_slot _ _ _ HO0); cbn [opens heap]; try assumption. rewrite K2, D. reflexivity.
      * apply Hhh; lia.
    + intros x a Hx Ha. unfold upd in Ha |- *. brk.
      * rewrite D in Ha. exists (f' + i). split; [|split; [lia|reflexivity]]. unfold W in *. replace (b + 24 * (f' + i)) with (b + 24 * f' + 24 * i) by lia. congruence.
      * apply Hop; [lia|exact Ha].
    + intros x v Hx Hv. unfold upd in Hv |- *. brk.
      * rewrite D in Hv. discriminate.
      * apply Hcl; [lia|exact Hv].
  - (* fresh upvalue *)
    subst id. rewrite Nat.eqb_refl in HO' |- *.
    assert (NEW : forall u, In u ol -> addr_of (h u) <> b + W * f' + W * i).
    { apply (cap_ins_new h _ n ol ol' n Hso (fun u Hu => proj1 (M0 u Hu)) E eq_refl). }
    assert (NK : forall y, (y < k')%nat -> hd' y <> sl (f' + i)).
    { intros y Hy Ey. destruct (KEY y Hy Ey) as [K1 K2]. apply (NEW _ K1). rewrite K2. reflexivity. }
    constructor; flds; unfold W in *; try reflexivity; try lia; try assumption; try exact HO'.
    + intros x Hx. unfold upd. brk; [split; lia|]. destruct (Hfh x ltac:(lia)). split; lia.
    + intros x y Hx Hy. unfold upd. brk; try tauto.
      * subst x. destruct (Hfh y ltac:(lia)) as [_ F]. split; intros Q; [lia|]. exfalso. apply (NK y ltac:(lia)). symmetry. exact Q.
      * subst y. destruct (Hfh x ltac:(lia)) as [_ F]. split; intros Q; [lia|]. exfalso. apply (NK x ltac:(lia)). exact Q.
      * apply Hhh; lia.
    + intros x a Hx Ha. unfold upd in Ha |- *. brk.
      all: try (destruct (Hfh x ltac:(lia)) as [_ F]; lia).
      all: try (apply Hop; [lia|exact Ha]).
      all: exists (f' + i); split; [|split; [lia|reflexivity]]; unfold W in *; replace (b + 24 * (f' + i)) with (b + 24 * f' + 24 * i) by lia; congruence.
    + intros x v Hx Hv. unfold upd in Hv |- *. brk.
      all: try discriminate.
      all: try (destruct (Hfh x ltac:(lia)) as [_ F]; lia).
      all: apply Hcl; [lia|exact Hv].
Qed.

Lemma closed_handles s t last h' ol' lo :
  R s t -> close_to last (mem s) (heap s) (opens s) = (h', ol') -> last = base s + W * lo ->
  forall x, (x < snh t)%nat ->
    match h' (handles s x) with
    | UOpen a => exists j, a = base s + W * j /\ 0 <= j < ssp t /\ j < lo /\ sslots t j = shandles t x
    | UClosed v => v = cells t (shandles t x) /\
                   ((forall j, 0 <= j < ssp t -> sslots t j <> shandles t x) \/
                    (exists j, lo <= j < ssp t /\ 0 <= j /\ sslots t j = shandles t x))
    end.
Proof.
  intros HR E Hl x Hx.
  rewrite (close_to_heap s last h' ol' (r_oinv _ _ HR) E) by (apply (r_fh _ _ HR); exact Hx).
  destruct (heap s (handles s x)) as [a|v] eqn:Ea.
  - destruct (r_open _ _ HR x a Hx Ea) as [j [E1 [E2 E3]]]. subst a last.
    destruct (base s + W * lo <=? base s + W * j) eqn:C.
    + split; [rewrite <- E3; apply (r_mem _ _ HR); lia|]. right. exists j. unfold W in C. repeat split; try lia; try exact E3.
    + exists j. unfold W in C. repeat split; try lia; try exact E3.
  - destruct (r_closed _ _ HR x v Hx Ea) as [F1 F2]. split; [exact F1|]. left. exact F2.
Qed.

Lemma sim_close s t i : R s t -> ok t (OClose i) = true ->
  R (step s (OClose i)) (sstep t (OClose i)).
Proof.
  intros HR Hok. pose proof (step_oinv s (OClose i) (r_oinv _ _ HR)) as HO'.
  pose proof (fun h' ol' E => closed_handles s t (fp s + W * i) h' ol' (sfp t + i) HR E) as CH.
  setup HR s t. cbn [step sstep ok] in *. fldsin Hok. fldsin CH.
  destruct (close_to (b + W * f' + W * i) m h ol) as [h1 ol1] eqn:E.
  specialize (CH h1 ol1 eq_refl ltac:(unfold W; lia)).
  constructor; flds; unfold W in *; try reflexivity; try lia; try assumption; try exact HO'.
  - intros j Hj. destruct ((f' + i <=? j) && (j <? p')) eqn:C.
    + replace ((nx <=? nx + Z.to_nat (j - (f' + i)))%nat && (nx + Z.to_nat (j - (f' + i)) <? nx + Z.to_nat (p' - (f' + i)))%nat) with true by lia.
      replace (f' + i + Z.of_nat (nx + Z.to_nat (j - (f' + i)) - nx)) with j by lia. apply Hmem. lia.
    + fsl j. replace ((nx <=? sl j)%nat && (sl j <? nx + Z.to_nat (p' - (f' + i)))%nat) with false by lia. apply Hmem. lia.
  - intros j1 j2 H1 H2.
    destruct ((f' + i <=? j1) && (j1 <? p')) eqn:C1; destruct ((f' + i <=? j2) && (j2 <? p')) eqn:C2; intros Q.
    all: try lia. all: try (fsl j1; lia). all: try (fsl j2; lia). all: try (apply Hinj; try lia; exact Q).
  - intros j Hj. destruct ((f' + i <=? j) && (j <? p')) eqn:C; [lia|]. fsl j. lia.
  - intros x Hx. destruct (Hfh x Hx). split; lia.
  - intros x a Hx Ha. specialize (CH x Hx). rewrite Ha in CH. destruct CH as [j [E1 [E2 [E3 E4]]]].
    exists j. split; [exact E1|]. split; [lia|].
    replace ((f' + i <=? j) && (j <? p')) with false by lia. exact E4.
  - intros x v Hx Hv. specialize (CH x Hx). rewrite Hv in CH. destruct CH as [E1 E2]. destruct (Hfh x Hx) as [F1 F2].
    split.
    + replace ((nx <=? hd' x)%nat && (hd' x <? nx + Z.to_nat (p' - (f' + i)))%nat) with false by lia. exact E1.
    + intros j Hj. destruct ((f' + i <=? j) && (j <? p')) eqn:C; [lia|].
      destruct E2 as [E2|[j0 [G1 [G2 G3]]]]; [apply E2; lia|].
      intros Q. assert (j = j0) by (apply Hinj; try lia; congruence). lia.
Qed.

Lemma sim_ret s t : R s t -> ok t ORet = true ->
  R (step s ORet) (sstep t ORet).
Proof.
  intros HR Hok. pose proof (step_oinv s ORet (r_oinv _ _ HR)) as HO'.
  pose proof (fun h' ol' E => closed_handles s t (fp s) h' ol' (sfp t) HR E) as CH.
  setup HR s t. cbn [step sstep ok] in *. fldsin Hok. fldsin CH.
  destruct fr' as [|g fr']; [discriminate|].
  destruct (close_to (b + W * f') m h ol) as [h1 ol1] eqn:E.
  specialize (CH h1 ol1 eq_refl eq_refl).
  cbn [map List.hd List.tl] in *.
  constructor; flds; unfold W in *; try reflexivity; try lia; try assumption; try exact HO'.
  - intros j Hj. unfold updz, upd. brk. all: try lia. all: try (fsl j; lia).
    all: try (apply Hmem; lia).
    all: try (replace (b + 24 * p' - 24) with (b + 24 * (p' - 1)) by lia; apply Hmem; lia).
  - intros j1 j2 H1 H2. unfold updz. brk; intros Q. all: try lia. all: try (fsl j1; lia). all: try (fsl j2; lia).
    all: try (apply Hinj; try lia; exact Q).
  - intros j Hj. unfold updz. brk. all: try lia. all: try (fsl j; lia).
  - intros x Hx. destruct (Hfh x Hx). split; lia.
  - intros x a Hx Ha. specialize (CH x Hx). rewrite Ha in CH. destruct CH as [j [E1 [E2 [E3 E4]]]].
    exists j. split; [exact E1|]. split; [lia|]. unfold updz. brk. all: try lia. all: try exact E4.
  - intros x v Hx Hv. specialize (CH x Hx). rewrite Hv in CH. destruct CH as [E1 E2]. destruct (Hfh x Hx) as [F1 F2].
    split.
    + unfold upd. brk. all: try lia. all: try exact E1.
    + intros j Hj. unfold updz. brk. all: try lia.
      destruct E2 as [E2|[j0 [G1 [G2 G3]]]]; [apply E2; lia|].
      intros Q. assert (j = j0) by (apply Hinj; try lia; congruence). lia.
Qed.

Lemma sim_tailcall s t a lc : R s t -> ok t (OTailCall a lc) = true ->
  R (step s (OTailCall a lc)) (sstep t (OTailCall a lc)).
Proof.
  intros HR Hok. pose proof (step_oinv s (OTailCall a lc) (r_oinv _ _ HR)) as HO'.
  pose proof (fun h' ol' E => closed_handles s t (fp s) h' ol' (sfp t) HR E) as CH.
  setup HR s t. cbn [step sstep ok] in *. fldsin Hok. fldsin CH.
  destruct (close_to (b + W * f') m h ol) as [h1 ol1] eqn:E.
  specialize (CH h1 ol1 eq_refl eq_refl).
  assert (Ha : 0 <= a) by lia. assert (Hlc : 0 <= lc) by lia. assert (Hp : p' = f' + lc + a) by lia.
  destruct (tc_copy_spec m (b + W * f') (b + W * p') a Ha ltac:(unfold W; lia)) as [TC1 TC2].
  constructor; flds; unfold W in *; try reflexivity; try lia; try assumption; try exact HO'.
  - intros j Hj. destruct ((f' <=? j) && (j <? f' + a)) eqn:C.
    + replace ((nx <=? nx + Z.to_nat (j - f'))%nat && (nx + Z.to_nat (j - f') <? nx + Z.to_nat a)%nat) with true by lia.
      replace (b + 24 * j) with (b + 24 * f' + 24 * (j - f')) by lia. rewrite TC1 by lia.
      replace (b + 24 * p' - 24 * a + 24 * (j - f')) with (b + 24 * (p' - a + Z.of_nat (nx + Z.to_nat (j - f') - nx))) by lia.
      apply Hmem. lia.
    + fsl j. replace ((nx <=? sl j)%nat && (sl j <? nx + Z.to_nat a)%nat) with false by lia.
      rewrite TC2 by (intros k0 Hk0; lia). apply Hmem. lia.
  - intros j1 j2 H1 H2.
    destruct ((f' <=? j1) && (j1 <? f' + a)) eqn:C1; destruct ((f' <=? j2) && (j2 <? f' + a)) eqn:C2; intros Q.
    all: try lia. all: try (fsl j1; lia). all: try (fsl j2; lia). all: try (apply Hinj; try lia; exact Q).
  - intros j Hj. destruct ((f' <=? j) && (j <? f' + a)) eqn:C; [lia|]. fsl j. lia.
  - intros x Hx. destruct (Hfh x Hx). split; lia.
  - intros x a0 Hx Ha0. specialize (CH x Hx). rewrite Ha0 in CH. destruct CH as [j [E1 [E2 [E3 E4]]]].
    exists j. split; [exact E1|]. split; [lia|].
    replace ((f' <=? j) && (j <? f' + a)) with false by lia. exact E4.
  - intros x v Hx Hv. specialize (CH x Hx). rewrite Hv in CH. destruct CH as [E1 E2]. destruct (Hfh x Hx) as [F1 F2].
    split.
    + replace ((nx <=? hd' x)%nat && (hd' x <? nx + Z.to_nat a)%nat) with false by lia. exact E1.
    + intros j Hj. destruct ((f' <=? j) && (j <? f' + a)) eqn:C; [lia|].
      destruct E2 as [E2|[j0 [G1 [G2 G3]]]]; [apply E2; lia|].
      intros Q. assert (j = j0) by (apply Hinj; try lia; congruence). lia.
Qed.

Lemma sim_grow s t nb : R s t -> R (step s (OGrow nb)) (sstep t (OGrow nb)).
Proof.
  intros HR. pose proof (step_oinv s (OGrow nb) (r_oinv _ _ HR)) as HO'.
  setup HR s t. cbn [step sstep] in *. unfold grow in *. flds. fldsin HO'.
  pose proof HO as HO0. destruct HO as [_ _ _ Hso Hme Hall].
  cbn [base cap mem sp fp frames opens heap nheap handles nh out] in *.
  pose proof (sdesc_nodup _ _ Hso) as ND.
  assert (Hh : forall u, fold_left (fun h0 u0 => upd h0 u0 (rebase_cell off_from_to b nb (h0 u0))) ol h u =
                         if in_dec Nat.eq_dec u ol then rebase_cell off_from_to b nb (h u) else h u).
  { intros u. apply (fold_upd_char (rebase_cell off_from_to b nb)). exact ND. }
  set (h2 := fold_left (fun h0 u0 => upd h0 u0 (rebase_cell off_from_to b nb (h0 u0))) ol h) in *.
  constructor; flds; try reflexivity; try assumption; try exact HO'.
  - rewrite off_from_to_slot. reflexivity.
  - rewrite off_from_to_slot. reflexivity.
  - rewrite map_map. apply map_ext. intros g. rewrite off_from_to_slot. reflexivity.
  - lia.
  - intros j Hj. unfold copy_mem.
    destruct (Z.eqb_spec (nb + W * j) (nb + W * (2 * c - 1))) as [Q|_]; [unfold W in Q; lia|].
    assert (Rg : (nb <=? nb + W * j) && (nb + W * j <? nb + W * c) = true) by (unfold W; lia).
    rewrite Rg. replace (nb + W * j - nb + b) with (b + W * j) by lia. apply Hmem. exact Hj.
  - intros x a Hx Ha. rewrite Hh in Ha. destruct (in_dec Nat.eq_dec (hd x) ol) as [I|I].
    + destruct (h (hd x)) as [a0|v0] eqn:E0; cbn [rebase_cell] in Ha; [|discriminate].
      destruct (Hop x a0 Hx E0) as [j [E1 [E2 E3]]]. subst a0. rewrite off_from_to_slot in Ha.
      exists j. split; [congruence|]. split; [exact E2|exact E3].
    + exfalso. apply I. apply (Hall _ a (proj2 (Hfh x Hx))). exact Ha.
  - intros x v Hx Hv. rewrite Hh in Hv. destruct (in_dec Nat.eq_dec (hd x) ol) as [I|I].
    + destruct (Hme _ I) as [_ [j Hj]]. rewrite Hj in Hv. cbn [rebase_cell] in Hv. discriminate.
    + apply Hcl; assumption.
Qed.

(* the as-found tail call is correct only under its stronger guard (no closure refers to a variable
   instance of the frame: the compiler would have had to close explicitly) *)
Lemma no_handle_in_frame_spec t : no_handle_in_frame t = true ->
  forall j x, sfp t <= j < ssp t -> (x < snh t)%nat -> shandles t x <> sslots t j.
Proof.
  unfold no_handle_in_frame. rewrite forallb_forall. intros H j x Hj Hx.
  specialize (H (j - sfp t)).
  assert (I : In (j - sfp t) (zseq (ssp t - sfp t))).
  { unfold zseq. apply in_map_iff. exists (Z.to_nat (j - sfp t)). split; [lia|]. apply in_seq. lia. }
  specialize (H I). replace (sfp t + (j - sfp t)) with j in H by lia.
  apply (no_handle_on_spec _ _ H x Hx).
Qed.

Lemma sim_tailcall_old s t a lc : R s t -> ok t (OTailCallOld a lc) = true ->
  R (step s (OTailCallOld a lc)) (sstep t (OTailCallOld a lc)).
Proof.
  intros HR Hok. pose proof (step_oinv s (OTailCallOld a lc) (r_oinv _ _ HR)) as HO'.
  assert (NF : no_handle_in_frame t = true) by (cbn [ok] in Hok; lia).
  pose proof (no_handle_in_frame_spec t NF) as NH.
  setup HR s t. cbn [step sstep ok] in *. fldsin Hok. fldsin NH.
  assert (Ha : 0 <= a) by lia. assert (Hlc : 0 <= lc) by lia. assert (Hp : p' = f' + lc + a) by lia.
  destruct (tc_copy_spec m (b + W * f') (b + W * p') a Ha ltac:(unfold W; lia)) as [TC1 TC2].
  constructor; flds; unfold W in *; try reflexivity; try lia; try assumption; try exact HO'.
  - intros j Hj. destruct ((f' <=? j) && (j <? f' + a)) eqn:C.
    + replace ((nx <=? nx + Z.to_nat (j - f'))%nat && (nx + Z.to_nat (j - f') <? nx + Z.to_nat a)%nat) with true by lia.
      replace (b + 24 * j) with (b + 24 * f' + 24 * (j - f')) by lia. rewrite TC1 by lia.
      replace (b + 24 * p' - 24 * a + 24 * (j - f')) with (b + 24 * (p' - a + Z.of_nat (nx + Z.to_nat (j - f') - nx))) by lia.
      apply Hmem. lia.
    + fsl j. replace ((nx <=? sl j)%nat && (sl j <? nx + Z.to_nat a)%nat) with false by lia.
      rewrite TC2 by (intros k0 Hk0; lia). apply Hmem. lia.
  - intros j1 j2 H1 H2.
    destruct ((f' <=? j1) && (j1 <? f' + a)) eqn:C1; destruct ((f' <=? j2) && (j2 <? f' + a)) eqn:C2; intros Q.
    all: try lia. all: try (fsl j1; lia). all: try (fsl j2; lia). all: try (apply Hinj; try lia; exact Q).
  - intros j Hj. destruct ((f' <=? j) && (j <? f' + a)) eqn:C; [lia|]. fsl j. lia.
  - intros x Hx. destruct (Hfh x Hx). split; lia.
  - intros x a0 Hx Ha0. destruct (Hop x a0 Hx Ha0) as [j [E1 [E2 E3]]].
    assert (j < f') by (destruct (Z.ltb_spec j f') as [|G]; [assumption|exfalso; apply (NH j x ltac:(lia) Hx); symmetry; exact E3]).
    exists j. split; [exact E1|]. split; [lia|].
    replace ((f' <=? j) && (j <? f' + a)) with false by lia. exact E3.
  - intros x v Hx Hv. destruct (Hcl x v Hx Hv) as [E1 E2]. destruct (Hfh x Hx) as [F1 F2].
    split.
    + replace ((nx <=? hd' x)%nat && (hd' x <? nx + Z.to_nat a)%nat) with false by lia. exact E1.
    + intros j Hj. destruct ((f' <=? j) && (j <? f' + a)) eqn:C; [lia|]. apply E2. lia.
Qed.

(* error unwinding of one frame is restoreLastFrame *)
Lemma sim_unwind s t : R s t -> ok t OUnwind = true ->
  R (step s OUnwind) (sstep t OUnwind).
Proof.
  intros HR Hok. change (R (step s ORet) (sstep t ORet)). apply sim_ret; assumption.
Qed.

Lemma sim_step s t o : R s t -> ok t o = true -> fits s o = true ->
  R (step s o) (sstep t o).
Proof.
  intros HR Hok Hfit. destruct o.
  - apply sim_push; assumption.
  - apply sim_pop; assumption.
  - apply sim_getlocal; assumption.
  - apply sim_setlocal; assumption.
  - apply sim_capture; assumption.
  - apply sim_getup; assumption.
  - apply sim_setup; assumption.
  - apply sim_close; assumption.
  - apply sim_call; assumption.
  - apply sim_ret; assumption.
  - apply sim_grow; assumption.
  - apply sim_newvar; assumption.
  - apply sim_tailcall; assumption.
  - apply sim_tailcall_old; assumption.
  - apply sim_unwind; assumption.
Qed.

Lemma sim_run : forall l s t, R s t -> D t l = true -> fits_run s l = true ->
  R (run s l) (srun t l).
Proof.
  induction l as [|o r IH]; intros s t HR HD Hf; [exact HR|].
  cbn [D fits_run] in HD, Hf.
  apply andb_prop in HD. apply andb_prop in Hf.
  destruct HD as [D1 D2]. destruct Hf as [F1 F2].
  cbn [run srun fold_left]. apply IH; try assumption. apply sim_step; assumption.
Qed.

(* UNBOUNDED refinement *)
Theorem refines : forall b c l, 0 <= c ->
  D init_sst l = true -> fits_run (init_st b c) l = true ->
  out (run (init_st b c) l) = sout (srun init_sst l).
Proof.
  intros b c l Hc HD Hf. apply (r_out _ _ (sim_run l _ _ (R_init b c Hc) HD Hf)).
Qed.

(* UNBOUNDED size/growth independence *)
Theorem run_indep : forall b1 c1 b2 c2 l1 l2, 0 <= c1 -> 0 <= c2 ->
  filter no_grow l1 = filter no_grow l2 ->
  D init_sst l1 = true -> D init_sst l2 = true ->
  fits_run (init_st b1 c1) l1 = true -> fits_run (init_st b2 c2) l2 = true ->
  out (run (init_st b1 c1) l1) = out (run (init_st b2 c2) l2).
Proof.
  intros b1 c1 b2 c2 l1 l2 H1 H2 E D1 D2 F1 F2.
  rewrite (refines b1 c1 l1 H1 D1 F1), (refines b2 c2 l2 H2 D2 F2).
  rewrite (srun_grow_invariant l1), (srun_grow_invariant l2). fold no_grow. rewrite E. reflexivity.
Qed.
