(* C22 — Format / ParseDate round trip for the default format, on the model. *)
From Coq Require Import ZArith List Bool Lia ZifyBool.
From Elk Require Import Base.GoSem Model.C22_Civil Proofs.C22_Civil.
Import ListNotations.
Open Scope Z_scope.

Definition val (l : str) (acc : Z) : Z := fold_left (fun a c => a * 10 + (c - 48)) l acc.
Definition all_digits (l : str) : Prop := Forall (fun c => is_digit c = true) l.
Definition nondigit_start (s : str) : Prop := match s with [] => True | c :: _ => is_digit c = false end.

Lemma val_app l1 l2 acc : val (l1 ++ l2) acc = val l2 (val l1 acc).
Proof. unfold val. apply fold_left_app. Qed.

Lemma zlen_cons {A} (x : A) l : zlen (x :: l) = 1 + zlen l.
Proof. unfold zlen. cbn [length]. lia. Qed.
Lemma zlen_app {A} (l1 l2 : list A) : zlen (l1 ++ l2) = zlen l1 + zlen l2.
Proof. unfold zlen. rewrite app_length. lia. Qed.

(* --- digits *)
Lemma digits_fuel_spec fuel : forall n, 0 <= n < 10 ^ Z.of_nat fuel ->
  all_digits (digits_fuel fuel n) /\ val (digits_fuel fuel n) 0 = n.
Proof.
  induction fuel as [|f IH]; intros n Hn.
  - cbn in Hn. assert (n = 0) by lia. subst. split; [constructor|reflexivity].
  - cbn [digits_fuel]. destruct (n <? 10) eqn:E.
    + split; [constructor; [unfold is_digit; lia|constructor]|]. unfold val. cbn [fold_left]. lia.
    + assert (Hq : 0 <= n / 10 < 10 ^ Z.of_nat f).
      { rewrite Nat2Z.inj_succ, Z.pow_succ_r in Hn by lia. split; [apply Z.div_pos; lia|apply Z.div_lt_upper_bound; lia]. }
      destruct (IH _ Hq) as [D V]. split.
      * apply Forall_app. split; [exact D|]. constructor; [|constructor].
        pose proof (Z.mod_pos_bound n 10 ltac:(lia)). unfold is_digit. lia.
      * rewrite val_app, V. unfold val. cbn [fold_left].
        pose proof (Z.div_mod n 10 ltac:(lia)). lia.
Qed.

Lemma digits_fuel_nonempty f n : (1 <= length (digits_fuel (S f) n))%nat.
Proof. cbn [digits_fuel]. destruct (n <? 10); [cbn; lia|]. rewrite app_length. cbn [length]. lia. Qed.

Lemma digits_len : forall (k : nat) fuel n, 0 <= n < 10 ^ Z.of_nat (S k) -> (length (digits_fuel fuel n) <= S k)%nat.
Proof.
  induction k as [|k IH]; intros fuel n Hn.
  - destruct fuel as [|f]; [cbn; lia|]. cbn [digits_fuel]. change (10 ^ Z.of_nat 1) with 10 in Hn.
    destruct (n <? 10) eqn:E; [cbn; lia|lia].
  - destruct fuel as [|f]; [cbn; lia|]. cbn [digits_fuel]. destruct (n <? 10) eqn:E; [cbn; lia|].
    rewrite app_length. cbn [length].
    assert (Hq : 0 <= n / 10 < 10 ^ Z.of_nat (S k)).
    { rewrite (Nat2Z.inj_succ (S k)), Z.pow_succ_r in Hn by lia. split; [apply Z.div_pos; lia|apply Z.div_lt_upper_bound; lia]. }
    pose proof (IH f _ Hq). lia.
Qed.

Lemma digits_spec n : 0 <= n < 10 ^ 7 ->
  all_digits (digits n) /\ val (digits n) 0 = n /\ (1 <= length (digits n) <= 7)%nat.
Proof.
  intros Hn. unfold digits.
  assert (H25 : 0 <= n < 10 ^ Z.of_nat 25) by (change (10 ^ Z.of_nat 25) with 10000000000000000000000000; lia).
  destruct (digits_fuel_spec 25 n H25) as [D V]. split; [exact D|]. split; [exact V|].
  split; [apply digits_fuel_nonempty|]. apply (digits_len 6). change (Z.of_nat 7) with 7. exact Hn.
Qed.

Lemma rep_digits k : all_digits (rep 48 k) /\ val (rep 48 k) 0 = 0 /\ length (rep 48 k) = k.
Proof.
  induction k as [|k (D & V & L)]; [repeat split; constructor|].
  cbn [rep]. repeat split.
  - constructor; [reflexivity|exact D].
  - unfold val in *. cbn [fold_left]. exact V.
  - cbn [length]. lia.
Qed.

(* --- the digit scanner *)
Lemma parse_digits_app : forall ds budget acc cnt rest,
  all_digits ds -> (length ds <= budget)%nat ->
  (nondigit_start rest \/ length ds = budget) ->
  parse_digits budget acc cnt (ds ++ rest) = (val ds acc, cnt + zlen ds, rest).
Proof.
  induction ds as [|x ds IH]; intros budget acc cnt rest D L R.
  - cbn [app]. unfold val, zlen. cbn [fold_left length]. replace (cnt + Z.of_nat 0) with cnt by lia.
    destruct budget as [|b]; [destruct rest; reflexivity|].
    destruct R as [R|R]; [|cbn in R; lia].
    destruct rest as [|c t]; [reflexivity|]. cbn [parse_digits]. cbn in R. rewrite R. reflexivity.
  - destruct budget as [|b]; [cbn in L; lia|].
    inversion D as [|? ? Dx Dr]; subst.
    cbn [app parse_digits]. rewrite Dx.
    rewrite IH; [|exact Dr|cbn in L; lia|destruct R as [R|R]; [left; exact R|right; cbn in R; lia]].
    rewrite zlen_cons. f_equal. f_equal. lia.
Qed.

(* a year as printed by %Y / %F is read back, greedily, when followed by a non-digit *)
Lemma parse_year_digits (neg : bool) DL rest :
  all_digits DL -> (1 <= length DL <= 7)%nat -> nondigit_start rest ->
  parse_year_num false true ((if neg then [45] else []) ++ DL ++ rest)
  = Some ((if neg then - val DL 0 else val DL 0), rest).
Proof.
  intros D L R. unfold parse_year_num.
  assert (Z0 : zlen DL =? 0 = false) by (unfold zlen; lia).
  destruct neg.
  - cbn [app]. change ((45 =? 45) && (0 <? 8)) with true. cbv beta iota.
    change (Z.to_nat (8 - (0 + 1))) with 7%nat.
    rewrite parse_digits_app by (try assumption; try lia; left; assumption).
    replace (0 + zlen DL) with (zlen DL) by lia. rewrite Z0. reflexivity.
  - cbn [app]. destruct DL as [|c t]; [cbn in L; lia|].
    inversion D as [|? ? Dc Dt]; subst.
    cbn [app]. assert (E : (c =? 45) && (0 <? 8) = false) by (unfold is_digit in Dc; lia).
    rewrite E. change (Z.to_nat (8 - 0)) with 8%nat.
    change (c :: t ++ rest) with ((c :: t) ++ rest).
    rewrite parse_digits_app by (try assumption; try lia; left; assumption).
    replace (0 + zlen (c :: t)) with (zlen (c :: t)) by lia. rewrite Z0. reflexivity.
Qed.

Lemma fmt_year y : - 2 ^ 22 <= y < 2 ^ 22 ->
  exists DL, fmt_num PZero 4 y = (if y <? 0 then [45] else []) ++ DL /\
             all_digits DL /\ (1 <= length DL <= 7)%nat /\ val DL 0 = Z.abs y.
Proof.
  intros Hy. unfold fmt_num.
  assert (Ha : 0 <= Z.abs y < 10 ^ 7) by lia.
  destruct (digits_spec _ Ha) as (D & V & L).
  set (ds := digits (Z.abs y)) in *.
  set (sg := if y <? 0 then [45] else []).
  set (k := Z.to_nat (4 - zlen sg - zlen ds)).
  destruct (rep_digits k) as (RD & RV & RL).
  exists (rep 48 k ++ ds). split; [reflexivity|]. split; [apply Forall_app; split; assumption|]. split.
  - rewrite app_length, RL. unfold k, zlen, sg. destruct (y <? 0); cbn [length]; lia.
  - rewrite val_app, RV. exact V.
Qed.

Lemma parse_year_rt y rest : - 2 ^ 22 <= y < 2 ^ 22 -> nondigit_start rest ->
  parse_year_num false true (fmt_num PZero 4 y ++ rest) = Some (y, rest).
Proof.
  intros Hy R. destruct (fmt_year y Hy) as (DL & E & D & L & V). rewrite E, <- app_assoc.
  destruct (y <? 0) eqn:S.
  - rewrite (parse_year_digits true) by assumption. rewrite V. f_equal. f_equal. lia.
  - rewrite (parse_year_digits false) by assumption. rewrite V. f_equal. f_equal. lia.
Qed.

(* two-digit fields *)
Lemma fmt_two n : 0 <= n <= 99 ->
  exists DL, fmt_num PZero 2 n = DL /\ all_digits DL /\ length DL = 2%nat /\ val DL 0 = n.
Proof.
  intros Hn. unfold fmt_num. rewrite Z.abs_eq by lia.
  assert (S : n <? 0 = false) by lia. rewrite S.
  unfold digits. cbn [digits_fuel]. destruct (n <? 10) eqn:E.
  - exists [48; 48 + n]. split; [reflexivity|]. split; [repeat constructor; unfold is_digit; lia|].
    split; [reflexivity|]. unfold val. cbn [fold_left]. lia.
  - assert (Q : n / 10 <? 10 = true).
    { assert (n / 10 < 10) by (apply Z.div_lt_upper_bound; lia). lia. }
    rewrite Q. pose proof (Z.mod_pos_bound n 10 ltac:(lia)). pose proof (Z.div_mod n 10 ltac:(lia)).
    assert (0 <= n / 10) by (apply Z.div_pos; lia).
    exists [48 + n / 10; 48 + n mod 10]. split; [reflexivity|].
    split; [repeat constructor; unfold is_digit; lia|]. split; [reflexivity|]. unfold val. cbn [fold_left]. lia.
Qed.

Lemma parse_two_rt n rest : 0 <= n <= 99 ->
  parse_num 2 false (fmt_num PZero 2 n ++ rest) = Some (n, rest).
Proof.
  intros Hn. destruct (fmt_two n Hn) as (DL & E & D & L & V). rewrite E.
  destruct DL as [|a [|b [|? ?]]]; try discriminate L.
  unfold parse_num. cbn [app]. change (Z.to_nat (2 - 0)) with 2%nat.
  change (a :: b :: rest) with ([a; b] ++ rest).
  rewrite parse_digits_app by (try assumption; try (cbn; lia); right; reflexivity).
  rewrite V. reflexivity.
Qed.

(* --- constructDateFromTmp on a fully specified year-month-day *)
Lemma construct_ymd y m d : valid_date y m d -> year_in_range y = true ->
  construct (mkTmp None (Some y) (Some m) (Some d) None) = inr (pack y m d).
Proof.
  intros V R. apply year_in_range_iff in R as R'.
  destruct (valid_fields _ _ _ V) as [Hm Hd]. pose proof V as [[Vm1 Vm2] [Vd1 Vd2]].
  assert (S1 : set_year 0 (0 * 100 + y) = pack y 0 0).
  { unfold set_year. replace (unpack 0) with (-4194304, 0, 0) by (vm_compute; reflexivity). cbv beta iota zeta. replace (0 * 100 + y) with y by lia. reflexivity. }
  assert (S2 : set_month (pack y 0 0) m = pack y m 0).
  { unfold set_month. assert (E1 : unpack (pack y 0 0) = (y, 0, 0)) by (apply unpack_pack; lia). rewrite E1. reflexivity. }
  assert (S3 : set_day (pack y m 0) d = pack y m d).
  { unfold set_day. assert (E2 : unpack (pack y m 0) = (y, m, 0)) by (apply unpack_pack; lia). rewrite E2. reflexivity. }
  assert (E3 : unpack (pack y m d) = (y, m, d)) by (apply unpack_pack; lia).
  unfold construct. cbn [t_cent t_year t_month t_day t_yday ohas oget orb negb].
  rewrite S1, S2, S3, E3. cbv beta iota zeta.
  assert (D0 : (d =? 0) = false) by lia. rewrite D0. cbn [andb]. rewrite E3. cbv beta iota zeta.
  assert (M0 : (m =? 0) = false) by lia. rewrite M0, D0. cbn [orb].
  rewrite go_date_valid by exact V. reflexivity.
Qed.

(* the canonical text of a date: [-]YYYY-MM-DD *)
Definition iso_text (y m d : Z) : str := fmt_num PZero 4 y ++ 45 :: fmt_num PZero 2 m ++ 45 :: fmt_num PZero 2 d.

Lemma scan_iso y m d : valid_date y m d -> year_in_range y = true ->
  andthen (andthen (andthen (andthen (p_year false true (tmp0, iso_text y m d)) (p_text [45])) (p_month false)) (p_text [45])) (p_day false)
  = inr (mkTmp None (Some y) (Some m) (Some d) None, []).
Proof.
  intros V R. apply year_in_range_iff in R as R'.
  destruct (valid_fields _ _ _ V) as [Hm Hd]. pose proof V as [[Vm1 Vm2] [Vd1 Vd2]].
  unfold iso_text, p_year.
  rewrite parse_year_rt by (try lia; reflexivity).
  cbn [andthen tmp0 t_cent t_year t_month t_day t_yday].
  unfold p_text at 1. cbn [match_text]. change (45 =? 45) with true. cbv beta iota.
  cbn [andthen].
  unfold p_month. rewrite parse_two_rt by lia.
  assert (RM : in_range 1 12 m = true) by (unfold in_range; lia). rewrite RM.
  cbn [andthen t_cent t_year t_month t_day t_yday].
  unfold p_text. cbn [match_text]. change (45 =? 45) with true. cbv beta iota.
  cbn [andthen].
  unfold p_day. rewrite <- (app_nil_r (fmt_num PZero 2 d)). rewrite parse_two_rt by lia.
  assert (RD : in_range 0 31 d = true) by (unfold in_range; lia). rewrite RD.
  reflexivity.
Qed.

Lemma format_default_text y m d : valid_date y m d -> year_in_range y = true ->
  format default_format (pack y m d) = iso_text y m d /\ format [TIso] (pack y m d) = iso_text y m d.
Proof.
  intros V R. apply year_in_range_iff in R as R'. destruct (valid_fields _ _ _ V) as [Hm Hd].
  assert (E : unpack (pack y m d) = (y, m, d)) by (apply unpack_pack; lia).
  unfold default_format, iso_text. cbn [format]. unfold format_tok. rewrite E. cbv beta iota zeta.
  split.
  - rewrite app_nil_r. reflexivity.
  - rewrite app_nil_r. try rewrite <- !app_assoc. reflexivity.
Qed.

Lemma scan_default y m d : valid_date y m d -> year_in_range y = true ->
  parse_toks default_format (tmp0, iso_text y m d) = inr (mkTmp None (Some y) (Some m) (Some d) None, []).
Proof.
  intros V R. apply year_in_range_iff in R as R'.
  destruct (valid_fields _ _ _ V) as [Hm Hd]. pose proof V as [[Vm1 Vm2] [Vd1 Vd2]].
  unfold default_format. cbn [parse_toks parse_tok next_not_digit]. change (negb (is_digit 45)) with true.
  unfold iso_text, p_year.
  rewrite parse_year_rt by (try lia; reflexivity).
  cbn [andthen tmp0 t_cent t_year t_month t_day t_yday parse_toks parse_tok].
  unfold p_text at 1. cbn [match_text]. change (45 =? 45) with true. cbv beta iota.
  cbn [andthen parse_toks parse_tok].
  unfold p_month. rewrite parse_two_rt by lia.
  assert (RM : in_range 1 12 m = true) by (unfold in_range; lia). rewrite RM.
  cbn [andthen t_cent t_year t_month t_day t_yday parse_toks parse_tok].
  unfold p_text. cbn [match_text]. change (45 =? 45) with true. cbv beta iota.
  cbn [andthen parse_toks parse_tok].
  unfold p_day. rewrite <- (app_nil_r (fmt_num PZero 2 d)). rewrite parse_two_rt by lia.
  assert (RD : in_range 0 31 d = true) by (unfold in_range; lia). rewrite RD.
  reflexivity.
Qed.

Theorem format_parse_default y m d : valid_date y m d -> year_in_range y = true ->
  parse default_format (to_string (pack y m d)) = inr (pack y m d) /\
  parse default_format (format default_format (pack y m d)) = inr (pack y m d) /\
  parse [TIso] (format [TIso] (pack y m d)) = inr (pack y m d).
Proof.
  intros V R. destruct (format_default_text y m d V R) as [F1 F2].
  unfold to_string. rewrite F1, F2.
  assert (P1 : parse default_format (iso_text y m d) = inr (pack y m d)).
  { unfold parse. rewrite scan_default by assumption. apply construct_ymd; assumption. }
  assert (P2 : parse [TIso] (iso_text y m d) = inr (pack y m d)).
  { unfold parse. cbn [parse_toks parse_tok]. rewrite scan_iso by assumption. cbn [andthen]. apply construct_ymd; assumption. }
  repeat split; assumption.
Qed.
