(* C19 — proofs: strings and chars printed by (the fixed) Inspect lex back to themselves. *)
From Coq Require Import ZArith List Bool Lia ZifyBool ZifyNat.
From Elk Require Import Base.Utf8 Proofs.Utf8_Decode Proofs.Utf8_Encode Model.C19_Inspect.
Import ListNotations.
Open Scope Z_scope.

(* ---------- small facts ---------- *)

Lemma peek_ascii b t : b < 128 -> peek (b :: t) = b.
Proof. intros H. unfold peek. rewrite (decode1 b t H). reflexivity. Qed.

Lemma hexc_lo_rng d : 0 <= d < 16 -> 48 <= hexc_lo d < 128.
Proof. unfold hexc_lo. intros H. destruct (d <? 10) eqn:E; lia. Qed.
Lemma hexc_up_rng d : 0 <= d < 16 -> 48 <= hexc_up d < 128.
Proof. unfold hexc_up. intros H. destruct (d <? 10) eqn:E; lia. Qed.

Lemma hex_val_lo d : 0 <= d < 16 -> hex_val (hexc_lo d) = Some d.
Proof.
  intros H. unfold hex_val, hexc_lo, in_rng.
  destruct (d <? 10) eqn:E.
  - assert (X : ((48 <=? 48 + d) && (48 + d <=? 57)) = true) by lia. rewrite X. f_equal. lia.
  - assert (X : ((48 <=? 87 + d) && (87 + d <=? 57)) = false) by lia. rewrite X.
    assert (Y : ((97 <=? 87 + d) && (87 + d <=? 102)) = true) by lia. rewrite Y. f_equal. lia.
Qed.

Lemma hex_val_up d : 0 <= d < 16 -> hex_val (hexc_up d) = Some d.
Proof.
  intros H. unfold hex_val, hexc_up, in_rng.
  destruct (d <? 10) eqn:E.
  - assert (X : ((48 <=? 48 + d) && (48 + d <=? 57)) = true) by lia. rewrite X. f_equal. lia.
  - assert (X : ((48 <=? 55 + d) && (55 + d <=? 57)) = false) by lia. rewrite X.
    assert (Y : ((97 <=? 55 + d) && (55 + d <=? 102)) = false) by lia. rewrite Y.
    assert (W : ((65 <=? 55 + d) && (55 + d <=? 70)) = true) by lia. rewrite W. f_equal. lia.
Qed.

Lemma nib_rng v k : 0 <= nib v k < 16.
Proof. unfold nib. apply Z.mod_pos_bound. lia. Qed.

Lemma nib_step v k : 0 <= k -> v / 16 ^ k = (v / 16 ^ (k + 1)) * 16 + nib v k.
Proof.
  intros Hk. unfold nib.
  replace (16 ^ (k + 1)) with (16 ^ k * 16) by (rewrite Z.pow_add_r by lia; reflexivity).
  rewrite <- Z.div_div by (try apply Z.pow_pos_nonneg; lia).
  pose proof (Z.div_mod (v / 16 ^ k) 16). lia.
Qed.

(* n hex digits of v, most significant first (proof device: fmt_0Nx are instances) *)
Fixpoint fmt_hex (hexc : Z -> Z) (n : nat) (v : Z) : list Z :=
  match n with
  | O => []
  | S k => hexc (nib v (Z.of_nat k)) :: fmt_hex hexc k v
  end.

Lemma lex_hex_fmt hexc :
  (forall d, 0 <= d < 16 -> 48 <= hexc d < 128 /\ hex_val (hexc d) = Some d) ->
  forall n v rest, lex_hex n (fmt_hex hexc n v ++ rest) (v / 16 ^ Z.of_nat n) = Some (v, rest).
Proof.
  intros Hc n v rest. induction n as [|k IH].
  - cbn [fmt_hex lex_hex app]. change (16 ^ Z.of_nat 0) with 1. rewrite Z.div_1_r. reflexivity.
  - cbn [fmt_hex lex_hex app].
    destruct (Hc (nib v (Z.of_nat k)) (nib_rng v (Z.of_nat k))) as [R HV].
    rewrite peek_ascii by lia. rewrite HV.
    replace (v / 16 ^ Z.of_nat (S k) * 16 + nib v (Z.of_nat k)) with (v / 16 ^ Z.of_nat k).
    + exact IH.
    + rewrite (nib_step v (Z.of_nat k)) by lia. repeat f_equal. lia.
Qed.

Lemma lo_ok d : 0 <= d < 16 -> 48 <= hexc_lo d < 128 /\ hex_val (hexc_lo d) = Some d.
Proof. intros H. split; [apply hexc_lo_rng|apply hex_val_lo]; exact H. Qed.
Lemma up_ok d : 0 <= d < 16 -> 48 <= hexc_up d < 128 /\ hex_val (hexc_up d) = Some d.
Proof. intros H. split; [apply hexc_up_rng|apply hex_val_up]; exact H. Qed.

Lemma lex_hex_02x v rest : 0 <= v < 256 -> lex_hex 2 (fmt_02x v ++ rest) 0 = Some (v, rest).
Proof.
  intros H. pose proof (lex_hex_fmt hexc_lo lo_ok 2 v rest) as L.
  change (16 ^ Z.of_nat 2) with 256 in L. rewrite Z.div_small in L by lia. exact L.
Qed.
Lemma lex_hex_04x v rest : 0 <= v < 65536 -> lex_hex 4 (fmt_04x v ++ rest) 0 = Some (v, rest).
Proof.
  intros H. pose proof (lex_hex_fmt hexc_lo lo_ok 4 v rest) as L.
  change (16 ^ Z.of_nat 4) with 65536 in L. rewrite Z.div_small in L by lia. exact L.
Qed.
Lemma lex_hex_08X v rest : 0 <= v < 4294967296 -> lex_hex 8 (fmt_08X v ++ rest) 0 = Some (v, rest).
Proof.
  intros H. pose proof (lex_hex_fmt hexc_up up_ok 8 v rest) as L.
  change (16 ^ Z.of_nat 8) with 4294967296 in L. rewrite Z.div_small in L by lia. exact L.
Qed.

(* ---------- the escape tables of printer and lexer agree ---------- *)

Lemma str_tbl_hit r l :
  assoc r insp_str_tbl = Some l -> 0 <= r < 128 /\ 0 <= l < 128 /\ assoc l lex_str_tbl = Some r.
Proof.
  unfold insp_str_tbl. cbn [assoc]. intros H.
  repeat match type of H with
  | (if ?a =? r then _ else _) = _ =>
      destruct (a =? r) eqn:?E; [assert (r = a) by lia; subst r; inversion H; subst l; repeat split; try lia; reflexivity|]
  end.
  discriminate.
Qed.

Lemma str_tbl_miss r :
  assoc r insp_str_tbl = None -> r <> 92 /\ r <> 34 /\ r <> 36 /\ r <> 35.
Proof.
  unfold insp_str_tbl. cbn [assoc]. intros H.
  repeat match type of H with
  | (if ?a =? r then _ else _) = _ => destruct (a =? r) eqn:?E; [discriminate|]
  end. lia.
Qed.

Lemma chr_tbl_hit r l :
  assoc r insp_chr_tbl = Some l -> 0 <= r < 128 /\ 0 <= l < 128 /\ assoc l lex_chr_tbl = Some r.
Proof.
  unfold insp_chr_tbl. cbn [assoc]. intros H.
  repeat match type of H with
  | (if ?a =? r then _ else _) = _ =>
      destruct (a =? r) eqn:?E; [assert (r = a) by lia; subst r; inversion H; subst l; repeat split; try lia; reflexivity|]
  end.
  discriminate.
Qed.

Lemma chr_tbl_miss r : assoc r insp_chr_tbl = None -> r <> 92 /\ r <> 96.
Proof.
  unfold insp_chr_tbl. cbn [assoc]. intros H.
  repeat match type of H with
  | (if ?a =? r then _ else _) = _ => destruct (a =? r) eqn:?E; [discriminate|]
  end. lia.
Qed.

(* ---------- UTF-8 facts needed here ---------- *)

Lemma encode_rune_ascii r : 0 <= r < 128 -> encode_rune r = [r].
Proof.
  intros H. unfold encode_rune.
  assert (V : valid_rune r = true) by (apply valid_rune_iff; lia).
  rewrite (norm_rune_valid r V). assert (X : (r <? 128) = true) by lia. rewrite X. reflexivity.
Qed.

Lemma skipn_encode r rest : skipn (Z.to_nat (rune_len r)) (encode_rune r ++ rest) = rest.
Proof.
  rewrite <- encode_rune_length. rewrite Nat2Z.id.
  rewrite skipn_app, skipn_all, Nat.sub_diag. reflexivity.
Qed.

Section Proofs.
  Variable is_graphic : Z -> bool.
  Variable is_letter : Z -> bool.

  Notation lex_str := (lex_str is_letter).
  Notation lex_string_body := (lex_string_body is_letter).

  (* ---------- one lexer iteration ---------- *)

  Lemma lex_str_backslash f e rest :
    0 <= e < 128 ->
    lex_str (S f) (92 :: e :: rest) =
      match lex_escape lex_str_tbl e rest with
      | Some (bs, r) => option_map (app bs) (lex_str f r)
      | None => None
      end.
  Proof.
    intros He. cbn [C19_Inspect.lex_str].
    rewrite (decode1 92 (e :: rest)) by lia. cbn [fst snd].
    rewrite (decode1 e rest) by lia. cbn [fst snd].
    change (92 =? 34) with false. change (92 =? 36) with false. change (92 =? 35) with false.
    change (92 =? 92) with true. cbn [orb andb negb].
    change (Z.to_nat 1) with 1%nat. cbn [skipn]. reflexivity.
  Qed.

  Lemma lex_str_plain f c rest :
    valid_rune c = true -> c <> 34 -> c <> 36 -> c <> 35 -> c <> 92 ->
    lex_str (S f) (encode_rune c ++ rest) = option_map (app (encode_rune c)) (lex_str f rest).
  Proof.
    intros V N1 N2 N3 N4.
    pose proof (decode_encode_valid c rest V) as D.
    pose proof (skipn_encode c rest) as SK.
    remember (encode_rune c ++ rest) as src eqn:Hs.
    destruct src as [|b0 t0].
    { exfalso. symmetry in Hs. apply app_eq_nil in Hs. destruct Hs as [Hs _].
      exact (encode_rune_nonempty c Hs). }
    cbn [C19_Inspect.lex_str]. rewrite D. cbn [fst snd].
    assert (X1 : (c =? 34) = false) by lia. rewrite X1.
    assert (X2 : ((c =? 36) || (c =? 35)) = false) by lia. rewrite X2. cbn [andb].
    assert (X3 : (c =? 92) = false) by lia. rewrite X3. cbn [negb].
    rewrite SK. reflexivity.
  Qed.

  Lemma lex_str_quote f : lex_str (S f) [34] = Some [].
  Proof. reflexivity. Qed.

  (* `\xNN` *)
  Lemma lex_str_x f v rest :
    0 <= v < 256 ->
    lex_str (S f) ((92 :: 120 :: fmt_02x v) ++ rest) = option_map (app [v]) (lex_str f rest).
  Proof.
    intros Hv. cbn [app]. rewrite lex_str_backslash by lia.
    unfold lex_escape. change (assoc 120 lex_str_tbl) with (@None Z).
    change (120 =? 117) with false. change (120 =? 85) with false. change (120 =? 120) with true.
    cbv iota. rewrite (lex_hex_02x v rest Hv). reflexivity.
  Qed.

  (* `\uNNNN` *)
  Lemma lex_str_u f v rest :
    0 <= v < 65536 ->
    lex_str (S f) ((92 :: 117 :: fmt_04x v) ++ rest) = option_map (app (encode_rune v)) (lex_str f rest).
  Proof.
    intros Hv. cbn [app]. rewrite lex_str_backslash by lia.
    unfold lex_escape. change (assoc 117 lex_str_tbl) with (@None Z).
    change (117 =? 117) with true. cbv iota. rewrite (lex_hex_04x v rest Hv). reflexivity.
  Qed.

  (* `\UNNNNNNNN` *)
  Lemma lex_str_U f v rest :
    0 <= v < 4294967296 ->
    lex_str (S f) ((92 :: 85 :: fmt_08X v) ++ rest) = option_map (app (encode_rune v)) (lex_str f rest).
  Proof.
    intros Hv. cbn [app]. rewrite lex_str_backslash by lia.
    unfold lex_escape. change (assoc 85 lex_str_tbl) with (@None Z).
    change (85 =? 117) with false. change (85 =? 85) with true. cbv iota.
    rewrite (lex_hex_08X v rest Hv). reflexivity.
  Qed.

  (* ---------- one printed step is read back as the bytes it came from ---------- *)

  Lemma step_roundtrip b t f R :
    0 <= b < 256 ->
    let st := mkStep (fst (decode_rune (b :: t))) (snd (decode_rune (b :: t))) b in
    lex_str (S f) (inspect_string_step is_graphic st ++ R) =
      option_map (app (firstn (Z.to_nat (st_size st)) (b :: t))) (lex_str f R).
  Proof.
    intros Hb st. unfold inspect_string_step.
    destruct (step_invalid st) eqn:Inv.
    - (* invalid byte -> \xNN *)
      unfold step_invalid in Inv. subst st. cbn [st_rune st_size st_byte] in *.
      assert (N1 : snd (decode_rune (b :: t)) = 1) by lia. rewrite N1.
      change (Z.to_nat 1) with 1%nat. cbn [firstn].
      apply lex_str_x. lia.
    - assert (Hv : negb ((fst (decode_rune (b :: t)) =? RuneError) && (snd (decode_rune (b :: t)) =? 1)) = true).
      { unfold step_invalid in Inv. subst st. cbn [st_rune st_size] in Inv. rewrite Inv. reflexivity. }
      destruct (encode_decode_step b t ltac:(lia) Hv) as [V En].
      subst st. cbn [st_rune st_size st_byte].
      rewrite <- En.
      set (r := fst (decode_rune (b :: t))) in *.
      destruct (assoc r insp_str_tbl) as [l|] eqn:T.
      + destruct (str_tbl_hit r l T) as [Rr [Rl HL]].
        cbn [app]. rewrite lex_str_backslash by lia.
        unfold lex_escape. rewrite HL. rewrite encode_rune_ascii by lia. reflexivity.
      + destruct (str_tbl_miss r T) as [M1 [M2 [M3 M4]]].
        apply valid_rune_iff in V as V'. unfold inspect_rune_default.
        destruct (is_graphic r).
        * apply lex_str_plain; assumption.
        * destruct (r <? 128) eqn:E1.
          { rewrite lex_str_x by lia. rewrite encode_rune_ascii by lia. reflexivity. }
          destruct (r <? 65536) eqn:E2.
          { apply lex_str_u. lia. }
          apply lex_str_U. lia.
  Qed.

  Definition byte_rng (b : Z) : Prop := 0 <= b < 256.

  Lemma Forall_skipn {A} (P : A -> Prop) n l : Forall P l -> Forall P (skipn n l).
  Proof.
    intros H. apply Forall_forall. intros x Hx. rewrite Forall_forall in H. apply H.
    eapply in_skipn_weak; exact Hx.
  Qed.

  Lemma lex_str_inspect s :
    Forall byte_rng s ->
    forall fuel, (length (decode_steps s) < fuel)%nat ->
    lex_str fuel (flat_map (inspect_string_step is_graphic) (decode_steps s) ++ [34]) = Some s.
  Proof.
    induction s as [|b t IH] using decode_ind; intros HB fuel Hf.
    - destruct fuel as [|f]; [cbn in Hf; lia|]. reflexivity.
    - rewrite decode_steps_cons in *. cbn [flat_map length] in *.
      destruct fuel as [|f]; [lia|].
      rewrite <- app_assoc.
      assert (B0 : 0 <= b < 256) by (inversion HB; assumption).
      rewrite (step_roundtrip b t f _ B0). cbn [st_size].
      rewrite IH; [|apply Forall_skipn; exact HB|lia].
      cbn [option_map]. rewrite firstn_skipn. reflexivity.
  Qed.

  Lemma decode_steps_length s : (length (decode_steps s) <= length s)%nat.
  Proof. pose proof (rune_count_le_bytes s) as H. unfold rune_count in H. lia. Qed.

  Lemma flat_map_length_ge s :
    (length (decode_steps s) <=
     length (flat_map (inspect_string_step is_graphic) (decode_steps s) ++ [34%Z]))%nat.
  Proof.
    rewrite app_length. cbn [length].
    assert (G : forall l, (length l <= length (flat_map (inspect_string_step is_graphic) l))%nat).
    { induction l as [|x l IHl]; [cbn; lia|]. cbn [flat_map]. rewrite app_length. cbn [length].
      assert (1 <= length (inspect_string_step is_graphic x))%nat; [|lia].
      unfold inspect_string_step, inspect_rune_default.
      destruct (step_invalid x); [cbn; lia|].
      destruct (assoc (st_rune x) insp_str_tbl); [cbn; lia|].
      destruct (is_graphic (st_rune x)).
      - pose proof (encode_rune_length (st_rune x)). pose proof (rune_len_bounds (st_rune x)). lia.
      - destruct (st_rune x <? 128); [cbn; lia|]. destruct (st_rune x <? 65536); cbn; lia. }
    specialize (G (decode_steps s)). lia.
  Qed.

  Theorem string_roundtrip s :
    Forall byte_rng s -> lex_string_body (inspect_string is_graphic s) = Some s.
  Proof.
    intros HB. unfold C19_Inspect.lex_string_body, inspect_string.
    change (34 =? 34) with true. cbv iota.
    apply lex_str_inspect; [exact HB|].
    pose proof (flat_map_length_ge s). lia.
  Qed.

  (* ---------- chars ---------- *)

  Lemma decode_single r : valid_rune r = true -> fst (decode_rune (encode_rune r)) = r.
  Proof.
    intros V. pose proof (decode_encode_valid r [] V) as D. rewrite app_nil_r in D. rewrite D. reflexivity.
  Qed.

  Lemma lex_char_escape e lexeme :
    0 <= e < 128 ->
    lex_escape lex_chr_tbl e [96] = Some (lexeme, [96]) ->
    lex_char_body (96 :: 92 :: e :: [96]) = Some (fst (decode_rune lexeme)).
  Proof.
    intros He HL. unfold lex_char_body.
    change (96 =? 96) with true. cbn [negb].
    rewrite peek_ascii by lia. change (92 =? 92) with true. cbv iota.
    rewrite (decode1 e [96]) by lia. cbn [fst snd]. change (Z.to_nat 1) with 1%nat. cbn [skipn].
    rewrite HL. rewrite peek_ascii by lia. reflexivity.
  Qed.

  Lemma lex_char_escape_app e body lexeme :
    0 <= e < 128 ->
    lex_escape lex_chr_tbl e (body ++ [96]) = Some (lexeme, [96]) ->
    lex_char_body (96 :: (92 :: e :: body) ++ [96]) = Some (fst (decode_rune lexeme)).
  Proof.
    intros He HL. unfold lex_char_body.
    change (96 =? 96) with true. cbn [negb app].
    rewrite peek_ascii by lia. change (92 =? 92) with true. cbv iota.
    rewrite (decode1 e (body ++ [96])) by lia. cbn [fst snd]. change (Z.to_nat 1) with 1%nat. cbn [skipn].
    destruct (body ++ [96]) eqn:EB.
    { exfalso. apply app_eq_nil in EB. destruct EB; discriminate. }
    rewrite HL. rewrite peek_ascii by lia. reflexivity.
  Qed.

  Theorem char_roundtrip c :
    valid_rune c = true -> lex_char_body (inspect_char is_graphic c) = Some c.
  Proof.
    intros V. apply valid_rune_iff in V as V'. unfold inspect_char.
    destruct (assoc c insp_chr_tbl) as [l|] eqn:T.
    - destruct (chr_tbl_hit c l T) as [Rc [Rl HL]].
      change ([92; l] ++ [96]) with (92 :: l :: [96]).
      rewrite (lex_char_escape l [c]); [|lia|unfold lex_escape; rewrite HL; reflexivity].
      rewrite decode1 by lia. reflexivity.
    - destruct (chr_tbl_miss c T) as [M1 M2]. unfold inspect_rune_default.
      destruct (is_graphic c).
      + (* raw character *)
        unfold lex_char_body. change (96 =? 96) with true. cbn [negb].
        pose proof (decode_encode_valid c [96] V) as D.
        pose proof (skipn_encode c [96]) as SK.
        remember (encode_rune c ++ [96]) as body eqn:Hs.
        destruct body as [|b0 t0].
        { exfalso. symmetry in Hs. apply app_eq_nil in Hs. destruct Hs; discriminate. }
        unfold peek at 1. rewrite D. cbn [fst snd].
        assert (X : (c =? 92) = false) by lia. rewrite X. rewrite SK.
        rewrite peek_ascii by lia. change (96 =? 96) with true.
        cbn [length andb Nat.eqb]. rewrite decode_single by exact V. reflexivity.
      + destruct (c <? 128) eqn:E1.
        { rewrite (lex_char_escape_app 120 (fmt_02x c) [c]); [|lia|].
          - rewrite decode1 by lia. reflexivity.
          - unfold lex_escape. change (assoc 120 lex_chr_tbl) with (@None Z).
            change (120 =? 117) with false. change (120 =? 85) with false. change (120 =? 120) with true.
            cbv iota. rewrite lex_hex_02x by lia. reflexivity. }
        destruct (c <? 65536) eqn:E2.
        { rewrite (lex_char_escape_app 117 (fmt_04x c) (encode_rune c)); [|lia|].
          - rewrite decode_single by exact V. reflexivity.
          - unfold lex_escape. change (assoc 117 lex_chr_tbl) with (@None Z).
            change (117 =? 117) with true. cbv iota. rewrite lex_hex_04x by lia. reflexivity. }
        rewrite (lex_char_escape_app 85 (fmt_08X c) (encode_rune c)); [|lia|].
        * rewrite decode_single by exact V. reflexivity.
        * unfold lex_escape. change (assoc 85 lex_chr_tbl) with (@None Z).
          change (85 =? 117) with false. change (85 =? 85) with true. cbv iota.
          rewrite lex_hex_08X by lia. reflexivity.
  Qed.

  (* ---------- the unfixed printers do not round-trip ---------- *)

  (* whatever IsGraphic says about U+0080, one of the two strings with that number fails:
     the valid string C2 80 (printed `\x80`, read back as the single byte 80) or the invalid
     string 80 (printed as the character U+0080, read back as C2 80) *)
  Theorem string_old_refuted :
    exists s, Forall byte_rng s /\ lex_string_body (inspect_string_old is_graphic s) <> Some s.
  Proof.
    destruct (is_graphic 128) eqn:G.
    - exists [128]. split; [repeat constructor; unfold byte_rng; lia|].
      unfold inspect_string_old. change (decode_steps [128]) with [mkStep RuneError 1 128].
      cbn [flat_map]. unfold inspect_string_step_old.
      change (step_invalid (mkStep RuneError 1 128)) with true. cbv iota. cbn [st_byte].
      change (assoc 128 insp_str_tbl) with (@None Z). cbv iota.
      unfold inspect_rune_default_old. rewrite G. vm_compute. discriminate.
    - exists [194; 128]. split; [repeat constructor; unfold byte_rng; lia|].
      unfold inspect_string_old. change (decode_steps [194; 128]) with [mkStep 128 2 194].
      cbn [flat_map]. unfold inspect_string_step_old.
      change (step_invalid (mkStep 128 2 194)) with false. cbv iota. cbn [st_rune].
      change (assoc 128 insp_str_tbl) with (@None Z). cbv iota.
      unfold inspect_rune_default_old. rewrite G. vm_compute. discriminate.
  Qed.

  Theorem char_old_refuted :
    is_graphic 128 = false ->
    exists c, valid_rune c = true /\ lex_char_body (inspect_char_old is_graphic c) <> Some c.
  Proof.
    intros G. exists 128. split; [reflexivity|].
    unfold inspect_char_old. change (assoc 128 insp_chr_tbl) with (@None Z). cbv iota.
    unfold inspect_rune_default_old. rewrite G. vm_compute. discriminate.
  Qed.

End Proofs.
