(* C07 — `%` is exact at the level of the real numbers the floats denote; |x| against 1 in the
   `**` table is the comparison of reals.  (Uses Flocq's correctness lemmas, hence the
   standard real-number axioms.) *)
From Coq Require Import ZArith Reals Lia Lra Bool.
From Flocq Require Import Core IEEE754.BinarySingleNaN IEEE754.Binary IEEE754.Bits.
From Elk Require Import Model.C07_Float Model.C07_FloatPow Proofs.C07_FloatPow.
Open Scope Z_scope.

Section ModGen.
Variable prec emax : Z.
Context (Hp : Prec_gt_0 prec) (Hm : Prec_lt_emax prec emax).
Notation bf := (binary_float prec emax).
Notation fexp := (SpecFloat.fexp prec emax).
Notation emin := (SpecFloat.emin prec emax).
Notation B2R := (Binary.B2R prec emax).

Lemma bounded_facts m e : SpecFloat.bounded prec emax m e = true -> Zpos m < 2 ^ prec /\ emin <= e.
Proof.
  unfold SpecFloat.bounded, SpecFloat.canonical_mantissa. intros H.
  apply andb_prop in H. destruct H as [H _]. apply Zeq_bool_eq in H.
  unfold SpecFloat.fexp in H.
  assert (Hd : Zpos (SpecFloat.digits2_pos m) <= prec) by lia.
  split; [|lia].
  pose proof (Zdigits_correct radix2 (Zpos m)) as Hc. rewrite <- Zpos_digits2_pos in Hc.
  change (Z.abs (Zpos m)) with (Zpos m) in Hc. destruct Hc as [_ Hc].
  change (radix2 ^ Zpos (SpecFloat.digits2_pos m)) with (2 ^ Zpos (SpecFloat.digits2_pos m)) in Hc.
  eapply Z.lt_le_trans; [exact Hc|]. apply Z.pow_le_mono_r; lia.
Qed.

Lemma F2R_scale m e : F2R (Float radix2 m e) = (IZR m * bpow radix2 e)%R.
Proof. reflexivity. Qed.

(* x % y for finite x and finite non-zero y: the result r is finite, has the sign of x
   (also when it is zero), and  x = q * y + r  for an integer q with |r| < |y|  — as real
   numbers, exactly: no rounding occurs. *)
Theorem Bfmod_correct (x y : bf) :
  Binary.is_finite prec emax x = true -> Binary.is_finite_strict prec emax y = true ->
  exists r q, Bfmod prec emax Hp Hm x y = Some r /\
    Binary.is_finite prec emax r = true /\ Binary.Bsign prec emax r = Binary.Bsign prec emax x /\
    (B2R x = IZR q * B2R y + B2R r)%R /\ (Rabs (B2R r) < Rabs (B2R y))%R.
Proof.
  intros Hx Hy.
  destruct y as [sy|sy|sy ply Hply|sy my ey py]; try discriminate. clear Hy.
  assert (Hy0 : (0 < Rabs (B2R (Binary.B754_finite prec emax sy my ey py)))%R).
  { apply Rabs_pos_lt. cbn [Binary.B2R]. destruct sy; cbn [SpecFloat.cond_Zopp].
    - apply Rlt_not_eq. apply F2R_lt_0. cbn. lia.
    - apply Rgt_not_eq. apply F2R_gt_0. cbn. lia. }
  destruct x as [sx|sx|sx plx Hplx|sx mx ex px]; try discriminate.
  - (* +-0 % y = +-0 *)
    exists (Binary.B754_zero prec emax sx), 0. cbn [Bfmod].
    split; [reflexivity|]. split; [reflexivity|]. split; [reflexivity|].
    split; [cbn [Binary.B2R]; lra|]. cbn [Binary.B2R] in *. rewrite Rabs_R0. exact Hy0.
  - cbn [Bfmod].
    destruct (bounded_facts mx ex px) as [Hmx Hex]. destruct (bounded_facts my ey py) as [Hmy Hey].
    set (mx' := SpecFloat.cond_Zopp sx (Zpos mx)).
    assert (Hamx : Z.abs mx' < 2 ^ prec) by (unfold mx'; rewrite abs_cond_Zopp; exact Hmx).
    destruct (fmod_int_spec prec mx' ex my ey ltac:(unfold Prec_gt_0 in Hp; lia) Hamx Hmy)
      as (R & q & Hf & Hq & HRY & Hsg & HRp & HRX).
    rewrite Hf.
    set (e := Z.min ex ey) in *.
    set (X := mx' * 2 ^ (ex - e)) in *. set (Y := Zpos my * 2 ^ (ey - e)) in *.
    set (F := F2R (Float radix2 R e)).
    assert (Hbe : (0 < bpow radix2 e)%R) by apply bpow_gt_0.
    (* the operands as aligned integers *)
    assert (HxR : B2R (Binary.B754_finite prec emax sx mx ex px) = (IZR X * bpow radix2 e)%R).
    { cbn [Binary.B2R]. fold mx'. rewrite (F2R_change_exp radix2 e mx' ex) by (unfold e; lia). reflexivity. }
    assert (HyR : B2R (Binary.B754_finite prec emax sy my ey py) =
                  (IZR (SpecFloat.cond_Zopp sy Y) * bpow radix2 e)%R).
    { cbn [Binary.B2R]. rewrite (F2R_change_exp radix2 e _ ey) by (unfold e; lia).
      rewrite F2R_scale. f_equal. f_equal. unfold Y. destruct sy; cbn [SpecFloat.cond_Zopp]; [|reflexivity].
      change (radix_val radix2) with 2. lia. }
    (* R * 2^e is a value of the format *)
    assert (Hfmt : generic_format radix2 fexp F).
    { apply (generic_format_FLT radix2 emin prec). apply (FLT_spec radix2 emin prec F (Float radix2 R e)).
      - reflexivity.
      - cbn [Fnum]. exact HRp.
      - cbn [Fexp]. unfold e. lia. }
    assert (Hrnd : round radix2 fexp (round_mode mode_NE) F = F).
    { apply round_generic; [apply valid_rnd_round_mode|exact Hfmt]. }
    assert (HabsF : (Rabs F <= Rabs (B2R (Binary.B754_finite prec emax sx mx ex px)))%R).
    { rewrite HxR. unfold F. rewrite F2R_scale. rewrite 2!Rabs_mult. rewrite (Rabs_pos_eq (bpow radix2 e)) by lra.
      apply Rmult_le_compat_r; [lra|]. rewrite <- 2!abs_IZR. apply IZR_le. exact HRX. }
    pose proof (Binary.binary_normalize_correct prec emax Hp Hm mode_NE R e sx) as Hn.
    fold F in Hn. rewrite Hrnd in Hn.
    rewrite Rlt_bool_true in Hn.
    2:{ eapply Rle_lt_trans; [exact HabsF|]. apply Binary.abs_B2R_lt_emax. }
    destruct Hn as (HB & Hfin & Hsign).
    exists (Binary.binary_normalize prec emax Hp Hm mode_NE R e sx), (SpecFloat.cond_Zopp sy q).
    split; [reflexivity|]. split; [exact Hfin|]. split.
    + (* sign *)
      rewrite Hsign. cbn [Binary.Bsign]. unfold F. rewrite F2R_scale.
      destruct (Z.compare_spec R 0) as [HR|HR|HR].
      * subst R. rewrite Rmult_0_l. rewrite Rcompare_Eq by reflexivity. reflexivity.
      * rewrite Rcompare_Lt by (apply IZR_lt in HR; nra).
        destruct sx; [reflexivity|]. exfalso. unfold mx' in Hsg. cbn [SpecFloat.cond_Zopp Z.sgn] in Hsg.
        rewrite (Z.sgn_neg R) in Hsg by lia. lia.
      * rewrite Rcompare_Gt by (apply IZR_lt in HR; nra).
        destruct sx; [|reflexivity]. exfalso. unfold mx' in Hsg. cbn [SpecFloat.cond_Zopp Z.opp Z.sgn] in Hsg.
        rewrite (Z.sgn_pos R) in Hsg by lia. lia.
    + split.
      * rewrite HB, HxR, HyR. unfold F. rewrite F2R_scale. rewrite Hq.
        rewrite plus_IZR, mult_IZR.
        destruct sy; cbn [SpecFloat.cond_Zopp]; rewrite ?opp_IZR; ring.
      * rewrite HB, HyR. unfold F. rewrite F2R_scale. rewrite 2!Rabs_mult.
        rewrite (Rabs_pos_eq (bpow radix2 e)) by lra.
        apply Rmult_lt_compat_r; [exact Hbe|]. rewrite <- 2!abs_IZR. apply IZR_lt.
        rewrite abs_cond_Zopp. assert (0 < Y) by lia. lia.
Qed.

(* |x| against 1 in the `**` table is the comparison of the reals *)
Lemma cmp_one_correct m e : cmp_one m e = Rcompare (F2R (Float radix2 (Zpos m) e)) 1.
Proof.
  unfold cmp_one. destruct (0 <=? e) eqn:He.
  - apply Z.leb_le in He.
    rewrite (F2R_change_exp radix2 0 (Zpos m) e) by lia. rewrite Z.sub_0_r.
    unfold F2R. cbn [Fnum Fexp bpow]. rewrite Rmult_1_r. change (radix_val radix2) with 2.
    change 1%R with (IZR 1). rewrite Rcompare_IZR.
    assert (H2 : 1 <= 2 ^ e) by (apply (Z.pow_le_mono_r 2 0 e); lia).
    destruct (e =? 0) eqn:E0; cbn [andb].
    + apply Z.eqb_eq in E0. subst e. rewrite Z.pow_0_r, Z.mul_1_r.
      destruct (Pos.eqb_spec m 1) as [->|Hne]; [reflexivity|]. symmetry. apply Z.compare_gt_iff. lia.
    + apply Z.eqb_neq in E0. symmetry. apply Z.compare_gt_iff.
      assert (2 <= 2 ^ e) by (apply (Z.pow_le_mono_r 2 1 e); lia). nia.
  - apply Z.leb_gt in He. rewrite Z.shiftl_mul_pow2, Z.mul_1_l by lia.
    rewrite F2R_scale.
    rewrite <- (Rcompare_mult_r (bpow radix2 (- e))) by apply bpow_gt_0.
    rewrite Rmult_assoc, <- bpow_plus. replace (e + - e) with 0 by lia. cbn [bpow].
    rewrite Rmult_1_r, Rmult_1_l. rewrite <- IZR_Zpower by lia. change (radix_val radix2) with 2.
    rewrite Rcompare_IZR. reflexivity.
Qed.

Lemma abs_cmp_one_correct s m e pf :
  abs_cmp_one prec emax (Binary.B754_finite prec emax s m e pf) =
  Some (Rcompare (Rabs (B2R (Binary.B754_finite prec emax s m e pf))) 1).
Proof.
  unfold abs_cmp_one. rewrite cmp_one_correct. cbn [Binary.B2R].
  rewrite <- F2R_Zabs, abs_cond_Zopp. reflexivity.
Qed.

(* the first-row test of the table: x is exactly +1 *)
Lemma is_pos_one_correct (x : bf) :
  is_pos_one prec emax x = true <-> (Binary.is_finite prec emax x = true /\ B2R x = 1%R).
Proof.
  destruct x as [sx|sx|sx plx Hplx|sx mx ex px]; cbn [is_pos_one Binary.is_finite].
  - split; [discriminate|]. intros [_ H]. cbn in H. lra.
  - split; [discriminate|]. intros [H _]. discriminate.
  - split; [discriminate|]. intros [H _]. discriminate.
  - destruct sx.
    + split; [discriminate|]. intros [_ H]. exfalso.
      assert (B2R (Binary.B754_finite prec emax true mx ex px) < 0)%R; [|lra].
      cbn [Binary.B2R SpecFloat.cond_Zopp]. apply F2R_lt_0. cbn. lia.
    + rewrite abs_cmp_one_correct.
      assert (Hpos : (0 < B2R (Binary.B754_finite prec emax false mx ex px))%R).
      { cbn [Binary.B2R SpecFloat.cond_Zopp]. apply F2R_gt_0. cbn. lia. }
      rewrite Rabs_pos_eq by lra.
      destruct (Rcompare_spec (B2R (Binary.B754_finite prec emax false mx ex px)) 1) as [H|H|H].
      * split; [discriminate|]. intros [_ H']. lra.
      * split; [intros _; split; [reflexivity|exact H]|reflexivity].
      * split; [discriminate|]. intros [_ H']. lra.
Qed.
End ModGen.
