(* C07 — floats: what Flocq proves about the operations the model uses. *)
From Coq Require Import ZArith Reals.
From Flocq Require Import Core IEEE754.BinarySingleNaN IEEE754.Binary IEEE754.Bits.
From Elk Require Import Model.C07_Float.
Open Scope R_scope.

(* rounding to nearest, ties to even, into the binary32 / binary64 formats *)
Definition rnd32 (x : R) : R := round radix2 (SpecFloat.fexp 24 128) ZnearestE x.
Definition rnd64 (x : R) : R := round radix2 (SpecFloat.fexp 53 1024) ZnearestE x.
Definition R32 (x : binary32) : R := Binary.B2R 24 128 x.
Definition R64 (x : binary64) : R := Binary.B2R 53 1024 x.
Definition fin32 (x : binary32) : Prop := Binary.is_finite 24 128 x = true.
Definition fin64 (x : binary64) : Prop := Binary.is_finite 53 1024 x = true.
Definition max32 : R := bpow radix2 128.
Definition max64 : R := bpow radix2 1024.

Definition exact (o : fop) (x y : R) : R :=
  match o with FAdd => x + y | FSub => x - y | FMul => x * y | FDiv => x / y end.

(* Float32 operations round the exact real result ONCE, at binary32 precision. *)
Lemma f32_op_correct o x y :
  fin32 x -> fin32 y -> (o = FDiv -> R32 y <> 0) ->
  Rabs (rnd32 (exact o (R32 x) (R32 y))) < max32 ->
  R32 (f32_op o x y) = rnd32 (exact o (R32 x) (R32 y)) /\ fin32 (f32_op o x y).
Proof.
  unfold fin32, R32, rnd32, max32. intros Hx Hy Hd Hov.
  destruct o; cbn [f32_op exact] in *.
  - unfold b32_plus.
    match goal with |- context [Binary.Bplus _ _ ?p ?q ?n _ _ _] =>
      generalize (Binary.Bplus_correct 24 128 p q n mode_NE x y Hx Hy) end.
    cbn [round_mode]. rewrite Rlt_bool_true by exact Hov. tauto.
  - unfold b32_minus.
    match goal with |- context [Binary.Bminus _ _ ?p ?q ?n _ _ _] =>
      generalize (Binary.Bminus_correct 24 128 p q n mode_NE x y Hx Hy) end.
    cbn [round_mode]. rewrite Rlt_bool_true by exact Hov. tauto.
  - unfold b32_mult.
    match goal with |- context [Binary.Bmult _ _ ?p ?q ?n _ _ _] =>
      generalize (Binary.Bmult_correct 24 128 p q n mode_NE x y) end.
    cbn [round_mode]. rewrite Rlt_bool_true by exact Hov. rewrite Hx, Hy. cbn [andb]. tauto.
  - unfold b32_div.
    match goal with |- context [Binary.Bdiv _ _ ?p ?q ?n _ _ _] =>
      generalize (Binary.Bdiv_correct 24 128 p q n mode_NE x y (Hd eq_refl)) end.
    cbn [round_mode]. rewrite Rlt_bool_true by exact Hov. rewrite Hx. tauto.
Qed.

Lemma f64_op_correct o x y :
  fin64 x -> fin64 y -> (o = FDiv -> R64 y <> 0) ->
  Rabs (rnd64 (exact o (R64 x) (R64 y))) < max64 ->
  R64 (f64_op o x y) = rnd64 (exact o (R64 x) (R64 y)) /\ fin64 (f64_op o x y).
Proof.
  unfold fin64, R64, rnd64, max64. intros Hx Hy Hd Hov.
  destruct o; cbn [f64_op exact] in *.
  - unfold b64_plus.
    match goal with |- context [Binary.Bplus _ _ ?p ?q ?n _ _ _] =>
      generalize (Binary.Bplus_correct 53 1024 p q n mode_NE x y Hx Hy) end.
    cbn [round_mode]. rewrite Rlt_bool_true by exact Hov. tauto.
  - unfold b64_minus.
    match goal with |- context [Binary.Bminus _ _ ?p ?q ?n _ _ _] =>
      generalize (Binary.Bminus_correct 53 1024 p q n mode_NE x y Hx Hy) end.
    cbn [round_mode]. rewrite Rlt_bool_true by exact Hov. tauto.
  - unfold b64_mult.
    match goal with |- context [Binary.Bmult _ _ ?p ?q ?n _ _ _] =>
      generalize (Binary.Bmult_correct 53 1024 p q n mode_NE x y) end.
    cbn [round_mode]. rewrite Rlt_bool_true by exact Hov. rewrite Hx, Hy. cbn [andb]. tauto.
  - unfold b64_div.
    match goal with |- context [Binary.Bdiv _ _ ?p ?q ?n _ _ _] =>
      generalize (Binary.Bdiv_correct 53 1024 p q n mode_NE x y (Hd eq_refl)) end.
    cbn [round_mode]. rewrite Rlt_bool_true by exact Hov. rewrite Hx. tauto.
Qed.

(* comparison of finite values is comparison of the reals they denote *)
Lemma f64_cmp_correct x y : fin64 x -> fin64 y -> f64_cmp x y = Some (Rcompare (R64 x) (R64 y)).
Proof. intros Hx Hy. apply Binary.Bcompare_correct; assumption. Qed.
Lemma f32_cmp_correct x y : fin32 x -> fin32 y -> f32_cmp x y = Some (Rcompare (R32 x) (R32 y)).
Proof. intros Hx Hy. apply Binary.Bcompare_correct; assumption. Qed.

(* Int -> Float rounds the integer once *)
Lemma f64_of_int_correct z :
  Rabs (rnd64 (IZR z)) < max64 -> R64 (f64_of_int z) = rnd64 (IZR z) /\ fin64 (f64_of_int z).
Proof.
  unfold R64, rnd64, max64, fin64, f64_of_int. intros Hov.
  match goal with |- context [Binary.binary_normalize _ _ ?p ?q _ _ _ _] =>
    generalize (Binary.binary_normalize_correct 53 1024 p q mode_NE z 0 false) end.
  cbn [round_mode].
  replace (F2R {| Fnum := z; Fexp := 0 |}) with (IZR z)
    by (unfold F2R; cbn [Fnum Fexp bpow]; rewrite Rmult_1_r; reflexivity).
  rewrite Rlt_bool_true by exact Hov. tauto.
Qed.

(* Float -> Int truncates toward zero *)
Lemma f64_trunc_correct x : IZR (f64_trunc x) = round radix2 (FIX_exp 0) Ztrunc (R64 x).
Proof. unfold f64_trunc, R64. apply Binary.Btrunc_correct. reflexivity. Qed.

Lemma float_ieee :
  (forall o x y,
     fin32 x -> fin32 y -> (o = FDiv -> R32 y <> 0) ->
     Rabs (rnd32 (exact o (R32 x) (R32 y))) < max32 ->
     R32 (f32_op o x y) = rnd32 (exact o (R32 x) (R32 y)) /\ fin32 (f32_op o x y)) /\
  (forall o x y,
     fin64 x -> fin64 y -> (o = FDiv -> R64 y <> 0) ->
     Rabs (rnd64 (exact o (R64 x) (R64 y))) < max64 ->
     R64 (f64_op o x y) = rnd64 (exact o (R64 x) (R64 y)) /\ fin64 (f64_op o x y)) /\
  (forall x y, fin64 x -> fin64 y -> f64_cmp x y = Some (Rcompare (R64 x) (R64 y))) /\
  (forall z, Rabs (rnd64 (IZR z)) < max64 ->
     R64 (f64_of_int z) = rnd64 (IZR z) /\ fin64 (f64_of_int z)).
Proof.
  split; [exact f32_op_correct|]. split; [exact f64_op_correct|].
  split; [exact f64_cmp_correct | exact f64_of_int_correct].
Qed.
