(* C17 — proofs about the open-addressing table model (fixed code: fx = true). *)
From Elk Require Import Base.GoSem Model.C17_Table.
From Coq Require Import Arith PeanoNat ZifyBool ZifyNat ZifyN Permutation.
Open Scope nat_scope.

(* ---------- arithmetic of probe positions ---------- *)
Lemma add_mod_cases h p c : h < c -> p < c ->
  (h + p) mod c = if h + p <? c then h + p else h + p - c.
Proof.
  intros Hh Hp. destruct (h + p <? c) eqn:E.
  - apply Nat.ltb_lt in E. apply Nat.mod_small; assumption.
  - apply Nat.ltb_ge in E. symmetry. apply Nat.mod_unique with (q := 1); lia.
Qed.

Lemma pos_inj h p p' c : h < c -> p < c -> p' < c ->
  (h + p) mod c = (h + p') mod c -> p = p'.
Proof.
  intros Hh Hp Hp'. rewrite !add_mod_cases by assumption.
  destruct (h + p <? c) eqn:E1, (h + p' <? c) eqn:E2; lia.
Qed.

Lemma pos_surj h i c : h < c -> i < c -> exists p, p < c /\ (h + p) mod c = i.
Proof.
  intros Hh Hi. destruct (le_lt_dec h i) as [L|L].
  - exists (i - h). split; [lia|]. rewrite add_mod_cases by lia.
    destruct (h + (i - h) <? c) eqn:E; lia.
  - exists (i + c - h). split; [lia|]. rewrite add_mod_cases by lia.
    destruct (h + (i + c - h) <? c) eqn:E; lia.
Qed.

Section Proofs.
Variables key val : Type.
Variable hash : key -> N.
Variable eqb : key -> key -> bool.
Variable veqb : val -> val -> bool.
Hypothesis eqb_refl : forall a, eqb a a = true.
Hypothesis eqb_sym : forall a b, eqb a b = eqb b a.
Hypothesis eqb_trans : forall a b c, eqb a b = true -> eqb b c = true -> eqb a c = true.
Hypothesis hash_compat : forall a b, eqb a b = true -> hash a = hash b.

Notation slot := (slot key val).
Notation table := (table key val).
Notation E := (@Empty key val).
Notation upd := (upd key val).
Notation entries := (entries key val).
Notation is_live := (is_live key val).
Notation home := (home key hash).
Notation slot_at := (slot_at key val).
Notation scan := (scan key val eqb true).
Notation index := (index key val hash eqb true).

Lemma eqb_false_sym a b : eqb a b = false -> eqb b a = false.
Proof. rewrite eqb_sym. auto. Qed.

Lemma home_lt c k : c <> 0 -> home c k < c.
Proof.
  intros Hc. unfold C17_Table.home.
  assert (hash k mod N.of_nat c < N.of_nat c)%N by (apply N.mod_lt; lia). lia.
Qed.

Lemma home_compat c a b : eqb a b = true -> home c a = home c b.
Proof. intros H. unfold C17_Table.home. rewrite (hash_compat _ _ H). reflexivity. Qed.

(* ---------- upd / nth / entries ---------- *)
Lemma length_upd (sl : list slot) i x : length (upd sl i x) = length sl.
Proof. revert i. induction sl as [|s r IH]; intros [|i]; simpl; auto. Qed.

Lemma nth_upd_same (sl : list slot) i x : i < length sl -> nth i (upd sl i x) E = x.
Proof. revert i. induction sl as [|s r IH]; intros [|i] H; simpl in *; try lia; auto. apply IH. lia. Qed.

Lemma nth_upd_other (sl : list slot) i j x : j <> i -> nth j (upd sl i x) E = nth j sl E.
Proof.
  revert i j. induction sl as [|s r IH]; intros [|i] [|j] H; simpl; auto; try lia.
Qed.

Lemma nth_live_lt (sl : list slot) i k v : nth i sl E = Live k v -> i < length sl.
Proof.
  intros H. destruct (le_lt_dec (length sl) i) as [L|L]; [|assumption].
  rewrite nth_overflow in H by assumption. discriminate.
Qed.

Lemma entries_In (sl : list slot) k v :
  In (k, v) (entries sl) <-> exists i, nth i sl E = Live k v.
Proof.
  induction sl as [|s r IH]; simpl.
  - split; [tauto|]. intros [[|i] H]; discriminate.
  - destruct s as [| |k0 v0]; simpl.
    + rewrite IH. split; intros [i H]; [exists (S i); assumption|].
      destruct i; [discriminate|]. exists i; assumption.
    + rewrite IH. split; intros [i H]; [exists (S i); assumption|].
      destruct i; [discriminate|]. exists i; assumption.
    + rewrite IH. split.
      * intros [H|[i H]]; [exists 0; congruence|exists (S i); assumption].
      * intros [[|i] H]; [left; congruence|right; exists i; assumption].
Qed.

Definition lv (s : slot) : nat := if is_live s then 1 else 0.
Definition tb (s : slot) : nat := match s with Tomb => 1 | _ => 0 end.
Definition nlive (sl : list slot) : nat := length (entries sl).
Fixpoint ntomb (sl : list slot) : nat := match sl with [] => 0 | s :: r => tb s + ntomb r end.

Lemma nlive_cons s (r : list slot) : nlive (s :: r) = lv s + nlive r.
Proof. unfold nlive. destruct s; reflexivity. Qed.

Lemma nlive_upd (sl : list slot) i x : i < length sl ->
  nlive (upd sl i x) + lv (nth i sl E) = nlive sl + lv x.
Proof.
  revert i. induction sl as [|s r IH]; intros [|i] H; simpl in *; try lia.
  - rewrite !nlive_cons. lia.
  - rewrite !nlive_cons. specialize (IH i ltac:(lia)). lia.
Qed.

Lemma ntomb_upd (sl : list slot) i x : i < length sl ->
  ntomb (upd sl i x) + tb (nth i sl E) = ntomb sl + tb x.
Proof.
  revert i. induction sl as [|s r IH]; intros [|i] H; simpl in *; try lia.
  specialize (IH i ltac:(lia)). lia.
Qed.

Lemma nlive_le (sl : list slot) : nlive sl <= length sl.
Proof. induction sl as [|s r IH]; [auto|]. rewrite nlive_cons. unfold lv. simpl. destruct (is_live s); lia. Qed.

Lemma nlive_ntomb_le (sl : list slot) : nlive sl + ntomb sl <= length sl.
Proof.
  induction sl as [|s r IH]; [auto|]. rewrite nlive_cons. simpl. unfold lv. destruct s; simpl; lia.
Qed.

Lemma all_live_nlive (sl : list slot) :
  (forall i, i < length sl -> is_live (nth i sl E) = true) -> nlive sl = length sl.
Proof.
  induction sl as [|s r IH]; intros H; [reflexivity|].
  rewrite nlive_cons. simpl. rewrite IH.
  - specialize (H 0 ltac:(simpl; lia)). simpl in H. unfold lv. rewrite H. reflexivity.
  - intros i Hi. apply (H (S i)). simpl. lia.
Qed.

Lemma nlive_repeat c : nlive (repeat E c) = 0.
Proof. induction c; [reflexivity|]. simpl. rewrite nlive_cons. simpl. assumption. Qed.
Lemma ntomb_repeat c : ntomb (repeat E c) = 0.
Proof. induction c; [reflexivity|]. simpl. assumption. Qed.
Lemma nth_repeat_E c i : nth i (repeat E c) E = E.
Proof. revert i. induction c; intros [|i]; simpl; auto. Qed.

(* ---------- the probe ---------- *)
Definition hit (sl : list slot) (k : key) (h q : nat) : bool :=
  match slot_at sl h q with Live k' _ => eqb k' k | _ => false end.

Lemma scan_hit sl k h : forall n p del p0,
  p <= p0 -> p0 < p + n ->
  (forall q, p <= q < p0 -> slot_at sl h q <> E /\ hit sl k h q = false) ->
  hit sl k h p0 = true ->
  scan sl k h n p del = Some p0.
Proof.
  induction n as [|n IH]; intros p del p0 L1 L2 Hpre Hhit; [lia|].
  simpl. destruct (Nat.eq_dec p p0) as [->|Hne].
  - unfold hit in Hhit. destruct (slot_at sl h p0) as [| |k' v']; try discriminate.
    rewrite Hhit. reflexivity.
  - destruct (Hpre p ltac:(lia)) as [Hne' Hnh]. unfold hit in Hnh.
    destruct (slot_at sl h p) as [| |k' v'] eqn:Es; [congruence| |].
    + apply IH; try lia; auto. intros q Hq. apply Hpre. lia.
    + rewrite Hnh. apply IH; try lia; auto. intros q Hq. apply Hpre. lia.
Qed.

Lemma scan_miss_some sl k h : forall n p d,
  (forall q, p <= q < p + n -> hit sl k h q = false) ->
  scan sl k h n p (Some d) = Some d.
Proof.
  induction n as [|n IH]; intros p d Hm; [reflexivity|].
  simpl. pose proof (Hm p ltac:(lia)) as Hp. unfold hit in Hp.
  destruct (slot_at sl h p) as [| |k' v']; [reflexivity| |].
  - apply IH. intros q Hq. apply Hm. lia.
  - rewrite Hp. apply IH. intros q Hq. apply Hm. lia.
Qed.

Lemma scan_miss_none sl k h : forall n p,
  (forall q, p <= q < p + n -> hit sl k h q = false) ->
  (scan sl k h n p None = None /\ forall q, p <= q < p + n -> is_live (slot_at sl h q) = true) \/
  (exists j, scan sl k h n p None = Some j /\ p <= j < p + n /\ is_live (slot_at sl h j) = false /\
             forall q, p <= q < j -> slot_at sl h q <> E).
Proof.
  induction n as [|n IH]; intros p Hm.
  - left. split; [reflexivity|]. intros q Hq. lia.
  - simpl. pose proof (Hm p ltac:(lia)) as Hp. unfold hit in Hp.
    destruct (slot_at sl h p) as [| |k' v'] eqn:Es.
    + right. exists p. split; [reflexivity|]. split; [lia|]. split; [rewrite Es; reflexivity|].
      intros q Hq. lia.
    + right. exists p. rewrite scan_miss_some by (intros q Hq; apply Hm; lia).
      split; [reflexivity|]. split; [lia|]. split; [rewrite Es; reflexivity|]. intros q Hq. lia.
    + rewrite Hp. destruct (IH (S p)) as [[Hs Hall]|[j [Hs [Hj [Hl Hq]]]]].
      * intros q Hq. apply Hm. lia.
      * left. split; [assumption|]. intros q Hq. destruct (Nat.eq_dec q p) as [->|Hn].
        -- rewrite Es. reflexivity.
        -- apply Hall. lia.
      * right. exists j. split; [assumption|]. split; [lia|]. split; [assumption|].
        intros q Hq'. destruct (Nat.eq_dec q p) as [->|Hn]; [rewrite Es; discriminate|].
        apply Hq. lia.
Qed.


(* ---------- slot invariant ---------- *)
Definition absent (sl : list slot) (k : key) : Prop :=
  forall i k' v, nth i sl E = Live k' v -> eqb k' k = false.

Record InvS (sl : list slot) : Prop := {
  inv_path : forall i k v p q, nth i sl E = Live k v -> p < length sl ->
             (home (length sl) k + p) mod length sl = i -> q < p ->
             slot_at sl (home (length sl) k) q <> E;
  inv_dist : forall i j k v k' v', nth i sl E = Live k v -> nth j sl E = Live k' v' ->
             eqb k k' = true -> i = j
}.

Lemma slot_at_upd sl h q j x : j < length sl ->
  slot_at (upd sl j x) h q = if (h + q) mod length sl =? j then x else slot_at sl h q.
Proof.
  intros Hj. unfold C17_Table.slot_at. rewrite length_upd.
  destruct ((h + q) mod length sl =? j) eqn:Eq.
  - apply Nat.eqb_eq in Eq. rewrite Eq. apply nth_upd_same. assumption.
  - apply Nat.eqb_neq in Eq. apply nth_upd_other. assumption.
Qed.

Lemma slot_at_upd_ne sl h q j x : j < length sl -> x <> E ->
  slot_at sl h q <> E -> slot_at (upd sl j x) h q <> E.
Proof.
  intros Hj Hx H. rewrite slot_at_upd by assumption.
  destruct ((h + q) mod length sl =? j); assumption.
Qed.

Lemma index_unfold sl k : length sl <> 0 ->
  index sl k = Ok (option_map (fun p => (home (length sl) k + p) mod length sl)
                              (scan sl k (home (length sl) k) (length sl) 0 None)).
Proof. intros H. unfold C17_Table.index. destruct (length sl); [congruence|reflexivity]. Qed.

Lemma hit_false_of_absent sl k h q : absent sl k -> hit sl k h q = false.
Proof.
  intros Ha. unfold hit, C17_Table.slot_at.
  destruct (nth ((h + q) mod length sl) sl E) as [| |k' v'] eqn:En; auto. eapply Ha; eauto.
Qed.

(* a present key is found at its slot *)
Lemma index_hit sl k i k' v : InvS sl -> nth i sl E = Live k' v -> eqb k' k = true ->
  index sl k = Ok (Some i).
Proof.
  intros HI Hn He. pose proof (nth_live_lt _ _ _ _ Hn) as Hi.
  assert (Hc : length sl <> 0) by lia.
  rewrite index_unfold by assumption.
  set (c := length sl) in *. set (h := home c k).
  assert (Hh : h < c) by (apply home_lt; assumption).
  destruct (pos_surj h i c Hh Hi) as [p [Hp Hpi]].
  assert (Hhk : home c k' = h) by (apply home_compat; assumption).
  rewrite (scan_hit sl k h c 0 None p); try lia.
  - simpl. rewrite Hpi. reflexivity.
  - intros q Hq. split.
    + rewrite <- Hhk. eapply (inv_path sl HI i k' v p q); eauto; try lia. change ((home c k' + p) mod c = i). rewrite Hhk. exact Hpi.
    + unfold hit, C17_Table.slot_at. fold c.
      destruct (nth ((h + q) mod c) sl E) as [| |k2 v2] eqn:En; auto.
      destruct (eqb k2 k) eqn:E2; auto. exfalso.
      assert (eqb k2 k' = true).
      { apply eqb_trans with k; auto. rewrite eqb_sym. assumption. }
      pose proof (inv_dist sl HI _ _ _ _ _ _ En Hn H) as Heq.
      assert (q = p) by (apply (pos_inj h q p c); try lia). lia.
  - unfold hit, C17_Table.slot_at. fold c. rewrite Hpi, Hn. assumption.
Qed.

(* an absent key: -1 only when every slot is live, otherwise a free slot on the probe path *)
Lemma index_miss sl k : length sl <> 0 -> absent sl k ->
  (index sl k = Ok None /\ forall i, i < length sl -> is_live (nth i sl E) = true) \/
  (exists j p, index sl k = Ok (Some j) /\ j < length sl /\ p < length sl /\
     j = (home (length sl) k + p) mod length sl /\ is_live (nth j sl E) = false /\
     forall q, q < p -> slot_at sl (home (length sl) k) q <> E).
Proof.
  intros Hc Ha. rewrite index_unfold by assumption.
  set (c := length sl) in *. set (h := home c k).
  assert (Hh : h < c) by (apply home_lt; assumption).
  destruct (scan_miss_none sl k h c 0) as [[Hs Hall]|[j [Hs [Hj [Hl Hq]]]]].
  - intros q Hq. apply hit_false_of_absent. assumption.
  - left. rewrite Hs. split; [reflexivity|]. intros i Hi.
    destruct (pos_surj h i c Hh Hi) as [p [Hp Hpi]].
    specialize (Hall p ltac:(lia)). unfold C17_Table.slot_at in Hall. fold c in Hall.
    rewrite Hpi in Hall. assumption.
  - right. exists ((h + j) mod c), j. rewrite Hs. simpl.
    split; [reflexivity|]. split; [apply Nat.mod_upper_bound; assumption|].
    split; [lia|]. split; [reflexivity|]. split.
    + unfold C17_Table.slot_at in Hl. fold c in Hl. assumption.
    + intros q Hq'. apply Hq. lia.
Qed.

(* ---------- updates preserve the slot invariant ---------- *)
Lemma InvS_overwrite sl j k' v' k v : InvS sl -> nth j sl E = Live k' v' -> eqb k' k = true ->
  InvS (upd sl j (Live k v)).
Proof.
  intros HI Hn He. pose proof (nth_live_lt _ _ _ _ Hn) as Hj.
  constructor; rewrite ?length_upd.
  - intros i k0 v0 p q Hi Hp Hpi Hq.
    apply slot_at_upd_ne; [assumption|discriminate|].
    destruct (Nat.eq_dec i j) as [->|Hne].
    + rewrite nth_upd_same in Hi by assumption. inversion Hi; subst k0 v0.
      rewrite <- (home_compat _ _ _ He). rewrite <- (home_compat _ _ _ He) in Hpi.
      eapply (inv_path sl HI j k' v' p q); eauto.
    + rewrite nth_upd_other in Hi by assumption.
      eapply (inv_path sl HI i k0 v0 p q); eauto.
  - intros i1 i2 k1 v1 k2 v2 H1 H2 H12.
    destruct (Nat.eq_dec i1 j) as [->|N1], (Nat.eq_dec i2 j) as [->|N2]; auto.
    + rewrite nth_upd_same in H1 by assumption. inversion H1; subst k1 v1.
      rewrite nth_upd_other in H2 by assumption.
      eapply (inv_dist sl HI j i2 k' v' k2 v2); eauto; eapply eqb_trans; eauto.
    + rewrite nth_upd_same in H2 by assumption. inversion H2; subst k2 v2.
      rewrite nth_upd_other in H1 by assumption.
      eapply (inv_dist sl HI i1 j k1 v1 k' v'); eauto;
      eapply eqb_trans; eauto; rewrite eqb_sym; assumption.
    + rewrite nth_upd_other in H1, H2 by assumption. eapply (inv_dist sl HI); eauto.
Qed.

Lemma InvS_delete sl j : InvS sl -> j < length sl -> InvS (upd sl j Tomb).
Proof.
  intros HI Hj. constructor; rewrite ?length_upd.
  - intros i k0 v0 p q Hi Hp Hpi Hq.
    apply slot_at_upd_ne; [assumption|discriminate|].
    destruct (Nat.eq_dec i j) as [->|Hne].
    + rewrite nth_upd_same in Hi by assumption. discriminate.
    + rewrite nth_upd_other in Hi by assumption. eapply (inv_path sl HI i k0 v0 p q); eauto.
  - intros i1 i2 k1 v1 k2 v2 H1 H2 H12.
    destruct (Nat.eq_dec i1 j) as [->|N1]; [rewrite nth_upd_same in H1 by assumption; discriminate|].
    destruct (Nat.eq_dec i2 j) as [->|N2]; [rewrite nth_upd_same in H2 by assumption; discriminate|].
    rewrite nth_upd_other in H1, H2 by assumption. eapply (inv_dist sl HI); eauto.
Qed.

Lemma InvS_insert sl j p k v : InvS sl -> absent sl k -> j < length sl -> p < length sl ->
  j = (home (length sl) k + p) mod length sl ->
  (forall q, q < p -> slot_at sl (home (length sl) k) q <> E) ->
  InvS (upd sl j (Live k v)).
Proof.
  intros HI Ha Hj Hp Hjp Hpath.
  assert (Hc : length sl <> 0) by lia.
  constructor; rewrite ?length_upd.
  - intros i k0 v0 p0 q Hi Hp0 Hpi Hq.
    apply slot_at_upd_ne; [assumption|discriminate|].
    destruct (Nat.eq_dec i j) as [->|Hne].
    + rewrite nth_upd_same in Hi by assumption. inversion Hi; subst k0 v0.
      assert (p0 = p).
      { apply (pos_inj (home (length sl) k) p0 p (length sl)); try lia.
        apply home_lt; assumption. }
      subst p0. apply Hpath. assumption.
    + rewrite nth_upd_other in Hi by assumption. eapply (inv_path sl HI i k0 v0 p0 q); eauto.
  - intros i1 i2 k1 v1 k2 v2 H1 H2 H12.
    destruct (Nat.eq_dec i1 j) as [->|N1], (Nat.eq_dec i2 j) as [->|N2]; auto.
    + rewrite nth_upd_same in H1 by assumption. inversion H1; subst k1 v1.
      rewrite nth_upd_other in H2 by assumption.
      pose proof (Ha _ _ _ H2) as Hf. rewrite eqb_sym in Hf. congruence.
    + rewrite nth_upd_same in H2 by assumption. inversion H2; subst k2 v2.
      rewrite nth_upd_other in H1 by assumption.
      pose proof (Ha _ _ _ H1) as Hf. congruence.
    + rewrite nth_upd_other in H1, H2 by assumption. eapply (inv_dist sl HI); eauto.
Qed.

Lemma InvS_repeat c : InvS (repeat E c).
Proof.
  constructor.
  - intros i k v p q Hi. rewrite nth_repeat_E in Hi. discriminate.
  - intros i j k v k' v' Hi. rewrite nth_repeat_E in Hi. discriminate.
Qed.

(* a key is either present at a unique slot or absent *)
Lemma present_or_absent sl k :
  (exists i k' v, nth i sl E = Live k' v /\ eqb k' k = true) \/ absent sl k.
Proof.
  induction sl as [|s r IH].
  - right. intros [|i] k' v H; discriminate.
  - destruct s as [| |k0 v0].
    + destruct IH as [[i [k' [v [H1 H2]]]]|Ha].
      * left. exists (S i), k', v. auto.
      * right. intros [|i] k' v H; [discriminate|]. eapply Ha; eauto.
    + destruct IH as [[i [k' [v [H1 H2]]]]|Ha].
      * left. exists (S i), k', v. auto.
      * right. intros [|i] k' v H; [discriminate|]. eapply Ha; eauto.
    + destruct (eqb k0 k) eqn:E0.
      * left. exists 0, k0, v0. auto.
      * destruct IH as [[i [k' [v [H1 H2]]]]|Ha].
        -- left. exists (S i), k', v. auto.
        -- right. intros [|i] k' v H; [simpl in H; congruence|]. eapply Ha; eauto.
Qed.


(* ---------- association-list specification ---------- *)
Notation amap := (list (key * val)).
Notation s_get := (s_get key val eqb).
Notation s_mem := (s_mem key val eqb).
Notation s_delete := (s_delete key val eqb).
Notation s_set := (s_set key val eqb).
Notation s_concat := (s_concat key val eqb).

Definition equiv (a b : amap) : Prop := forall kv, In kv a <-> In kv b.

Fixpoint NoDupK (m : amap) : Prop :=
  match m with
  | [] => True
  | kv :: r => (forall kv', In kv' r -> eqb (fst kv') (fst kv) = false) /\ NoDupK r
  end.

Lemma equiv_refl a : equiv a a.
Proof. intros kv. tauto. Qed.
Lemma equiv_sym a b : equiv a b -> equiv b a.
Proof. intros H kv. rewrite (H kv). tauto. Qed.
Lemma equiv_trans a b c : equiv a b -> equiv b c -> equiv a c.
Proof. intros H1 H2 kv. rewrite (H1 kv). apply H2. Qed.

Lemma s_mem_true m k : s_mem m k = true <-> exists k' v, In (k', v) m /\ eqb k' k = true.
Proof.
  unfold C17_Table.s_mem. rewrite existsb_exists. split.
  - intros [[k' v] [H1 H2]]. exists k', v. auto.
  - intros [k' [v [H1 H2]]]. exists (k', v). auto.
Qed.

Lemma s_mem_false m k : s_mem m k = false <-> forall k' v, In (k', v) m -> eqb k' k = false.
Proof.
  split.
  - intros H k' v Hin. destruct (eqb k' k) eqn:E0; auto.
    assert (s_mem m k = true) by (apply s_mem_true; eauto). congruence.
  - intros H. destruct (s_mem m k) eqn:E0; auto.
    apply s_mem_true in E0. destruct E0 as [k' [v [H1 H2]]]. rewrite (H _ _ H1) in H2. discriminate.
Qed.

Lemma s_get_absent m k : (forall k' v, In (k', v) m -> eqb k' k = false) -> s_get m k = GAbsent.
Proof.
  intros H. unfold C17_Table.s_get.
  destruct (find (fun kv => eqb (fst kv) k) m) as [[k' v]|] eqn:Ef; auto.
  apply find_some in Ef. destruct Ef as [H1 H2]. simpl in H2. rewrite (H _ _ H1) in H2. discriminate.
Qed.

Lemma s_get_present m k k' v : NoDupK m -> In (k', v) m -> eqb k' k = true -> s_get m k = GVal v.
Proof.
  unfold C17_Table.s_get. induction m as [|[k0 v0] r IH]; intros Hn Hin He; [contradiction|].
  simpl. destruct Hn as [Hn1 Hn2]. destruct Hin as [Heq|Hin].
  - inversion Heq; subst. rewrite He. reflexivity.
  - destruct (eqb k0 k) eqn:E0.
    + exfalso. pose proof (Hn1 _ Hin) as Hf. simpl in Hf.
      assert (eqb k' k0 = true) by (eapply eqb_trans; eauto; rewrite eqb_sym; assumption).
      congruence.
    + apply IH; auto.
Qed.

Lemma s_delete_In m k kv : In kv (s_delete m k) <-> In kv m /\ eqb (fst kv) k = false.
Proof. unfold C17_Table.s_delete. rewrite filter_In. rewrite Bool.negb_true_iff. tauto. Qed.

Lemma s_set_In m k v kv : In kv (s_set m k v) <-> kv = (k, v) \/ (In kv m /\ eqb (fst kv) k = false).
Proof. unfold C17_Table.s_set. simpl. rewrite s_delete_In. split; intros [H|H]; auto. Qed.

Lemma NoDupK_delete m k : NoDupK m -> NoDupK (s_delete m k).
Proof.
  induction m as [|kv r IH]; intros Hn; [exact I|].
  destruct Hn as [H1 H2]. unfold C17_Table.s_delete. simpl.
  destruct (negb (eqb (fst kv) k)); simpl; auto.
  split; auto. intros kv' Hin. apply H1. apply filter_In in Hin. tauto.
Qed.

Lemma NoDupK_set m k v : NoDupK m -> NoDupK (s_set m k v).
Proof.
  intros Hn. split; [|apply NoDupK_delete; assumption].
  intros kv' Hin. apply s_delete_In in Hin. tauto.
Qed.

Lemma s_concat_cons a k v es : s_concat a ((k, v) :: es) = s_concat (s_set a k v) es.
Proof. reflexivity. Qed.

Lemma NoDupK_concat es : forall a, NoDupK a -> NoDupK (s_concat a es).
Proof.
  induction es as [|[k v] r IH]; intros a Ha; [assumption|].
  rewrite s_concat_cons. apply IH. apply NoDupK_set. assumption.
Qed.

Lemma equiv_set a b k v : equiv a b -> equiv (s_set a k v) (s_set b k v).
Proof. intros H kv. rewrite !s_set_In. rewrite (H kv). tauto. Qed.

Lemma equiv_delete a b k : equiv a b -> equiv (s_delete a k) (s_delete b k).
Proof. intros H kv. rewrite !s_delete_In. rewrite (H kv). tauto. Qed.

Lemma equiv_concat es : forall a b, equiv a b -> equiv (s_concat a es) (s_concat b es).
Proof.
  induction es as [|[k v] r IH]; intros a b H; [assumption|].
  rewrite !s_concat_cons. apply IH. apply equiv_set. assumption.
Qed.

Lemma equiv_mem a b k : equiv a b -> s_mem a k = s_mem b k.
Proof.
  intros H. destruct (s_mem b k) eqn:Eb.
  - apply s_mem_true in Eb. apply s_mem_true. destruct Eb as [k' [v [H1 H2]]]. exists k', v.
    split; auto. apply H. assumption.
  - rewrite s_mem_false in Eb. apply s_mem_false. intros k' v Hin. eapply Eb. apply H. eassumption.
Qed.

Lemma equiv_get a b k : NoDupK a -> NoDupK b -> equiv a b -> s_get a k = s_get b k.
Proof.
  intros Ha Hb H. destruct (s_mem b k) eqn:Eb.
  - apply s_mem_true in Eb. destruct Eb as [k' [v [H1 H2]]].
    rewrite (s_get_present b k k' v); auto. apply (s_get_present a k k' v); auto. apply H. assumption.
  - rewrite s_mem_false in Eb. rewrite (s_get_absent b k) by assumption.
    apply s_get_absent. intros k' v Hin. eapply Eb. apply H. eassumption.
Qed.

Lemma NoDupK_NoDup m : NoDupK m -> NoDup m.
Proof.
  induction m as [|kv r IH]; intros H; constructor; destruct H as [H1 H2]; auto.
  intros Hin. specialize (H1 _ Hin). rewrite eqb_refl in H1. discriminate.
Qed.

Lemma equiv_perm a b : NoDupK a -> NoDupK b -> equiv a b -> Permutation a b.
Proof. intros Ha Hb H. apply NoDup_Permutation; auto using NoDupK_NoDup. Qed.

Lemma equiv_length a b : NoDupK a -> NoDupK b -> equiv a b -> length a = length b.
Proof. intros Ha Hb H. apply Permutation_length. apply equiv_perm; assumption. Qed.

(* entries of a table with distinct live keys *)
Lemma InvS_NoDupK sl : InvS sl -> NoDupK (entries sl).
Proof.
  intros HI. pose proof (inv_dist sl HI) as Hd. clear HI.
  induction sl as [|s r IH]; [exact I|].
  assert (Hr : forall i j k v k' v', nth i r E = Live k v -> nth j r E = Live k' v' -> eqb k k' = true -> i = j).
  { intros i j k v k' v' H1 H2 H3. specialize (Hd (S i) (S j) k v k' v' H1 H2 H3). lia. }
  destruct s as [| |k0 v0]; simpl; auto.
  split; auto. intros [k' v'] Hin. simpl. apply entries_In in Hin. destruct Hin as [i Hi].
  destruct (eqb k' k0) eqn:E0; auto.
  specialize (Hd (S i) 0 k' v' k0 v0 Hi eq_refl E0). discriminate.
Qed.

Lemma absent_mem sl k : absent sl k <-> s_mem (entries sl) k = false.
Proof.
  rewrite s_mem_false. split.
  - intros Ha k' v Hin. apply entries_In in Hin. destruct Hin as [i Hi]. eapply Ha; eauto.
  - intros H i k' v Hi. eapply H. apply entries_In. eauto.
Qed.

Lemma entries_upd_In sl j x k v : j < length sl ->
  (In (k, v) (entries (upd sl j x)) <-> x = Live k v \/ exists i, i <> j /\ nth i sl E = Live k v).
Proof.
  intros Hj. rewrite entries_In. split.
  - intros [i Hi]. destruct (Nat.eq_dec i j) as [->|Hne].
    + rewrite nth_upd_same in Hi by assumption. auto.
    + rewrite nth_upd_other in Hi by assumption. right. eauto.
  - intros [H|[i [Hne Hi]]].
    + exists j. rewrite nth_upd_same by assumption. assumption.
    + exists i. rewrite nth_upd_other by assumption. assumption.
Qed.


(* ---------- one insertion (shared by Set, Copy, SetCapacity) ---------- *)
Lemma place_ok sl k v : InvS sl -> (s_mem (entries sl) k = true \/ nlive sl < length sl) ->
  exists j, index sl k = Ok (Some j) /\ j < length sl /\ InvS (upd sl j (Live k v)) /\
    equiv (entries (upd sl j (Live k v))) (s_set (entries sl) k v) /\
    is_live (nth j sl E) = s_mem (entries sl) k.
Proof.
  intros HI Hroom. destruct (present_or_absent sl k) as [[i [k' [v' [Hn He]]]]|Ha].
  - pose proof (nth_live_lt _ _ _ _ Hn) as Hi. exists i.
    split; [eapply index_hit; eauto|]. split; [assumption|].
    split; [eapply InvS_overwrite; eauto|]. split.
    + intros [k0 v0]. rewrite entries_upd_In by assumption. rewrite s_set_In. simpl.
      split.
      * intros [H|[i' [Hne Hi']]]; [left; congruence|]. right. split; [apply entries_In; eauto|].
        destruct (eqb k0 k) eqn:E0; auto. exfalso. apply Hne.
        eapply (inv_dist sl HI i' i k0 v0 k' v'); eauto;
        eapply eqb_trans; eauto; rewrite eqb_sym; assumption.
      * intros [H|[Hin Hf]]; [left; congruence|]. right. apply entries_In in Hin.
        destruct Hin as [i' Hi']. exists i'. split; auto. intros ->. rewrite Hn in Hi'.
        inversion Hi'; subst. congruence.
    + rewrite Hn. simpl. symmetry. apply s_mem_true. exists k', v'. split; auto.
      apply entries_In. eauto.
  - pose proof Ha as Hm. apply absent_mem in Hm. destruct Hroom as [Hr|Hr]; [congruence|].
    assert (Hc : length sl <> 0) by lia.
    destruct (index_miss sl k Hc Ha) as [[_ Hall]|[j [p [Hix [Hj [Hp [Hjp [Hl Hpath]]]]]]]].
    + apply all_live_nlive in Hall. lia.
    + exists j. split; [assumption|]. split; [assumption|].
      split; [eapply InvS_insert; eauto|]. split.
      * intros [k0 v0]. rewrite entries_upd_In by assumption. rewrite s_set_In. simpl.
        split.
        -- intros [H|[i' [Hne Hi']]]; [left; congruence|]. right. split; [apply entries_In; eauto|].
           eapply Ha; eauto.
        -- intros [H|[Hin Hf]]; [left; congruence|]. right. apply entries_In in Hin.
           destruct Hin as [i' Hi']. exists i'. split; auto. intros ->. rewrite Hi' in Hl. discriminate.
      * rewrite Hl, Hm. reflexivity.
Qed.

(* ---------- the table invariant ---------- *)
Record Inv (t : table) : Prop := {
  inv_s : InvS (slots _ _ t);
  inv_el : elements _ _ t = Z.of_nat (nlive (slots _ _ t));
  inv_oc : occupied _ _ t = (Z.of_nat (nlive (slots _ _ t)) + Z.of_nat (ntomb (slots _ _ t)))%Z
}.

Notation ents t := (entries (slots _ _ t)).
Notation rehash := (rehash key val hash eqb true).
Notation set_capacity := (set_capacity key val hash eqb true).
Notation place := (place key val hash eqb true).

Lemma place_eq sl k v j : index sl k = Ok (Some j) -> place sl k v = Ok (upd sl j (Live k v), nth j sl E).
Proof. intros H. unfold C17_Table.place. rewrite H. reflexivity. Qed.

Lemma lv_live (s : slot) : lv s = if is_live s then 1 else 0.
Proof. reflexivity. Qed.

Lemma rehash_ok : forall es sl n, InvS sl -> ntomb sl = 0 -> NoDupK es ->
  (forall kv, In kv es -> s_mem (entries sl) (fst kv) = false) ->
  nlive sl + length es <= length sl ->
  exists sl', rehash es sl n = Ok (sl', (n + Z.of_nat (length es))%Z) /\ InvS sl' /\ ntomb sl' = 0 /\
    length sl' = length sl /\ nlive sl' = nlive sl + length es /\
    (forall kv, In kv (entries sl') <-> In kv (entries sl) \/ In kv es).
Proof.
  induction es as [|[k v] r IH]; intros sl n HI Ht Hn Hab Hroom.
  - exists sl. simpl. rewrite Z.add_0_r. split; [reflexivity|]. split; [assumption|]. split; [assumption|].
    split; [reflexivity|]. split; [lia|]. intros kv. simpl. tauto.
  - simpl in Hroom. destruct Hn as [Hn1 Hn2].
    destruct (place_ok sl k v HI) as [j [Hix [Hj [HI' [Heq Hlive]]]]]; [right; lia|].
    pose proof (Hab (k, v) (or_introl eq_refl)) as Hk. simpl in Hk. rewrite Hk in Hlive.
    pose proof (nlive_upd sl j (Live k v) Hj) as Hnl. rewrite lv_live, Hlive in Hnl. change (lv (Live k v)) with 1 in Hnl.
    pose proof (ntomb_upd sl j (Live k v) Hj) as Hnt. simpl in Hnt.
    simpl. rewrite (place_eq _ _ _ _ Hix). simpl.
    destruct (IH (upd sl j (Live k v)) (n + 1)%Z HI') as [sl' [Hr [HI2 [Ht2 [Hlen [Hnl2 Hin2]]]]]]; auto.
    + lia.
    + intros kv Hin. rewrite (equiv_mem _ _ _ Heq).
      apply s_mem_false. intros k' v' Hin'. apply s_set_In in Hin'. simpl in Hin'.
      destruct Hin' as [Hin'|[Hin' _]].
      * inversion Hin'; subst. rewrite eqb_sym. apply (Hn1 _ Hin).
      * specialize (Hab kv (or_intror Hin)). rewrite s_mem_false in Hab. eapply Hab; eauto.
    + rewrite length_upd. lia.
    + exists sl'. rewrite Hr. split; [f_equal; f_equal; lia|].
      rewrite length_upd in Hlen. split; [assumption|]. split; [assumption|]. split; [lia|]. split; [lia|].
      intros kv. split.
      * intros Hin. apply Hin2 in Hin. destruct Hin as [Hin|Hin]; [|right; right; assumption].
        apply Heq in Hin. apply s_set_In in Hin. destruct Hin as [Hin|[Hin _]]; [right; left; auto|left; assumption].
      * intros Hin. apply Hin2. destruct Hin as [Hin|[Hin|Hin]].
        -- left. apply Heq. apply s_set_In. right. split; auto.
           rewrite s_mem_false in Hk. destruct kv as [k0 v0]. simpl. eapply Hk; eauto.
        -- left. apply Heq. apply s_set_In. left. auto.
        -- right. assumption.
Qed.

Lemma set_capacity_ok t c : Inv t -> nlive (slots _ _ t) <= c ->
  exists t', set_capacity t c = Ok t' /\ Inv t' /\ length (slots _ _ t') = c /\
    equiv (ents t') (ents t) /\ (cap _ _ t <> c -> ntomb (slots _ _ t') = 0).
Proof.
  intros HI Hc. unfold C17_Table.set_capacity. destruct (Nat.eqb (cap _ _ t) c) eqn:Ec.
  - apply Nat.eqb_eq in Ec. exists t. split; auto. split; auto. split; auto. split; [apply equiv_refl|congruence].
  - destruct (rehash_ok (ents t) (repeat E c) 0%Z) as [sl' [Hr [HI2 [Ht2 [Hlen [Hnl Hin]]]]]].
    + apply InvS_repeat.
    + apply ntomb_repeat.
    + apply InvS_NoDupK. apply (inv_s t HI).
    + intros kv _. apply s_mem_false. intros k' v' Hin'. apply entries_In in Hin'.
      destruct Hin' as [i Hi]. rewrite nth_repeat_E in Hi. discriminate.
    + rewrite nlive_repeat, repeat_length. exact Hc.
    + rewrite Hr. simpl. eexists. split; [reflexivity|].
      rewrite nlive_repeat in Hnl. rewrite repeat_length in Hlen. simpl in Hnl.
      split; [|split; [assumption|split]].
      * constructor; simpl; auto; rewrite ?Hnl, ?Ht2; unfold nlive; lia.
      * intros kv. simpl. rewrite Hin. split; [intros [H|H]; auto|auto].
        destruct kv as [k0 v0]. apply entries_In in H. destruct H as [i Hi]. rewrite nth_repeat_E in Hi. discriminate.
      * intros _. simpl. assumption.
Qed.


Notation set_with_max_load := (set_with_max_load key val hash eqb true).
Notation delete := (delete key val hash eqb true).
Notation get := (get key val hash eqb true).
Notation contains_key := (contains_key key val hash eqb true).

Lemma Inv_nlive_equiv t t' : Inv t -> Inv t' -> equiv (ents t') (ents t) ->
  nlive (slots _ _ t') = nlive (slots _ _ t).
Proof.
  intros H1 H2 He. unfold nlive. apply equiv_length; auto; apply InvS_NoDupK; apply inv_s; assumption.
Qed.

(* the resize-before-insert step leaves a free slot *)
Lemma prep_ok t num den : Inv t -> (0 < num <= den)%Z ->
  exists t1,
    (if Nat.eqb (cap _ _ t) 0 then set_capacity t 5
     else if (Z.of_nat (cap _ _ t) * num <=? occupied _ _ t * den)%Z
          then set_capacity t (Z.to_nat (occupied _ _ t * 2))
          else Ok t) = Ok t1 /\
    Inv t1 /\ equiv (ents t1) (ents t) /\ nlive (slots _ _ t1) < length (slots _ _ t1).
Proof.
  intros HI Hnd. pose proof (nlive_ntomb_le (slots _ _ t)) as Hle.
  pose proof (inv_oc t HI) as Hoc. unfold C17_Table.cap.
  destruct (Nat.eqb (length (slots _ _ t)) 0) eqn:E0.
  - apply Nat.eqb_eq in E0.
    destruct (set_capacity_ok t 5 HI) as [t1 [Hs [HI1 [Hlen [Heq _]]]]]; [lia|].
    exists t1. split; [assumption|]. split; [assumption|]. split; [assumption|].
    rewrite (Inv_nlive_equiv t t1); auto. lia.
  - apply Nat.eqb_neq in E0.
    destruct (Z.of_nat (length (slots _ _ t)) * num <=? occupied _ _ t * den)%Z eqn:El.
    + apply Z.leb_le in El.
      assert (Hpos : (0 < occupied _ _ t)%Z) by nia.
      destruct (set_capacity_ok t (Z.to_nat (occupied _ _ t * 2)) HI) as [t1 [Hs [HI1 [Hlen [Heq _]]]]]; [lia|].
      exists t1. split; [assumption|]. split; [assumption|]. split; [assumption|].
      rewrite (Inv_nlive_equiv t t1); auto. lia.
    + apply Z.leb_gt in El. exists t. split; [reflexivity|]. split; [assumption|].
      split; [apply equiv_refl|]. nia.
Qed.

Lemma set_with_max_load_ok t k v num den : Inv t -> (0 < num <= den)%Z ->
  exists t', set_with_max_load t k v num den = Ok (t', negb (s_mem (ents t) k)) /\ Inv t' /\
    equiv (ents t') (s_set (ents t) k v).
Proof.
  intros HI Hnd. unfold C17_Table.set_with_max_load.
  destruct (prep_ok t num den HI Hnd) as [t1 [Hp [HI1 [Heq1 Hroom]]]]. rewrite Hp. simpl.
  destruct (place_ok (slots _ _ t1) k v (inv_s t1 HI1)) as [j [Hix [Hj [HI' [Heq Hlive]]]]]; [right; assumption|].
  rewrite Hix. simpl. rewrite Hlive, (equiv_mem _ _ k Heq1).
  eexists. split; [reflexivity|].
  pose proof (nlive_upd (slots _ _ t1) j (Live k v) Hj) as Hnl. change (lv (Live k v)) with 1 in Hnl.
  pose proof (ntomb_upd (slots _ _ t1) j (Live k v) Hj) as Hnt. simpl in Hnt.
  pose proof (inv_el t1 HI1) as Hel. pose proof (inv_oc t1 HI1) as Hoc.
  rewrite lv_live, Hlive in Hnl. rewrite (equiv_mem _ _ k Heq1) in Hnl, Hlive.
  split.
  - constructor; simpl; auto.
    + destruct (s_mem (ents t) k); lia.
    + destruct (nth j (slots _ _ t1) E) eqn:En; simpl in *; destruct (s_mem (ents t) k); try discriminate; lia.
  - simpl. eapply equiv_trans; [exact Heq|]. apply equiv_set. assumption.
Qed.

Lemma lookup_cases t k : Inv t -> elements _ _ t <> 0%Z ->
  (exists i k' v, nth i (slots _ _ t) E = Live k' v /\ eqb k' k = true /\ index (slots _ _ t) k = Ok (Some i)) \/
  (absent (slots _ _ t) k /\
   (index (slots _ _ t) k = Ok None \/
    exists j, index (slots _ _ t) k = Ok (Some j) /\ is_live (nth j (slots _ _ t) E) = false)).
Proof.
  intros HI Hel. pose proof (inv_el t HI) as He. pose proof (nlive_le (slots _ _ t)) as Hle.
  assert (Hc : length (slots _ _ t) <> 0) by lia.
  destruct (present_or_absent (slots _ _ t) k) as [[i [k' [v [Hn Hk]]]]|Ha].
  - left. exists i, k', v. split; auto. split; auto. eapply index_hit; eauto. apply inv_s. assumption.
  - right. split; auto.
    destruct (index_miss _ k Hc Ha) as [[Hix _]|[j [p [Hix [_ [_ [_ [Hl _]]]]]]]]; eauto.
Qed.

Lemma elements_zero t : Inv t -> elements _ _ t = 0%Z -> ents t = [].
Proof.
  intros HI H0. pose proof (inv_el t HI) as He. unfold nlive in He.
  destruct (ents t); [reflexivity|simpl in He; lia].
Qed.

Lemma get_ok t k : Inv t -> get t k = Ok (s_get (ents t) k).
Proof.
  intros HI. unfold C17_Table.get. destruct (elements _ _ t =? 0)%Z eqn:E0.
  - apply Z.eqb_eq in E0. rewrite (elements_zero t HI E0). reflexivity.
  - apply Z.eqb_neq in E0.
    destruct (lookup_cases t k HI E0) as [[i [k' [v [Hn [Hk Hix]]]]]|[Ha [Hix|[j [Hix Hl]]]]]; rewrite Hix; simpl.
    + rewrite Hn. f_equal. symmetry. apply (s_get_present _ k k' v); auto.
      * apply InvS_NoDupK. apply inv_s. assumption.
      * apply entries_In. eauto.
    + f_equal. symmetry. apply s_get_absent. apply s_mem_false. apply absent_mem. assumption.
    + assert (Hg : s_get (ents t) k = GAbsent) by (apply s_get_absent; apply s_mem_false; apply absent_mem; assumption).
      rewrite Hg. destruct (nth j (slots _ _ t) E); try discriminate; reflexivity.
Qed.

Lemma contains_key_ok t k : Inv t -> contains_key t k = Ok (s_mem (ents t) k).
Proof.
  intros HI. unfold C17_Table.contains_key. destruct (elements _ _ t =? 0)%Z eqn:E0.
  - apply Z.eqb_eq in E0. rewrite (elements_zero t HI E0). reflexivity.
  - apply Z.eqb_neq in E0.
    destruct (lookup_cases t k HI E0) as [[i [k' [v [Hn [Hk Hix]]]]]|[Ha [Hix|[j [Hix Hl]]]]]; rewrite Hix; simpl.
    + rewrite Hn. simpl. f_equal. symmetry. apply s_mem_true. exists k', v. split; auto. apply entries_In. eauto.
    + f_equal. symmetry. apply absent_mem. assumption.
    + rewrite Hl. f_equal. symmetry. apply absent_mem. assumption.
Qed.

Lemma delete_ok t k : Inv t ->
  exists t', delete t k = Ok (t', s_mem (ents t) k) /\ Inv t' /\ equiv (ents t') (s_delete (ents t) k).
Proof.
  intros HI. unfold C17_Table.delete. destruct (elements _ _ t =? 0)%Z eqn:E0.
  - apply Z.eqb_eq in E0. exists t. rewrite (elements_zero t HI E0). simpl. split; auto. split; auto.
    apply equiv_refl.
  - apply Z.eqb_neq in E0.
    assert (Hnone : absent (slots _ _ t) k -> equiv (ents t) (s_delete (ents t) k)).
    { intros Ha [k0 v0]. rewrite s_delete_In. simpl. split; [|tauto]. intros Hin. split; auto.
      apply entries_In in Hin. destruct Hin as [i Hi]. eapply Ha; eauto. }
    destruct (lookup_cases t k HI E0) as [[i [k' [v [Hn [Hk Hix]]]]]|[Ha [Hix|[j [Hix Hl]]]]]; rewrite Hix; simpl.
    + rewrite Hn. simpl. pose proof (nth_live_lt _ _ _ _ Hn) as Hi.
      assert (Hm : s_mem (ents t) k = true) by (apply s_mem_true; exists k', v; split; auto; apply entries_In; eauto).
      rewrite Hm. eexists. split; [reflexivity|].
      pose proof (nlive_upd (slots _ _ t) i Tomb Hi) as Hnl. rewrite Hn in Hnl. change (lv (Live k' v)) with 1 in Hnl.
      change (lv Tomb) with 0 in Hnl.
      pose proof (ntomb_upd (slots _ _ t) i Tomb Hi) as Hnt. rewrite Hn in Hnt. simpl in Hnt.
      pose proof (inv_el t HI) as Hel. pose proof (inv_oc t HI) as Hoc.
      split.
      * constructor; simpl; try lia. apply InvS_delete; auto. apply inv_s. assumption.
      * simpl. intros [k0 v0]. rewrite entries_upd_In by assumption. rewrite s_delete_In. simpl.
        split.
        -- intros [H|[i' [Hne Hi']]]; [discriminate|]. split; [apply entries_In; eauto|].
           destruct (eqb k0 k) eqn:E1; auto. exfalso. apply Hne.
           eapply (inv_dist _ (inv_s t HI) i' i k0 v0 k' v); eauto;
           eapply eqb_trans; eauto; rewrite eqb_sym; assumption.
        -- intros [Hin Hf]. right. apply entries_In in Hin. destruct Hin as [i' Hi']. exists i'. split; auto.
           intros ->. rewrite Hn in Hi'. inversion Hi'; subst. congruence.
    + exists t. assert (Hm : s_mem (ents t) k = false) by (apply absent_mem; assumption). rewrite Hm. auto.
    + rewrite Hl. exists t. assert (Hm : s_mem (ents t) k = false) by (apply absent_mem; assumption). rewrite Hm. auto.
Qed.


Notation copy_loop := (copy_loop key val hash eqb true).
Notation copy := (copy key val hash eqb true).
Notation set_all := (set_all key val hash eqb true).

Lemma copy_loop_ok : forall es sl el oc, InvS sl -> nlive sl + length es <= length sl ->
  exists sl' el' oc', copy_loop es sl el oc = Ok (sl', (el', oc')) /\ InvS sl' /\ length sl' = length sl /\
    equiv (entries sl') (s_concat (entries sl) es) /\
    (el' - el = Z.of_nat (nlive sl') - Z.of_nat (nlive sl))%Z /\
    (oc' - oc = Z.of_nat (nlive sl' + ntomb sl') - Z.of_nat (nlive sl + ntomb sl))%Z.
Proof.
  induction es as [|[k v] r IH]; intros sl el oc HI Hroom.
  - exists sl, el, oc. simpl. split; [reflexivity|]. split; [assumption|]. split; [reflexivity|].
    split; [apply equiv_refl|]. lia.
  - simpl in Hroom.
    destruct (place_ok sl k v HI) as [j [Hix [Hj [HI' [Heq Hlive]]]]]; [right; lia|].
    cbn [C17_Table.copy_loop]. rewrite (place_eq _ _ _ _ Hix). cbn [bind fst snd].
    pose proof (nlive_upd sl j (Live k v) Hj) as Hnl. change (lv (Live k v)) with 1 in Hnl. rewrite lv_live in Hnl.
    pose proof (ntomb_upd sl j (Live k v) Hj) as Hnt. simpl in Hnt.
    match goal with |- exists _ _ _, copy_loop r _ ?e ?o = _ /\ _ =>
      destruct (IH (upd sl j (Live k v)) e o HI') as [sl' [el' [oc' [Hr [HI2 [Hlen [Heq2 [Hel Hoc]]]]]]]]
    end.
    + rewrite length_upd. destruct (is_live (nth j sl E)); lia.
    + exists sl', el', oc'. rewrite Hr. split; [reflexivity|]. split; [assumption|].
      rewrite length_upd in Hlen. split; [assumption|]. split.
      * rewrite s_concat_cons. eapply equiv_trans; [exact Heq2|]. apply equiv_concat. assumption.
      * destruct (nth j sl E) eqn:En; simpl in *; lia.
Qed.

Lemma copy_ok t s0 : Inv t -> Inv s0 ->
  exists t', copy t s0 = Ok t' /\ Inv t' /\ equiv (ents t') (s_concat (ents t) (ents s0)).
Proof.
  intros HI HS. unfold C17_Table.copy.
  pose proof (inv_el t HI) as Het. pose proof (inv_el s0 HS) as Hes.
  assert (Hprep : exists t1,
    (if (Z.of_nat (cap _ _ t) <? elements _ _ t + elements _ _ s0)%Z
     then set_capacity t (Z.to_nat (elements _ _ t + elements _ _ s0)) else Ok t) = Ok t1 /\
    Inv t1 /\ equiv (ents t1) (ents t) /\ nlive (slots _ _ t1) + length (ents s0) <= length (slots _ _ t1)).
  { destruct (Z.of_nat (cap _ _ t) <? elements _ _ t + elements _ _ s0)%Z eqn:Ec.
    - destruct (set_capacity_ok t (Z.to_nat (elements _ _ t + elements _ _ s0)) HI) as [t1 [Hs [HI1 [Hlen [Heq _]]]]]; [lia|].
      exists t1. split; [assumption|]. split; [assumption|]. split; [assumption|].
      rewrite (Inv_nlive_equiv t t1); auto. unfold nlive in *. lia.
    - apply Z.ltb_ge in Ec. exists t. split; [reflexivity|]. split; [assumption|]. split; [apply equiv_refl|].
      unfold C17_Table.cap, nlive in *. lia. }
  destruct Hprep as [t1 [Hp [HI1 [Heq1 Hroom]]]]. rewrite Hp. simpl.
  destruct (copy_loop_ok (ents s0) (slots _ _ t1) (elements _ _ t1) (occupied _ _ t1) (inv_s t1 HI1) Hroom)
    as [sl' [el' [oc' [Hr [HI2 [Hlen [Heq2 [Hel Hoc]]]]]]]].
  rewrite Hr. simpl. eexists. split; [reflexivity|].
  pose proof (inv_el t1 HI1) as He1. pose proof (inv_oc t1 HI1) as Ho1.
  split.
  - constructor; simpl; auto; lia.
  - simpl. eapply equiv_trans; [exact Heq2|]. apply equiv_concat. assumption.
Qed.

Lemma set_all_ok num den : (0 < num <= den)%Z -> forall es t, Inv t ->
  exists t', set_all t es num den = Ok t' /\ Inv t' /\ equiv (ents t') (s_concat (ents t) es).
Proof.
  intros Hnd. induction es as [|[k v] r IH]; intros t HI.
  - exists t. simpl. split; auto. split; auto. apply equiv_refl.
  - cbn [C17_Table.set_all]. destruct (set_with_max_load_ok t k v num den HI Hnd) as [t1 [Hs [HI1 Heq1]]].
    rewrite Hs. cbn [bind fst snd]. destruct (IH t1 HI1) as [t' [Hr [HI' Heq']]].
    exists t'. split; [assumption|]. split; [assumption|].
    rewrite s_concat_cons. eapply equiv_trans; [exact Heq'|]. apply equiv_concat. assumption.
Qed.

(* membership in a concatenation; gives congruence in the second argument *)
Lemma s_mem_cons k v (r : amap) k0 : s_mem ((k, v) :: r) k0 = eqb k k0 || s_mem r k0.
Proof. reflexivity. Qed.

Lemma concat_In : forall es a kv, NoDupK es ->
  (In kv (s_concat a es) <-> In kv es \/ (In kv a /\ s_mem es (fst kv) = false)).
Proof.
  induction es as [|[k v] r IH]; intros a kv Hn.
  - simpl. tauto.
  - destruct Hn as [Hn1 Hn2]. rewrite s_concat_cons. rewrite (IH _ _ Hn2). rewrite s_set_In.
    rewrite s_mem_cons. rewrite Bool.orb_false_iff. simpl.
    assert (Hk : s_mem r k = false).
    { apply s_mem_false. intros k' v' Hin. apply (Hn1 _ Hin). }
    split.
    + intros [H|[[H|[H1 H2]] H3]]; auto.
      right. split; auto. split; auto. rewrite eqb_sym. assumption.
    + intros [[H|H]|[H1 [H2 H3]]]; auto.
      * right. subst kv. simpl. auto.
      * right. split; auto. right. split; auto. rewrite eqb_sym. assumption.
Qed.

Lemma equiv_concat_r a es es' : NoDupK es -> NoDupK es' -> equiv es es' ->
  equiv (s_concat a es) (s_concat a es').
Proof.
  intros H1 H2 He kv. rewrite !concat_In by assumption. rewrite (He kv), (equiv_mem _ _ _ He). tauto.
Qed.

Lemma concat_nil_equiv es : NoDupK es -> equiv (s_concat [] es) es.
Proof. intros Hn kv. rewrite concat_In by assumption. simpl. tauto. Qed.

Lemma NoDupK_filter f (m : amap) : NoDupK m -> NoDupK (filter f m).
Proof.
  induction m as [|kv r IH]; intros Hn; [exact I|]. destruct Hn as [H1 H2]. simpl.
  destruct (f kv); simpl; auto. split; auto. intros kv' Hin. apply H1. apply filter_In in Hin. tauto.
Qed.

Lemma Inv_new c : Inv (new_table key val c).
Proof.
  constructor; simpl; rewrite ?nlive_repeat, ?ntomb_repeat; auto. apply InvS_repeat.
Qed.

Lemma ents_new c : ents (new_table key val c) = [].
Proof.
  simpl. pose proof (nlive_repeat c) as H. unfold nlive in H. destruct (entries (repeat E c)); [reflexivity|discriminate].
Qed.


(* ---------- simulation between a table and an association list ---------- *)
Definition sim (t : table) (m : amap) : Prop := Inv t /\ NoDupK m /\ equiv (ents t) m.

Notation s_equal := (s_equal key val eqb veqb).
Notation s_set_equal := (s_set_equal key val eqb).
Notation s_union := (s_union key val eqb).
Notation s_inter := (s_inter key val eqb).
Notation equal := (equal key val hash eqb veqb true).
Notation set_equal := (set_equal key val hash eqb true).
Notation union := (union key val hash eqb true).
Notation intersection := (intersection key val hash eqb true).
Notation inter_loop := (inter_loop key val hash eqb true).
Notation grow := (grow key val hash eqb true).
Notation copy_table := (copy_table key val hash eqb true).

Lemma sim_NoDupK_ents t m : sim t m -> NoDupK (ents t).
Proof. intros [HI _]. apply InvS_NoDupK. apply inv_s. assumption. Qed.

Lemma sim_len t m : sim t m -> elements _ _ t = Z.of_nat (length m).
Proof.
  intros H. pose proof (sim_NoDupK_ents t m H) as Hn. destruct H as [HI [Hm He]].
  rewrite (inv_el t HI). unfold nlive. f_equal. apply equiv_length; assumption.
Qed.

Lemma sim_new c : sim (new_table key val c) [].
Proof. split; [apply Inv_new|]. split; [exact I|]. rewrite ents_new. apply equiv_refl. Qed.

Lemma sim_get t m k : sim t m -> get t k = Ok (s_get m k).
Proof.
  intros H. pose proof (sim_NoDupK_ents t m H) as Hn. destruct H as [HI [Hm He]].
  rewrite get_ok by assumption. f_equal. apply equiv_get; assumption.
Qed.

Lemma sim_mem t m k : sim t m -> contains_key t k = Ok (s_mem m k).
Proof.
  intros [HI [Hm He]]. rewrite contains_key_ok by assumption. f_equal. apply equiv_mem; assumption.
Qed.

Lemma sim_set t m k v num den : sim t m -> (0 < num <= den)%Z ->
  exists t', set_with_max_load t k v num den = Ok (t', negb (s_mem m k)) /\ sim t' (s_set m k v).
Proof.
  intros [HI [Hm He]] Hnd. destruct (set_with_max_load_ok t k v num den HI Hnd) as [t' [Hs [HI' Heq]]].
  exists t'. rewrite Hs, (equiv_mem _ _ k He). split; [reflexivity|].
  split; [assumption|]. split; [apply NoDupK_set; assumption|].
  eapply equiv_trans; [exact Heq|]. apply equiv_set. assumption.
Qed.

Lemma sim_delete t m k : sim t m ->
  exists t', delete t k = Ok (t', s_mem m k) /\ sim t' (s_delete m k).
Proof.
  intros [HI [Hm He]]. destruct (delete_ok t k HI) as [t' [Hs [HI' Heq]]].
  exists t'. rewrite Hs, (equiv_mem _ _ k He). split; [reflexivity|].
  split; [assumption|]. split; [apply NoDupK_delete; assumption|].
  eapply equiv_trans; [exact Heq|]. apply equiv_delete. assumption.
Qed.

Lemma sim_concat_equiv t m s0 ms t' : sim t m -> sim s0 ms -> Inv t' ->
  equiv (ents t') (s_concat (ents t) (ents s0)) -> sim t' (s_concat m ms).
Proof.
  intros Ht Hs HI' Heq. pose proof (sim_NoDupK_ents s0 ms Hs) as Hn.
  destruct Ht as [HI [Hm He]]. destruct Hs as [HS [Hms Hes]].
  split; [assumption|]. split; [apply NoDupK_concat; assumption|].
  eapply equiv_trans; [exact Heq|]. eapply equiv_trans; [apply equiv_concat; exact He|].
  apply equiv_concat_r; assumption.
Qed.

Lemma sim_copy t m s0 ms : sim t m -> sim s0 ms -> exists t', copy t s0 = Ok t' /\ sim t' (s_concat m ms).
Proof.
  intros Ht Hs. destruct (copy_ok t s0 (proj1 Ht) (proj1 Hs)) as [t' [Hc [HI' Heq]]].
  exists t'. split; [assumption|]. eapply sim_concat_equiv; eauto.
Qed.

Lemma sim_copy_table t m s0 ms : sim t m -> sim s0 ms ->
  exists t', copy_table t s0 = Ok t' /\ sim t' (s_concat m ms).
Proof.
  intros Ht Hs. unfold C17_Table.copy_table.
  destruct (set_all_ok 1 1 ltac:(lia) (ents s0) t (proj1 Ht)) as [t' [Hc [HI' Heq]]].
  exists t'. split; [assumption|]. eapply sim_concat_equiv; eauto.
Qed.

Lemma sim_grow t m n : sim t m -> exists t', grow t n = Ok t' /\ sim t' m.
Proof.
  intros [HI [Hm He]]. unfold C17_Table.grow.
  destruct (set_capacity_ok t (cap _ _ t + n) HI) as [t' [Hs [HI' [_ [Heq _]]]]].
  - pose proof (nlive_le (slots _ _ t)). unfold C17_Table.cap. lia.
  - exists t'. split; [assumption|]. split; [assumption|]. split; [assumption|].
    eapply equiv_trans; eauto.
Qed.

Lemma sim_union x mx y my : sim x mx -> sim y my -> exists t', union x y = Ok t' /\ sim t' (s_union mx my).
Proof.
  intros Hx Hy. unfold C17_Table.union, C17_Table.s_union.
  rewrite (sim_len x mx Hx), (sim_len y my Hy).
  assert (Hb : (Z.of_nat (length my) <? Z.of_nat (length mx))%Z = (length my <? length mx)).
  { destruct (length my <? length mx) eqn:Eb; [apply Nat.ltb_lt in Eb; apply Z.ltb_lt; lia|apply Nat.ltb_ge in Eb; apply Z.ltb_ge; lia]. }
  rewrite Hb.
  assert (Hgen : forall L mL S mS n, sim L mL -> sim S mS ->
     exists t', bind (copy (new_table key val n) L) (fun t => set_all t (ents S) 3 4) = Ok t' /\ sim t' (s_concat mL mS)).
  { intros L mL S mS n HL HS.
    destruct (sim_copy (new_table key val n) [] L mL (sim_new n) HL) as [t1 [Hc H1]].
    rewrite Hc. cbn [bind].
    destruct (set_all_ok 3 4 ltac:(lia) (ents S) t1 (proj1 H1)) as [t' [Hs [HI' Heq]]].
    exists t'. split; [assumption|].
    assert (H1' : sim t1 mL).
    { destruct H1 as [A [B C]]. destruct HL as [A' [B' C']]. split; [assumption|]. split; [assumption|].
      eapply equiv_trans; [exact C|]. apply concat_nil_equiv. assumption. }
    eapply sim_concat_equiv; eauto. }
  destruct (length my <? length mx); apply Hgen; assumption.
Qed.

Lemma inter_loop_ok L : Inv L -> forall es t, Inv t ->
  exists t', inter_loop t es L = Ok t' /\ Inv t' /\
    equiv (ents t') (s_concat (ents t) (filter (fun kv => s_mem (ents L) (fst kv)) es)).
Proof.
  intros HL. induction es as [|[k v] r IH]; intros t HI.
  - exists t. simpl. split; auto. split; auto. apply equiv_refl.
  - cbn [C17_Table.inter_loop filter fst]. rewrite (contains_key_ok L k HL). cbn [bind].
    destruct (s_mem (ents L) k).
    + destruct (set_with_max_load_ok t k v 3 4 HI ltac:(lia)) as [t1 [Hs [HI1 Heq1]]].
      rewrite Hs. cbn [bind fst]. destruct (IH t1 HI1) as [t' [Hr [HI' Heq']]].
      exists t'. split; [assumption|]. split; [assumption|].
      rewrite s_concat_cons. eapply equiv_trans; [exact Heq'|]. apply equiv_concat. assumption.
    + apply IH. assumption.
Qed.

Lemma equiv_filter f g (a b : amap) : equiv a b -> (forall kv, f kv = g kv) -> equiv (filter f a) (filter g b).
Proof. intros He Hfg kv. rewrite !filter_In. rewrite (He kv), (Hfg kv). tauto. Qed.

Lemma sim_inter x mx y my : sim x mx -> sim y my ->
  exists t', intersection x y = Ok t' /\ sim t' (s_inter mx my).
Proof.
  intros Hx Hy. unfold C17_Table.intersection, C17_Table.s_inter.
  rewrite (sim_len x mx Hx), (sim_len y my Hy).
  assert (Hb : (Z.of_nat (length my) <? Z.of_nat (length mx))%Z = (length my <? length mx)).
  { destruct (length my <? length mx) eqn:Eb; [apply Nat.ltb_lt in Eb; apply Z.ltb_lt; lia|apply Nat.ltb_ge in Eb; apply Z.ltb_ge; lia]. }
  rewrite Hb.
  assert (Hgen : forall L mL S mS, sim L mL -> sim S mS ->
     exists t', inter_loop (new_table key val 5) (ents S) L = Ok t' /\
       sim t' (s_concat [] (filter (fun kv => s_mem mL (fst kv)) mS))).
  { intros L mL S mS HL HS. pose proof (sim_NoDupK_ents S mS HS) as HnS.
    destruct (inter_loop_ok L (proj1 HL) (ents S) (new_table key val 5) (Inv_new 5)) as [t' [Hr [HI' Heq]]].
    exists t'. split; [assumption|]. rewrite ents_new in Heq.
    destruct HL as [A [B C]]. destruct HS as [A' [B' C']].
    split; [assumption|]. split; [apply NoDupK_concat; exact I|].
    eapply equiv_trans; [exact Heq|]. apply equiv_concat_r; try (apply NoDupK_filter; assumption).
    apply equiv_filter; [assumption|]. intros kv. apply equiv_mem. assumption. }
  destruct (length my <? length mx); apply Hgen; assumption.
Qed.

Lemma forallb_equiv (f g : key * val -> bool) (a b : amap) : equiv a b -> (forall kv, f kv = g kv) ->
  forallb f a = forallb g b.
Proof.
  intros He Hfg. destruct (forallb g b) eqn:Eb.
  - rewrite forallb_forall in *. intros kv Hin. rewrite Hfg. apply Eb. apply He. assumption.
  - destruct (forallb f a) eqn:Ea; auto. rewrite forallb_forall in Ea.
    assert (forallb g b = true); [|congruence]. apply forallb_forall. intros kv Hin. rewrite <- Hfg. apply Ea.
    apply He. assumption.
Qed.

Notation equal_loop := (equal_loop key val hash eqb veqb true).
Notation subset_loop := (subset_loop key val hash eqb true).

Lemma equal_loop_ok y : Inv y -> forall es,
  equal_loop es y = Ok (forallb (fun kv => match s_get (ents y) (fst kv) with GVal v' => veqb (snd kv) v' | _ => false end) es).
Proof.
  intros HY. induction es as [|[k v] r IH]; [reflexivity|].
  cbn [C17_Table.equal_loop forallb fst snd]. rewrite (get_ok y k HY). cbn [bind].
  destruct (s_get (ents y) k); auto. destruct (veqb v v0); auto.
Qed.

Lemma subset_loop_ok y : Inv y -> forall es,
  subset_loop es y = Ok (forallb (fun kv => s_mem (ents y) (fst kv)) es).
Proof.
  intros HY. induction es as [|[k v] r IH]; [reflexivity|].
  cbn [C17_Table.subset_loop forallb fst]. rewrite (contains_key_ok y k HY). cbn [bind].
  destruct (s_mem (ents y) k); auto.
Qed.

Lemma len_eqb_Z (a b : nat) : (Z.of_nat a =? Z.of_nat b)%Z = (a =? b).
Proof.
  destruct (a =? b) eqn:Eb; [apply Nat.eqb_eq in Eb; apply Z.eqb_eq; lia|apply Nat.eqb_neq in Eb; apply Z.eqb_neq; lia].
Qed.

Lemma sim_equal x mx y my : sim x mx -> sim y my -> equal x y = Ok (s_equal mx my).
Proof.
  intros Hx Hy. unfold C17_Table.equal, C17_Table.s_equal.
  rewrite (sim_len x mx Hx), (sim_len y my Hy), len_eqb_Z.
  pose proof (sim_NoDupK_ents y my Hy) as Hn.
  destruct (length mx =? length my); [|reflexivity]. simpl.
  rewrite (equal_loop_ok y (proj1 Hy)). f_equal.
  destruct Hx as [A [B C]]. destruct Hy as [A' [B' C']].
  apply forallb_equiv; [assumption|]. intros kv. rewrite (equiv_get _ _ (fst kv) Hn B' C'). reflexivity.
Qed.

Lemma sim_set_equal x mx y my : sim x mx -> sim y my -> set_equal x y = Ok (s_set_equal mx my).
Proof.
  intros Hx Hy. unfold C17_Table.set_equal, C17_Table.s_set_equal.
  rewrite (sim_len x mx Hx), (sim_len y my Hy), len_eqb_Z.
  destruct (length mx =? length my); [|reflexivity]. simpl.
  rewrite (subset_loop_ok y (proj1 Hy)). f_equal.
  destruct Hx as [A [B C]]. destruct Hy as [A' [B' C']].
  apply forallb_equiv; [assumption|]. intros kv. apply equiv_mem. assumption.
Qed.


(* ---------- histories ---------- *)
Variable isset : bool.
Notation state := (state key val).
Notation sstate := (sstate key val).
Notation step := (step key val hash eqb true isset).
Notation s_step := (s_step key val eqb isset).
Notation observe := (observe key val hash eqb veqb true isset).
Notation s_observe := (s_observe key val eqb veqb isset).
Notation run := (run key val hash eqb veqb true isset).
Notation s_run := (s_run key val eqb veqb isset).
Notation snapshot := (snapshot key val hash eqb true).
Notation s_snapshot := (s_snapshot key val eqb).

Definition sim2 (st : state) (ms : sstate) : Prop := sim (fst st) (fst ms) /\ sim (snd st) (snd ms).

Lemma sim_rd st ms r : sim2 st ms -> sim (rd _ _ st r) (srd _ _ ms r).
Proof. intros [H1 H2]. destruct r; assumption. Qed.

Lemma sim_wr st ms r t m : sim2 st ms -> sim t m -> sim2 (wr _ _ st r t) (swr _ _ ms r m).
Proof. intros [H1 H2] H. destruct r; split; simpl; assumption. Qed.

Lemma step_ok st ms o : sim2 st ms ->
  exists st', step st o = Ok (st', snd (s_step ms o)) /\ sim2 st' (fst (s_step ms o)).
Proof.
  intros H. destruct o as [r n|r k v|r k|r|r|r|r|r|r n]; cbn [C17_Table.step C17_Table.s_step fst snd].
  - eexists. split; [reflexivity|]. apply sim_wr; auto. apply sim_new.
  - destruct (sim_set _ _ k v 3 4 (sim_rd st ms r H) ltac:(lia)) as [t' [Hs Hsim]].
    unfold C17_Table.set. rewrite Hs. cbn [bind fst snd]. eexists. split; [reflexivity|]. apply sim_wr; auto.
  - destruct (sim_delete _ _ k (sim_rd st ms r H)) as [t' [Hs Hsim]].
    rewrite Hs. cbn [bind fst snd]. eexists. split; [reflexivity|]. apply sim_wr; auto.
  - destruct isset.
    + destruct (sim_union _ _ _ _ (sim_rd st ms r H) (sim_rd st ms (other r) H)) as [t' [Hs Hsim]].
      rewrite Hs. cbn [bind]. eexists. split; [reflexivity|]. apply sim_wr; auto.
    + destruct (sim_copy _ _ _ _ (sim_rd st ms r H) (sim_rd st ms (other r) H)) as [t' [Hs Hsim]].
      unfold C17_Table.concat. rewrite Hs. cbn [bind]. eexists. split; [reflexivity|]. apply sim_wr; auto.
  - destruct isset.
    + destruct (sim_inter _ _ _ _ (sim_rd st ms r H) (sim_rd st ms (other r) H)) as [t' [Hs Hsim]].
      rewrite Hs. cbn [bind fst snd]. eexists. split; [reflexivity|]. apply sim_wr; auto.
    + eexists. split; [reflexivity|]. assumption.
  - destruct (sim_copy _ _ _ _ (sim_rd st ms r H) (sim_rd st ms (other r) H)) as [t' [Hs Hsim]].
    rewrite Hs. cbn [bind]. eexists. split; [reflexivity|]. apply sim_wr; auto.
  - eexists. split; [reflexivity|]. apply sim_wr; auto. apply sim_rd. assumption.
  - destruct (sim_copy_table _ _ _ _ (sim_rd st ms r H) (sim_rd st ms (other r) H)) as [t' [Hs Hsim]].
    rewrite Hs. cbn [bind]. eexists. split; [reflexivity|]. apply sim_wr; auto.
  - destruct (sim_grow _ _ n (sim_rd st ms r H)) as [t' [Hs Hsim]].
    rewrite Hs. cbn [bind]. eexists. split; [reflexivity|].
    destruct H as [H1 H2]. destruct r; split; simpl; assumption.
Qed.

(* what it means for an implementation snapshot to agree with the specification's *)
Definition snap_rel (a b : snap key val) : Prop :=
  sn_len a = sn_len b /\ sn_gets a = sn_gets b /\ sn_has a = sn_has b /\
  Permutation (sn_iter a) (sn_iter b) /\ NoDupK (sn_iter a).
Definition obs_rel (a b : obs key val) : Prop :=
  ob_ret a = ob_ret b /\ snap_rel (ob_a a) (ob_a b) /\ snap_rel (ob_b a) (ob_b b) /\
  ob_eq_ab a = ob_eq_ab b /\ ob_eq_ba a = ob_eq_ba b.

Lemma map_o_ok {A B} (f : A -> outcome B) (g : A -> B) l : (forall a, f a = Ok (g a)) -> map_o f l = Ok (map g l).
Proof. intros H. induction l as [|a r IH]; [reflexivity|]. simpl. rewrite H, IH. reflexivity. Qed.

Lemma snapshot_ok u t m : sim t m -> exists sn, snapshot u t = Ok sn /\ snap_rel sn (s_snapshot u m).
Proof.
  intros H. unfold C17_Table.snapshot.
  rewrite (map_o_ok _ (s_get m) u (fun k => sim_get t m k H)). cbn [bind].
  rewrite (map_o_ok _ (s_mem m) u (fun k => sim_mem t m k H)). cbn [bind].
  eexists. split; [reflexivity|]. unfold snap_rel, C17_Table.s_snapshot. simpl.
  pose proof (sim_NoDupK_ents t m H) as Hn. destruct H as [HI [Hm He]] eqn:EH.
  split; [apply (sim_len t m); assumption|]. split; [reflexivity|]. split; [reflexivity|].
  split; [apply equiv_perm; assumption|assumption].
Qed.

Lemma observe_ok u st ms ret : sim2 st ms ->
  exists ob, observe u st ret = Ok ob /\ obs_rel ob (s_observe u ms ret).
Proof.
  intros [H1 H2]. unfold C17_Table.observe, C17_Table.s_observe.
  destruct (snapshot_ok u _ _ H1) as [sa [Ha Ra]]. destruct (snapshot_ok u _ _ H2) as [sb [Hb Rb]].
  rewrite Ha, Hb. cbn [bind].
  destruct isset.
  - rewrite (sim_set_equal _ _ _ _ H1 H2), (sim_set_equal _ _ _ _ H2 H1). cbn [bind].
    eexists. split; [reflexivity|]. unfold obs_rel. simpl. auto.
  - rewrite (sim_equal _ _ _ _ H1 H2), (sim_equal _ _ _ _ H2 H1). cbn [bind].
    eexists. split; [reflexivity|]. unfold obs_rel. simpl. auto.
Qed.

(* any history: no panic, and every observation agrees with the association-list specification *)
Theorem run_ok u : forall ops st ms, sim2 st ms ->
  exists obs, run u st ops = (obs, None) /\ Forall2 obs_rel obs (s_run u ms ops).
Proof.
  induction ops as [|o r IH]; intros st ms H.
  - exists []. split; [reflexivity|constructor].
  - cbn [C17_Table.run C17_Table.s_run].
    destruct (step_ok st ms o H) as [st' [Hs H']]. rewrite Hs. cbn [bind fst snd].
    destruct (s_step ms o) as [ms' ret] eqn:Es. cbn [fst snd] in *.
    destruct (observe_ok u st' ms' ret H') as [ob [Ho Rel]]. rewrite Ho. cbn [bind].
    destruct (IH st' ms' H') as [obs [Hr Hf]]. rewrite Hr.
    exists (ob :: obs). split; [reflexivity|]. constructor; assumption.
Qed.

Lemma sim2_init : sim2 (init key val) ([], []).
Proof. split; apply sim_new. Qed.

(* the invariant alone, for every operation of the machine *)
Theorem step_inv st o : Inv (fst st) -> Inv (snd st) ->
  exists st' ret, step st o = Ok (st', ret) /\ Inv (fst st') /\ Inv (snd st').
Proof.
  intros H1 H2.
  assert (Hs : sim2 st (ents (fst st), ents (snd st))).
  { split; (split; [assumption|]); (split; [apply InvS_NoDupK; apply inv_s; assumption|apply equiv_refl]). }
  destruct (step_ok st _ o Hs) as [st' [Hst [[A _] [B _]]]]. eauto.
Qed.


(* ---------- the specification is a finite map modulo eqb ---------- *)
Lemma find_filter (f g : key * val -> bool) (m : amap) :
  (forall kv, In kv m -> f kv = true -> g kv = true) -> find f (filter g m) = find f m.
Proof.
  induction m as [|kv r IH]; intros H; [reflexivity|]. simpl.
  destruct (f kv) eqn:Ef.
  - rewrite (H kv (or_introl eq_refl) Ef). simpl. rewrite Ef. reflexivity.
  - destruct (g kv); simpl; rewrite ?Ef; apply IH; intros kv' Hin; apply H; right; assumption.
Qed.

Lemma s_get_set m k v k' : s_get (s_set m k v) k' = if eqb k k' then GVal v else s_get m k'.
Proof.
  unfold C17_Table.s_get, C17_Table.s_set, C17_Table.s_delete. simpl.
  destruct (eqb k k') eqn:Ek; [reflexivity|].
  rewrite find_filter; [reflexivity|]. intros kv _ Hf. apply Bool.negb_true_iff.
  destruct (eqb (fst kv) k) eqn:E1; auto.
  assert (eqb k k' = true) by (eapply eqb_trans; eauto; rewrite eqb_sym; assumption). congruence.
Qed.

Lemma s_get_delete m k k' : s_get (s_delete m k) k' = if eqb k k' then GAbsent else s_get m k'.
Proof.
  destruct (eqb k k') eqn:Ek.
  - apply s_get_absent. intros k0 v0 Hin. apply s_delete_In in Hin. simpl in Hin. destruct Hin as [_ Hf].
    destruct (eqb k0 k') eqn:E1; auto.
    assert (eqb k0 k = true) by (eapply eqb_trans; eauto; rewrite eqb_sym; assumption). congruence.
  - unfold C17_Table.s_get, C17_Table.s_delete. rewrite find_filter; [reflexivity|].
    intros kv _ Hf. apply Bool.negb_true_iff. destruct (eqb (fst kv) k) eqn:E1; auto.
    assert (eqb k k' = true) by (eapply eqb_trans; eauto; rewrite eqb_sym; assumption). congruence.
Qed.

Lemma s_mem_get m k : s_mem m k = match s_get m k with GVal _ => true | _ => false end.
Proof.
  unfold C17_Table.s_mem, C17_Table.s_get. induction m as [|kv r IH]; [reflexivity|]. simpl.
  destruct (eqb (fst kv) k); simpl; auto.
Qed.

Lemma length_delete m k : NoDupK m ->
  length (s_delete m k) + (if s_mem m k then 1 else 0) = length m.
Proof.
  unfold C17_Table.s_delete. induction m as [|[k0 v0] r IH]; intros Hn; [reflexivity|].
  destruct Hn as [H1 H2]. rewrite s_mem_cons. simpl. destruct (eqb k0 k) eqn:E0; simpl.
  - assert (Hr : s_mem r k = false).
    { apply s_mem_false. intros k' v' Hin. pose proof (H1 _ Hin) as Hf. simpl in Hf.
      destruct (eqb k' k) eqn:E1; auto.
      assert (eqb k' k0 = true) by (eapply eqb_trans; eauto; rewrite eqb_sym; assumption). congruence. }
    specialize (IH H2). rewrite Hr in IH. lia.
  - specialize (IH H2). lia.
Qed.

Lemma length_set m k v : NoDupK m -> length (s_set m k v) = if s_mem m k then length m else S (length m).
Proof.
  intros Hn. pose proof (length_delete m k Hn) as H. unfold C17_Table.s_set. simpl.
  destruct (s_mem m k); lia.
Qed.

End Proofs.
