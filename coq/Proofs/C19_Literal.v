(* C19 — proofs: integer literals in every lexer base (prefix in either case, `_` separators,
   leading zeros) and String#to_int in every base 2..36 denote exactly the written value. *)
From Coq Require Import ZArith List Bool Lia ZifyBool ZifyNat.
From Elk Require Import Base.Utf8 Proofs.Utf8_Encode Model.C19_Inspect Proofs.C19_Inspect Proofs.C19_Int Model.C19_Literal.
Import ListNotations.
Open Scope Z_scope.

(* ---------- letterToLower on the ASCII letters ---------- *)
Lemma to_lower_upper c : 65 <= c <= 90 -> to_lower c = c + 32.
Proof.
  unfold to_lower. intros H.
  assert (E : c = 65 \/ c = 66 \/ c = 67 \/ c = 68 \/ c = 69 \/ c = 70 \/ c = 71 \/ c = 72 \/ c = 73 \/ c = 74 \/ c = 75 \/ c = 76 \/ c = 77 \/ c = 78 \/ c = 79 \/ c = 80 \/ c = 81 \/ c = 82 \/ c = 83 \/ c = 84 \/ c = 85 \/ c = 86 \/ c = 87 \/ c = 88 \/ c = 89 \/ c = 90) by lia.
  repeat (destruct E as [E|E]; [subst c; reflexivity|]). subst c. reflexivity.
Qed.

Lemma to_lower_lower c : 97 <= c <= 122 -> to_lower c = c.
Proof.
  unfold to_lower. intros H.
  assert (E : c = 97 \/ c = 98 \/ c = 99 \/ c = 100 \/ c = 101 \/ c = 102 \/ c = 103 \/ c = 104 \/ c = 105 \/ c = 106 \/ c = 107 \/ c = 108 \/ c = 109 \/ c = 110 \/ c = 111 \/ c = 112 \/ c = 113 \/ c = 114 \/ c = 115 \/ c = 116 \/ c = 117 \/ c = 118 \/ c = 119 \/ c = 120 \/ c = 121 \/ c = 122) by lia.
  repeat (destruct E as [E|E]; [subst c; reflexivity|]). subst c. reflexivity.
Qed.

(* ---------- written digits ---------- *)

Lemma digit_char_rng up d : 0 <= d < 36 -> 48 <= digit_char up d < 128 /\ digit_char up d <> 95.
Proof. unfold digit_char. intros H. destruct (d <? 10) eqn:E; [lia|]. destruct up; lia. Qed.

Lemma digit_char_val up d : 0 <= d < 36 -> digit_val (digit_char up d) = Some d.
Proof.
  unfold digit_char, digit_val, in_rng. intros H. destruct (d <? 10) eqn:E.
  - assert (X : ((48 <=? 48 + d) && (48 + d <=? 57)) = true) by lia. rewrite X. f_equal. lia.
  - destruct up.
    + assert (X : ((48 <=? 55 + d) && (55 + d <=? 57)) = false) by lia. rewrite X.
      rewrite to_lower_upper by lia.
      assert (Y : ((97 <=? 55 + d + 32) && (55 + d + 32 <=? 122)) = true) by lia. rewrite Y. f_equal. lia.
    + assert (X : ((48 <=? 87 + d) && (87 + d <=? 57)) = false) by lia. rewrite X.
      rewrite to_lower_lower by lia.
      assert (Y : ((97 <=? 87 + d) && (87 + d <=? 122)) = true) by lia. rewrite Y. f_equal. lia.
Qed.

Lemma digit_char_hex up d : 0 <= d < 16 -> hex_val (digit_char up d) = Some d.
Proof.
  unfold digit_char, hex_val, in_rng. intros H. destruct (d <? 10) eqn:E.
  - assert (X : ((48 <=? 48 + d) && (48 + d <=? 57)) = true) by lia. rewrite X. f_equal. lia.
  - destruct up.
    + assert (X : ((48 <=? 55 + d) && (55 + d <=? 57)) = false) by lia. rewrite X.
      assert (Y : ((97 <=? 55 + d) && (55 + d <=? 102)) = false) by lia. rewrite Y.
      assert (W : ((65 <=? 55 + d) && (55 + d <=? 70)) = true) by lia. rewrite W. f_equal. lia.
    + assert (X : ((48 <=? 87 + d) && (87 + d <=? 57)) = false) by lia. rewrite X.
      assert (Y : ((97 <=? 87 + d) && (87 + d <=? 102)) = true) by lia. rewrite Y. f_equal. lia.
Qed.

(* the digit loop of parseUBigInt, one step, in terms of digit_val *)
Lemma parse_digits_cons base c t n :
  parse_digits base (c :: t) n =
  if c =? 95 then parse_digits base t n
  else match digit_val c with
       | Some d => if base <=? d then None else parse_digits base t (n * base + d)
       | None => None
       end.
Proof. reflexivity. Qed.

Lemma render_digits_cons w ws : render_digits (w :: ws) = render_digit w ++ render_digits ws.
Proof. reflexivity. Qed.

Lemma digits_value_cons b w ws acc : digits_value b (w :: ws) acc = digits_value b ws (acc * b + snd w).
Proof. reflexivity. Qed.

(* parseUBigInt's loop on a written numeral of base b <= 36: the positional value *)
Lemma parse_digits_written b : 2 <= b <= 36 -> forall ws acc, Forall (wd_ok b) ws ->
  parse_digits b (render_digits ws) acc = Some (digits_value b ws acc).
Proof.
  intros Hb. induction ws as [|[[u up] d] ws IH]; intros acc HF; [reflexivity|].
  inversion HF as [|? ? Hw HT]; subst. unfold wd_ok in Hw. cbn [snd] in Hw.
  rewrite render_digits_cons, digits_value_cons. cbn [snd].
  destruct (digit_char_rng up d ltac:(lia)) as [R N95].
  assert (Step : parse_digits b (digit_char up d :: render_digits ws) acc = Some (digits_value b ws (acc * b + d))).
  { rewrite parse_digits_cons.
    assert (X : (digit_char up d =? 95) = false) by lia. rewrite X.
    rewrite digit_char_val by lia.
    assert (Y : (b <=? d) = false) by lia. rewrite Y. apply IH. exact HT. }
  unfold render_digit. destruct u; cbn [app].
  - rewrite parse_digits_cons. change (95 =? 95) with true. cbv iota. exact Step.
  - exact Step.
Qed.

(* ... and it rejects every string that contains a character which is neither `_` nor a digit
   of the base, wherever it stands *)

Lemma parse_digits_app b l1 l2 : forall acc,
  parse_digits b (l1 ++ l2) acc =
  match parse_digits b l1 acc with Some n => parse_digits b l2 n | None => None end.
Proof.
  induction l1 as [|c t IH]; intros acc; [reflexivity|].
  cbn [app]. rewrite !parse_digits_cons.
  destruct (c =? 95); [apply IH|].
  destruct (digit_val c) as [d|]; [|reflexivity].
  destruct (b <=? d); [reflexivity|apply IH].
Qed.

Lemma parse_digits_bad b c l1 l2 acc : bad_digit b c -> parse_digits b (l1 ++ c :: l2) acc = None.
Proof.
  intros [N95 Hd]. rewrite parse_digits_app.
  destruct (parse_digits b l1 acc) as [n|]; [|reflexivity].
  rewrite parse_digits_cons.
  assert (X : (c =? 95) = false) by lia. rewrite X.
  destruct (digit_val c) as [d|]; [|reflexivity].
  assert (Y : (b <=? d) = true) by lia. rewrite Y. reflexivity.
Qed.

(* ---------- String#to_int ---------- *)

Definition numeral_char (c : Z) : Prop := c = 95 \/ (48 <= c < 128 /\ c <> 95).

Lemma render_chars b ws : b <= 36 -> Forall (wd_ok b) ws -> Forall numeral_char (render_digits ws).
Proof.
  intros Hb. induction 1 as [|[[u up] d] ws Hw _ IH]; [constructor|].
  unfold wd_ok in Hw. cbn [snd] in Hw. rewrite render_digits_cons. apply Forall_app. split; [|exact IH].
  pose proof (digit_char_rng up d ltac:(lia)) as R.
  unfold render_digit. destruct u; cbn [app]; repeat constructor; unfold numeral_char; lia.
Qed.

Lemma render_nonempty ws : ws <> [] -> render_digits ws <> [].
Proof.
  destruct ws as [|[[u up] d] ws]; [contradiction|]. intros _. rewrite render_digits_cons.
  unfold render_digit. destruct u; discriminate.
Qed.

Lemma parse_ubigint_explicit b s : 2 <= b <= 36 -> s <> [] -> parse_ubigint s b = parse_digits b s 0.
Proof.
  intros Hb Hs. destruct s as [|c t]; [contradiction|]. unfold parse_ubigint.
  assert (X : in_rng 2 36 b = true) by (unfold in_rng; lia). rewrite X. reflexivity.
Qed.

(* sign handling of ParseBigIntWithErr on a string whose unsigned part starts with a numeral character *)
Lemma parse_bigint_sign sg s base : s <> [] -> Forall numeral_char s ->
  parse_bigint (sign_str sg ++ s) base = option_map (sign_apply sg) (parse_ubigint s base).
Proof.
  intros Hs HF. destruct s as [|c t]; [contradiction|].
  inversion HF as [|? ? Hc _]; subst. unfold numeral_char in Hc.
  destruct sg as [[|]|]; cbn [sign_str app]; unfold parse_bigint.
  - change (45 =? 43) with false. change (45 =? 45) with true. cbv iota. reflexivity.
  - change (43 =? 43) with true. cbv iota.
    destruct (parse_ubigint (c :: t) base); reflexivity.
  - assert (X1 : (c =? 43) = false) by lia. assert (X2 : (c =? 45) = false) by lia. rewrite X1, X2.
    destruct (parse_ubigint (c :: t) base); reflexivity.
Qed.

Theorem to_int_explicit b sg ws : 2 <= b <= 36 -> ws <> [] -> Forall (wd_ok b) ws ->
  to_int (sign_str sg ++ render_digits ws) b = Some (sign_apply sg (digits_value b ws 0)).
Proof.
  intros Hb Hn HF. unfold to_int.
  rewrite parse_bigint_sign; [|apply render_nonempty; exact Hn|apply (render_chars b); [lia|exact HF]].
  rewrite parse_ubigint_explicit; [|exact Hb|apply render_nonempty; exact Hn].
  rewrite parse_digits_written by assumption. reflexivity.
Qed.


Lemma parse_ubigint_prefixed b up ds : prefixed_base b -> ds <> [] ->
  parse_ubigint (base_prefix up b ++ ds) 0 = parse_digits b ds 0.
Proof.
  intros Hb Hd. destruct ds as [|d ds']; [contradiction|].
  destruct Hb as [-> | [-> | [-> | [-> | -> ]]]]; destruct up; reflexivity.
Qed.

Lemma base_prefix_chars b up : prefixed_base b ->
  base_prefix up b <> [] /\ Forall numeral_char (base_prefix up b).
Proof.
  intros Hb. destruct Hb as [-> | [-> | [-> | [-> | -> ]]]]; destruct up; cbn;
    (split; [discriminate|repeat constructor; unfold numeral_char; lia]).
Qed.

Theorem to_int_prefixed b up sg ws : prefixed_base b -> ws <> [] -> Forall (wd_ok b) ws ->
  to_int (sign_str sg ++ base_prefix up b ++ render_digits ws) 0 = Some (sign_apply sg (digits_value b ws 0)).
Proof.
  intros Hb Hn HF. unfold to_int.
  assert (B36 : 2 <= b <= 36) by (destruct Hb as [-> | [-> | [-> | [-> | -> ]]]]; lia).
  destruct (base_prefix_chars b up Hb) as [PN PC].
  rewrite parse_bigint_sign.
  - rewrite parse_ubigint_prefixed; [|exact Hb|apply render_nonempty; exact Hn].
    rewrite parse_digits_written by assumption. reflexivity.
  - destruct (base_prefix up b); [contradiction|discriminate].
  - apply Forall_app. split; [exact PC|apply (render_chars b); [lia|exact HF]].
Qed.

(* no prefix, base 0: DECIMAL, leading zeros included *)
Definition dec_or_us (c : Z) : Prop := c = 95 \/ 48 <= c <= 57.

Lemma render_dec_chars ws : Forall (wd_ok 10) ws -> Forall dec_or_us (render_digits ws).
Proof.
  induction 1 as [|[[u up] d] ws Hw _ IH]; [constructor|].
  unfold wd_ok in Hw. cbn [snd] in Hw. rewrite render_digits_cons. apply Forall_app. split; [|exact IH].
  assert (E : digit_char up d = 48 + d) by (unfold digit_char; destruct (d <? 10) eqn:E; [reflexivity|lia]).
  unfold render_digit. rewrite E. destruct u; cbn [app]; repeat constructor; unfold dec_or_us; lia.
Qed.

Lemma to_lower_not_prefix c : c = 0 \/ dec_or_us c ->
  to_lower c <> 98 /\ to_lower c <> 113 /\ to_lower c <> 111 /\ to_lower c <> 100 /\ to_lower c <> 120.
Proof.
  intros [->|[->|H]]; [change (to_lower 0) with 32; lia|change (to_lower 95) with 127; lia|].
  rewrite to_lower_dec by exact H. lia.
Qed.

Lemma parse_ubigint_dec0 s : s <> [] -> Forall dec_or_us s -> parse_ubigint s 0 = parse_digits 10 s 0.
Proof.
  intros Hs HF. destruct s as [|c0 t]; [contradiction|].
  inversion HF as [|? ? _ HT]; subst.
  unfold parse_ubigint. change (in_rng 2 36 0) with false. change (0 =? 0) with true. cbv iota.
  assert (L : hd 0 t = 0 \/ dec_or_us (hd 0 t)).
  { destruct t as [|c1 t']; [left; reflexivity|]. inversion HT; subst. right. assumption. }
  destruct (to_lower_not_prefix _ L) as (N1 & N2 & N3 & N4 & N5).
  set (l1 := to_lower (hd 0 t)) in *.
  assert (E1 : (l1 =? 98) = false) by lia. assert (E2 : (l1 =? 113) = false) by lia.
  assert (E3 : (l1 =? 111) = false) by lia. assert (E4 : (l1 =? 100) = false) by lia.
  assert (E5 : (l1 =? 120) = false) by lia.
  rewrite E1, E2, E3, E4, E5. rewrite !andb_false_r. reflexivity.
Qed.

Theorem to_int_decimal0 sg ws : ws <> [] -> Forall (wd_ok 10) ws ->
  to_int (sign_str sg ++ render_digits ws) 0 = Some (sign_apply sg (digits_value 10 ws 0)).
Proof.
  intros Hn HF. unfold to_int.
  rewrite parse_bigint_sign; [|apply render_nonempty; exact Hn|apply (render_chars 10); [lia|exact HF]].
  rewrite parse_ubigint_dec0; [|apply render_nonempty; exact Hn|apply render_dec_chars; exact HF].
  rewrite parse_digits_written by (assumption || lia). reflexivity.
Qed.

(* never a mis-parse: a character that is neither `_` nor a digit of the base, anywhere in the
   numeral, makes to_int fail (FormatError), whatever stands around it *)
Theorem to_int_invalid b sg l1 c l2 : 2 <= b <= 36 ->
  hd 0 (l1 ++ [c]) <> 43 -> hd 0 (l1 ++ [c]) <> 45 -> bad_digit b c ->
  to_int (sign_str sg ++ l1 ++ c :: l2) b = None.
Proof.
  intros Hb H43 H45 Hbad. unfold to_int.
  assert (NE : l1 ++ c :: l2 <> []) by (destruct l1; discriminate).
  assert (U : parse_ubigint (l1 ++ c :: l2) b = None).
  { rewrite parse_ubigint_explicit by assumption. apply parse_digits_bad. exact Hbad. }
  destruct sg as [[|]|]; cbn [sign_str app]; unfold parse_bigint.
  - change (45 =? 43) with false. change (45 =? 45) with true. cbv iota.
    destruct (l1 ++ c :: l2) eqn:E; [contradiction|]. rewrite U. reflexivity.
  - change (43 =? 43) with true. cbv iota. destruct (l1 ++ c :: l2) eqn:E; [contradiction|]. exact U.
  - destruct (l1 ++ c :: l2) as [|h t] eqn:E; [contradiction|].
    assert (Hh : h = hd 0 (l1 ++ [c])).
    { destruct l1 as [|a l1']; cbn [app hd] in *; inversion E; reflexivity. }
    assert (X1 : (h =? 43) = false) by lia. assert (X2 : (h =? 45) = false) by lia. rewrite X1, X2. exact U.
Qed.

(* ---------- the lexer on a written numeral ---------- *)
(* what may follow the digits: the end of the input or a sized suffix (`i..`, `u..`) *)
Definition stopc (rest : list Z) : Prop := match rest with [] => True | c :: _ => c = 105 \/ c = 117 end.

Definition dchar (w : wdigit) : Z := digit_char (snd (fst w)) (snd w).

Lemma consume_stop b fuel rest : stopc rest -> consume_digits (S fuel) b rest = ([], rest).
Proof.
  destruct rest as [|c r]; intros H; [reflexivity|].
  cbn [stopc] in H. cbn [consume_digits]. rewrite peek_ascii by lia.
  assert (X : (c =? 95) = false) by lia. rewrite X. rewrite peek_ascii by lia.
  destruct H as [-> | ->]; reflexivity.
Qed.

Lemma length_render ws : (length ws <= length (render_digits ws))%nat.
Proof.
  induction ws as [|[[u up] d] ws IH]; [reflexivity|].
  rewrite render_digits_cons, app_length. unfold render_digit. destruct u; cbn [length app]; lia.
Qed.

(* consumeDigits: the lexeme gets the digits without the separators *)
Lemma consume_written b : 2 <= b <= 16 -> forall ws fuel rest,
  Forall (wd_ok b) ws -> stopc rest -> (length ws < fuel)%nat ->
  consume_digits fuel b (render_digits ws ++ rest) = (map dchar ws, rest).
Proof.
  intros Hb. induction ws as [|[[u up] d] ws IH]; intros fuel rest HF HS Hf;
    (destruct fuel as [|f]; [cbn in Hf; lia|]).
  - cbn [render_digits flat_map app map]. apply consume_stop. exact HS.
  - inversion HF as [|? ? Hw HT]; subst. unfold wd_ok in Hw. cbn [snd] in Hw.
    destruct (digit_char_rng up d ltac:(lia)) as [R N95].
    assert (Step : forall tl0, tl0 = render_digits ws ++ rest ->
      (let src1 := digit_char up d :: tl0 in
       if digit_in_set b (peek src1)
       then let '(ds, r) := consume_digits f b (tl src1) in (peek src1 :: ds, r)
       else ([], src1)) = (map dchar ((u, up, d) :: ws), rest)).
    { intros tl0 ->. cbv zeta. rewrite peek_ascii by lia.
      unfold digit_in_set. rewrite digit_char_hex by lia.
      assert (Y : (d <? b) = true) by lia. rewrite Y. cbn [tl].
      rewrite IH; [reflexivity|exact HT|exact HS|cbn in Hf; lia]. }
    rewrite render_digits_cons. unfold render_digit. destruct u; cbn [app].
    + cbn [consume_digits]. rewrite peek_ascii by lia. change (95 =? 95) with true. cbv iota. cbn [tl].
      apply (Step _ eq_refl).
    + cbn [consume_digits]. rewrite peek_ascii by lia.
      assert (X : (digit_char up d =? 95) = false) by lia. rewrite X.
      apply (Step _ eq_refl).
Qed.

Definition strip (w : wdigit) : wdigit := (false, snd (fst w), snd w).

Lemma render_strip ws : render_digits (map strip ws) = map dchar ws.
Proof. induction ws as [|[[u up] d] ws IH]; [reflexivity|]. cbn [map]. rewrite render_digits_cons, IH. reflexivity. Qed.

Lemma value_strip b ws : forall acc, digits_value b (map strip ws) acc = digits_value b ws acc.
Proof. induction ws as [|[[u up] d] ws IH]; intros acc; [reflexivity|]. cbn [map]. rewrite !digits_value_cons. apply IH. Qed.

Lemma ok_strip b ws : Forall (wd_ok b) ws -> Forall (wd_ok b) (map strip ws).
Proof. induction 1 as [|[[u up] d] ws Hw _ IH]; [constructor|]. cbn [map]. constructor; assumption. Qed.


Lemma peek_after_dec ws rest : Forall (wd_ok 10) ws -> stopc rest ->
  let p := peek (render_digits ws ++ rest) in p = 0 \/ p = 95 \/ 48 <= p <= 57 \/ p = 105 \/ p = 117.
Proof.
  intros HF HS. destruct ws as [|[[u up] d] ws].
  - cbn [render_digits flat_map app]. destruct rest as [|c r]; [left; reflexivity|].
    cbn [stopc] in HS. cbv zeta. rewrite peek_ascii by lia. lia.
  - inversion HF as [|? ? Hw _]; subst. unfold wd_ok in Hw. cbn [snd] in Hw.
    assert (E : digit_char up d = 48 + d) by (unfold digit_char; destruct (d <? 10) eqn:E; [reflexivity|lia]).
    rewrite render_digits_cons. unfold render_digit. rewrite E.
    destruct u; cbn [app]; cbv zeta; rewrite peek_ascii by lia; lia.
Qed.

Lemma lex_number_dec ws rest : ws <> [] -> Forall (wd_ok 10) ws -> first_plain ws -> stopc rest ->
  lex_number (render_digits ws ++ rest) = Some (map dchar ws, rest).
Proof.
  intros Hn HF HP HS. destruct ws as [|[[u up] d] ws]; [contradiction|].
  cbn [first_plain fst] in HP. subst u.
  inversion HF as [|? ? Hw HT]; subst. unfold wd_ok in Hw. cbn [snd] in Hw.
  assert (E : digit_char up d = 48 + d) by (unfold digit_char; destruct (d <? 10) eqn:E; [reflexivity|lia]).
  rewrite render_digits_cons. unfold render_digit. cbn [app map]. unfold dchar at 1. cbn [fst snd]. rewrite E.
  unfold lex_number.
  assert (X : in_rng 48 57 (48 + d) = true) by (unfold in_rng; lia). rewrite X. cbn [negb].
  pose proof (peek_after_dec ws rest HT HS) as P. cbv zeta in P.
  set (t := render_digits ws ++ rest) in *. set (p := peek t) in *.
  assert (E1 : (p =? 120) = false) by lia. assert (E2 : (p =? 88) = false) by lia.
  assert (E3 : (p =? 100) = false) by lia. assert (E4 : (p =? 68) = false) by lia.
  assert (E5 : (p =? 111) = false) by lia. assert (E6 : (p =? 79) = false) by lia.
  assert (E7 : (p =? 113) = false) by lia. assert (E8 : (p =? 81) = false) by lia.
  assert (E9 : (p =? 98) = false) by lia. assert (E10 : (p =? 66) = false) by lia.
  rewrite E1, E2, E3, E4, E5, E6, E7, E8, E9, E10. cbn [orb].
  replace (if 48 + d =? 48 then (@nil Z, 10, t) else ([], 10, t)) with (@nil Z, 10, t) by (destruct (48 + d =? 48); reflexivity).
  subst t. rewrite consume_written; [reflexivity|lia|exact HT|exact HS|].
  pose proof (length_render ws). rewrite app_length. lia.
Qed.

Lemma lex_number_prefixed b up ws rest : prefixed_base b -> Forall (wd_ok b) ws -> stopc rest ->
  lex_number (base_prefix up b ++ render_digits ws ++ rest) = Some (base_prefix false b ++ map dchar ws, rest).
Proof.
  intros Hb HF HS.
  assert (L : (length ws < S (length (render_digits ws ++ rest)))%nat).
  { pose proof (length_render ws). rewrite app_length. lia. }
  destruct Hb as [-> | [-> | [-> | [-> | -> ]]]]; destruct up;
    cbn [base_prefix Z.eqb Pos.eqb app]; unfold lex_number;
    change (in_rng 48 57 48) with true; cbn [negb]; rewrite peek_ascii by lia;
    cbn [Z.eqb Pos.eqb orb tl]; rewrite consume_written by (assumption || lia); reflexivity.
Qed.

(* ---------- StrictParseUint: the machine-word loop with its overflow tests ---------- *)
Lemma digits_value_ge b ws : 1 <= b -> Forall (wd_ok b) ws -> forall acc, 0 <= acc -> acc <= digits_value b ws acc.
Proof.
  intros Hb. induction 1 as [|[[u up] d] ws Hw _ IH]; intros acc Ha; [cbn; lia|].
  unfold wd_ok in Hw. cbn [snd] in Hw. rewrite digits_value_cons. cbn [snd].
  assert (acc <= acc * b + d) by nia. specialize (IH (acc * b + d) ltac:(lia)). lia.
Qed.

Lemma strict_digits_cons base maxv c t n :
  strict_digits base maxv (c :: t) n =
  if c =? 95 then strict_digits base maxv t n
  else match digit_val c with
       | None => None
       | Some d =>
         if base <=? d then None
         else if max_u64 / base + 1 <=? n then None
         else let n0 := (n * base) mod two64 in
              let n1 := (n0 + d) mod two64 in
              if (n1 <? n0) || (maxv <? n1) then None else strict_digits base maxv t n1
       end.
Proof. reflexivity. Qed.

Lemma strict_digits_written b maxv : 2 <= b <= 36 -> 0 <= maxv < two64 ->
  forall ws n, Forall (wd_ok b) ws -> 0 <= n <= maxv ->
  strict_digits b maxv (render_digits ws) n =
  if digits_value b ws n <=? maxv then Some (digits_value b ws n) else None.
Proof.
  intros Hb Hm. induction ws as [|[[u up] d] ws IH]; intros n HF Hn.
  - cbn [render_digits flat_map strict_digits digits_value fold_left].
    assert (X : (n <=? maxv) = true) by lia. rewrite X. reflexivity.
  - inversion HF as [|? ? Hw HT]; subst. unfold wd_ok in Hw. cbn [snd] in Hw.
    rewrite render_digits_cons, digits_value_cons. cbn [snd].
    destruct (digit_char_rng up d ltac:(lia)) as [R N95].
    pose proof (digits_value_ge b ws ltac:(lia) HT) as GE.
    assert (Step : strict_digits b maxv (digit_char up d :: render_digits ws) n =
                   if digits_value b ws (n * b + d) <=? maxv then Some (digits_value b ws (n * b + d)) else None).
    { rewrite strict_digits_cons.
      assert (X : (digit_char up d =? 95) = false) by lia. rewrite X.
      rewrite digit_char_val by lia.
      assert (Y : (b <=? d) = false) by lia. rewrite Y.
      assert (NB : 0 <= n * b) by nia.
      specialize (GE (n * b + d) ltac:(lia)).
      pose proof (Z.mul_div_le max_u64 b ltac:(lia)) as DL.
      pose proof (Z.mul_succ_div_gt max_u64 b ltac:(lia)) as DG.
      assert (Q0 : 0 <= max_u64 / b) by (apply Z.div_pos; unfold max_u64; lia).
      set (q := max_u64 / b) in *.
      destruct (q + 1 <=? n) eqn:C.
      - (* n*b already exceeds 2^64-1 *)
        assert (max_u64 < n * b) by nia.
        assert (Z : (digits_value b ws (n * b + d) <=? maxv) = false) by (unfold two64, max_u64 in *; lia).
        rewrite Z. reflexivity.
      - assert (NBU : n * b <= max_u64) by nia.
        cbv zeta. set (m := n * b) in *.
        rewrite (Z.mod_small m two64) by (unfold two64, max_u64 in *; lia).
        destruct (Z_lt_ge_dec (m + d) two64) as [Small|Wrap].
        + rewrite (Z.mod_small (m + d) two64) by lia.
          assert (W : (m + d <? m) = false) by lia. rewrite W. cbn [orb].
          destruct (maxv <? m + d) eqn:M.
          * assert (Z : (digits_value b ws (m + d) <=? maxv) = false) by lia. rewrite Z. reflexivity.
          * apply IH; [exact HT|lia].
        + assert (E : (m + d) mod two64 = m + d - two64).
          { symmetry. apply (Z.mod_unique (m + d) two64 1); unfold two64, max_u64 in *; lia. }
          rewrite E.
          assert (W : (m + d - two64 <? m) = true) by (unfold two64 in *; lia). rewrite W. cbn [orb].
          assert (Z : (digits_value b ws (m + d) <=? maxv) = false) by lia. rewrite Z. reflexivity. }
    unfold render_digit. destruct u; cbn [app].
    + rewrite strict_digits_cons. change (95 =? 95) with true. cbv iota. exact Step.
    + exact Step.
Qed.

(* ---------- the value of a token ---------- *)
Definition lexeme_of (b : Z) (ws : list wdigit) : list Z := base_prefix false b ++ map dchar ws.

Lemma base_prefix_10 up : base_prefix up 10 = [].
Proof. reflexivity. Qed.

Lemma dchars_dec ws : Forall (wd_ok 10) ws -> Forall dec_or_us (map dchar ws).
Proof. intros H. rewrite <- render_strip. apply render_dec_chars. apply ok_strip. exact H. Qed.

Lemma dchars_nonempty ws : ws <> [] -> map dchar ws <> [].
Proof. destruct ws; [contradiction|discriminate]. Qed.

Lemma int_prefix_lexeme b ws : lexer_base b -> ws <> [] -> Forall (wd_ok b) ws ->
  int_prefix (lexeme_of b ws) 0 = Some (b, map dchar ws).
Proof.
  intros Hb Hn HF. unfold lexeme_of. destruct Hb as [-> | Hb].
  - rewrite base_prefix_10. cbn [app].
    pose proof (dchars_dec ws HF) as D. pose proof (dchars_nonempty ws Hn) as NE.
    destruct (map dchar ws) as [|c0 t]; [contradiction|].
    inversion D as [|? ? _ HT]; subst.
    unfold int_prefix. change (in_rng 2 36 0) with false. change (0 =? 0) with true. cbv iota.
    assert (L : hd 0 t = 0 \/ dec_or_us (hd 0 t)).
    { destruct t as [|c1 t']; [left; reflexivity|]. inversion HT; subst. right. assumption. }
    destruct (to_lower_not_prefix _ L) as (N1 & N2 & N3 & N4 & N5).
    set (l1 := to_lower (hd 0 t)) in *.
    assert (E1 : (l1 =? 98) = false) by lia. assert (E2 : (l1 =? 113) = false) by lia.
    assert (E3 : (l1 =? 111) = false) by lia. assert (E4 : (l1 =? 100) = false) by lia.
    assert (E5 : (l1 =? 120) = false) by lia.
    rewrite E1, E2, E3, E4, E5. rewrite !andb_false_r. reflexivity.
  - pose proof (dchars_nonempty ws Hn) as NE.
    destruct (map dchar ws) as [|c0 t]; [contradiction|].
    destruct Hb as [-> | [-> | [-> | [-> | -> ]]]]; reflexivity.
Qed.

Lemma strict_digits_dchars b maxv ws : 2 <= b <= 36 -> 0 <= maxv < two64 -> Forall (wd_ok b) ws ->
  strict_digits b maxv (map dchar ws) 0 =
  if digits_value b ws 0 <=? maxv then Some (digits_value b ws 0) else None.
Proof.
  intros Hb Hm HF. rewrite <- render_strip.
  rewrite strict_digits_written; [|exact Hb|exact Hm|apply ok_strip; exact HF|lia].
  rewrite value_strip. reflexivity.
Qed.

Lemma lexer_base_rng b : lexer_base b -> 2 <= b <= 16.
Proof. intros [-> | [-> | [-> | [-> | [-> | -> ]]]]]; lia. Qed.

Definition bits_ok (bits : Z) : Prop := bits = 8 \/ bits = 16 \/ bits = 32 \/ bits = 64.

Lemma strict_parse_uint_lexeme b ws bits : lexer_base b -> ws <> [] -> Forall (wd_ok b) ws -> bits_ok bits ->
  strict_parse_uint (lexeme_of b ws) 0 bits =
  if digits_value b ws 0 <? 2 ^ bits then Some (digits_value b ws 0) else None.
Proof.
  intros Hb Hn HF HB. unfold strict_parse_uint. rewrite int_prefix_lexeme by assumption.
  pose proof (lexer_base_rng b Hb) as R.
  rewrite strict_digits_dchars; [|lia|destruct HB as [-> | [-> | [-> | -> ]]]; unfold two64; cbn; lia|exact HF].
  destruct (digits_value b ws 0 <=? 2 ^ bits - 1) eqn:E1; destruct (digits_value b ws 0 <? 2 ^ bits) eqn:E2; try reflexivity; lia.
Qed.

Lemma lexeme_head b ws : lexer_base b -> ws <> [] -> Forall (wd_ok b) ws -> (b = 10 -> first_plain ws) ->
  exists c t, lexeme_of b ws = c :: t /\ 48 <= c <= 57.
Proof.
  intros Hb Hn HF HP. unfold lexeme_of. destruct Hb as [-> | Hb].
  - pose proof (dchars_dec ws HF) as D. destruct ws as [|w ws]; [contradiction|].
    rewrite base_prefix_10. cbn [app map]. exists (dchar w), (map dchar ws). split; [reflexivity|].
    inversion HF as [|? ? Hw _]; subst. destruct w as [[u up] d]. unfold wd_ok in Hw. cbn [snd] in Hw.
    unfold dchar, digit_char. cbn [fst snd]. destruct (d <? 10) eqn:E; lia.
  - destruct Hb as [-> | [-> | [-> | [-> | -> ]]]]; cbn [base_prefix Z.eqb Pos.eqb app]; eexists; eexists; (split; [reflexivity|lia]).
Qed.

Lemma strict_parse_int_lexeme b ws bits : lexer_base b -> ws <> [] -> Forall (wd_ok b) ws -> (b = 10 -> first_plain ws) ->
  bits_ok bits ->
  strict_parse_int (lexeme_of b ws) 0 bits =
  if digits_value b ws 0 <? 2 ^ (bits - 1) then Some (digits_value b ws 0) else None.
Proof.
  intros Hb Hn HF HP HB.
  pose proof (strict_parse_uint_lexeme b ws bits Hb Hn HF HB) as U.
  destruct (lexeme_head b ws Hb Hn HF HP) as (c & t & E & Hc). rewrite E in *.
  unfold strict_parse_int.
  assert (X1 : (c =? 43) = false) by lia. assert (X2 : (c =? 45) = false) by lia. rewrite X1, X2. cbn [orb negb andb].
  rewrite U.
  pose proof (lexer_base_rng b Hb) as R.
  pose proof (digits_value_ge b ws ltac:(lia) HF 0 ltac:(lia)) as GE.
  assert (P : 2 ^ (bits - 1) < 2 ^ bits) by (destruct HB as [-> | [-> | [-> | -> ]]]; cbn; lia).
  destruct (digits_value b ws 0 <? 2 ^ bits) eqn:E1; destruct (digits_value b ws 0 <? 2 ^ (bits - 1)) eqn:E2; try lia.
  - assert (Y : (2 ^ (bits - 1) <=? digits_value b ws 0) = false) by lia. rewrite Y. reflexivity.
  - assert (Y : (2 ^ (bits - 1) <=? digits_value b ws 0) = true) by lia. rewrite Y. reflexivity.
  - reflexivity.
Qed.

Lemma parse_bigint_lexeme b ws : lexer_base b -> ws <> [] -> Forall (wd_ok b) ws ->
  parse_bigint (lexeme_of b ws) 0 = Some (digits_value b ws 0).
Proof.
  intros Hb Hn HF. unfold lexeme_of. rewrite <- render_strip.
  pose proof (ok_strip b ws HF) as HF'.
  assert (Hn' : map strip ws <> []) by (destruct ws; [contradiction|discriminate]).
  rewrite <- (value_strip b ws 0).
  destruct Hb as [-> | Hb].
  - rewrite base_prefix_10. cbn [app]. exact (to_int_decimal0 None (map strip ws) Hn' HF').
  - exact (to_int_prefixed b false None (map strip ws) Hb Hn' HF').
Qed.

(* suffix and range of every integer token kind *)

Lemma eval_token_lexeme k b ws : lexer_base b -> ws <> [] -> Forall (wd_ok b) ws -> (b = 10 -> first_plain ws) ->
  eval_token k (lexeme_of b ws) = if in_bound k (digits_value b ws 0) then Some (digits_value b ws 0) else None.
Proof.
  intros Hb Hn HF HP. unfold in_bound.
  destruct k; cbn [eval_token tok_bound].
  - apply parse_bigint_lexeme; assumption.
  - rewrite strict_parse_int_lexeme by (assumption || (unfold bits_ok; lia)). reflexivity.
  - rewrite strict_parse_int_lexeme by (assumption || (unfold bits_ok; lia)). reflexivity.
  - rewrite strict_parse_int_lexeme by (assumption || (unfold bits_ok; lia)). reflexivity.
  - rewrite strict_parse_int_lexeme by (assumption || (unfold bits_ok; lia)). reflexivity.
  - rewrite strict_parse_uint_lexeme by (assumption || (unfold bits_ok; lia)). reflexivity.
  - rewrite strict_parse_uint_lexeme by (assumption || (unfold bits_ok; lia)). reflexivity.
  - rewrite strict_parse_uint_lexeme by (assumption || (unfold bits_ok; lia)). reflexivity.
  - rewrite strict_parse_uint_lexeme by (assumption || (unfold bits_ok; lia)). reflexivity.
  - rewrite strict_parse_uint_lexeme by (assumption || (unfold bits_ok; lia)). reflexivity.
Qed.

Lemma suffix_stop k : stopc (tok_suffix k) /\ int_suffix (tok_suffix k) = Some k.
Proof. destruct k; (split; [cbn; auto|reflexivity]). Qed.

Lemma number_token_written k b up ws : lexer_base b -> ws <> [] -> Forall (wd_ok b) ws -> (b = 10 -> first_plain ws) ->
  number_token (base_prefix up b ++ render_digits ws ++ tok_suffix k) = Some (k, lexeme_of b ws).
Proof.
  intros Hb Hn HF HP. destruct (suffix_stop k) as [HS HK]. unfold number_token, lexeme_of.
  destruct Hb as [-> | Hb].
  - rewrite !base_prefix_10. cbn [app]. rewrite lex_number_dec by auto. rewrite HK. reflexivity.
  - rewrite lex_number_prefixed by assumption. rewrite HK. reflexivity.
Qed.

(* MAIN: a literal as written - any lexer base, prefix in either case, `_` separators, leading
   zeros, any sized suffix, optional unary sign in front of a signed kind - evaluates to exactly
   the written positional value, or is rejected iff that value does not fit the suffix's width *)
Theorem literal_value k b up sg ws :
  lexer_base b -> ws <> [] -> Forall (wd_ok b) ws -> (b = 10 -> first_plain ws) ->
  (sg <> None -> tok_signed k = true) ->
  eval_literal (sign_str sg ++ base_prefix up b ++ render_digits ws ++ tok_suffix k) =
  if in_bound k (digits_value b ws 0) then Some (k, sign_apply sg (digits_value b ws 0)) else None.
Proof.
  intros Hb Hn HF HP HS.
  pose proof (number_token_written k b up ws Hb Hn HF HP) as NT.
  pose proof (eval_token_lexeme k b ws Hb Hn HF HP) as ET.
  set (body := base_prefix up b ++ render_digits ws ++ tok_suffix k) in *.
  assert (HH : exists c t, body = c :: t /\ 48 <= c <= 57).
  { subst body. destruct Hb as [-> | Hb].
    - destruct ws as [|[[u up0] d] ws]; [contradiction|]. specialize (HP eq_refl). cbn [first_plain fst] in HP. subst u.
      inversion HF as [|? ? Hw _]; subst. unfold wd_ok in Hw. cbn [snd] in Hw.
      rewrite base_prefix_10, render_digits_cons. unfold render_digit. cbn [app].
      eexists; eexists; split; [reflexivity|]. unfold digit_char. destruct (d <? 10) eqn:E; lia.
    - destruct Hb as [-> | [-> | [-> | [-> | -> ]]]]; destruct up; cbn [base_prefix Z.eqb Pos.eqb app];
        eexists; eexists; (split; [reflexivity|lia]). }
  destruct HH as (c & t & EB & Hc).
  unfold eval_literal.
  destruct sg as [[|]|]; cbn [sign_str app hd tl].
  - change (45 =? 45) with true. cbn [orb]. rewrite NT, ET.
    destruct (in_bound k (digits_value b ws 0)); [|reflexivity].
    rewrite (HS ltac:(discriminate)). reflexivity.
  - change (43 =? 45) with false. change (43 =? 43) with true. cbn [orb]. rewrite NT, ET.
    destruct (in_bound k (digits_value b ws 0)); [|reflexivity].
    rewrite (HS ltac:(discriminate)). reflexivity.
  - rewrite EB. cbn [hd].
    assert (X1 : (c =? 45) = false) by lia. assert (X2 : (c =? 43) = false) by lia. rewrite X1, X2. cbn [orb].
    rewrite <- EB. rewrite NT, ET.
    destruct (in_bound k (digits_value b ws 0)); reflexivity.
Qed.
