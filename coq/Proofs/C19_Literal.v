(* C19 — proofs: integer literals in every lexer base (prefix in either case, `_` separators,
   leading zeros) and String#to_int in every base 2..36 denote exactly the written value. *)
From Coq Require Import ZArith List Bool Lia ZifyBool ZifyNat.
From Elk Require Import Base.Utf8 Proofs.Utf8_Encode Model.C19_Inspect Proofs.C19_Inspect Proofs.C19_Int Model.C19_Literal.
Import ListNotations.
Open Scope Z_scope.

(* ---------- letterToLower on the ASCII letters ---------- *)
Lemma to_lower_upper c : 65 <= c <= 90 -> to_lower c = c + 32.
Proof.
  unfold to_lower. intros H.
  assert (E : c = 65 \/ c = 66 \/ c = 67 \/ c = 68 \/ c = 69 \/ c = 70 \/ c = 71 \/ c = 72 \/ c = 73 \/ c = 74 \/ c = 75 \/ c = 76 \/ c = 77 \/ c = 78 \/ c = 79 \/ c = 80 \/ c = 81 \/ c = 82 \/ c = 83 \/ c = 84 \/ c = 85 \/ c = 86 \/ c = 87 \/ c = 88 \/ c = 89 \/ c = 90) by lia.
  repeat (destruct E as [E|E]; [subst c; reflexivity|]). subst c. reflexivity.
Qed.

Lemma to_lower_lower c : 97 <= c <= 122 -> to_lower c = c.
Proof.
  unfold to_lower. intros H.
  assert (E : c = 97 \/ c = 98 \/ c = 99 \/ c = 100 \/ c = 101 \/ c = 102 \/ c = 103 \/ c = 104 \/ c = 105 \/ c = 106 \/ c = 107 \/ c = 108 \/ c = 109 \/ c = 110 \/ c = 111 \/ c = 112 \/ c = 113 \/ c = 114 \/ c = 115 \/ c = 116 \/ c = 117 \/ c = 118 \/ c = 119 \/ c = 120 \/ c = 121 \/ c = 122) by lia.
  repeat (destruct E as [E|E]; [subst c; reflexivity|]). subst c. reflexivity.
Qed.
