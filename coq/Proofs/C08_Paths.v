From Elk Require Import Base.GoSem Model.C06_Int Proofs.C06_Int Proofs.C06_Shift Model.C08_Paths.
Open Scope Z_scope.

(* what the type checker admits on the right of an operator whose left operand is Int/Float:
   Int or Float for arithmetic and comparisons, Int for shifts and bitwise operators *)
Definition right_ok (o : op) (r : value) : bool :=
  match o with
  | OArith _ | OPow | OCmp _ => is_int r || is_float r
  | OShl | OShr | OBit _ => is_int r
  end.

Section Proofs.
  Variable farith : binop -> Z -> Z -> Z.
  Variable fpow : Z -> Z -> Z.
  Variable fcmp : cmpop -> Z -> Z -> bool.
  Variable i2f : Z -> Z.
  Notation generic := (generic farith fpow fcmp i2f).
  Notation typed_int := (typed_int farith fpow fcmp i2f).
  Notation typed_float := (typed_float farith fpow fcmp i2f).
  Notation by_name := (by_name farith fpow fcmp i2f).
  Notation fold := (fold farith fpow fcmp i2f).
  Notation int_val := (int_val farith fpow fcmp i2f).
  Notation float_val := (float_val farith fpow fcmp i2f).
  Notation int_int := (int_int).
  Notation x_ints := (C08_Paths.x_ints).

  Lemma drop_err_noop o x : (forall c, x = Err c -> keeps_err o = true) -> drop_err o x = x.
  Proof. destruct x; simpl; intros H; try reflexivity. rewrite (H code eq_refl). reflexivity. Qed.

  Lemma int_int_err o x y c : C08_Paths.int_int o x y = Err c -> keeps_err o = true.
  Proof.
    destruct o as [a| |cm| | |bo]; simpl; try discriminate.
    - destruct a; simpl; try discriminate; reflexivity.
    - destruct (shifts_no_panic x y) as [[v ->] _]. simpl. discriminate.
    - destruct (shifts_no_panic x y) as [_ [v ->]]. simpl. discriminate.
  Qed.

  Lemma int_val_err o x r c : right_ok o r = true -> int_val o x r = Err c -> keeps_err o = true.
  Proof.
    intros R. destruct r; simpl in *; try (destruct o; discriminate);
      try (apply int_int_err).
    destruct o as [a| |cm| | |bo]; simpl in *; try discriminate.
    destruct cm; discriminate.
  Qed.

  Lemma float_val_err o f r c : has_float_opcode o = true -> right_ok o r = true -> float_val o f r <> Err c.
  Proof.
    intros H R. destruct o as [a| |cm| | |bo]; try discriminate; destruct r; simpl in *; try discriminate;
      destruct cm; discriminate.
  Qed.

  Theorem typed_int_eq o l r :
    is_int l = true -> right_ok o r = true -> typed_int o l r = generic o l r.
  Proof.
    intros L R. destruct l; try discriminate; simpl;
      apply drop_err_noop; intros c; apply int_val_err; exact R.
  Qed.

  Theorem typed_float_eq o l r :
    is_float l = true -> has_float_opcode o = true -> right_ok o r = true ->
    typed_float o l r = generic o l r.
  Proof.
    intros L H R. destruct l; try discriminate. unfold C08_Paths.typed_float. simpl.
    apply drop_err_noop. intros c E. exfalso. exact (float_val_err o bits r c H R E).
  Qed.

  Notation typed := (C08_Paths.typed farith fpow fcmp i2f).

  (* what the compiler actually selects: wrong for `==` on a Float (EQUAL_INT) ... *)
  Theorem typed_refuted : exists o l r,
    is_float l = true /\ has_float_opcode o = true /\ right_ok o r = true /\ typed o l r <> generic o l r.
  Proof.
    exists (OCmp CEq), (VFloat 0), (VFloat 0). repeat split. simpl. discriminate.
  Qed.

  (* ... and right for every other operator / for Int operands *)
  Theorem typed_partial o l r :
    (is_int l || is_float l) = true -> (is_int l = true \/ (has_float_opcode o = true /\ o <> OCmp CEq)) ->
    right_ok o r = true -> typed o l r = generic o l r.
  Proof.
    intros L G R. unfold C08_Paths.typed. destruct (is_int l) eqn:I.
    - apply typed_int_eq; assumption.
    - destruct G as [G|[H N]]; [discriminate|]. simpl in L.
      destruct o as [a| |cm| | |bo]; try discriminate; try (apply typed_float_eq; assumption).
      destruct cm; try (apply typed_float_eq; assumption). exfalso. apply N. reflexivity.
  Qed.

  Theorem fold_eq o l r v : fold o l r = Some v <-> generic o l r = Ok v.
  Proof.
    unfold C08_Paths.fold. destruct (generic o l r); split; intros H; try discriminate; congruence.
  Qed.

  Theorem fold_declines o l r : fold o l r = None <-> (forall v, generic o l r <> Ok v).
  Proof.
    unfold C08_Paths.fold. destruct (generic o l r); split; intros H; try discriminate; try reflexivity;
      try (intros v; discriminate). exfalso. exact (H a eq_refl).
  Qed.

  Theorem by_name_eq o l r :
    (is_int l || is_float l) = true -> right_ok o r = true -> by_name o l r = generic o l r.
  Proof.
    intros L R. destruct l; try discriminate; destruct r; simpl in R; try discriminate;
      destruct o as [a| |cm| | |bo]; simpl in *; try discriminate; try reflexivity;
      destruct cm; reflexivity.
  Qed.

  (* the Int-only helpers value.XInts (behind the statically bound overload Int#op@1 and the Go
     backend's typed Int code) compute what the generic instruction computes, for every operator *)
  Theorem static_overload_eq o l r :
    is_int l = true -> is_int r = true -> x_ints o l r = generic o l r.
  Proof.
    intros L R. destruct l; try discriminate; destruct r; try discriminate; reflexivity.
  Qed.

  (* and conversely they are defined on Ints only: anything else on the right is a wild pointer *)
  Lemma x_ints_needs_int o l r v : is_int l = true -> x_ints o l r = Ok v -> is_int r = true.
  Proof.
    intros L. destruct l; try discriminate; destruct r; simpl; try reflexivity;
      unfold C08_Paths.x_ints, small_x_int, big_x_int, x_int; simpl; discriminate.
  Qed.
End Proofs.
