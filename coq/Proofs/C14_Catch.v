(* C14 — proofs about catch-entry lookup. *)
From Coq Require Import ZArith List Bool Lia ZifyBool.
From Elk Require Import Model.C14_Catch.
Import ListNotations.
Open Scope Z_scope.

Lemma lookup_in : forall kind ip tbl e,
  lookup kind ip tbl = Some e -> In e tbl /\ e_fin e = kind /\ covers e ip = true.
Proof.
  induction tbl as [|a r IH]; cbn [lookup]; intros e H; [discriminate|].
  destruct (Bool.eqb (e_fin a) kind && covers a ip) eqn:E.
  - inversion H; subst. apply andb_true_iff in E as [E1 E2].
    apply eqb_prop in E1. auto with datatypes.
  - destruct (IH _ H) as (? & ? & ?). auto with datatypes.
Qed.

Lemma lookup_none : forall kind ip tbl,
  lookup kind ip tbl = None -> forall e, In e tbl -> e_fin e = kind -> covers e ip = false.
Proof.
  induction tbl as [|a r IH]; cbn [lookup]; intros H e Hin Hk; [destruct Hin|].
  destruct (Bool.eqb (e_fin a) kind && covers a ip) eqn:E; [discriminate|].
  destruct Hin as [<-|Hin].
  - rewrite Hk, eqb_reflx in E. exact E.
  - eauto.
Qed.

Lemma cover_nested : forall a b ip,
  covers a ip = true -> covers b ip = true -> laminar_pair a b = true ->
  incl_b a b = true \/ incl_b b a = true.
Proof.
  unfold covers, laminar_pair, incl_b, disjoint_b. intros a b ip Ha Hb Hl.
  destruct (e_from b <=? e_from a) eqn:E1, (e_to a <=? e_to b) eqn:E2,
           (e_from a <=? e_from b) eqn:E3, (e_to b <=? e_to a) eqn:E4; cbn; auto; lia.
Qed.

(* first match = innermost enclosing entry of the wanted kind *)
Lemma first_match_innermost : forall kind ip tbl e,
  laminar tbl = true -> post_order tbl = true ->
  lookup kind ip tbl = Some e ->
  In e tbl /\ e_fin e = kind /\ covers e ip = true /\
  forall e', In e' tbl -> e_fin e' = kind -> covers e' ip = true -> incl_b e e' = true.
Proof.
  induction tbl as [|a r IH]; cbn [lookup laminar post_order]; intros e HL HP H; [discriminate|].
  apply andb_true_iff in HL as [HL1 HL2]. apply andb_true_iff in HP as [HP1 HP2].
  destruct (Bool.eqb (e_fin a) kind && covers a ip) eqn:E.
  - inversion H; subst a. apply andb_true_iff in E as [E1 E2]. apply eqb_prop in E1.
    repeat split; auto with datatypes.
    intros e' [<-|Hin] Hk Hc.
    + unfold incl_b. lia.
    + rewrite forallb_forall in HL1, HP1. specialize (HL1 _ Hin). specialize (HP1 _ Hin).
      destruct (cover_nested _ _ _ E2 Hc HL1) as [Hi|Hi]; [exact Hi|].
      unfold po_pair in HP1. rewrite Hi in HP1. exact HP1.
  - destruct (IH _ HL2 HP2 H) as (Hin & Hk & Hc & Hmin).
    repeat split; auto with datatypes.
    intros e' [<-|Hin'] Hk' Hc'.
    + rewrite Hk', eqb_reflx, Hc' in E. discriminate.
    + auto.
Qed.

Lemma lookup_none_iff : forall kind ip tbl,
  lookup kind ip tbl = None <->
  (forall e, In e tbl -> e_fin e = kind -> covers e ip = false).
Proof.
  split; [apply lookup_none|].
  induction tbl as [|a r IH]; cbn [lookup]; intros H; [reflexivity|].
  destruct (Bool.eqb (e_fin a) kind && covers a ip) eqn:E.
  - apply andb_true_iff in E as [E1 E2]. apply eqb_prop in E1.
    rewrite (H a) in E2; auto with datatypes. discriminate.
  - apply IH. intros; apply H; auto with datatypes.
Qed.

(* the +4 skip lands on the instruction after `NIL; JUMP hi lo` exactly when the entry has that shape *)
Lemma finally_entry_offsets : forall opn opj code j,
  after_nil_jump opn opj code j = Some (j + 4)%nat <->
  (nth j code (-1) = opn /\ nth (j + 1) code (-1) = opj).
Proof.
  unfold after_nil_jump. intros. split.
  - destruct (nth j code (-1) =? opn) eqn:E1, (nth (j + 1) code (-1) =? opj) eqn:E2;
      cbn; intros H; try discriminate. split; lia.
  - intros [-> ->]. rewrite !Z.eqb_refl. cbn. f_equal. lia.
Qed.
