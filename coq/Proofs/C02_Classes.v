(* C02 - classes / is-a / instance-of narrowing: proofs about Model/C02_Classes.v *)
From Coq Require Import ZArith List Bool Lia.
From Elk Require Import Model.C02_Classes.
Import ListNotations.
Open Scope Z_scope.

(* ---------------------------------------------------------------- environments *)
Lemma klookup_kset_same : forall x t (G : kenv) u,
  klookup x G = Some u -> klookup x (kset x t G) = Some t.
Proof.
  induction G as [|[y w] G IH]; intros u H; cbn in *; [discriminate|].
  destruct (y =? x) eqn:E; cbn; rewrite E; [reflexivity|]. eapply IH; eauto.
Qed.

Lemma klookup_kset_other : forall x y t (G : kenv),
  (y =? x) = false -> klookup y (kset x t G) = klookup y G.
Proof.
  induction G as [|[z w] G IH]; intros H; cbn in *; [reflexivity|].
  destruct (z =? x) eqn:E; cbn.
  - destruct (z =? y) eqn:E2; [|reflexivity].
    apply Z.eqb_eq in E, E2. subst. rewrite Z.eqb_refl in H. discriminate.
  - destruct (z =? y) eqn:E2; [reflexivity|]. apply IH; exact H.
Qed.

Lemma kenv_ok_kset : forall ct G r x t v,
  kenv_ok ct G r -> klookup x r = Some v -> kmem ct t v = true ->
  kenv_ok ct (kset x t G) r.
Proof.
  intros ct G r x t v Hok Hv Hm y u Hy.
  destruct (y =? x) eqn:E.
  - apply Z.eqb_eq in E. subst y.
    destruct (klookup x G) as [w|] eqn:Hg.
    + rewrite (klookup_kset_same x t G w Hg) in Hy. inversion Hy; subst. eauto.
    + assert (Hn : klookup x (kset x t G) = None).
      { clear -Hg. induction G as [|[z w] G IH]; cbn in *; [reflexivity|].
        destruct (z =? x) eqn:E; [discriminate|]. cbn. rewrite E. apply IH; exact Hg. }
      rewrite Hn in Hy. discriminate.
  - rewrite klookup_kset_other in Hy by exact E. apply Hok; exact Hy.
Qed.

(* ---------------------------------------------------------------- the four operators *)
(* fx = true, or no value is an instance of a proper subclass of an instance-of operand *)
Definition okfx (fx : bool) (ct : ctable) (r : krt) (ops : list cls) : Prop :=
  fx = true \/ no_proper_sub ct r ops.

Lemma okfx_incl : forall fx ct r ops ops',
  okfx fx ct r ops -> incl ops' ops -> okfx fx ct r ops'.
Proof.
  intros fx ct r ops ops' [H|H] Hi; [left; exact H|right].
  intros x d c Hx Hc Hs. eapply H; eauto.
Qed.

Lemma okfx_l : forall fx ct r a b, okfx fx ct r (a ++ b) -> okfx fx ct r a.
Proof. intros. eapply okfx_incl; [eassumption|]. apply incl_appl, incl_refl. Qed.

Lemma okfx_r : forall fx ct r a b, okfx fx ct r (a ++ b) -> okfx fx ct r b.
Proof. intros. eapply okfx_incl; [eassumption|]. apply incl_appr, incl_refl. Qed.

Lemma sub_cls_refl : forall ct c, sub_cls ct c c = true.
Proof. intros. unfold sub_cls. destruct (length ct); cbn; rewrite Z.eqb_refl; reflexivity. Qed.

Lemma narrow_tok_sound : forall fx ct r o x c cur v,
  okfx fx ct r (instof_ops_c (CTest o x c)) ->
  klookup x r = Some v ->
  kmem ct cur v = true ->
  kmem ct (narrow_tok fx o (test_val ct o v c) c cur) v = true.
Proof.
  intros fx ct r o x c cur v Hfx Hx Hm.
  destruct v as [d|].
  - destruct o; cbn [narrow_tok test_val narrow_isa narrow_instof instof_ops_c] in *.
    + destruct (sub_cls ct d c) eqn:E; cbn; [exact E|]. rewrite Hm, E. reflexivity.
    + destruct (sub_cls ct d c) eqn:E; cbn; [exact E|]. rewrite Hm, E. reflexivity.
    + destruct (d =? c) eqn:E; cbn; [exact E|]. rewrite Hm. cbn.
      destruct fx; cbn; [rewrite E; reflexivity|].
      destruct Hfx as [Hf|Hn]; [discriminate|].
      destruct (sub_cls ct d c) eqn:Es; [|reflexivity].
      assert (d = c) by (eapply Hn; eauto; left; reflexivity).
      subst. rewrite Z.eqb_refl in E. discriminate.
    + destruct (d =? c) eqn:E; cbn; [exact E|]. rewrite Hm. cbn.
      destruct fx; cbn; [rewrite E; reflexivity|].
      destruct Hfx as [Hf|Hn]; [discriminate|].
      destruct (sub_cls ct d c) eqn:Es; [|reflexivity].
      assert (d = c) by (eapply Hn; eauto; left; reflexivity).
      subst. rewrite Z.eqb_refl in E. discriminate.
  - destruct o; cbn; rewrite Hm; destruct fx; reflexivity.
Qed.

(* ---------------------------------------------------------------- conditions *)
Lemma narrow_c_ok : forall fx ct r k G pos b,
  okfx fx ct r (instof_ops_c k) ->
  kenv_ok ct G r ->
  eval_c ct r k = Some b ->
  pos = b ->
  kenv_ok ct (narrow_c fx G k pos) r.
Proof.
  intros fx ct r k. induction k as [o x c|k IH|a IHa b0 IHb|a IHa b0 IHb]; intros G pos b Hfx Hok He Hp; subst pos.
  - cbn in He |- *. destruct (klookup x r) as [v|] eqn:Hv; [|discriminate].
    inversion He; subst b; clear He.
    destruct (klookup x G) as [cur|] eqn:Hg; [|exact Hok].
    destruct (Hok x cur Hg) as [v' [Hv' Hm]]. rewrite Hv in Hv'. inversion Hv'; subst v'.
    apply (kenv_ok_kset ct G r x _ v Hok Hv).
    apply (narrow_tok_sound fx ct r o x c cur v Hfx Hv Hm).
  - cbn in He |- *. destruct (eval_c ct r k) as [b1|] eqn:E; [|discriminate].
    inversion He; subst b. cbn in Hfx.
    apply (IH G (negb (negb b1)) b1 Hfx Hok eq_refl (negb_involutive b1)).
  - cbn in He |- *. cbn in Hfx.
    assert (Ha : okfx fx ct r (instof_ops_c a)) by (eapply okfx_l; eassumption).
    assert (Hb : okfx fx ct r (instof_ops_c b0)) by (eapply okfx_r; eassumption).
    destruct b; [|exact Hok].
    destruct (eval_c ct r a) as [[|]|] eqn:Ea; try discriminate.
    eapply IHb; eauto.
  - cbn in He |- *. cbn in Hfx.
    assert (Ha : okfx fx ct r (instof_ops_c a)) by (eapply okfx_l; eassumption).
    assert (Hb : okfx fx ct r (instof_ops_c b0)) by (eapply okfx_r; eassumption).
    destruct b; [exact Hok|].
    destruct (eval_c ct r a) as [[|]|] eqn:Ea; try discriminate.
    eapply IHb; eauto.
Qed.

(* ---------------------------------------------------------------- statements *)
Lemma klog_ok_app : forall ct a b, klog_ok ct (a ++ b) = klog_ok ct a && klog_ok ct b.
Proof. intros. unfold klog_ok. apply forallb_app. Qed.

Lemma krun_sound : forall fx ct r s G lg,
  okfx fx ct r (instof_ops s) ->
  kenv_ok ct G r ->
  krun fx ct G r s = Some lg ->
  klog_ok ct lg = true.
Proof.
  intros fx ct r s. induction s as [|a IHa b IHb|k x|c a IHa b IHb]; intros G lg Hfx Hok Hr; cbn in Hr.
  - inversion Hr; reflexivity.
  - cbn in Hfx.
    destruct (krun fx ct G r a) as [la|] eqn:Ea; [|discriminate].
    destruct (krun fx ct G r b) as [lb|] eqn:Eb; [|discriminate].
    inversion Hr; subst lg. rewrite klog_ok_app.
    rewrite (IHa G la (okfx_l _ _ _ _ _ Hfx) Hok Ea), (IHb G lb (okfx_r _ _ _ _ _ Hfx) Hok Eb). reflexivity.
  - destruct (klookup x G) as [t|] eqn:Eg; [|discriminate].
    destruct (klookup x r) as [v|] eqn:Ev; [|discriminate].
    inversion Hr; subst lg. cbn.
    destruct (Hok x t Eg) as [v' [Hv' Hm]]. rewrite Ev in Hv'. inversion Hv'; subst v'.
    rewrite Hm. reflexivity.
  - cbn in Hfx.
    assert (Hc : okfx fx ct r (instof_ops_c c)) by (eapply okfx_l; eassumption).
    assert (Ha : okfx fx ct r (instof_ops a)).
    { eapply okfx_l. eapply okfx_r. eassumption. }
    assert (Hb : okfx fx ct r (instof_ops b)).
    { eapply okfx_r. eapply okfx_r. eassumption. }
    destruct (eval_c ct r c) as [[|]|] eqn:Ec; [| |discriminate].
    + eapply IHa; [exact Ha| |exact Hr]. eapply narrow_c_ok; eauto.
    + eapply IHb; [exact Hb| |exact Hr]. eapply narrow_c_ok; eauto.
Qed.

(* every executed probe carries the static type the annotation pass computed for it *)
Lemma krun_types_annot : forall fx ct r s G lg,
  krun fx ct G r s = Some lg ->
  incl (map fst lg) (kannot fx G s).
Proof.
  intros fx ct r s. induction s as [|a IHa b IHb|k x|c a IHa b IHb]; intros G lg Hr; cbn in Hr |- *.
  - inversion Hr. apply incl_refl.
  - destruct (krun fx ct G r a) as [la|] eqn:Ea; [|discriminate].
    destruct (krun fx ct G r b) as [lb|] eqn:Eb; [|discriminate].
    inversion Hr; subst lg. rewrite map_app. apply incl_app.
    + apply incl_appl. eapply IHa; eauto.
    + apply incl_appr. eapply IHb; eauto.
  - destruct (klookup x G) as [t|]; [|discriminate].
    destruct (klookup x r) as [v|]; [|discriminate].
    inversion Hr. cbn. apply incl_refl.
  - destruct (eval_c ct r c) as [[|]|]; [| |discriminate].
    + apply incl_appl. eapply IHa; eauto.
    + apply incl_appr. eapply IHb; eauto.
Qed.

(* ---------------------------------------------------------------- static binding *)
Lemma parent_has_child : forall ct d p, parent_of ct d = Some p -> has_child ct p = true.
Proof.
  unfold has_child. induction ct as [|[e q] ct IH]; intros d p H; cbn in *; [discriminate|].
  destruct (e =? d).
  - inversion H; subst. rewrite Z.eqb_refl. reflexivity.
  - rewrite (IH d p H). apply orb_true_r.
Qed.

Lemma is_sub_leaf : forall ct c fuel d,
  has_child ct c = false -> is_sub fuel ct d c = true -> d = c.
Proof.
  intros ct c fuel. induction fuel as [|f IH]; intros d Hc H; cbn in H.
  - rewrite orb_false_r in H. apply Z.eqb_eq; exact H.
  - destruct (d =? c) eqn:E; [apply Z.eqb_eq; exact E|]. cbn in H.
    destruct (parent_of ct d) as [p|] eqn:Ep; [|discriminate].
    assert (p = c) by (apply IH; auto). subst p.
    rewrite (parent_has_child ct d c Ep) in Hc. discriminate.
Qed.

Lemma static_target_sound : forall ct t c v,
  static_target ct t = Some c -> kmem ct t v = true -> v = VObj c.
Proof.
  intros ct t c v Hs Hm. destruct t; cbn in Hs; try discriminate.
  - destruct (has_child ct c0) eqn:E; [discriminate|]. inversion Hs; subst c0.
    cbn in Hm. destruct v as [d|]; [|discriminate].
    f_equal. eapply is_sub_leaf; eauto.
  - inversion Hs; subst c0. cbn in Hm. destruct v as [d|]; [|discriminate].
    apply Z.eqb_eq in Hm. subst. reflexivity.
Qed.
