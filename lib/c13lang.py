"""Small closure language shared by checks/C10.py and checks/C13.py.

  gen_program(rng, profile) -> AST     seeded random program (vlib.SplitMix)
  to_elk(ast)               -> Elk source text
  interp(ast)               -> expected stdout, by a reference interpreter with STORE semantics:
                               every variable instance is a cell (a one-element list), closures
                               hold the cells of the variables they mention, every block/loop
                               iteration creates fresh instances.  This is the program-level
                               counterpart of `sstep` in coq/Model/C10_Stack.v (cells, handles,
                               fresh cell per instance); it knows nothing about stacks.

AST (tuples)
  expr: ('num',n) ('var',x) ('bin',op,a,b) ('cmp',op,a,b) ('call',fexpr,[args]) ('mcall',name,[args])
        ('idx',fs,iexpr) ('len',fs) ('lam',[params],[stmts],result_expr)
  stmt: ('decl',x,e) ('declf',f,kind,lam) ('declrec',f,lam) ('decll',fs) ('push',fs,e) ('set',x,e) ('aug',x,op,e)
        ('print',e) ('expr',e) ('if',c,[then],[else]) ('while',kind,c,[body]) ('loop',[body])
        ('fornum',i,a,b,[body]) ('forin',k,a,b,[body]) ('forlist',k,[exprs],[body]) ('breakif',c[,label])
        ('contif',c[,label]) ('label',name,loopstmt) ('retif',c,e) ('drain',fs,n)
        ('doblock',[stmts])                      plain `do ... end` block scope
        ('trycall',x,fname,[args],[catch stmts]) do; x = fname(args); catch :boom; ...; end  -- fname is one of the
                                                 THROWERS (error thrown 1..n call frames below the catching frame)
  program: {'defs': [('def',name,[(p,type)],rettype,[stmts],result_expr)], 'main': [stmts]}
  types: 'Int', 'F0' (||: Int), 'F1' (|a: Int|: Int), 'L' (List[||: Int])
"""

TY = {'Int': 'Int', 'F0': '||: Int', 'F1': '|a: Int|: Int', 'L': 'List[||: Int]'}

# ------------------------------------------------------------------ printer

def pe(e):
    k = e[0]
    if k == 'num':
        return str(e[1]) if e[1] >= 0 else '(0 - %d)' % (-e[1])
    if k == 'var':
        return e[1]
    if k in ('bin', 'cmp'):
        return '(%s %s %s)' % (pe(e[2]), e[1], pe(e[3]))
    if k == 'call':
        return '%s.(%s)' % (pe(e[1]), ', '.join(pe(a) for a in e[2]))
    if k == 'mcall':
        return '%s(%s)' % (e[1], ', '.join(pe(a) for a in e[2]))
    if k == 'idx':
        return '%s[%s]' % (e[1], pe(e[2]))
    if k == 'len':
        return '%s.length' % e[1]
    if k == 'lam':
        raise ValueError('lam printed through plam')
    raise ValueError(k)


def plam(e, ind):
    _, params, body, res = e
    head = '|%s|: Int ->' % ', '.join('%s: Int' % p for p in params)
    lines = [head]
    lines += pblock(body, ind + 1)
    lines.append('  ' * (ind + 1) + pe(res))
    lines.append('  ' * ind + 'end')
    return '\n'.join(lines)


def pval(e, ind):
    return plam(e, ind) if e[0] == 'lam' else pe(e)


def pblock(stmts, ind):
    out = []
    p = '  ' * ind
    for s in stmts:
        k = s[0]
        if k == 'decl':
            out.append('%s%s := %s' % (p, s[1], pe(s[2])))
        elif k == 'declf':
            out.append('%s%s := %s' % (p, s[1], pval(s[3], ind)))
        elif k == 'declrec':
            lam = s[2]
            ty = '|%s|: Int' % ', '.join('%s: Int' % q for q in lam[1])
            out.append('%svar %s: %s = |%s|: Int -> 0' % (p, s[1], ty, ', '.join('%s: Int' % q for q in lam[1])))
            out.append('%s%s = %s' % (p, s[1], plam(lam, ind)))
        elif k == 'decll':
            out.append('%svar %s: List[||: Int] = []' % (p, s[1]))
        elif k == 'push':
            out.append('%s%s << %s' % (p, s[1], pval(s[2], ind)))
        elif k == 'set':
            out.append('%s%s = %s' % (p, s[1], pe(s[2])))
        elif k == 'aug':
            out.append('%s%s %s= %s' % (p, s[1], s[2], pe(s[3])))
        elif k == 'print':
            out.append('%sprintln(%s.inspect)' % (p, pe(s[1])))
        elif k == 'expr':
            out.append('%s%s' % (p, pe(s[1])))
        elif k == 'if':
            out.append('%sif %s' % (p, pe(s[1])))
            out += pblock(s[2], ind + 1)
            if s[3]:
                out.append(p + 'else')
                out += pblock(s[3], ind + 1)
            out.append(p + 'end')
        elif k == 'while':
            kind = s[1]
            if kind in ('while', 'until'):
                out.append('%s%s %s' % (p, kind, pe(s[2])))
                out += pblock(s[3], ind + 1)
                out.append(p + 'end')
            else:
                out.append(p + 'do')
                out += pblock(s[3], ind + 1)
                out.append('%send %s %s' % (p, 'while' if kind == 'dowhile' else 'until', pe(s[2])))
        elif k == 'loop':
            out.append(p + 'loop')
            out += pblock(s[1], ind + 1)
            out.append(p + 'end')
        elif k == 'fornum':
            out.append('%sfornum %s := %s; %s <= %s; %s += 1' % (p, s[1], pe(s[2]), s[1], pe(s[3]), s[1]))
            out += pblock(s[4], ind + 1)
            out.append(p + 'end')
        elif k == 'forin':
            out.append('%sfor %s in %s...%s' % (p, s[1], pe(s[2]), pe(s[3])))
            out += pblock(s[4], ind + 1)
            out.append(p + 'end')
        elif k == 'forlist':
            out.append('%sfor %s in [%s]' % (p, s[1], ', '.join(pe(x) for x in s[2])))
            out += pblock(s[3], ind + 1)
            out.append(p + 'end')
        elif k == 'label':
            inner = pblock([s[2]], ind)
            inner[0] = '%s$%s: %s' % (p, s[1], inner[0][len(p):])
            out += inner
        elif k == 'breakif':
            out.append('%sbreak%s if %s' % (p, '[%s]' % s[2] if len(s) > 2 and s[2] else '', pe(s[1])))
        elif k == 'contif':
            out.append('%scontinue%s if %s' % (p, '[%s]' % s[2] if len(s) > 2 and s[2] else '', pe(s[1])))
        elif k == 'retif':
            out.append('%sreturn %s if %s' % (p, pe(s[2]), pe(s[1])))
        elif k == 'doblock':
            out.append(p + 'do')
            out += pblock(s[1], ind + 1)
            out.append(p + 'end')
        elif k == 'trycall':
            out.append(p + 'do')
            out.append('%s  %s = %s(%s)' % (p, s[1], s[2], ', '.join(pe(a) for a in s[3])))
            out.append(p + 'catch :boom')
            out += pblock(s[4], ind + 1)
            out.append(p + 'end')
        elif k == 'drain':
            n = s[2]
            out.append('%s%s := 0' % (p, n))
            out.append('%swhile %s < %s.length' % (p, n, s[1]))
            out.append('%s  println(%s[%s].().inspect)' % (p, s[1], n))
            out.append('%s  %s += 1' % (p, n))
            out.append(p + 'end')
        else:
            raise ValueError(k)
    return out


def to_elk(prog):
    out = []
    for d in prog['defs']:
        _, name, params, ret, body, res = d
        out.append('def %s(%s): %s' % (name, ', '.join('%s: %s' % (a, TY[t]) for a, t in params), TY[ret]))
        out += pblock(body, 1)
        out.append('  ' + pval(res, 1))
        out.append('end')
    out += pblock(prog['main'], 0)
    return '\n'.join(out) + '\n'


# ------------------------------------------------------------------ reference interpreter (cells)

class Brk(Exception):
    def __init__(self, label=None):
        self.label = label


class Cont(Exception):
    def __init__(self, label=None):
        self.label = label


class Ret(Exception):
    def __init__(self, v):
        self.v = v


class Fuel(Exception):
    pass


class Boom(Exception):
    """the Elk error :boom travelling up the call frames"""
    pass


THROW_LIMIT = 5   # thr1(n) throws :boom when n > THROW_LIMIT


class Interp:
    def __init__(self, prog, fuel=2_000_000, maxdepth=900):
        self.defs = {d[1]: d for d in prog['defs']}
        self.prog = prog
        self.out = []
        self.fuel = fuel
        self.depth = 0
        self.maxdepth_seen = 0
        self.maxdepth = maxdepth
        self.labels = []

    def tick(self):
        self.fuel -= 1
        if self.fuel < 0:
            raise Fuel()

    def look(self, env, x):
        for sc in reversed(env):
            if x in sc:
                return sc[x]
        raise KeyError(x)

    def ev(self, e, env):
        self.tick()
        k = e[0]
        if k == 'num':
            return e[1]
        if k == 'var':
            return self.look(env, e[1])[0]
        if k == 'bin':
            a = self.ev(e[2], env)
            b = self.ev(e[3], env)
            return a + b if e[1] == '+' else (a - b if e[1] == '-' else a * b)
        if k == 'cmp':
            a = self.ev(e[2], env)
            b = self.ev(e[3], env)
            return {'<': a < b, '<=': a <= b, '==': a == b, '>': a > b, '>=': a >= b}[e[1]]
        if k == 'lam':
            return ('clo', e[1], e[2], e[3], list(env))
        if k == 'call':
            f = self.ev(e[1], env)
            args = [self.ev(a, env) for a in e[2]]
            return self.apply(f, args)
        if k == 'mcall':
            args = [self.ev(a, env) for a in e[2]]
            d = self.defs[e[1]]
            sc = {p: [v] for (p, _), v in zip(d[2], args)}
            return self.body([sc], d[4], d[5])
        if k == 'idx':
            lst = self.look(env, e[1])[0]
            return lst[self.ev(e[2], env)]
        if k == 'len':
            return len(self.look(env, e[1])[0])
        raise ValueError(k)

    def thrower(self, name, args):
        """thr1(n) = n, throws :boom when n > THROW_LIMIT; thr2 = thr1 + 1; thr3 = thr2 + 1 (the error crosses 1, 2, 3
        frames); thrd(n, d) = thr1(n) + d through d + 1 frames (the innermost call is a tail call)"""
        self.tick()
        n = args[0]
        if n > THROW_LIMIT:
            raise Boom()
        return n + {'thr1': 0, 'thr2': 1, 'thr3': 2}[name] if name != 'thrd' else n + max(args[1], 0)

    def body(self, env, stmts, res):
        self.depth += 1
        self.maxdepth_seen = max(self.maxdepth_seen, self.depth)
        if self.depth > self.maxdepth:
            raise Fuel()
        try:
            self.block(stmts, env)
            return self.ev(res, env)
        except Ret as r:
            return r.v
        finally:
            self.depth -= 1

    def apply(self, f, args):
        _, params, body, res, cenv = f
        sc = {p: [v] for p, v in zip(params, args)}
        return self.body(cenv + [sc], body, res)

    def block(self, stmts, env):
        for s in stmts:
            self.st(s, env)

    def take_label(self):
        """label of the loop statement being entered (set by an enclosing ('label',...) wrapper)"""
        if self.labels and self.labels[-1] is not None:
            lab = self.labels[-1]
            self.labels[-1] = None
            return lab
        return None

    def iteration(self, stmts, env, lab):
        """one loop iteration in fresh scopes; True = leave the loop"""
        try:
            self.block(stmts, env)
        except Brk as b:
            if b.label is None or b.label == lab:
                return True
            raise
        except Cont as c:
            if c.label is None or c.label == lab:
                return False
            raise
        return False

    def st(self, s, env):
        self.tick()
        k = s[0]
        sc = env[-1]
        if k == 'decl':
            sc[s[1]] = [self.ev(s[2], env)]
        elif k == 'declf':
            sc[s[1]] = [self.ev(s[3], env)]
        elif k == 'declrec':
            cell = [None]
            sc[s[1]] = cell
            cell[0] = self.ev(s[2], env)
        elif k == 'decll':
            sc[s[1]] = [[]]
        elif k == 'push':
            self.look(env, s[1])[0].append(self.ev(s[2], env))
        elif k == 'set':
            v = self.ev(s[2], env)
            self.look(env, s[1])[0] = v
        elif k == 'aug':
            c = self.look(env, s[1])
            a = c[0]
            b = self.ev(s[3], env)
            c[0] = a + b if s[2] == '+' else (a - b if s[2] == '-' else a * b)
        elif k == 'print':
            self.out.append(str(self.ev(s[1], env)))
        elif k == 'expr':
            self.ev(s[1], env)
        elif k == 'if':
            if self.ev(s[1], env):
                self.block(s[2], env + [{}])
            else:
                self.block(s[3], env + [{}])
        elif k == 'label':
            self.labels.append(s[1])
            try:
                self.st(s[2], env)
            finally:
                self.labels.pop()
        elif k == 'while':
            lab = self.take_label()
            kind = s[1]
            first = kind in ('dowhile', 'dountil')
            while True:
                if not first:
                    c = self.ev(s[2], env)
                    if kind in ('until', 'dountil'):
                        c = not c
                    if not c:
                        break
                first = False
                if self.iteration(s[3], env + [{}], lab):
                    break
        elif k == 'loop':
            lab = self.take_label()
            while True:
                if self.iteration(s[1], env + [{}], lab):
                    break
        elif k == 'fornum':
            lab = self.take_label()
            cell = [self.ev(s[2], env)]
            while True:
                isc = {s[1]: cell}
                if not (cell[0] <= self.ev(s[3], env + [isc])):
                    break
                if self.iteration(s[4], env + [isc, {}], lab):
                    break
                cell = [cell[0]]      # the next iteration gets its own instance (copy)
                cell[0] += 1          # the increment runs on the new instance
        elif k == 'forin':
            lab = self.take_label()
            a = self.ev(s[2], env)
            b = self.ev(s[3], env)
            for v in range(a, b + 1):
                if self.iteration(s[4], env + [{s[1]: [v]}, {}], lab):
                    break
        elif k == 'forlist':
            lab = self.take_label()
            vals = [self.ev(x, env) for x in s[2]]
            for v in vals:
                if self.iteration(s[3], env + [{s[1]: [v]}, {}], lab):
                    break
        elif k == 'breakif':
            if self.ev(s[1], env):
                raise Brk(s[2] if len(s) > 2 else None)
        elif k == 'contif':
            if self.ev(s[1], env):
                raise Cont(s[2] if len(s) > 2 else None)
        elif k == 'retif':
            if self.ev(s[1], env):
                raise Ret(self.ev(s[2], env))
        elif k == 'doblock':
            self.block(s[1], env + [{}])
        elif k == 'trycall':
            try:
                v = self.thrower(s[2], [self.ev(a, env) for a in s[3]])
                self.look(env, s[1])[0] = v
            except Boom:
                self.block(s[4], env + [{}])
        elif k == 'drain':
            lst = self.look(env, s[1])[0]
            i = 0
            while i < len(lst):
                self.out.append(str(self.apply(lst[i], [])))
                i += 1
        else:
            raise ValueError(k)

    def run(self):
        import sys
        old = sys.getrecursionlimit()
        sys.setrecursionlimit(max(old, 40000))
        try:
            self.block(self.prog['main'], [{}])
        finally:
            sys.setrecursionlimit(old)
        return ''.join(x + '\n' for x in self.out)


def interp(prog):
    """returns (expected stdout, max call depth) or (None, reason) when the program is too big"""
    it = Interp(prog)
    try:
        return it.run(), it.maxdepth_seen
    except (Fuel, RecursionError, ValueError, OverflowError):
        # ValueError: an integer with more than 4300 digits was printed (program skipped as too big)
        return None, 'fuel'


# ------------------------------------------------------------------ generator

class Scope:
    def __init__(self, parent=None):
        self.parent = parent
        self.v = {'Int': [], 'RO': [], 'F0': [], 'F1': [], 'L': []}

    def all(self, t):
        s = self
        r = []
        while s is not None:
            r += s.v[t]
            s = s.parent
        return r

    def add(self, t, x):
        self.v[t].append(x)


class Gen:
    def __init__(self, rng, profile):
        self.r = rng
        self.profile = profile
        self.n = 0
        self.features = set()
        self.v3 = profile.endswith('c')      # third generation ('c13c', 'c10c'): v2 + errors unwinding call frames
        #                                      under live captured variables + labelled exits from inner loops after
        #                                      captures in intermediate block scopes
        self.v2 = profile.endswith('b') or self.v3   # second-generation shapes (profiles 'c13b', 'c10b'); the
        self.base = profile.rstrip('bc')     # old profiles keep generating the same programs per seed
        self.deep_budget = 3 if self.base == 'c10' else 2
        self.loop_labels = []                # labels of the enclosing labelled loops (v2)

    def fresh(self, p):
        self.n += 1
        return '%s%d' % (p, self.n)

    # ---- expressions (Int)
    def expr(self, sc, d=0, calls=True):
        r = self.r
        ints = sc.all('Int') + sc.all('RO')
        c = r.below(10)
        if d >= 2 or c < 2:
            if ints and r.chance(3, 4):
                return ('var', r.choice(ints))
            return ('num', r.range(0, 9))
        if c < 6:
            op = r.choice(['+', '+', '-', '*'])
            a = self.expr(sc, d + 1, calls)
            b = ('num', r.range(2, 3)) if op == '*' else self.expr(sc, d + 1, calls)
            return ('bin', op, a, b)
        if calls and c < 8 and sc.all('F0'):
            self.features.add('call_in_expr')
            return ('call', ('var', r.choice(sc.all('F0'))), [])
        if calls and c < 9 and sc.all('F1'):
            self.features.add('call_in_expr')
            return ('call', ('var', r.choice(sc.all('F1'))), [self.expr(sc, d + 1, False)])
        if ints:
            return ('var', r.choice(ints))
        return ('num', r.range(0, 9))

    def cond(self, sc):
        return ('cmp', self.r.choice(['<', '<=', '==', '>']), self.expr(sc, 1, False), ('num', self.r.range(0, 12)))

    def lam(self, sc, nparams, depth):
        inner = Scope(sc)
        params = [self.fresh('a') for _ in range(nparams)]
        for p in params:
            inner.add('RO', p)
        # make sure a captured variable is written or read
        first = []
        ints = sc.all('Int')
        if ints and self.r.chance(2, 3):
            x = self.r.choice(ints)
            first.append(('aug', x, self.r.choice(['+', '-']), self.expr(inner, 1, False)))
            self.features.add('write_captured')
        saved, self.loop_labels = self.loop_labels, []    # labels do not cross a closure boundary
        try:
            body = first + self.block(inner, depth + 1, self.r.range(0, 3), in_loop=False, in_lam=True)
        finally:
            self.loop_labels = saved
        res = self.expr(inner, 0, depth < 2)
        return ('lam', params, body, res)

    # ---- statements
    def block(self, sc, depth, n, in_loop, in_lam):
        out = []
        for _ in range(n):
            out += self.stmt(sc, depth, in_loop, in_lam)
        return out

    def loop(self, sc, depth, in_lam):
        r = self.r
        if self.v2:
            return self.loop2(sc, depth, in_lam)
        kind = r.choice(['while', 'until', 'dowhile', 'dountil', 'loop', 'fornum', 'forin'])
        self.features.add('loop_' + kind)
        cnt = r.range(1, 4)
        body_sc = Scope(sc)
        pre = []
        if kind in ('fornum', 'forin'):
            v = self.fresh('i')
            body_sc.add('Int' if kind == 'fornum' and r.chance(1, 2) else 'RO', v)
            body = self.loop_body(body_sc, depth, in_lam, v)
            lo = r.range(0, 3)
            s = (kind, v, ('num', lo), ('num', lo + cnt - 1), body)
            return [s]
        c = self.fresh('c')
        pre.append(('decl', c, ('num', 0)))
        body_sc.add('RO', c)
        body = [('aug', c, '+', ('num', 1))] + self.loop_body(body_sc, depth, in_lam, c)
        if kind == 'loop':
            body.append(('breakif', ('cmp', '>=', ('var', c), ('num', cnt))))
            return pre + [('loop', body)]
        if kind in ('while', 'dowhile'):
            cond = ('cmp', '<', ('var', c), ('num', cnt))
        else:
            cond = ('cmp', '>=', ('var', c), ('num', cnt))
        return pre + [('while', kind, cond, body)]

    # ---- second generation: every loop kind incl. `for x in [list]`, labels, continue/break AFTER a
    # body-local was captured (the back edge / continue / break must close it), labelled exits to an
    # outer loop
    def loop2(self, sc, depth, in_lam):
        r = self.r
        kind = r.choice(['while', 'until', 'dowhile', 'dountil', 'loop', 'fornum', 'forin', 'forlist', 'forlist'])
        self.features.add('loop_' + kind)
        cnt = r.range(2, 4)
        body_sc = Scope(sc)
        label = None
        if kind not in ('dowhile', 'dountil') and r.chance(1, 3):
            label = self.fresh('lb')
            self.features.add('label')
        self.loop_labels.append(label)
        try:
            if kind in ('fornum', 'forin', 'forlist'):
                v = self.fresh('i')
                body_sc.add('Int' if kind == 'fornum' and r.chance(1, 2) else 'RO', v)
                lo = r.range(0, 3)
                body = self.loop_body2(body_sc, depth, in_lam, v, lo, lo + cnt - 1)
                if kind == 'forlist':
                    # ascending distinct values so that exit conditions on the loop variable stay meaningful
                    stmts = [('forlist', v, [('num', lo + k) for k in range(cnt)], body)]
                else:
                    stmts = [(kind, v, ('num', lo), ('num', lo + cnt - 1), body)]
                pre = []
            else:
                c = self.fresh('c')
                pre = [('decl', c, ('num', 0))]
                body_sc.add('RO', c)
                body = [('aug', c, '+', ('num', 1))] + self.loop_body2(body_sc, depth, in_lam, c, 1, cnt)
                if kind == 'loop':
                    body.append(('breakif', ('cmp', '>=', ('var', c), ('num', cnt))))
                    stmts = [('loop', body)]
                else:
                    if kind in ('while', 'dowhile'):
                        cond = ('cmp', '<', ('var', c), ('num', cnt))
                    else:
                        cond = ('cmp', '>=', ('var', c), ('num', cnt))
                    stmts = [('while', kind, cond, body)]
        finally:
            self.loop_labels.pop()
        if label:
            stmts = [('label', label, stmts[0])]
        return pre + stmts

    def exit_stmt(self, v, lo, hi, last=False):
        """break/continue (own loop, or a labelled enclosing loop) when the loop variable has one value.
        A labelled exit is only generated as the LAST statement of a loop body: the compiler decides which
        upvalues `break[l]`/`continue[l]` closes from the captures it has seen so far, so a labelled exit to an
        OUTER loop followed (in source order) by a closure capturing an outer-loop variable leaves that variable
        open (known finding witness:labelled-exit-before-capture, replayed from the corpus); the generator excludes
        exactly that class by construction."""
        r = self.r
        what = 'contif' if r.chance(3, 5) else 'breakif'
        labels = [l for l in self.loop_labels if l] if last else []
        label = None
        if labels and r.chance(2, 3):
            label = r.choice(labels)
            self.features.add('labelled_' + ('continue' if what == 'contif' else 'break'))
        self.features.add('continue' if what == 'contif' else 'break')
        return (what, ('cmp', '==', ('var', v), ('num', r.range(lo, hi))), label)

    def loop_body2(self, sc, depth, in_lam, v, lo, hi):
        r = self.r
        body = []
        if r.chance(1, 6):
            body.append(self.exit_stmt(v, lo, hi))
        j = self.fresh('j')
        body.append(('decl', j, ('bin', '+', ('var', v), ('num', r.range(0, 5)))))
        sc.add('Int', j)
        lists = sc.all('L')
        if lists:
            tgt = r.choice(lists)
            if r.chance(1, 3):
                # the smallest shape: the closure only reads the body-local / the loop variable
                body.append(('push', tgt, ('lam', [], [], ('var', j if r.chance(2, 3) else v))))
            else:
                body.append(('push', tgt, self.lam(sc, 0, depth)))
            self.features.add('capture_in_loop')
            if r.chance(1, 2):
                body.append(self.exit_stmt(v, lo, hi))
                self.features.add('exit_after_capture')
                body.append(('aug', j, '+', ('num', r.range(10, 90))))   # visible only when the exit was not taken
        body += self.block(sc, depth + 1, r.range(0, 2), True, in_lam)
        if lists and r.chance(1, 3):
            body.append(('push', r.choice(lists), self.lam(sc, 0, depth)))
        if r.chance(1, 3):
            body.append(self.exit_stmt(v, lo, hi, last=True))
        return body

    def loop_body(self, sc, depth, in_lam, v):
        r = self.r
        body = []
        if r.chance(1, 4):
            body.append(('contif', ('cmp', '==', ('var', v), ('num', r.range(0, 3)))))
            self.features.add('continue')
        j = self.fresh('j')
        body.append(('decl', j, ('bin', '+', ('var', v), ('num', r.range(0, 5)))))
        sc.add('Int', j)
        lists = sc.all('L')
        if lists:
            tgt = r.choice(lists)
            body.append(('push', tgt, self.lam(sc, 0, depth)))
            self.features.add('capture_in_loop')
        body += self.block(sc, depth + 1, r.range(0, 2), True, in_lam)
        if lists and r.chance(1, 3):
            body.append(('push', r.choice(lists), self.lam(sc, 0, depth)))
        if r.chance(1, 4):
            body.append(('breakif', ('cmp', '==', ('var', v), ('num', r.range(1, 4)))))
            self.features.add('break')
        return body

    def stmt(self, sc, depth, in_loop, in_lam):
        r = self.r
        if self.v3 and depth < 3:
            c3 = r.below(100)
            if c3 < 14:
                return self.catch_probe(sc, depth)
            if c3 < 22 and depth < 2 and sc.all('L'):
                return self.labelled_nest(sc, depth)
        c = r.below(100)
        ints = sc.all('Int')
        if c < 14 or not ints:
            x = self.fresh('x')
            s = ('decl', x, self.expr(sc))
            sc.add('Int', x)
            return [s]
        if c < 26:
            return [('aug', r.choice(ints), r.choice(['+', '-', '+']), self.expr(sc))] if r.chance(2, 3) else \
                [('set', r.choice(ints), self.expr(sc))]
        if c < 40 and depth < 3:
            np_ = 0 if r.chance(2, 3) else 1
            f = self.fresh('f')
            s = ('declf', f, 'F%d' % np_, self.lam(sc, np_, depth))
            sc.add('F%d' % np_, f)
            self.features.add('closure_decl')
            if depth >= 1:
                self.features.add('nested_closure')
            return [s]
        if c < 52:
            return [('print', self.expr(sc))]
        if c < 60 and depth < 2:
            a = self.block(Scope(sc), depth + 1, r.range(1, 2), in_loop, in_lam)
            b = self.block(Scope(sc), depth + 1, r.range(0, 2), in_loop, in_lam)
            return [('if', self.cond(sc), a, b)]
        if c < 74 and depth < 2:
            return self.loop(sc, depth, in_lam)
        if c < 80 and not in_loop and not in_lam and depth == 0:
            fs = self.fresh('fs')
            sc.add('L', fs)
            return [('decll', fs)]
        if c < 86 and sc.all('L'):
            if r.chance(1, 2) and sc.all('F0'):
                self.features.add('push_var')
                return [('push', r.choice(sc.all('L')), ('var', r.choice(sc.all('F0'))))]
            return [('push', r.choice(sc.all('L')), self.lam(sc, 0, depth))]
        if c < 93 and sc.all('L') and not in_lam:
            self.features.add('drain')
            return [('drain', r.choice(sc.all('L')), self.fresh('n'))]
        if sc.all('F0') and self.deep_budget > 0 and not in_loop and not in_lam:
            self.deep_budget -= 1
            self.features.add('deep_call')
            d = r.choice([40, 120, 250] if self.base == 'c10' else [10, 60, 130])
            return [('print', ('mcall', 'deep', [('num', d), ('var', r.choice(sc.all('F0')))]))]
        return [('print', self.expr(sc))]

    # ---- third generation (1): an error thrown 1..n call frames below unwinds into a frame whose captured locals
    # are still in scope; afterwards the frame and the closures write and read them alternately
    def trycall(self, sc, tgt, force):
        r = self.r
        fname = r.choice(['thr1', 'thr2', 'thr3', 'thrd'])
        if force:
            arg = ('num', r.range(THROW_LIMIT + 1, 9))
        else:
            arg = self.expr(sc, 1, False)
        args = [arg] + ([('num', r.range(0, 6))] if fname == 'thrd' else [])
        ints = sc.all('Int')
        handler = [('set', tgt, ('num', 0 - r.range(1, 9)))]
        if ints and r.chance(1, 2):
            handler.append(('aug', r.choice(ints), '+', ('num', r.range(1, 9))))     # the handler writes a captured local
        if sc.all('F0') and r.chance(1, 3):
            handler.append(('print', ('call', ('var', r.choice(sc.all('F0'))), [])))  # ... or calls a closure
        self.features.add('throw_catch')
        self.features.add('throw_depth_' + fname)
        return ('trycall', tgt, fname, args, handler)

    def catch_probe(self, sc, depth):
        r = self.r
        out = []
        x = self.fresh('x')
        out.append(('decl', x, self.expr(sc, 1, False)))
        sc.add('Int', x)
        f = self.fresh('f')
        # a closure writing the local, one reading it (both share the variable with the frame)
        out.append(('declf', f, 'F0', ('lam', [], [('aug', x, '+', ('num', r.range(1, 9)))], ('var', x))))
        sc.add('F0', f)
        if r.chance(1, 2) and sc.all('L'):
            out.append(('push', r.choice(sc.all('L')), ('lam', [], [], ('bin', '*', ('var', x), ('num', 2)))))
        if r.chance(1, 3) and depth < 2:
            out.append(('declf', self.fresh('f'), 'F0', self.lam(sc, 0, depth)))
            sc.add('F0', out[-1][1])
        t = self.fresh('t')
        out.append(('decl', t, ('num', 0)))
        sc.add('Int', t)
        if r.chance(1, 3):
            out.append(('expr', ('call', ('var', f), [])))
        out.append(self.trycall(sc, t, r.chance(3, 4)))
        self.features.add('write_captured')
        # after the catch: frame writes / closure reads, closure writes / frame reads
        order = r.below(3)
        if order != 1:
            out.append(('aug', x, '+', ('num', r.range(10, 90))))
            out.append(('print', ('call', ('var', f), [])))
        if order != 0:
            out.append(('expr', ('call', ('var', f), [])))
            out.append(('print', ('var', x)))
        out.append(('print', ('var', t)))
        if r.chance(1, 3):
            out.append(self.trycall(sc, t, r.chance(1, 2)))
            out.append(('print', ('bin', '+', ('var', x), ('call', ('var', f), []))))
        return out

    # ---- third generation (2): `continue[l]` / `break[l]` issued from an INNER loop after closures captured locals
    # of block scopes (if / else / do bodies) lying between the labelled loop and the inner loop, locals of the
    # labelled loop's body and of the inner loop's body.  No closure follows the labelled exit (in source order)
    # inside the labelled loop: that is exactly the class of the known finding witness:labelled-exit-before-capture.
    def simple_tail(self, sc, n):
        """n statements that create no closure: new Int locals (they reuse freed slots), updates, prints"""
        r = self.r
        out = []
        for _ in range(n):
            c = r.below(3)
            ints = sc.all('Int')
            if c == 0 or not ints:
                q = self.fresh('q')
                out.append(('decl', q, self.expr(sc, 1, False)))
                sc.add('Int', q)
            elif c == 1:
                out.append(('aug', r.choice(ints), '+', ('num', r.range(100, 900))))
            else:
                out.append(('print', self.expr(sc, 1, False)))
        return out

    def loop_of(self, kind, v, lo, cnt, body, label):
        """the loop statement(s) of `kind` running v over lo .. lo+cnt-1 with the given body"""
        if kind == 'forlist':
            st = [('forlist', v, [('num', lo + k) for k in range(cnt)], body)]
        elif kind in ('fornum', 'forin'):
            st = [(kind, v, ('num', lo), ('num', lo + cnt - 1), body)]
        else:
            # counter-driven loops: v is declared before the loop and incremented first thing in the body
            body = [('aug', v, '+', ('num', 1))] + body
            hi = lo + cnt - 1
            if kind == 'loop':
                body = [('breakif', ('cmp', '>=', ('var', v), ('num', hi)))] + body
                st = [('loop', body)]
            elif kind == 'while':
                st = [('while', 'while', ('cmp', '<', ('var', v), ('num', hi)), body)]
            else:
                st = [('while', 'until', ('cmp', '>=', ('var', v), ('num', hi)), body)]
            if label:
                st = [('label', label, st[0])]
            return [('decl', v, ('num', lo - 1))] + st
        if label:
            st = [('label', label, st[0])]
        return st

    def labelled_nest(self, sc, depth):
        r = self.r
        kinds = ['while', 'until', 'loop', 'fornum', 'forin', 'forlist', 'forlist']
        lb = self.fresh('lb')
        tgt = r.choice(sc.all('L'))
        okind, ikind = r.choice(kinds), r.choice(kinds)
        v, k = self.fresh('i'), self.fresh('i')
        lo, cnt = r.range(0, 3), r.range(2, 4)
        klo, kcnt = r.range(0, 3), r.range(2, 4)
        self.features.update(['label', 'loop_' + okind, 'loop_' + ikind, 'capture_in_loop', 'exit_from_inner_loop'])
        osc = Scope(sc)
        osc.add('RO', v)
        body = []
        j = self.fresh('j')
        body.append(('decl', j, ('bin', '+', ('var', v), ('num', r.range(0, 5)))))
        osc.add('Int', j)
        if r.chance(1, 2):
            body.append(('push', tgt, ('lam', [], [], ('bin', '+', ('var', j), ('var', v)))))
        # the intermediate block scope
        bsc = Scope(osc)
        blk = []
        m = self.fresh('m')
        blk.append(('decl', m, ('bin', '+', ('bin', '*', ('var', v), ('num', 10)), ('num', r.range(0, 9)))))
        bsc.add('Int', m)
        if r.chance(2, 3):
            blk.append(('push', tgt, ('lam', [], [], ('var', m) if r.chance(1, 2) else ('bin', '+', ('var', m), ('var', j)))))
        else:
            blk.append(('push', tgt, self.lam(bsc, 0, depth + 1)))
        if r.chance(1, 3):
            m2 = self.fresh('m')
            blk.append(('decl', m2, ('bin', '-', ('var', m), ('num', r.range(1, 9)))))
            bsc.add('Int', m2)
            blk.append(('push', tgt, ('lam', [], [('aug', m2, '+', ('num', 1))], ('var', m2))))
        # the inner loop
        isc = Scope(bsc)
        isc.add('RO', k)
        ib = []
        if r.chance(1, 2):
            n = self.fresh('j')
            ib.append(('decl', n, ('bin', '+', ('var', k), ('num', r.range(0, 5)))))
            isc.add('Int', n)
            if r.chance(2, 3):
                ib.append(('push', tgt, ('lam', [], [], ('bin', '+', ('var', n), ('var', m)))))
        what = 'contif' if r.chance(2, 3) else 'breakif'
        self.features.add('labelled_' + ('continue' if what == 'contif' else 'break'))
        self.features.add('continue' if what == 'contif' else 'break')
        cond = ('cmp', '==', ('var', k), ('num', r.range(klo, klo + kcnt - 1)))
        ib.append((what, cond, lb))
        ib += self.simple_tail(isc, r.range(0, 2))
        blk += self.loop_of(ikind, k, klo, kcnt, ib, None)
        blk += self.simple_tail(bsc, r.range(0, 2))       # runs only when the labelled exit was not taken
        # which iterations of the labelled loop enter the block
        shape = r.choice(['if', 'ifelse', 'else', 'do'])
        self.features.add('nest_block_' + shape)
        cnd = ('cmp', r.choice(['<=', '<']), ('var', v), ('num', lo + cnt - 1))
        other = self.simple_tail(Scope(osc), r.range(1, 3))   # the sibling branch declares locals in the same slots
        if shape == 'if':
            body.append(('if', cnd, blk, []))
        elif shape == 'ifelse':
            body.append(('if', cnd, blk, other))
        elif shape == 'else':
            body.append(('if', ('cmp', '>', ('var', v), ('num', lo + cnt - 1 - r.range(0, 1))), other, blk))
        else:
            body.append(('doblock', blk))
        body += self.simple_tail(osc, r.range(1, 3))
        return self.loop_of(okind, v, lo, cnt, body, lb)

    # ---- fixed helper definitions
    def helpers(self):
        # def deep(n: Int, f: ||: Int): Int  -- no locals (a recursive method with a declared
        # local crashes on the unchanged tree independent of sizes; not this property)
        deep = ('def', 'deep', [('n', 'Int'), ('f', 'F0')], 'Int',
                [], None)
        return deep

    def maker(self, name, ret):
        """def mkN(p: Int, q: Int): <ret> -- locals captured by closures that outlive the frame"""
        sc = Scope()
        if self.v2 and self.r.chance(1, 2):
            sc.add('Int', 'p')        # closures write the captured PARAMETER
            self.features.add('captured_param_written')
        else:
            sc.add('RO', 'p')
        sc.add('RO', 'q')
        body = []
        x = self.fresh('m')
        body.append(('decl', x, ('bin', '+', ('var', 'p'), ('num', self.r.range(0, 5)))))
        sc.add('Int', x)
        self.features.add('capture_outlives_frame')
        if ret == 'L':
            fs = self.fresh('fs')
            body.append(('decll', fs))
            sc.add('L', fs)
            body.append(('push', fs, self.lam(sc, 0, 0)))
            body.append(('push', fs, self.lam(sc, 0, 0)))
            self.features.add('shared_counter')
            body += self.block(sc, 0, self.r.range(1, 4), False, False)
            if self.r.chance(2, 3):
                body += self.loop(sc, 0, False)
            body = [s for s in body if s[0] not in ('drain',) and not (s[0] == 'print' and s[1][0] == 'mcall')]
            return ('def', name, [('p', 'Int'), ('q', 'Int')], 'L', body, ('var', fs))
        body += self.block(sc, 0, self.r.range(0, 3), False, False)
        body = [s for s in body if s[0] not in ('drain',) and not (s[0] == 'print' and s[1][0] == 'mcall')]
        np_ = 0 if ret == 'F0' else 1
        return ('def', name, [('p', 'Int'), ('q', 'Int')], ret, body, self.lam(sc, np_, 0))

    def crec(self, sc, depth):
        """recursive closure with locals and an inner closure per frame (captured locals in deep
        frames; forces growth while open upvalues exist)"""
        r = self.r
        f = self.fresh('r')
        n = self.fresh('a')
        u = self.fresh('u')
        g = self.fresh('g')
        res = self.fresh('y')
        t = self.fresh('t')
        outer = sc.all('Int')
        gbody = []
        if outer:
            gbody.append(('aug', r.choice(outer), '+', ('num', 1)))
        gbody.append(('aug', u, '+', ('num', 1)))
        lam = ('lam', [n], [
            ('decl', u, ('bin', '*', ('var', n), ('num', 2))),
            ('declf', g, 'F0', ('lam', [], gbody, ('var', u))),
            ('decl', res, ('num', 0)),
            ('if', ('cmp', '<=', ('var', n), ('num', 0)), [('set', res, ('call', ('var', g), []))],
             [('decl', t, ('call', ('var', f), [('bin', '-', ('var', n), ('num', 1))])),
              ('set', res, ('bin', '+', ('bin', '+', ('var', t), ('call', ('var', g), [])), ('var', u)))]),
        ], ('var', res))
        self.features.add('recursive_closure')
        return [('declrec', f, lam), ('print', ('call', ('var', f), [('num', depth)]))]


def tailcall_defs(g, idx):
    """v2: methods that capture a parameter / a local and then end in a tail-position call of
    themselves or of another method (CALL_METHOD_TCO reuses the frame: the captured variables must
    survive).  Bodies that declare a local only call methods defined BEFORE them (a body with locals
    calling a not-yet-compiled method crashes on the unchanged tree for an unrelated reason)."""
    r = g.r
    L = 'L'
    defs = []
    name = 'tc%d' % idx
    a, b = r.range(1, 9), r.range(0, 9)
    kind = r.choice(['self', 'self_w', 'other', 'other_local'])
    g.features.add('tailcall_' + kind)
    n, acc = ('var', 'n'), ('var', 'acc')
    rd = ('lam', [], [], ('bin', '+', ('bin', '*', n, ('num', a)), ('num', b)))
    wr = ('lam', [], [('aug', 'n', '+', ('num', a))], n)
    stop = ('retif', ('cmp', '<=', n, ('num', 0)), acc)
    dec = ('bin', '-', n, ('num', 1))
    if kind == 'self':
        defs.append(('def', name, [('n', 'Int'), ('acc', L)], L, [stop, ('push', 'acc', rd)], ('mcall', name, [dec, acc])))
    elif kind == 'self_w':
        defs.append(('def', name, [('n', 'Int'), ('acc', L)], L, [stop, ('push', 'acc', rd), ('push', 'acc', wr)],
                     ('mcall', name, [dec, acc])))
    elif kind == 'other':
        fin = name + 'z'
        defs.append(('def', fin, [('n', 'Int'), ('acc', L)], L, [('push', 'acc', rd)], acc))
        defs.append(('def', name, [('n', 'Int'), ('acc', L)], L, [('push', 'acc', wr), ('push', 'acc', rd)],
                     ('mcall', fin, [('bin', '+', n, ('num', b)), acc])))
    else:
        fin = name + 'z'
        m = g.fresh('m')
        mv = ('var', m)
        defs.append(('def', fin, [('n', 'Int'), ('acc', L)], L, [('push', 'acc', rd)], acc))
        defs.append(('def', name, [('n', 'Int'), ('acc', L)], L,
                     [('decl', m, ('bin', '+', n, ('num', 100))), ('push', 'acc', ('lam', [], [('aug', m, '+', ('num', 1))], mv)),
                      ('push', 'acc', ('lam', [], [], ('bin', '+', mv, n)))],
                     ('mcall', fin, [dec, acc])))
    return defs, name


def gen_program(rng, profile='c13'):
    g = Gen(rng, profile)
    defs = []
    main = []
    sc = Scope()
    # makers
    nm = rng.range(1, 2)
    for i in range(nm):
        ret = rng.choice(['L', 'L', 'F0', 'F1'])
        name = 'mk%d' % (i + 1)
        defs.append(g.maker(name, ret))
        v = g.fresh('k')
        args = [('num', rng.range(0, 9)), ('num', rng.range(0, 9))]
        if ret == 'L':
            main.append(('decll', v))            # placeholder replaced below
            main[-1] = ('declmk', v, name, args)
            sc.add('L', v)
        else:
            main.append(('declmk', v, name, args))
            sc.add(ret, v)
    if g.v2:
        # a list for the loops to push into is always there; tail-calling makers in half of the programs
        v0 = g.fresh('fs')
        main.append(('decll', v0))
        sc.add('L', v0)
        if rng.chance(1, 2):
            tdefs, tname = tailcall_defs(g, 1)
            defs += tdefs
            e = g.fresh('e')
            v = g.fresh('k')
            main.append(('decll', e))
            main.append(('declmk', v, tname, [('num', rng.range(1, 4)), ('var', e)]))
            sc.add('L', v)
    main += g.block(sc, 0, rng.range(4, 9), False, False)
    if g.v2 and not any('loop_' in f for f in g.features):
        main += g.loop(sc, 0, False)
    if g.base == 'c10' or rng.chance(1, 2):
        main += g.crec(sc, rng.choice([30, 90, 200] if g.base == 'c10' else [5, 40, 100]))
    main += g.block(sc, 0, rng.range(2, 5), False, False)
    for l in sc.all('L'):
        main.append(('drain', l, g.fresh('n')))
    for f in sc.all('F0')[:3]:
        main.append(('print', ('call', ('var', f), [])))
    if sc.all('F0'):
        main.append(('print', ('mcall', 'deep', [('num', rng.choice([30, 150, 300] if g.base == 'c10' else [8, 50])),
                                                  ('var', sc.all('F0')[0])])))
        g.features.add('deep_call')
    for x in sc.all('Int')[:4]:
        main.append(('print', ('var', x)))
    prog = {'defs': defs, 'main': main, 'features': sorted(g.features)}
    return prog


# 'declmk' and the `deep` helper are handled here to keep the core AST small
_pblock = pblock


def pblock(stmts, ind):  # noqa: F811
    out = []
    for s in stmts:
        if s[0] == 'declmk':
            out.append('%s%s := %s(%s)' % ('  ' * ind, s[1], s[2], ', '.join(pe(a) for a in s[3])))
        else:
            out += _pblock([s], ind)
    return out


DEEP_ELK = """def deep(n: Int, f: ||: Int): Int
  return f.() if n <= 0
  deep(n - 1, f) + n
end
"""

THROW_ELK = """def thr1(n: Int): Int ! :boom
  throw :boom if n > %d
  n
end
def thr2(n: Int): Int ! :boom
  thr1(n) + 1
end
def thr3(n: Int): Int ! :boom
  thr2(n) + 1
end
def thrd(n: Int, d: Int): Int ! :boom
  return thr1(n) if d <= 0
  thrd(n, d - 1) + 1
end
""" % THROW_LIMIT

_to_elk = to_elk


def to_elk(prog):  # noqa: F811
    return DEEP_ELK + (THROW_ELK if 'throw_catch' in prog.get('features', ()) else '') + _to_elk(prog)


_st = Interp.st


def _st2(self, s, env):
    if s[0] == 'declmk':
        env[-1][s[1]] = [self.ev(('mcall', s[2], s[3]), env)]
    else:
        _st(self, s, env)


Interp.st = _st2
_ev = Interp.ev


def _ev2(self, e, env):
    if e[0] == 'mcall' and e[1] == 'deep':
        n = self.ev(e[2][0], env)
        f = self.ev(e[2][1], env)
        # deep(n, f) = f.() + n + (n-1) + ... + 1, with n+1 frames on the call stack
        self.depth += n + 1
        self.maxdepth_seen = max(self.maxdepth_seen, self.depth)
        try:
            if self.depth > self.maxdepth:
                raise Fuel()
            v = self.apply(f, [])
        finally:
            self.depth -= n + 1
        return v + n * (n + 1) // 2
    return _ev(self, e, env)


Interp.ev = _ev2


# ------------------------------------------------------------------ async / generator suffix (C10 only)

def async_gen_suffix(rng):
    """fixed-shape epilogue exercising the thread pool / task queue and a generator frame
    (copied in and out of the running thread's value stack).  Returns (elk text, expected)."""
    n = rng.range(3, 9)
    k = rng.range(0, 20)
    m = rng.range(2, 5)
    elk = """async def av(x: Int): Int
  x * %d
end
def *gen3(a: Int): Int
  yield a
  yield a + 1
  a + 2
end
var ps: List[Promise[Int]] = []
for i in 1...%d then ps << av(i)
for p in ps
  pv := await p
  println(pv.inspect)
end
gg := gen3(%d)
w1 := try gg.next
println(w1.inspect)
w2 := try gg.next
println(w2.inspect)
w3 := try gg.next
println(w3.inspect)
""" % (m, n, k)
    exp = ''.join('%d\n' % (i * m) for i in range(1, n + 1)) + '%d\n%d\n%d\n' % (k, k + 1, k + 2)
    return elk, exp
