"""Machine-level correspondence streams shared by checks/C13.py and checks/C10.py: the REAL vm.Thread
functions (hook /repo/vm/verif_c13.go, harness/cmd/c13) against the extracted Coq machine
(coq/ExtractRun/C13.v, ocaml/C13/main.ml)."""
import os

import vlib


def machine_key(inp, obs, exp):
    """class of a machine-level mismatch: the operation kinds of the trace that matter"""
    toks = inp.split()[1:]
    kinds = set(t[0] for t in toks)
    if obs.startswith("panic"):
        return "machine:panic"
    if "W" in kinds and "C" in kinds:
        return "machine:unwind-with-captured-slot"
    if "T" in kinds and "C" in kinds:
        return "machine:tailcall-with-captured-slot"
    if kinds & {"G", "g"}:
        return "machine:growth"
    return "machine:" + "".join(sorted(kinds & set("CXKRNW")))


def machine_stream(ctx, name="c13.machine", specname="c13.spec", quick=6000, thorough=400000, indep=None, harness_args=()):
    """c13.machine: the REAL Thread functions (hook vm/verif_c13.go) vs the extracted Coq machine, plus the
    extracted store-semantics spec on the traces that satisfy the discipline D"""
    h = vlib.build_harness("c13")
    m = vlib.build_model_exact("C13")
    rc, hv = vlib.sh([h, "-extra", "haveunwind"], timeout=120, env=vlib.elk_env())
    if rc != 0 or hv.strip() != "true":
        ctx.broke(name + ": the error-unwinding hook /repo/vm/verif_c13b.go (VerifC13.Unwind) is not in the checkout under test; "
                  "traces contain no W (rethrow) operations", hv[-500:])
    corpus = os.path.join(vlib.ROOT, "corpus", "C13.machine.txt")
    r = vlib.value_stream(
        ctx, name, h, m, ctx.n(quick, thorough), machine_key,
        "seeded micro-operation traces (6-60 operations + final reads of every handle and live local; initial stacks of 4-64 "
        "slots so that growValueStack fires inside calls; 3/4 generated in disciplined style, 1/4 free incl. dangling captures, "
        "dead-slot accesses, ill-formed tail calls) executed on a real vm.Thread through push/pop/getLocalValue/setLocalValue/"
        "captureUpvalue/Upvalue.Get,Set/opCloseUpvalues/callBytecodeFunction/restoreLastFrame/callBytecodeFunctionTCO/"
        "growValueStack/rethrow (an error caught 1-3 frames up: W tokens, hook vm/verif_c13b.go); the reads AND the final view (capacity, sp, fp, saved frame pointers, live slots, open list as slot "
        "offsets, every handle open@slot / closed=value) must equal the extracted Coq machine `run`; non-trivial = trace with a "
        "capture and a later close/return/growth/tail call",
        corpus=corpus, harness_args=harness_args,
        nontrivial=lambda inp, obs: " C" in inp and any(x in inp for x in (" X", " R", " G", " g", " T", " W")),
        classify=lambda inp, obs: "len%02d-%02d" % (len(inp.split()) // 20 * 20, len(inp.split()) // 20 * 20 + 19))
    if not r:
        return
    ids, inputs, obs, exp = r
    rc, spec, mout = vlib.run_model(m, ids, inputs, args=["spec"], timeout=3000)
    if rc != 0:
        ctx.broke(specname + ": model driver (spec mode) exited %d" % rc, mout[-2000:])
        return
    nd = 0
    dist = {"D-respecting": 0, "D-violating": 0, "D-violating-and-reads-differ": 0}
    distinct = set()
    mism = 0
    samples = []
    for i in ids:
        sp = spec.get(i, "")
        reads = obs[i].split("|")[0]
        if sp.startswith("D1"):
            dist["D-respecting"] += 1
            if " C" in inputs[i]:
                distinct.add(inputs[i])
            if len(samples) < 3:
                samples.append({"input": inputs[i][:300], "go_reads": reads[:200], "spec": sp[:200]})
            if sp[3:] != reads:
                mism += 1
                ctx.fail("spec:" + machine_key(inputs[i], obs[i], sp), "trace satisfies D but the real Thread's reads differ from the store-semantics spec: %s" % inputs[i],
                         stream=specname, case=inputs[i], impl=reads, model=sp,
                         oracle="extracted spec machine srun (every variable instance is a cell) on a D-respecting trace")
        else:
            dist["D-violating"] += 1
            if sp[3:] != reads:
                dist["D-violating-and-reads-differ"] += 1
    ctx.stream(specname, dist["D-respecting"], len(distinct),
               "the same executions: for every trace on which the extracted discipline predicate D holds, the reads of the REAL "
               "Thread must equal the reads of the extracted store-semantics spec `srun` (this is C13_refines evaluated on the "
               "Go code instead of the model); traces violating D are only counted (how often their reads differ shows that D "
               "is not vacuous); non-trivial = D-respecting trace with at least one capture",
               samples, dist, mismatches=mism)
    if indep:
        indep_stream(ctx, indep, h, ids, inputs, obs, spec)


def indep_stream(ctx, name, h, ids, inputs, obs, spec):
    """size/growth independence on the Go code: every D-respecting trace is replayed on a fresh real Thread with
    the growth operations erased and a 4096-slot stack (no reallocation ever happens); the reads must be the same"""
    sel = [i for i in ids if spec.get(i, "").startswith("D1")]
    path = os.path.join(ctx.workdir, name.replace(".", "_") + ".in")
    with open(path, "w") as f:
        for i in sel:
            toks = inputs[i].split()
            f.write("%s\t4096 %s\n" % (i, " ".join(t for t in toks[1:] if t not in ("G", "g"))))
    rc, out = vlib.sh([h, "-seed", "1", "-n", "0", "-input", path], timeout=3000, env=vlib.elk_env())
    ids2, inputs2, obs2 = vlib.parse_case_lines(out)
    if rc != 0 or len(ids2) != len(sel):
        ctx.broke("%s: replay harness exited %d with %d of %d cases" % (name, rc, len(ids2), len(sel)), out[-2000:])
        return
    mism = 0
    grew = 0
    distinct = set()
    samples = []
    dist = {"with-growth": 0, "without-growth": 0}
    for i, j in zip(sel, ids2):
        a = obs[i].split("|")[0]
        b = obs2[j].split("|")[0]
        g = any(t in ("G", "g") for t in inputs[i].split())
        dist["with-growth" if g else "without-growth"] += 1
        if g and " C" in inputs[i]:
            distinct.add(inputs[i])
        if g and len(samples) < 3:
            samples.append({"input": inputs[i][:300], "reads_small_stack_with_growth": a[:200], "reads_4096_slots_no_growth": b[:200]})
        if a != b:
            mism += 1
            ctx.fail("indep:" + machine_key(inputs[i], obs[i], b), "reads depend on the initial stack size / growth: %s" % inputs[i],
                     stream=name, case=inputs[i], impl=a, model=b,
                     oracle="same operations on a real Thread with a 4096-slot stack and no growth")
    ctx.stream(name, len(sel), len(distinct),
               "every D-respecting trace of the machine stream (initial stack 4-64 slots, growth inside calls by the 70% rule and "
               "at explicit growValueStack operations) is replayed on a fresh real Thread with 4096 slots and all growth "
               "operations erased; the reads must be identical (C10_run_indep evaluated on the Go code); non-trivial = trace "
               "with a capture and at least one growth",
               samples, dist, mismatches=mism)
