"""C10 — "depth sweep x construct" family of the c10.env stream.

Every VM construct that keeps a pointer into the value stack (or a derived Go value) alive across a
nested bytecode call is executed at EVERY level of a recursion that runs from depth 0 past the first
growth thresholds of the configured initial stack (growth checks happen only at bytecode-call entry:
`spOffset > 0.7 * len(stack)`), so that for some level the call made INSIDE the construct (the
iterator's `next` calling a helper, the closure body calling a helper, `to_string` called by string
interpolation, an operator method, a native method calling back a bytecode closure, an error
unwinding, a tail call) is the one that crosses the threshold and reallocates the stack under the
construct.  Which call crosses depends on the alignment of the frames to the threshold, so every
program is run on a lattice of ELK_INIT_VALUE_STACK_SIZE values and with 0..n dummy top-level locals
(`offset`) that shift all frames by one slot each; the helper takes K extra arguments (the window in
which the inner call is the crossing one is K+2 slots of every frame stride).

One construct per program: several constructs in one frame would shadow each other (the first one
whose window contains the threshold takes the growth).

  constructs()                      -> names
  program(construct, k, pad, depth, offset) -> (elk source, expected stdout)
"""

VALUE_SIZE = 24
SIZES = ["1", "6400", "6800", "7200", "9000", "12000"]     # 256, 266, 283, 300, 375, 500 slots


def _args(k):
    return ''.join(', %d' % (i + 1) for i in range(k))


def _prelude(k):
    params = ''.join(', p%d: Int' % (i + 1) for i in range(k))
    a = _args(k)
    return """module Helper
  def bump(a: Int%s): Int
    a + 1
  end
end

class Countdown
  include Iterator::Base[Int]

  var @counter: Int
  var @limit: Int

  init(limit: Int)
    @counter = 0
    @limit = limit
  end

  def next: Int ! :stop_iteration
    throw :stop_iteration if @counter >= @limit

    @counter = Helper.bump(@counter%s)
    @counter
  end
end

class Bag
  include Iterable::Base[Int]

  var @n: Int

  init(n: Int)
    @n = n
  end

  def iter: Countdown
    Countdown(Helper.bump(@n - 1%s))
  end
end

class Vec
  attr v: Int

  init(v: Int)
    @v = v
  end

  def +(o: Vec): Vec
    Vec(Helper.bump(@v + o.v%s) - 1)
  end

  def lt(o: Vec): bool
    Helper.bump(@v%s) < Helper.bump(o.v%s)
  end

  def [](i: Int): Int
    Helper.bump(@v * i%s)
  end

  def to_string: String
    Helper.bump(@v%s).to_string
  end
end

def thrw(n: Int): Int ! :boom
  m := Helper.bump(n%s)
  throw :boom if m %% 2 == 0
  m
end

def tc(n: Int, acc: Int): Int
  return acc if n <= 0
  tc(n - 1, Helper.bump(acc%s))
end
""" % (params, a, a, a, a, a, a, a, a, a)


def _digits(n):
    r = 0
    for x in range(1, n + 1):
        r = r * 10 + x
    return r


# name -> (snippet lines (4 spaces of indentation are added; `A` is replaced by the extra arguments),
#          expression printed, python value of the printed text for a depth)
CONSTRUCTS = {
    # NEXT over a user-defined iterator whose bytecode `next` calls a bytecode method
    'forin_user_iterator': (
        ['r := 0', 'for x in Countdown(depth % 3 + 1)', '  r = r * 10 + x', 'end'], 'r.inspect',
        lambda d: str(_digits(d % 3 + 1))),
    # GET_ITERATOR calling a bytecode `iter` that calls a bytecode method, then NEXT
    'forin_user_iterable': (
        ['r := 0', 'for x in Bag(depth % 3 + 1)', '  r = r * 10 + x', 'end'], 'r.inspect',
        lambda d: str(_digits(d % 3 + 1))),
    'closure_call': (
        ['f := |a: Int|: Int -> Helper.bump(aA) * 2', 'r := f.(depth)'], 'r.inspect',
        lambda d: str((d + 1) * 2)),
    'closure_call_captured': (
        ['c := depth', 'f := ||: Int -> c = Helper.bump(cA)', 'f.()', 'r := f.() + c'], 'r.inspect',
        lambda d: str(2 * (d + 2))),
    'interpolation_to_string': (
        ['r := "v=${Vec(depth)}"'], 'r',
        lambda d: 'v=%d' % (d + 1)),
    'operator_method': (
        ['r := (Vec(depth) + Vec(2)).v'], 'r.inspect',
        lambda d: str(d + 2)),
    'subscript_method': (
        ['r := Vec(depth)[3]'], 'r.inspect',
        lambda d: str(d * 3 + 1)),
    'predicate_method': (
        ['r := Vec(depth).lt(Vec(depth + 1))'], 'r.inspect',
        lambda d: 'true'),
    'native_map_callback': (
        ['l := [1, 2, 3].map |x| -> Helper.bump(x + depthA)', 'r := l[0] * 100 + l[2]'], 'r.inspect',
        lambda d: str((d + 2) * 100 + d + 4)),
    'native_fold_callback': (
        ['r := [1, 2, 3].fold(depth) |a, b| -> Helper.bump(a + bA)'], 'r.inspect',
        lambda d: str(d + 9)),
    'native_filter_callback': (
        ['r := ([1, 2, 3, 4].filter |x| -> Helper.bump(xA) > 2).length'], 'r.inspect',
        lambda d: '3'),
    'native_callback_captured_write': (
        ['var r = depth', '[1, 2, 3].map |x| -> r += Helper.bump(xA)'], 'r.inspect',
        lambda d: str(d + 9)),
    'nested_call_arguments': (
        ['r := Helper.bump(Helper.bump(depthA) + Helper.bump(1A)A)'], 'r.inspect',
        lambda d: str(d + 4)),
    'error_unwinding': (
        ['r := 0', 'do', '  r = thrw(depth)', 'catch :boom', '  r = 0 - depth', 'end'], 'r.inspect',
        lambda d: str(d + 1) if (d + 1) % 2 else str(-d)),
    'tail_call': (
        ['r := tc(3, depth)'], 'r.inspect',
        lambda d: str(d + 3)),
}


# ---------------------------------------------------------------------------------------------
# GENERATOR-RESUME family.  CallGeneratorNext copies the generator's saved frame (self, parameters,
# locals AND the temporaries that were pending at the `yield`) on top of the running thread's stack
# at whatever depth the resume happens; no bytecode call (hence no growth check) precedes the copy,
# so the resume itself may be what crosses a growth threshold.  Each construct resumes a generator
# that was suspended WITH LIVE STATE at every level of the sweep: locals only (narrow saved frame),
# in the middle of a list literal with W-1 pending temporaries (wide saved frame, W = k + 8, wider
# than the recursion's frame stride so that some level is inside the window for every stack size),
# created at the same level or created and suspended at the top level and passed down (resumed at a
# depth different from the one it was suspended at), by `g.next` and by `for ... in`, and with a
# bytecode call inside the generator body (growth while the generator's frame runs on the thread's
# stack).  Generators avoid `yield` as the LAST expression of a loop body (crashes on the unchanged
# tree whatever the configuration; not a C10 matter).
#   name -> (snippet lines, printed expression, python value (d, D, W), walk parameter or None)
def _gen_prelude(k):
    w = k + 8
    a = _args(k)
    elems = ', '.join(['i'] + ['i + %d' % j for j in range(1, w - 1)])
    return """
def *wide(n: Int): Int
  i := n
  yield i
  i += 1
  l := [%s, do
    yield i
    i + %d
  end]
  i = l[0] + l[%d] + l[1]
  yield i
  i + 1
end

def *narrow(n: Int): Int
  i := n
  yield i
  i += 1
  j := i * 3
  yield i + j
  i * 2 + j
end

def *ticker(m: Int): Int
  i := 0
  s := m
  while i < 100000
    i += 1
    s += i * m
    t := [%s, do
      yield s
      m
    end]
    yield t.length + i
    nil
  end
  0
end

def pull(h: Generator[Int, never]): Int
  try h.next
end

def *bumpgen(n: Int): Int
  i := n
  yield i
  i = Helper.bump(i%s)
  yield i
  Helper.bump(i + n%s)
end
""" % (elems, w, w - 1, elems, a, a)


def _wide_vals(n, w):
    return [n, n + 1, 3 * n + 4 + w, 3 * n + 5 + w]


def _fold7(xs):
    r = 0
    for x in xs:
        r = r * 7 + x
    return r


def _tick(j, m):
    return m * (1 + j * (j + 1) // 2)


def _tick_val(r, m, w):
    """value of the r-th resume (1-based) of ticker(m)"""
    return _tick((r + 1) // 2, m) if r % 2 else w + r // 2


def _fold1000(xs):
    r = 0
    for x in xs:
        r = r * 1000 + x
    return r


GEN_CONSTRUCTS = {
    # g.next x4 on a generator created at this level; the 3rd resume restores the wide frame
    'generator_next_wide': (
        ['h := wide(depth)', 'a := try h.next', 'b := try h.next', 'c := try h.next', 'e := try h.next',
         'r := a + b * 3 + c * 5 + e * 7'], 'r.inspect',
        lambda d, D, w: str(sum(x * y for x, y in zip(_wide_vals(d, w), (1, 3, 5, 7)))), None),
    # locals only
    'generator_next_narrow': (
        ['h := narrow(depth)', 'a := try h.next', 'b := try h.next', 'c := try h.next', 'r := a + b * 3 + c * 5'], 'r.inspect',
        lambda d, D, w: str(d + (d + 1 + (d + 1) * 3) * 3 + ((d + 1) * 2 + (d + 1) * 3) * 5), None),
    # the generator is suspended inside the list literal one frame deeper (by `pull`) and resumed here
    'generator_next_other_depth': (
        ['h := wide(depth)', 'a := try h.next', 'b := pull(h)', 'c := try h.next', 'e := pull(h)',
         'r := a + b * 3 + c * 5 + e * 7'], 'r.inspect',
        lambda d, D, w: str(sum(x * y for x, y in zip(_wide_vals(d, w), (1, 3, 5, 7)))), None),
    # for-in (GET_ITERATOR / NEXT) over a generator primed one frame deeper: its first iteration restores the wide frame
    'forin_generator_wide': (
        ['r := 0', 'h := wide(depth % 5)', 'pull(h)', 'pull(h)', 'for x in h', '  r = r * 7 + x', 'end'], 'r.inspect',
        lambda d, D, w: str(_fold7(_wide_vals(d % 5, w)[2:])), None),
    # a generator suspended at the top level (resp. one level up) and resumed here: odd resumes restore the wide frame
    'generator_next_passed': (
        ['r := (try g.next) * 1000 + (try g.next)'], 'r.inspect',
        lambda d, D, w: str(_tick(D - d + 1, 3) * 1000 + w + (D - d + 1)), ('g: Generator[Int, never]', 'ticker(3)')),
    # three resumes per level, so that the level's FIRST resume alternates between the narrow and the wide saved frame
    'forin_generator_passed': (
        ['r := 0', 'c := 0', 'for x in g', '  r = r * 1000 + x', '  c += 1', '  break if c >= 3', 'end'], 'r.inspect',
        lambda d, D, w: str(_fold1000([_tick_val(3 * (D - d) + i, 2, w) for i in (1, 2, 3)])), ('g: Generator[Int, never]', 'ticker(2)')),
    # growth at a bytecode call made by the generator body while its frame lives on the thread's stack
    'generator_body_calls_helper': (
        ['h := bumpgen(depth)', 'a := try h.next', 'b := try h.next', 'c := try h.next', 'r := a + b * 3 + c * 5'], 'r.inspect',
        lambda d, D, w: str(d + (d + 1) * 3 + (2 * d + 2) * 5), None),
}


def constructs():
    return sorted(CONSTRUCTS) + sorted(GEN_CONSTRUCTS)


def frame_slots(construct, pad):
    """rough number of value-stack slots per recursion level (self, depth, pad locals, the construct's locals/temps)"""
    return 2 + pad + 4


def depth_for(pad, thresholds_slots=760):
    """levels needed so that the recursion passes 70 % of 256 and 512 slots (and 70 % of the 266..500-slot stacks
    and their doubles) and comes close to 70 % of 1024 / the default 1000 slots"""
    return min(220, max(40, -(-thresholds_slots // (2 + pad + 3))))


def program(construct, k, pad, depth, offset):
    if construct in GEN_CONSTRUCTS:
        return _gen_program(construct, k, pad, depth, offset)
    lines, show, pyv = CONSTRUCTS[construct]
    a = _args(k)
    out = [_prelude(k)]
    out.append('def walk(depth: Int): Int')
    out.append('  return 0 if depth == 0')
    for i in range(pad):
        out.append('  q%d := depth + %d' % (i + 1, i))
    for l in lines:
        out.append('  ' + l.replace('A)', a + ')'))
    out.append('  println("d " + depth.to_string + " " + %s)' % show)
    out.append('  walk(depth - 1) + 1' + (' + q%d - q1' % pad if pad else ''))
    out.append('end')
    for i in range(offset):
        out.append('o%d := %d' % (i + 1, i))
    out.append('println(walk(%d).inspect)' % depth)
    exp = ''.join('d %d %s\n' % (d, pyv(d)) for d in range(depth, 0, -1))
    exp += '%d\n' % (depth * (1 + (pad - 1 if pad else 0)))
    return '\n'.join(out) + '\n', exp


def _gen_program(construct, k, pad, depth, offset):
    lines, show, pyv, passed = GEN_CONSTRUCTS[construct]
    w = k + 8
    out = [_prelude(k), _gen_prelude(k)]
    out.append('def walk(depth: Int%s): Int' % (', ' + passed[0] if passed else ''))
    out.append('  return 0 if depth == 0')
    for i in range(pad):
        out.append('  q%d := depth + %d' % (i + 1, i))
    for l in lines:
        out.append('  ' + l)
    out.append('  println("d " + depth.to_string + " " + %s)' % show)
    out.append('  walk(depth - 1%s) + 1' % (', g' if passed else '') + (' + q%d - q1' % pad if pad else ''))
    out.append('end')
    for i in range(offset):
        out.append('o%d := %d' % (i + 1, i))
    if passed:
        out.append('gg := %s' % passed[1])
        out.append('println(walk(%d, gg).inspect)' % depth)
    else:
        out.append('println(walk(%d).inspect)' % depth)
    exp = ''.join('d %d %s\n' % (d, pyv(d, depth, w)) for d in range(depth, 0, -1))
    exp += '%d\n' % (depth * (1 + (pad - 1 if pad else 0)))
    return '\n'.join(out) + '\n', exp
