"""C02 stream c02.cls - classes, subclassing and narrowing by `x <: C`, `C :> x`, `x <<: C`, `C :>> x`.

A case is  (kprog H (env (X T)...) S)  in the syntax of ocaml/C02/main.ml (class ids are integers; class i is
printed as K<i>, 100 is Std::Int).  For every case
  static   the REAL checker's type of every probed local (typed AST, harness/cmd/c02 -extra types) must have the
           same VALUE SET over the finite universe {direct instances of every class, an Int, nil} as the type
           the extracted model infers (kannot fixed); membership is decided by the extracted `kmem`.
  runtime  the program is run once per argument tuple; every executed probe prints the runtime class of the
           local and, where the static type allows the call, the result of the overridden method `name`:
             - the executed probes must be those of the extracted interpreter (krun),
             - the runtime class must be a member of the checker's static type (kmem),
             - `name` must be the override that dynamic dispatch selects for the runtime class (resolve).
A divergence that the AS-FOUND model (kannot found; proved unsound: C02_cls_instance_of_else_refuted) explains is
reported under the instance-of-else keys; any other one is keyed by the narrowing atoms active in the branch.
"""
import os
import re
import vlib

CLS = "c02.cls"
INT = 100
TOKS = ["isa", "risa", "inst", "rinst"]


def sx_parse(s):
    toks = re.findall(r"\(|\)|[^\s()]+", s)
    pos = [0]

    def item():
        t = toks[pos[0]]
        pos[0] += 1
        if t == "(":
            acc = []
            while toks[pos[0]] != ")":
                acc.append(item())
            pos[0] += 1
            return acc
        return t
    return item()


def sx_str(x):
    if isinstance(x, str):
        return x
    return "(" + " ".join(sx_str(y) for y in x) + ")"


# ------------------------------------------------------------------ printing to Elk

def cname(c):
    return "Int" if int(c) == INT else "K" + str(c)


def elk_kty(t):
    if isinstance(t, str):
        return t
    if t[0] == "c":
        return cname(t[1])
    if t[0] == "x":
        return "exact " + cname(t[1])
    if t[0] == "or":
        return elk_kty(t[1]) + " | " + elk_kty(t[2])
    raise ValueError(t)


def elk_kcond(c):
    k = c[0]
    if k == "isa":
        return "(v%s <: %s)" % (c[1], cname(c[2]))
    if k == "risa":
        return "(%s :> v%s)" % (cname(c[2]), c[1])
    if k == "inst":
        return "(v%s <<: %s)" % (c[1], cname(c[2]))
    if k == "rinst":
        return "(%s :>> v%s)" % (cname(c[2]), c[1])
    if k == "not":
        return "(!" + elk_kcond(c[1]) + ")"
    if k == "and":
        return "(" + elk_kcond(c[1]) + " && " + elk_kcond(c[2]) + ")"
    if k == "or":
        return "(" + elk_kcond(c[1]) + " || " + elk_kcond(c[2]) + ")"
    raise ValueError(c)


PRELUDE = """def pr(x: any): String
  switch x
  case ::Std::Value() as y then y.class.name
  else "?"
  end
end
"""


def kstmts(s):
    if s == "skip":
        return []
    if s[0] == "seq":
        out = []
        for x in s[1:]:
            out += kstmts(x)
        return out
    return [s]


def model_stmt(s):
    """the statement as the model sees it (`unless` is `if` with the branches swapped back)"""
    if s == "skip":
        return s
    if s[0] == "seq":
        return ["seq"] + [model_stmt(x) for x in s[1:]]
    if s[0] in ("if", "unless"):
        return ["if", s[1], model_stmt(s[2]), model_stmt(s[3])]
    return s


class Printer:
    """Elk source of a case. names: probe id -> True when `.name` is printed as well."""

    def __init__(self, hier, env, stmt):
        self.ct, self.ovr = hier
        self.env = env
        self.stmt = stmt
        self.probe_line = {}

    def classes(self):
        cs = set()
        for c, p in self.ct:
            cs.add(c)
            cs.add(p)
        cs |= set(self.ovr)

        def walk(x):
            if isinstance(x, list):
                if x and x[0] in ("c", "x") and len(x) == 2:
                    cs.add(int(x[1]))
                elif x and x[0] in TOKS:
                    cs.add(int(x[2]))
                else:
                    for y in x:
                        walk(y)
        walk([t for _, t in self.env])
        walk(self.stmt)
        cs.discard(INT)
        return sorted(cs)

    def source(self, names, calls):
        out = []
        parent = dict(self.ct)
        for c in self.classes():
            out.append("class K%d%s" % (c, " < K%d" % parent[c] if c in parent else ""))
            if c in self.ovr:
                out.append('  def name: String then "K%d"' % c)
            out.append("end")
        out += PRELUDE.rstrip("\n").split("\n")
        out.append("def w(%s)" % ", ".join("v%s: %s" % (x, elk_kty(t)) for x, t in self.env))
        self.body(self.stmt, 1, out, names)
        out.append("  nil")
        out.append("end")
        for j, args in enumerate(calls):
            out.append('println("C%d")' % j)
            out.append("w(%s)" % ", ".join(self.arg(a) for a in args))
        return "\n".join(out) + "\n"

    @staticmethod
    def arg(v):
        if v == "n":
            return "nil"
        c = int(v[1])
        return "7" if c == INT else "K%d()" % c

    def body(self, s, ind, out, names):
        pad = "  " * ind
        for x in kstmts(s):
            if x[0] == "probe":
                k, v = x[1], x[2]
                self.probe_line[k] = len(out) + 1
                extra = ' + " " + v%s.name' % v if names.get(k) else ""
                out.append('%sprintln("P%s " + pr(v%s)%s)' % (pad, k, v, extra))
            elif x[0] in ("if", "unless"):
                first, second = (x[2], x[3]) if x[0] == "if" else (x[3], x[2])
                out.append("%s%s %s" % (pad, x[0], elk_kcond(x[1])))
                self.body(first, ind + 1, out, names)
                out.append(pad + "  nil")
                out.append(pad + "else")
                self.body(second, ind + 1, out, names)
                out.append(pad + "  nil")
                out.append(pad + "end")
            else:
                raise ValueError(x)


# ------------------------------------------------------------------ generator

class Gen:
    def __init__(self, rng):
        self.r = rng
        self.nprobe = 0
        self.dist = {}

    def count(self, k):
        self.dist[k] = self.dist.get(k, 0) + 1

    def hierarchy(self):
        r = self.r
        n = r.range(3, 6)
        parent, depth = {}, {1: 1}
        for c in range(2, n + 1):
            cands = [d for d in range(1, c) if depth[d] < 3]
            if c == 2 or (cands and r.chance(3, 4)):
                deep = [d for d in cands if depth[d] == 2]
                p = r.choice(deep) if deep and r.chance(1, 2) else r.choice(cands)
                parent[c] = p
                depth[c] = depth[p] + 1
            else:
                depth[c] = 1
        ovr = [c for c in range(1, n + 1) if c not in parent or r.chance(2, 3)]
        self.n, self.parent, self.depth = n, parent, depth
        self.count("hierarchy:levels=%d" % max(depth.values()))
        return sorted(parent.items()), ovr

    def is_sub(self, c, d):
        while True:
            if c == d:
                return True
            if c not in self.parent:
                return False
            c = self.parent[c]

    def decl_type(self):
        r = self.r
        with_kids = [c for c in range(1, self.n + 1) if c in self.parent.values()]
        if r.chance(1, 12):
            return ["x", str(r.choice(with_kids))]
        members = [r.choice(with_kids)] if r.chance(3, 4) else [r.range(1, self.n)]
        for _ in range(r.range(0, 2)):
            c = r.range(1, self.n)
            if not any(self.is_sub(c, d) or self.is_sub(d, c) for d in members):
                members.append(c)
        parts = [["c", str(c)] for c in members]
        if r.chance(1, 2):
            parts.append(["c", str(INT)])
        if r.chance(1, 3):
            parts.append("nil")
        r.shuffle(parts)
        t = parts[-1]
        for p in reversed(parts[:-1]):
            t = ["or", p, t]
        return t

    def test(self, vars_):
        r = self.r
        tok = r.choice(TOKS)
        c = INT if r.chance(1, 10) else r.range(1, self.n)
        self.count("test:" + tok)
        return [tok, r.choice(vars_), str(c)]

    def cond(self, vars_, depth):
        r = self.r
        k = r.below(12)
        if depth <= 0 or k < 7:
            return self.test(vars_)
        if k < 9:
            self.count("cond:not")
            return ["not", self.cond(vars_, depth - 1)]
        op = "and" if k < 11 else "or"
        self.count("cond:" + op)
        return [op, self.cond(vars_, depth - 1), self.cond(vars_, depth - 1)]

    def probes(self, vars_):
        out = []
        for v in vars_:
            out.append(["probe", str(self.nprobe), v])
            self.nprobe += 1
        return out

    def branch(self, vars_, depth):
        out = self.probes(vars_)
        if depth > 0 and self.r.chance(1, 2):
            out.append(self.ifs(vars_, depth - 1))
        return ["seq"] + out

    def ifs(self, vars_, depth):
        head = "unless" if self.r.chance(1, 5) else "if"
        self.count("stmt:" + head)
        return [head, self.cond(vars_, 2), self.branch(vars_, depth), self.branch(vars_, depth)]

    def case(self):
        hier = self.hierarchy()
        nv = 1 if self.r.chance(2, 3) else 2
        env = [(str(i), self.decl_type()) for i in range(nv)]
        vars_ = [x for x, _ in env]
        body = ["seq"] + [self.ifs(vars_, 2) for _ in range(self.r.range(1, 3))]
        return [["h", ["ct"] + [[str(c), str(p)] for c, p in hier[0]], ["ovr"] + [str(c) for c in hier[1]]],
                ["env"] + [[x, t] for x, t in env], body]


def directed_family():
    """every operator token x polarity on `v0: K1 | Int` with K2 < K1, K3 < K2 (and K2 as the operand too)"""
    out = []
    h = ["h", ["ct", ["2", "1"], ["3", "2"]], ["ovr", "1", "2", "3"]]
    for tok in TOKS:
        for c in ("1", "2"):
            for neg in (False, True):
                t = [tok, "0", c]
                cond = ["not", t] if neg else t
                s = ["seq", ["if", cond, ["seq", ["probe", "0", "0"]], ["seq", ["probe", "1", "0"]]]]
                out.append([h, ["env", ["0", ["or", ["c", "1"], ["c", str(INT)]]]], s])
    return out


# ------------------------------------------------------------------ analysis helpers

def hier_of(case):
    h = case[0]
    ct = [(int(p[0]), int(p[1])) for p in h[1][1:]]
    ovr = [int(c) for c in h[2][1:]]
    return ct, ovr


def universe(case):
    pr_ = Printer(hier_of(case), [(e[0], e[1]) for e in case[1][1:]], case[2])
    return [["o", str(c)] for c in pr_.classes()] + [["o", str(INT)], "n"]


def arg_values(case, t, ans_mem):
    """values of the universe that belong to the declared type t (decided by the caller through kmem)"""
    return [u for u in universe(case) if ans_mem(t, u)]


def probe_paths(s, path=None, acc=None):
    """probe id -> list of (cond, branch) from the outermost enclosing if (model view: unless already swapped)"""
    if acc is None:
        acc = {}
    path = path or []
    for x in kstmts(s):
        if x[0] == "probe":
            acc[x[1]] = (x[2], list(path))
        elif x[0] == "if":
            probe_paths(x[2], path + [(x[1], True)], acc)
            probe_paths(x[3], path + [(x[1], False)], acc)
    return acc


def active_atoms(c, pos, var):
    """the narrowing atoms narrowCondition applies to `var` when c is assumed pos"""
    k = c[0]
    if k in TOKS:
        return [k + ("+" if pos else "-")] if c[1] == var else []
    if k == "not":
        return active_atoms(c[1], not pos, var)
    if k == "and":
        return active_atoms(c[1], True, var) + active_atoms(c[2], True, var) if pos else []
    if k == "or":
        return [] if pos else active_atoms(c[1], False, var) + active_atoms(c[2], False, var)
    raise ValueError(c)


NAME_RE = re.compile(r"\((c|x) ([A-Za-z0-9_:]+)\)")


def real_type(text):
    """harness type s-expression over class names -> model type sx, or None"""
    if "(unknown" in text:
        return None
    bad = []

    def rep(m):
        n = m.group(2)
        if n == "Std::Int":
            return "(%s %d)" % (m.group(1), INT)
        if re.match(r"^K\d+$", n):
            return "(%s %s)" % (m.group(1), n[1:])
        bad.append(n)
        return m.group(0)
    t = NAME_RE.sub(rep, text)
    if bad:
        return None
    return sx_parse(t)


def name_callable(t):
    """`.name` is printed only where the checker's type is a user class, an exact user class, an intersection with
    such a conjunct, or a union of these"""
    if isinstance(t, str):
        return False
    if t[0] in ("c", "x"):
        return int(t[1]) != INT
    if t[0] == "or":
        return name_callable(t[1]) and name_callable(t[2])
    if t[0] == "and":
        return name_callable(t[1]) or name_callable(t[2])
    return False


def esc(src):
    return src.replace("\\", "\\\\").replace("\t", "\\t").replace("\n", "\\n")


# ------------------------------------------------------------------ the stream

KNOWN_STATIC = "cls-narrow:instance-of-else-excludes-subclass-instances"
KNOWN_MEMBER = "cls-member:instance-of-else-subclass-instance-outside-static-type"
KNOWN_DISPATCH = "cls-dispatch:instance-of-else-static-binding-to-wrong-class"


def run_cases(ctx, elk, h, m, cases, tag, max_calls):
    """cases: list of (id, case sx, origin). Returns stats."""
    st = dict(cases=len(cases), executed_programs=0, evaluations=0, distinct=set(), static_probes=0, static_agree=0,
              static_known=0, static_other=0, member_checks=0, dispatch_checks=0, calls=0, statically_bound_probes=0,
              subclass_instance_probes=0)
    rng = ctx.rng(CLS + ".calls." + tag)
    # ---- model: static types (fixed and as found), argument values
    q_ids, q_in = [], {}
    info = {}
    for cid, case, origin in cases:
        hsx, envsx = sx_str(case[0]), sx_str(case[1])
        ms = sx_str(model_stmt(case[2]))
        for fx in ("fixed", "found"):
            q = "%s.a.%s" % (cid, fx)
            q_ids.append(q)
            q_in[q] = "(kannot %s %s %s %s)" % (fx, hsx, envsx, ms)
        uni = universe(case)
        for x, t in [(e[0], e[1]) for e in case[1][1:]]:
            for j, u in enumerate(uni):
                q = "%s.d.%s.%d" % (cid, x, j)
                q_ids.append(q)
                q_in[q] = "(kmem %s %s %s)" % (hsx, sx_str(t), sx_str(u))
        info[cid] = dict(uni=uni)
    rc, ans, mout = vlib.run_model(m, q_ids, q_in)
    if rc != 0:
        ctx.broke("correspondence %s: model driver exited %d" % (CLS, rc), mout[-2000:])
        return st
    # ---- harness: the real checker's types (probes without `.name`)
    lines = []
    prn = {}
    for cid, case, origin in cases:
        p = Printer(hier_of(case), [(e[0], e[1]) for e in case[1][1:]], case[2])
        src = p.source({}, [])
        prn[cid] = p
        lines.append(cid + "\t" + esc(src))
    rc, out = vlib.sh([h, "-extra", "types"], inp="\n".join(lines) + "\n", timeout=3000, env=vlib.elk_env())
    got = {}
    for l in out.splitlines():
        f = l.split("\t")
        if len(f) >= 3:
            got[f[0]] = f[2]
    if rc != 0:
        ctx.broke("correspondence %s: harness -extra types exited %d" % (CLS, rc), out[-2000:])
    # ---- static oracle: value sets of real vs model types over the universe
    q_ids, q_in = [], {}
    todo = []
    for cid, case, origin in cases:
        inp = sx_str(["kprog"] + case)
        g = got.get(cid)
        a_fixed, a_found = ans.get(cid + ".a.fixed"), ans.get(cid + ".a.found")
        if g is None or a_fixed is None or a_found is None or not a_fixed.startswith("(types"):
            ctx.broke("correspondence %s: no verdict for %s (harness %r, model %r)" % (CLS, inp[:300], g, a_fixed))
            continue
        p = prn[cid]
        if not g.startswith("ok"):
            msg = re.sub(r"`[^`]*`", "`..`", g)[:80]
            ctx.fail("cls-static:rejected:" + re.sub(r"[^A-Za-z`.:]+", "-", msg.split(":", 2)[-1])[:60],
                     "the real checker rejects a program of the class fragment: %s\n%s" % (g, p.source({}, [])),
                     stream=CLS, case=inp, impl=g, model="accepted", oracle="programs of the fragment are well typed")
            continue
        by_line = {}
        for ent in g.split("|")[1:]:
            ln, name, ty = ent.split(":", 2)
            by_line.setdefault(int(ln), {})[name] = ty
        mfixed = {e[0]: e[1] for e in sx_parse(a_fixed)[1:]}
        mfound = {e[0]: e[1] for e in sx_parse(a_found)[1:]}
        paths = probe_paths(model_stmt(case[2]))
        rtypes = {}
        bad = False
        for k, (var, path) in paths.items():
            txt = by_line.get(p.probe_line[k], {}).get("v" + var)
            rt = real_type(txt) if txt else None
            if rt is None or k not in mfixed:
                ctx.fail("cls-static:unparsable-type", "probe P%s: checker type %r is outside the modelled type language\n%s"
                         % (k, txt, p.source({}, [])), stream=CLS, case=inp, impl=str(txt), model=sx_str(mfixed.get(k, "?")),
                         oracle="the checker's type of a probed local is expressible in the model")
                bad = True
                break
            rtypes[k] = rt
        if bad:
            continue
        hsx = sx_str(case[0])
        for k in paths:
            for j, u in enumerate(info[cid]["uni"]):
                for which, t in (("r", rtypes[k]), ("m", mfixed[k]), ("f", mfound[k])):
                    q = "%s.s.%s.%s.%d" % (cid, k, which, j)
                    q_ids.append(q)
                    q_in[q] = "(kmem %s %s %s)" % (hsx, sx_str(t), sx_str(u))
            q = "%s.t.%s" % (cid, k)
            q_ids.append(q)
            q_in[q] = "(kstatic %s %s)" % (hsx, sx_str(rtypes[k]))
        for c in p.classes():
            q = "%s.r.%d" % (cid, c)
            q_ids.append(q)
            q_in[q] = "(kres %s %d)" % (hsx, c)
        todo.append((cid, case, inp, p, paths, rtypes, mfixed, mfound))
    rc, sans, mout = vlib.run_model(m, q_ids, q_in)
    if rc != 0:
        ctx.broke("correspondence %s: model driver exited %d" % (CLS, rc), mout[-2000:])
        return st
    runs = []
    for cid, case, inp, p, paths, rtypes, mfixed, mfound in todo:
        uni = info[cid]["uni"]
        status = {}

        def vset(k, which):
            return tuple(sans.get("%s.s.%s.%s.%d" % (cid, k, which, j)) == "in" for j in range(len(uni)))
        for k, (var, path) in paths.items():
            st["static_probes"] += 1
            R, M, F = vset(k, "r"), vset(k, "m"), vset(k, "f")
            if R == M:
                status[k] = ("ok", None)
                st["static_agree"] += 1
            elif R == F:
                status[k] = ("known", None)
                st["static_known"] += 1
            else:
                rel = "impl-narrower" if all(m_ or not r_ for r_, m_ in zip(R, M)) else \
                      "impl-wider" if all(r_ or not m_ for r_, m_ in zip(R, M)) else "incomparable"
                status[k] = ("other", rel)
                st["static_other"] += 1
        # report static divergences at their origin: the outermost enclosing branch whose probe of the same local
        # diverges in the same way; the key names the narrowing atoms narrowCondition applies there
        reported = set()
        for k, (var, path) in list(paths.items()):
            kind, rel = status[k][0], status[k][1]
            if kind == "ok":
                cond, pos = path[-1] if path else (None, True)
                status[k] = (kind, rel, (",".join(sorted(set(active_atoms(cond, pos, var)))) if cond else "declared") or "none")
                continue
            origin_k, origin_path = k, path
            for k2, (var2, path2) in paths.items():
                if var2 == var and status[k2][0] == kind and len(path2) < len(origin_path) and path2 == path[:len(path2)]:
                    origin_k, origin_path = k2, path2
            cond, pos = origin_path[-1] if origin_path else (None, True)
            atoms = (",".join(sorted(set(active_atoms(cond, pos, var)))) if cond else "declared") or "none"
            status[k] = (kind, status[origin_k][1], atoms)
            if origin_k in reported:
                continue
            reported.add(origin_k)
            rel = status[origin_k][1]
            diff = [sx_str(u) for j, u in enumerate(uni) if vset(origin_k, "r")[j] != vset(origin_k, "m")[j]]
            what = ("probe P%s of v%s: the checker's static type %s and the model's %s differ on the values %s\n%s"
                    % (origin_k, var, sx_str(rtypes[origin_k]), sx_str(mfixed[origin_k]), " ".join(diff), p.source({}, [])))
            if kind == "known":
                ctx.fail(KNOWN_STATIC, what, stream=CLS, case=inp, impl=sx_str(rtypes[origin_k]), model=sx_str(mfixed[origin_k]),
                         oracle="value set of the checker's narrowed type = value set of the proved narrowing rule")
            else:
                ctx.fail("cls-static:%s:%s" % (atoms, rel), what, stream=CLS, case=inp, impl=sx_str(rtypes[origin_k]),
                         model=sx_str(mfixed[origin_k]),
                         oracle="value set of the checker's narrowed type = value set of the proved narrowing rule")
        # argument tuples
        per_var = []
        for x, t in [(e[0], e[1]) for e in case[1][1:]]:
            per_var.append([u for j, u in enumerate(uni) if ans.get("%s.d.%s.%d" % (cid, x, j)) == "in"])
        tuples = [[]]
        for vs in per_var:
            tuples = [a + [v] for a in tuples for v in vs]
        rng.shuffle(tuples)
        tuples = tuples[:max_calls]
        names = {k: name_callable(rtypes[k]) and name_callable(mfixed[k]) for k in paths}
        for k in paths:
            if sans.get("%s.t.%s" % (cid, k)) not in (None, "dyn"):
                st["statically_bound_probes"] += 1
        runs.append((cid, case, inp, p, paths, rtypes, mfixed, status, tuples, names))
    # ---- run
    srcs = [(cid, p.source(names, tuples)) for cid, case, inp, p, paths, rtypes, mfixed, status, tuples, names in runs]
    res = vlib.run_programs(elk, srcs, os.path.join(ctx.workdir, "cls_" + tag), timeout=90, env={"GOMAXPROCS": "4"})
    slow = [(cid, src) for cid, src in srcs if res[cid][2] == "timeout"]
    if slow:
        res.update(vlib.run_programs(elk, slow, os.path.join(ctx.workdir, "cls_" + tag + "_slow"), workers=2, timeout=400,
                                     env={"GOMAXPROCS": "4"}))
    q_ids, q_in = [], {}
    for cid, case, inp, p, paths, rtypes, mfixed, status, tuples, names in runs:
        hsx, envsx, ms = sx_str(case[0]), sx_str(case[1]), sx_str(model_stmt(case[2]))
        xs = [e[0] for e in case[1][1:]]
        for j, args in enumerate(tuples):
            q = "%s.x.%d" % (cid, j)
            q_ids.append(q)
            q_in[q] = "(krun fixed %s %s %s %s)" % (hsx, envsx, sx_str(["vals"] + [[x, a] for x, a in zip(xs, args)]), ms)
    rc, rans, mout = vlib.run_model(m, q_ids, q_in)
    if rc != 0:
        ctx.broke("correspondence %s: model driver exited %d" % (CLS, rc), mout[-2000:])
        return st
    mem_q, pending = [], []
    for cid, case, inp, p, paths, rtypes, mfixed, status, tuples, names in runs:
        rc_, out, cls_ = res[cid]
        src = p.source(names, tuples)
        if cls_ in ("go_panic", "go_fatal", "signal"):
            m_ = re.search(r"\n([\w./*()]+)\(.*\n\t/repo/", out)
            known = any(s_[0] == "known" for s_ in status.values())
            ctx.fail(KNOWN_MEMBER if known else "cls-run:go-panic:" + (m_.group(1).split("/")[-1] if m_ else "unknown"),
                     "accepted program crashes the VM:\n" + src + out.strip()[:400], stream=CLS, case=inp, impl=cls_,
                     model="runs", oracle="accepted programs of the fragment run")
            continue
        if cls_ == "timeout":
            ctx.broke("correspondence %s: program timed out twice" % CLS, src)
            continue
        if rc_ != 0 or "[FAIL]" in out:
            m_ = re.search(r"\[FAIL\] ([^\n]*)", out)
            why = re.sub(r"`[^`]*`", "`..`", m_.group(1))[:70] if m_ else out.strip()[-60:]
            ctx.fail("cls-run:error:" + re.sub(r"[^A-Za-z`.:]+", "-", why)[:60],
                     "program accepted without `.name` calls fails with them (or at run time):\n" + src + out.strip()[-400:],
                     stream=CLS, case=inp, impl=out.strip()[-300:], model="runs",
                     oracle="`.name` is callable where the checker's own static type is a (union of) user class(es)")
            continue
        st["executed_programs"] += 1
        # split the output by call
        per_call, cur = {}, None
        okfmt = True
        for l in out.splitlines():
            mm = re.match(r"^C(\d+)$", l)
            if mm:
                cur = int(mm.group(1))
                per_call[cur] = []
                continue
            mm = re.match(r"^P(\d+) ([\w:]+)(?: (\w+))?$", l)
            if mm and cur is not None:
                per_call[cur].append((mm.group(1), mm.group(2), mm.group(3)))
            elif l.strip():
                okfmt = False
        if not okfmt:
            ctx.fail("cls-run:unparsable-output", "unexpected output line:\n" + src + out[-300:], stream=CLS, case=inp,
                     impl=out[-300:], model="", oracle="output format")
            continue
        for j, args in enumerate(tuples):
            st["calls"] += 1
            a = rans.get("%s.x.%d" % (cid, j))
            obs = per_call.get(j, [])
            if a is None or not a.startswith("(log"):
                ctx.broke("correspondence %s: model interpreter gave %r" % (CLS, a), inp)
                continue
            log = [(e[0], e[1], e[2], e[3]) for e in sx_parse(a)[1:]]
            if any(e[3] != "in" for e in log):
                ctx.broke("model contradicts C02_cls_preservation", inp)
            if [o[0] for o in obs] != [e[0] for e in log]:
                ctx.fail("cls-trace:executed-probes-differ",
                         "call %d %s: executed probes differ: implementation %s, model %s\n%s"
                         % (j, [sx_str(x) for x in args], [o[0] for o in obs], [e[0] for e in log], src), stream=CLS, case=inp,
                         impl=str(obs)[:300], model=a[:300], oracle="reference interpreter (eval_c / krun)")
                continue
            for (k, cn, nm), e in zip(obs, log):
                st["evaluations"] += 1
                st["distinct"].add((inp, j, k))
                v = "n" if cn == "Std::Nil" else ["o", str(INT)] if cn == "Std::Int" else \
                    ["o", cn[1:]] if re.match(r"^K\d+$", cn) else None
                if v is None or sx_str(v) != sx_str(e[2]):
                    ctx.fail("cls-value:runtime-class-differs", "call %d probe P%s: runtime class %s, reference interpreter %s\n%s"
                             % (j, k, cn, sx_str(e[2]), src), stream=CLS, case=inp, impl=cn, model=sx_str(e[2]),
                             oracle="reference interpreter")
                    continue
                if v != "n" and int(v[1]) != INT and any(int(v[1]) == c for c, _ in hier_of(case)[0]):
                    st["subclass_instance_probes"] += 1
                qid = "%s.m.%d.%s" % (cid, j, k)
                mem_q.append((qid, "(kmem %s %s %s)" % (sx_str(case[0]), sx_str(rtypes[k]), sx_str(v))))
                pending.append((qid, cid, inp, src, j, k, v, cn, nm, rtypes[k], status[k], paths[k], sans.get("%s.r.%s" % (cid, v[1])) if v != "n" else None))
    rc, mans, mout = vlib.run_model(m, [q[0] for q in mem_q], dict(mem_q))
    for qid, cid, inp, src, j, k, v, cn, nm, rt, (kind, rel, atoms), (var, path), resolved in pending:
        a = mans.get(qid)
        st["member_checks"] += 1
        if a not in ("in", "out"):
            ctx.broke("correspondence %s: membership query failed (%s)" % (CLS, a))
            continue
        if a == "out":
            key = KNOWN_MEMBER if kind == "known" else "cls-member:%s:%s" % (atoms, "static-types-agree" if kind == "ok" else rel)
            ctx.fail(key, "call %d probe P%s: v%s has static type %s (real checker) but holds an instance of %s:\n%s"
                     % (j, k, var, sx_str(rt), cn, src), stream=CLS, case=inp, impl=cn, model="not a member of " + sx_str(rt),
                     oracle="runtime class is a member of the checker's static type (extracted kmem)")
        if nm is not None:
            st["dispatch_checks"] += 1
            want = "K" + resolved if resolved and resolved != "none" else None
            if want != nm:
                key = KNOWN_DISPATCH if kind == "known" else "cls-dispatch:%s:%s" % (atoms, "static-types-agree" if kind == "ok" else rel)
                ctx.fail(key, "call %d probe P%s: v%s.name on an instance of %s ran %s#name, dynamic dispatch selects %s#name "
                         "(static type %s):\n%s" % (j, k, var, cn, nm, want, sx_str(rt), src), stream=CLS, case=inp, impl=nm,
                         model=str(want), oracle="the method that runs is the override of the runtime class (extracted resolve)")
    return st


def load_corpus(path):
    out = []
    if os.path.exists(path):
        for n, line in enumerate(open(path)):
            line = line.strip()
            if not line or line.startswith("#"):
                continue
            x = sx_parse(line)
            out.append(("ck%d" % n, x[1:], "corpus"))
    return out


def run_stream(ctx, elk, h, m):
    rng = ctx.rng(CLS)
    corpus = load_corpus(os.path.join(vlib.ROOT, "corpus", "C02.cls.txt"))
    fam = [("cd%d" % i, c, "directed") for i, c in enumerate(directed_family())]
    gen, dist = [], {}
    for i in range(ctx.n(40, 200)):
        g = Gen(rng)
        c = g.case()
        for k, v in g.dist.items():
            dist[k] = dist.get(k, 0) + v
        gen.append(("cg%d" % i, c, "generated"))
    parts = []
    if corpus:
        parts.append(run_cases(ctx, elk, h, m, corpus, "corpus", 12))
    parts.append(run_cases(ctx, elk, h, m, fam, "family", 12))
    for i in range(0, len(gen), 400):
        parts.append(run_cases(ctx, elk, h, m, gen[i:i + 400], "gen%d" % i, ctx.n(6, 8)))
    tot = lambda k: sum(s[k] for s in parts)
    samples = []
    for cid, c, _ in gen[:2]:
        p = Printer(hier_of(c), [(e[0], e[1]) for e in c[1][1:]], c[2])
        samples.append({"program": p.source({}, [])[:900]})
    ctx.stream(CLS, tot("evaluations"), len(set().union(*[s["distinct"] for s in parts])),
               "class programs: 3-6 classes in hierarchies of up to 3 levels (single inheritance, each non-root class overrides "
               "`name` with probability 2/3), a method with 1-2 parameters declared as unions of classes / Int / nil (or one "
               "exact class), a body of 1-3 if/unless statements nested up to depth 3 whose conditions are the tests "
               "`v <: K`, `K :> v`, `v <<: K`, `K :>> v` combined with ! && ||; every branch starts with a probe of every "
               "parameter (runtime class + `.name` where callable); the method is called with up to 6 tuples of direct "
               "instances of all classes that inhabit the declared types. Plus the directed family token x operand x "
               "polarity on `K1 | Int` with K3 < K2 < K1, plus corpus. evaluation = one executed probe (trace vs the extracted "
               "interpreter, runtime class in the checker's static type by extracted kmem, dispatched override by extracted "
               "resolve); in addition every probe's static type (real checker, typed AST) is compared as a value set with "
               "the extracted kannot; non-trivial = distinct (program, call, probe)",
               samples,
               dict(nodes=dist, generated=len(gen), directed_family=len(fam), corpus=len(corpus),
                    executed_programs=tot("executed_programs"), calls=tot("calls"), static_probes=tot("static_probes"),
                    static_types_agree=tot("static_agree"), static_divergence_explained_by_as_found_model=tot("static_known"),
                    static_divergence_other=tot("static_other"), membership_checks=tot("member_checks"),
                    dispatch_checks=tot("dispatch_checks"), probes_with_statically_bound_receiver=tot("statically_bound_probes"),
                    probes_executed_on_subclass_instances=tot("subclass_instance_probes")))
    if tot("cases") and tot("executed_programs") * 2 < tot("cases"):
        ctx.broke("correspondence %s: fewer than half of the programs were executed (%d of %d)"
                  % (CLS, tot("executed_programs"), tot("cases")))
