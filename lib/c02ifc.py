"""C02 streams c02.subhist and c02.ifc - generic classes, generic interfaces, IMPLICIT (structural) interface
implementation (Model/C02_Iface.v).

Tables  G = (tab (cls (C g|n (m NAME P R BODY)...)...) (ifc (I g|n (m NAME P R)...)...))  in the syntax of
        ocaml/C02/main.ml.  Class C is printed as K<C>[T] with one field `@item: T`, interface I as I<I>[T]; a
        NON-generic class / interface (flag n) is the same thing with T fixed to one closed type (its `fixed`
        argument), printed without a type parameter - every type that mentions it uses that argument.

c02.subhist  HISTORIES of subtype questions.  One case = tables + 4..10 questions (a, b), many of them about the same
        class instantiation and the same interface with different type arguments.  The questions are put to the real
        checker inside ONE checker.CheckSource run as ONE method `def q(y0: a0, y1: a1, ...)` whose body asks them in
        order (`var x<k>: b<k> = y<k>`, one line each), in three seeded orders (model-accepted questions first,
        model-rejected questions first, shuffled; every second shuffled run uses one method per question), and
        ALONE in a fresh checker (all questions in the thorough tier, a sample plus every suspect in the quick tier).  Oracles: every verdict equals the extracted `isub` (model), and the verdict inside a
        history equals the verdict alone (verdicts do not depend on earlier questions - C02_iface_history_independent
        is the specification).  A failing history is shrunk to a two-question witness.

c02.ifc  PROGRAMS: methods `def w<j>(s: I[t])` (sometimes `s: K[t]`) that call every method of the parameter's
        static type, `var t<j>_<k>: R[t] = s.m(arg)` with the static return type the MODEL computes (ret_atoms), and
        print class + inspect of the result and the runtime class of s; top level calls `w<j>(K<c>::[s](item))` for
        class instantiations the model's isub accepts.  Static: the program must be accepted; the same program with
        ONE model-rejected call appended AFTER the accepted ones must be rejected at that line only.  Runtime
        (elk binary): every printed result must equal the extracted gcall and be a member of the static return
        type (extracted bmem via imem), the receiver object must be a member of the parameter's type (gmem_b).
"""
import os
import re
import vlib

HIST = "c02.subhist"
IFC = "c02.ifc"

ATOMS = ["Int", "String", "Float", "nil"]
ARGS = ["Int", "String", "Float", ["or", "Int", "String"], ["or", "Int", "nil"], ["or", "String", "nil"],
        ["or", "Int", ["or", "String", "nil"]], ["or", "Float", "Int"], "Int", "String"]


def sx_str(x):
    if isinstance(x, str):
        return x
    return "(" + " ".join(sx_str(y) for y in x) + ")"


def sx_parse(s):
    toks = re.findall(r"\(|\)|[^\s()]+", s)
    pos = [0]

    def item():
        t = toks[pos[0]]
        pos[0] += 1
        if t == "(":
            acc = []
            while toks[pos[0]] != ")":
                acc.append(item())
            pos[0] += 1
            return acc
        return t
    return item()


# ------------------------------------------------------------------ base types (Python side: printing only)

def subst(b, arg):
    if b == "T":
        return arg
    if isinstance(b, str):
        return b
    return ["or", subst(b[1], arg), subst(b[2], arg)]


def atoms_of(b):
    """closed bty -> ordered list of distinct atoms"""
    if isinstance(b, str):
        return [b] if b != "T" else []
    out = []
    for x in atoms_of(b[1]) + atoms_of(b[2]):
        if x not in out:
            out.append(x)
    return out


def has_var(b):
    if isinstance(b, str):
        return b == "T"
    return has_var(b[1]) or has_var(b[2])


def elk_bty(b):
    if isinstance(b, str):
        return b
    return elk_bty(b[1]) + " | " + elk_bty(b[2])


def elk_atoms(atoms):
    out = []
    for a in atoms:
        if a not in out:
            out.append(a)
    return " | ".join(out) if out else "never"


class Tables:
    """classes: id -> dict(generic, fixed, methods=[(name, p, r, body)]); interfaces: id -> dict(generic, fixed,
    methods=[(name, p, r)])"""

    def __init__(self, classes, ifaces):
        self.classes = classes
        self.ifaces = ifaces

    def sx(self):
        cs = []
        for c in sorted(self.classes):
            d = self.classes[c]
            cs.append([str(c), "g" if d["generic"] else "n"] +
                      [["m", str(n), p if p is not None else "-", r, b] for n, p, r, b in d["methods"]])
        is_ = []
        for i in sorted(self.ifaces):
            d = self.ifaces[i]
            is_.append([str(i), "g" if d["generic"] else "n"] +
                       [["m", str(n), p if p is not None else "-", r] for n, p, r in d["methods"]])
        return ["tab", ["cls"] + cs, ["ifc"] + is_]

    @staticmethod
    def from_sx(x):
        classes, ifaces = {}, {}
        for c in x[1][1:]:
            classes[int(c[0])] = dict(generic=c[1] == "g", fixed=None,
                                      methods=[(int(m[1]), None if m[2] == "-" else m[2], m[3], m[4]) for m in c[2:]])
        for i in x[2][1:]:
            ifaces[int(i[0])] = dict(generic=i[1] == "g", fixed=None,
                                     methods=[(int(m[1]), None if m[2] == "-" else m[2], m[3]) for m in i[2:]])
        return Tables(classes, ifaces)

    def learn_fixed(self, types):
        """non-generic namespaces: their fixed argument is whatever the case's types use"""
        for t in types:
            if t[0] == "c" and not self.classes[int(t[1])]["generic"]:
                self.classes[int(t[1])]["fixed"] = t[2]
            if t[0] == "i" and not self.ifaces[int(t[1])]["generic"]:
                self.ifaces[int(t[1])]["fixed"] = t[2]
        for d in list(self.classes.values()) + list(self.ifaces.values()):
            if not d["generic"] and d["fixed"] is None:
                d["fixed"] = "Int"

    # ---- Elk
    def lit(self, atom, k):
        if atom == "Int":
            return str(k)
        if atom == "String":
            return '"s%d"' % k
        if atom == "Float":
            return "%d.5" % k
        return "nil"

    def decls(self):
        out = []
        for i in sorted(self.ifaces):
            d = self.ifaces[i]
            f = (lambda b: b) if d["generic"] else (lambda b, a=d["fixed"]: subst(b, a))
            out.append("interface I%d%s" % (i, "[T]" if d["generic"] else ""))
            for n, p, r in d["methods"]:
                out.append("  def m%d%s: %s; end" % (n, "(x: %s)" % elk_bty(f(p)) if p is not None else "", elk_bty(f(r))))
            out.append("end")
        for c in sorted(self.classes):
            d = self.classes[c]
            f = (lambda b: b) if d["generic"] else (lambda b, a=d["fixed"]: subst(b, a))
            out.append("class K%d%s" % (c, "[T]" if d["generic"] else ""))
            out.append("  init(@item: %s); end" % elk_bty(f("T")))
            for n, p, r, b in d["methods"]:
                body = "@item" if b == "item" else "x" if b == "arg" else self.lit(b[1], int(b[2]))
                out.append("  def m%d%s: %s then %s" % (n, "(x: %s)" % elk_bty(f(p)) if p is not None else "", elk_bty(f(r)), body))
            out.append("end")
        return out

    def elk_gty(self, t):
        if t[0] == "b":
            return elk_bty(t[1])
        if t[0] == "c":
            return "K%s[%s]" % (t[1], elk_bty(t[2])) if self.classes[int(t[1])]["generic"] else "K%s" % t[1]
        return "I%s[%s]" % (t[1], elk_bty(t[2])) if self.ifaces[int(t[1])]["generic"] else "I%s" % t[1]

    def new_obj(self, c, arg, atom, k):
        if self.classes[c]["generic"]:
            return "K%d::[%s](%s)" % (c, elk_bty(arg), self.lit(atom, k))
        return "K%d(%s)" % (c, self.lit(atom, k))


# ------------------------------------------------------------------ generator

class Gen:
    def __init__(self, rng):
        self.r = rng
        self.dist = {}

    def count(self, k):
        self.dist[k] = self.dist.get(k, 0) + 1

    def sig(self):
        r = self.r
        ret = r.choice(["T", "T", "T", "T", ["or", "T", "nil"], "Int", "String", ["or", "T", "Int"], ["or", "Int", "String"]])
        par = r.choice([None, None, None, None, None, "T", "T", "T", "Int", ["or", "T", "nil"], "String"])
        return par, ret

    def body_for(self, p, r):
        cands = []
        if has_var(r):
            cands += ["item", "item"]
        for a in atoms_of(r):
            cands.append(["k", a, str(self.r.range(1, 9)) if a != "nil" else "0"])
        if p is not None and all(a in atoms_of(r) for a in atoms_of(p)) and (not has_var(p) or has_var(r)):
            cands += ["arg", "arg"]
        return self.r.choice(cands)

    def mutate_sig(self, p, r):
        """a variation of an interface signature: still compatible (narrower return, wider parameter), or not"""
        rr = self.r
        k = rr.below(10)
        if k < 5:
            self.count("class-method:copied")
            return p, r
        if k == 5:
            self.count("class-method:return-narrowed")
            return p, (r[1] if isinstance(r, list) else r)
        if k == 6:
            self.count("class-method:return-widened")
            return p, ["or", r, rr.choice(["nil", "String", "Int"])]
        if k == 7 and p is not None:
            self.count("class-method:param-widened")
            return ["or", p, rr.choice(["nil", "String"])], r
        if k == 8 and p is not None:
            self.count("class-method:param-narrowed")
            return (p[1] if isinstance(p, list) else rr.choice(["Int", "String"])), r
        if k == 9:
            self.count("class-method:arity-changed")
            return (None if p is not None else "T"), r
        return p, r

    def tables(self):
        r = self.r
        ifaces = {}
        for i in range(1, r.range(2, 3) + 1):
            names = [0, 1, 2]
            r.shuffle(names)
            gen = r.chance(4, 5)
            ifaces[i] = dict(generic=gen, fixed=None if gen else r.choice(ARGS),
                             methods=[(n,) + self.sig() for n in sorted(names[:r.range(1, 2)])])
            self.count("interface:" + ("generic" if gen else "non-generic"))
        classes = {}
        for c in range(1, r.range(2, 3) + 1):
            gen = r.chance(4, 5)
            meths = {}
            if r.chance(5, 6):
                srcs = [r.choice(sorted(ifaces))]
                if r.chance(1, 3):
                    srcs.append(r.choice(sorted(ifaces)))
                for i in srcs:
                    for n, p, rt in ifaces[i]["methods"]:
                        if n not in meths:
                            # a signature written for a non-generic interface is closed: keep it as it prints
                            if not ifaces[i]["generic"]:
                                p = subst(p, ifaces[i]["fixed"]) if p is not None else None
                                rt = subst(rt, ifaces[i]["fixed"])
                            meths[n] = self.mutate_sig(p, rt)
            for n in range(3):
                if n not in meths and r.chance(1, 4):
                    meths[n] = self.sig()
                    self.count("class-method:unrelated")
            if not meths:
                meths[0] = self.sig()
            classes[c] = dict(generic=gen, fixed=None if gen else r.choice(ARGS),
                              methods=[(n, p, rt, self.body_for(p, rt)) for n, (p, rt) in sorted(meths.items())])
            self.count("class:" + ("generic" if gen else "non-generic"))
        return Tables(classes, ifaces)

    def arg_for(self, d, avoid=None):
        if not d["generic"]:
            return d["fixed"]
        for _ in range(4):
            a = self.r.choice(ARGS)
            if a != avoid:
                return a
        return a

    def cty(self, tb, c, arg=None):
        return ["c", str(c), arg if arg is not None and tb.classes[c]["generic"] else self.arg_for(tb.classes[c])]

    def ity(self, tb, i, arg=None):
        return ["i", str(i), arg if arg is not None and tb.ifaces[i]["generic"] else self.arg_for(tb.ifaces[i])]

    def questions(self, tb):
        r = self.r
        qs = []

        def add(a, b):
            if [a, b] not in qs and len(qs) < 10:
                qs.append([a, b])
        c = r.choice(sorted(tb.classes))
        a = self.cty(tb, c)
        for i in sorted(tb.ifaces):
            add(a, self.ity(tb, i, a[2]))
            for _ in range(r.range(1, 2)):
                add(a, self.ity(tb, i, self.arg_for(tb.ifaces[i], a[2])))
        # the same class with another argument against one of the interface instantiations already asked about
        a2 = self.cty(tb, c, self.arg_for(tb.classes[c], a[2]))
        add(a2, r.choice(qs)[1])
        add(a2, self.ity(tb, r.choice(sorted(tb.ifaces)), a2[2]))
        # another class
        c2 = r.choice(sorted(tb.classes))
        b2 = self.cty(tb, c2)
        add(b2, self.ity(tb, r.choice(sorted(tb.ifaces)), b2[2]))
        for _ in range(r.range(1, 3)):
            k = r.below(6)
            i, j = r.choice(sorted(tb.ifaces)), r.choice(sorted(tb.ifaces))
            if k == 0:
                add(a, self.cty(tb, c, self.arg_for(tb.classes[c])))
            elif k == 1:
                x = self.ity(tb, i)
                add(x, self.ity(tb, i, r.choice([x[2], self.arg_for(tb.ifaces[i])])))
            elif k == 2:
                x = self.ity(tb, j)
                add(x, self.ity(tb, i, r.choice([x[2], self.arg_for(tb.ifaces[i])])))
            elif k == 3:
                add(["b", r.choice(ARGS)], self.ity(tb, i))
            elif k == 4:
                add(a, ["b", r.choice(ARGS)])
            else:
                add(self.ity(tb, i), a)
        return qs


def kind(tb, t):
    if t[0] == "b":
        return "base"
    d = tb.classes[int(t[1])] if t[0] == "c" else tb.ifaces[int(t[1])]
    return ("generic-" if d["generic"] else "") + ("class" if t[0] == "c" else "interface")


def pair_shape(tb, a, b):
    rel = ""
    if a[0] != "b" and b[0] != "b":
        rel = ":same-argument" if sx_str(a[2]) == sx_str(b[2]) else ":other-argument"
        if a[0] == b[0] and a[1] == b[1]:
            rel += ":same-namespace"
    return "%s<=%s%s" % (kind(tb, a), kind(tb, b), rel)


def esc(src):
    return src.replace("\\", "\\\\").replace("\t", "\\t").replace("\n", "\\n")


def run_diags(ctx, h, stream, srcs):
    """srcs: list of (id, source) -> {id: [(line, message)...]} (None when the harness gave nothing usable)"""
    if not srcs:
        return {}
    rc, out = vlib.sh([h, "-extra", "diags"], inp="".join("%s\t%s\n" % (i, esc(s)) for i, s in srcs), timeout=3000,
                      env=vlib.elk_env())
    got = {}
    for l in out.splitlines():
        f = l.split("\t")
        if len(f) >= 3:
            if f[2] == "ok":
                got[f[0]] = []
            elif f[2].startswith("L"):
                ds = []
                for ent in f[2].split("|"):
                    mm = re.match(r"^L(\d+):(.*)$", ent)
                    if mm:
                        ds.append((int(mm.group(1)), mm.group(2)))
                got[f[0]] = ds
            else:
                got[f[0]] = None
                ctx.broke("correspondence %s: the checker did not finish (%s)" % (stream, f[2][:200]), dict(srcs).get(f[0], "")[:1500])
    if rc != 0:
        ctx.broke("correspondence %s: harness -extra diags exited %d" % (stream, rc), out[-2000:])
    return got


REJECT_RE = re.compile(r"cannot be assigned to type|does not implement interface|expected type .* for parameter")


# ------------------------------------------------------------------ c02.subhist

def hist_source(tb, qs, separate=False):
    """-> (source, [(first line, last line) per question]).  Default: ONE method whose parameters are the left-hand
    types and whose body asks the questions in order, one line each (method bodies are checked one after the other
    by the same Checker value only within one body); separate=True: one method per question."""
    out = tb.decls()
    spans = []
    if separate:
        for k, (a, b) in enumerate(qs):
            spans.append((len(out) + 1, len(out) + 3))
            out.append("def q%d(y: %s)" % (k, tb.elk_gty(a)))
            out.append("  var x: %s = y" % tb.elk_gty(b))
            out.append("end")
        return "\n".join(out) + "\n", spans
    out.append("def q(%s)" % ", ".join("y%d: %s" % (k, tb.elk_gty(a)) for k, (a, b) in enumerate(qs)))
    for k, (a, b) in enumerate(qs):
        spans.append((len(out) + 1, len(out) + 1))
        out.append("  var x%d: %s = y%d" % (k, tb.elk_gty(b), k))
    out.append("  nil")
    out.append("end")
    return "\n".join(out) + "\n", spans


def verdicts_of(diags, spans):
    """-> (verdict per question, messages outside every question)"""
    vs = ["ok"] * len(spans)
    stray = []
    for ln, msg in diags:
        hit = False
        for k, (lo, hi) in enumerate(spans):
            if lo <= ln <= hi:
                hit = True
                if REJECT_RE.search(msg):
                    if vs[k] == "ok":
                        vs[k] = "reject"
                elif vs[k] == "ok":
                    vs[k] = "other:" + msg[:80]
        if not hit:
            stray.append("L%d:%s" % (ln, msg))
    return vs, stray


def hist_case_sx(tb, qs):
    return ["ihist", tb.sx()] + [["q", a, b] for a, b in qs]


def load_hist_corpus(path):
    out = []
    if os.path.exists(path):
        for n, line in enumerate(open(path)):
            line = line.strip()
            if not line or line.startswith("#"):
                continue
            x = sx_parse(line)
            tb = Tables.from_sx(x[1])
            qs = [[q[1], q[2]] for q in x[2:]]
            tb.learn_fixed([t for q in qs for t in q])
            out.append(("hk%d" % n, tb, qs, "corpus"))
    return out


def run_hist(ctx, h, m):
    rng = ctx.rng(HIST)
    cases = load_hist_corpus(os.path.join(vlib.ROOT, "corpus", "C02.subhist.txt"))
    ncorpus = len(cases)
    dist = {}
    for n in range(ctx.n(16, 150)):
        g = Gen(rng)
        tb = g.tables()
        qs = g.questions(tb)
        for k, v in g.dist.items():
            dist[k] = dist.get(k, 0) + v
        cases.append(("hg%d" % n, tb, qs, "generated"))
    # ---- model verdicts (question order as generated)
    ids = [c[0] for c in cases]
    rc, ans, mout = vlib.run_model(m, ids, {c[0]: sx_str(hist_case_sx(c[1], c[2])) for c in cases})
    if rc != 0:
        ctx.broke("correspondence %s: model driver exited %d" % (HIST, rc), mout[-2000:])
        return
    order_rng = ctx.rng(HIST + ".order")
    runs = []          # (run id, case id, kind, question indices)
    srcs = []
    todo = []
    stats = dict(cases=0, ill_formed=0, questions=0, history_runs=0, alone_runs=0, runs_one_method_per_question=0,
                 runs_all_questions_in_one_body=0, model_ok=0, model_reject=0,
                 histories_with_both_verdicts=0, same_class_inst_two_interface_args=0)
    for cid, tb, qs, origin in cases:
        a = ans.get(cid)
        if a == "ill-formed":
            stats["ill_formed"] += 1
            if origin == "generated":
                ctx.broke("correspondence %s: the generator produced a class whose body does not fit its signature" % HIST,
                          sx_str(hist_case_sx(tb, qs)))
            continue
        if a is None or ";alone=" not in a:
            ctx.broke("correspondence %s: model gave no usable answer (%r)" % (HIST, a), sx_str(hist_case_sx(tb, qs))[:600])
            continue
        together, alone = a.split(";alone=")
        mv = together.split(",")
        if mv != alone.split(",") or len(mv) != len(qs):
            ctx.broke("model contradicts C02_iface_history_independent", sx_str(hist_case_sx(tb, qs))[:600])
            continue
        stats["cases"] += 1
        stats["questions"] += len(qs)
        stats["model_ok"] += mv.count("ok")
        stats["model_reject"] += mv.count("reject")
        if "ok" in mv and "reject" in mv:
            stats["histories_with_both_verdicts"] += 1
        seen = {}
        for (qa, qb), v in zip(qs, mv):
            if qa[0] == "c" and qb[0] == "i":
                seen.setdefault((sx_str(qa), qb[1]), set()).add((sx_str(qb[2]), v))
        if any(len({v for _, v in s}) == 2 for s in seen.values()):
            stats["same_class_inst_two_interface_args"] += 1
        idx = list(range(len(qs)))
        pos = [k for k in idx if mv[k] == "ok"]
        neg = [k for k in idx if mv[k] != "ok"]
        sh = list(idx)
        order_rng.shuffle(sh)
        orders = [("accepted-first", pos + neg), ("rejected-first", neg + pos), ("shuffled", sh)]
        for oname, order in orders:
            rid = "%s.%s" % (cid, oname)
            sep = oname == "shuffled" and stats["cases"] % 2 == 0
            stats["runs_one_method_per_question" if sep else "runs_all_questions_in_one_body"] += 1
            src, spans = hist_source(tb, [qs[k] for k in order], separate=sep)
            srcs.append((rid, src))
            runs.append((rid, cid, oname, order, spans))
        # every question alone in the thorough tier; a seeded sample of 2 (model-rejected ones first) in the quick tier -
        # every in-history verdict that differs from the model is re-asked alone in the second pass anyway
        pick = list(neg) + list(pos)
        if ctx.quick() and origin != "corpus":
            order_rng.shuffle(neg)
            pick = (neg + pos)[:2]
        for k in pick:
            rid = "%s.alone%d" % (cid, k)
            src, spans = hist_source(tb, [qs[k]])
            srcs.append((rid, src))
            runs.append((rid, cid, "alone", [k], spans))
        todo.append((cid, tb, qs, mv, origin))
    got = yield srcs
    by_case = {}
    for rid, cid, oname, order, spans in runs:
        by_case.setdefault(cid, []).append((rid, oname, order, spans))
    evaluations = 0
    distinct = set()
    suspects = []
    for cid, tb, qs, mv, origin in todo:
        case = sx_str(hist_case_sx(tb, qs))
        alone = {}
        hist_v = {}
        bad = False
        for rid, oname, order, spans in by_case[cid]:
            d = got.get(rid)
            if d is None:
                bad = True
                continue
            vs, stray = verdicts_of(d, spans)
            if stray:
                ctx.fail("ifc-static:declarations-rejected:" + re.sub(r"`[^`]*`", "`..`", stray[0].split(":", 1)[1])[:60],
                         "the real checker rejects declarations the model's ctab_ok accepts: %s\n%s"
                         % (stray[0], hist_source(tb, [qs[k] for k in order])[0]), stream=HIST, case=case, impl=stray[0],
                         model="well-formed", oracle="generic class / interface declarations of the fragment are well typed")
                bad = True
                break
            if oname == "alone":
                stats["alone_runs"] += 1
                alone[order[0]] = vs[0]
            else:
                stats["history_runs"] += 1
                for p_, k in enumerate(order):
                    hist_v[(oname, k)] = (vs[p_], p_, order)
        if bad:
            continue
        for k, (qa, qb) in enumerate(qs):
            distinct.add((sx_str(tb.sx()), sx_str(qa), sx_str(qb)))
            shape = pair_shape(tb, qa, qb)
            if k in alone:
                evaluations += 1
                if alone[k] != mv[k]:
                    suspects.append((cid, tb, qs, mv, k, "alone", alone[k], 0, [k], shape, case, alone[k]))
                    continue
            for oname in ("accepted-first", "rejected-first", "shuffled"):
                v, p_, order = hist_v[(oname, k)]
                evaluations += 1
                if v != mv[k]:
                    suspects.append((cid, tb, qs, mv, k, oname, v, p_, order, shape, case, alone.get(k)))
                    break
    # ---- second pass: ask every suspect alone (if not done yet) and with each earlier question of its history
    shr_src, shr_meta, alone_meta = [], [], []
    for n, (cid, tb, qs, mv, k, oname, v, p_, order, shape, case, al) in enumerate(suspects[:60]):
        if al is None:
            rid = "a%d" % n
            src, spans = hist_source(tb, [qs[k]])
            shr_src.append((rid, src))
            alone_meta.append((rid, n, spans))
        if n < 40:
            for e in order[:p_]:
                rid = "s%d.%d" % (n, e)
                src, spans = hist_source(tb, [qs[e], qs[k]])
                shr_src.append((rid, src))
                shr_meta.append((rid, n, e, spans))
    shr = run_diags(ctx, h, HIST, shr_src) if shr_src else {}
    alone2 = {}
    for rid, n, spans in alone_meta:
        d = shr.get(rid)
        if d is not None:
            stats["alone_runs"] += 1
            alone2[n] = verdicts_of(d, spans)[0][0]
    failing = []
    for n, sp in enumerate(suspects):
        cid, tb, qs, mv, k, oname, v, p_, order, shape, case, al = sp
        al = al if al is not None else alone2.get(n)
        qa, qb = qs[k]
        if al is None:
            ctx.broke("correspondence %s: no verdict for a suspect question asked alone" % HIST, case[:600])
        elif al != mv[k]:
            src = hist_source(tb, [qs[k]])[0]
            ctx.fail("ifc-sub:impl-%s:model-%s:%s" % (str(al).split(":")[0], mv[k], shape),
                     "asked alone, `%s <: %s`: the real checker says %s, the extracted isub %s\n%s"
                     % (tb.elk_gty(qa), tb.elk_gty(qb), al, mv[k], src), stream=HIST,
                     case=sx_str(hist_case_sx(tb, [qs[k]])), impl=str(al), model=mv[k],
                     oracle="the checker's verdict equals the proved subtype relation")
        else:
            failing.append((n,) + sp[:11])
    # ---- failing histories: the two-question witness (earlier question, dependent question)
    witness = {}
    for rid, n, e, spans in shr_meta:
        d = shr.get(rid)
        if d is None or n in witness:
            continue
        vs, _ = verdicts_of(d, spans)
        if vs[1] == suspects[n][6]:
            witness[n] = (e, vs)
    for n, cid, tb, qs, mv, k, oname, v, p_, order, shape, case in failing:
        qa, qb = qs[k]
        w = witness.get(n)
        if w:
            e, vs = w
            ea, eb = qs[e]
            earlier = "after-%s-%s" % ("accepted" if mv[e] == "ok" else "rejected", pair_shape(tb, ea, eb))
            same = []
            if sx_str(ea) == sx_str(qa):
                same.append("same-source-type")
            if eb[0] == qb[0] and eb[1] == qb[1]:
                same.append("same-target-namespace")
            earlier += (":" + ":".join(same)) if same else ""
            text = ("two questions in ONE checker run:\n%s  verdicts in this run: %s; the second question asked alone in a "
                    "fresh checker: %s (= extracted isub: %s)" % (hist_source(tb, [qs[e], qs[k]])[0], vs, mv[k], mv[k]))
            wcase = sx_str(hist_case_sx(tb, [qs[e], qs[k]]))
        else:
            earlier = "unshrunk"
            text = ("history (%s order):\n%s  question %d got %s" % (oname, hist_source(tb, [qs[j] for j in order])[0], p_, v))
            wcase = case
        ctx.fail("ifc-hist:verdict-depends-on-earlier-questions:alone-%s:in-history-%s:%s:%s"
                 % (mv[k], v.split(":")[0], shape, earlier),
                 "`%s <: %s` is %s when asked alone (and by the model) but %s inside a history: %s"
                 % (tb.elk_gty(qa), tb.elk_gty(qb), mv[k], v, text), stream=HIST, case=wcase, impl=v, model=mv[k],
                 oracle="the verdict of a subtype question does not depend on the questions the same checker answered before")
    samples = []
    for cid, tb, qs, mv, origin in todo[ncorpus:ncorpus + 2]:
        samples.append({"history": hist_source(tb, qs)[0][:1200], "model": ",".join(mv)})
    ctx.stream(HIST, evaluations, len(distinct),
               "histories of subtype questions over generic classes K[T] (one field @item: T, methods m0..m2 with bodies "
               "@item / literal / x), generic interfaces I[T] (1-2 method signatures over T, T | nil, T | Int, Int, String) "
               "and non-generic ones; 2-3 interfaces and 2-3 classes per case, class methods derived from interface "
               "methods (copied, return narrowed/widened, parameter widened/narrowed, arity changed) or unrelated; 4-10 "
               "questions per case: one class instantiation against every interface with the same and with other type "
               "arguments (Int String Float Int|String Int|nil String|nil Int|String|nil Float|Int), the same class with "
               "another argument against the same interface instantiations, class<=class, interface<=interface (same and "
               "different namespace), base<=interface, class<=base, interface<=class. Each case is asked in ONE CheckSource "
               "run as `def q(y0: a0, y1: a1, ...); var x0: b0 = y0; var x1: b1 = y1; ...; end` (all questions in one "
               "body, in order) in three orders (model-accepted first, model-rejected first, shuffled - every second "
               "shuffled run uses one method per question instead) and alone in a fresh checker (quick tier: 2 sampled questions per case alone, plus every question "
               "whose in-history verdict differs from the model). evaluation = one verdict compared with the extracted isub "
               "(in a history or alone); a difference is a history dependence when the same question alone agrees with "
               "the model; non-trivial = distinct (tables, question)",
               samples,
               dict(nodes=dist, corpus=ncorpus, **stats, history_dependent_verdicts=len(failing)))


# ------------------------------------------------------------------ c02.ifc

PRELUDE = """def pr(x: any): String
  switch x
  case ::Std::Value() as y then y.class.name + " " + y.inspect
  else "?"
  end
end
def prc(x: any): String
  switch x
  case ::Std::Value() as y then y.class.name
  else "?"
  end
end
"""


class Prog:
    """ws: list of (param gty, [(method name, p, arg value or None)]); calls: list of (w index, class, arg bty, (atom, k))"""

    def __init__(self, tb, ws, calls):
        self.tb, self.ws, self.calls = tb, ws, calls

    def sx(self, extra=None):
        calls = self.calls + ([extra] if extra else [])
        return ["iprog", self.tb.sx(),
                ["ws"] + [[t, ["calls"] + [[str(n), "-" if a is None else [a[0], str(a[1])]] for n, p, a in ms]] for t, ms in self.ws],
                ["run"] + [[str(j), str(c), s, [v[0], str(v[1])]] for j, c, s, v in calls]]

    @staticmethod
    def from_sx(x):
        tb = Tables.from_sx(x[1])
        ws = []
        for w in x[2][1:]:
            ws.append((w[0], [(int(e[0]), None, None if e[1] == "-" else (e[1][0], int(e[1][1]))) for e in w[1][1:]]))
        calls = [(int(e[0]), int(e[1]), e[2], (e[3][0], int(e[3][1]))) for e in x[3][1:]]
        tb.learn_fixed([w[0] for w in ws] + [["c", str(c), s] for _, c, s, _ in calls])
        return Prog(tb, ws, calls)

    def source(self, rets, extra=None):
        """rets: (w index, probe index) -> atoms of the static return type. Returns (source, line of every call)"""
        tb = self.tb
        out = tb.decls() + PRELUDE.rstrip("\n").split("\n")
        for j, (t, ms) in enumerate(self.ws):
            out.append("def w%d(s: %s)" % (j, tb.elk_gty(t)))
            out.append('  println("S%d " + prc(s))' % j)
            for k, (n, p, a) in enumerate(ms):
                call = "s.m%d" % n + ("(%s)" % tb.lit(a[0], a[1]) if a is not None else "")
                out.append("  var t%d_%d: %s = %s" % (j, k, elk_atoms(rets[(j, k)]), call))
                out.append('  println("P%d_%d " + pr(t%d_%d))' % (j, k, j, k))
            out.append("  nil")
            out.append("end")
        lines = []
        for n, (j, c, s, v) in enumerate(self.calls + ([extra] if extra else [])):
            out.append('println("C%d")' % n)
            lines.append(len(out) + 1)
            out.append("w%d(%s)" % (j, tb.new_obj(c, s, v[0], v[1])))
        return "\n".join(out) + "\n", lines


def gen_prog(g, tb):
    """-> (ws, candidate calls [(w, class, arg, value)])"""
    r = g.r
    ws = []
    nw = r.range(2, 3)
    first = None
    for j in range(nw):
        if r.chance(1, 6):
            c = r.choice(sorted(tb.classes))
            t = g.cty(tb, c)
            sigs = [(n, p) for n, p, rt, b in tb.classes[c]["methods"]]
            g.count("w:class-typed-parameter")
        else:
            if first is not None and r.chance(1, 2):
                i = first[0]
                t = g.ity(tb, i, g.arg_for(tb.ifaces[i], first[1]))
                g.count("w:same-interface-other-argument")
            else:
                i = r.choice(sorted(tb.ifaces))
                t = g.ity(tb, i)
                g.count("w:interface-typed-parameter")
            if first is None:
                first = (i, t[2])
            sigs = [(n, p) for n, p, rt in tb.ifaces[i]["methods"]]
        d = tb.classes[int(t[1])] if t[0] == "c" else tb.ifaces[int(t[1])]
        ms = []
        for n, p in sigs:
            a = None
            if p is not None:
                ats = atoms_of(subst(p, t[2]))
                at = r.choice(ats)
                a = (at, r.range(1, 9) if at != "nil" else 0)
            ms.append((n, p, a))
        ws.append((t, ms))
    # candidate receivers: every class with the arguments the parameter types mention (and one more)
    cands = []
    args = []
    for t, _ in ws:
        if sx_str(t[2]) not in [sx_str(a) for a in args]:
            args.append(t[2])
    args.append(r.choice(ARGS))
    for c in sorted(tb.classes):
        d = tb.classes[c]
        for s in ([d["fixed"]] if not d["generic"] else args):
            at = r.choice(atoms_of(s))
            v = (at, r.range(10, 99) if at != "nil" else 0)
            for j in range(len(ws)):
                cands.append((j, c, s, v))
    return ws, cands


def parse_value(cls, ins):
    if cls == "Std::Int" and re.match(r"^-?\d+$", ins):
        return ("Int", int(ins))
    if cls == "Std::String" and re.match(r'^"s\d+"$', ins):
        return ("String", int(ins[2:-1]))
    if cls == "Std::Float" and re.match(r"^\d+\.5$", ins):
        return ("Float", int(ins[:-2]))
    if cls == "Std::Nil" and ins == "nil":
        return ("nil", 0)
    return None


def load_prog_corpus(path):
    out = []
    if os.path.exists(path):
        for n, line in enumerate(open(path)):
            line = line.strip()
            if not line or line.startswith("#"):
                continue
            out.append(("ik%d" % n, Prog.from_sx(sx_parse(line)), None, "corpus"))
    return out


def run_ifc(ctx, elk, h, m):
    rng = ctx.rng(IFC)
    progs = load_prog_corpus(os.path.join(vlib.ROOT, "corpus", "C02.ifc.txt"))
    ncorpus = len(progs)
    dist = {}
    raw = []
    for n in range(ctx.n(10, 100)):
        g = Gen(rng)
        tb = g.tables()
        ws, cands = gen_prog(g, tb)
        raw.append(("ig%d" % n, g, tb, ws, cands))
    # ---- model: which candidate calls are accepted, static return types
    q_ids, q_in = [], {}
    for pid, g, tb, ws, cands in raw:
        gs = sx_str(tb.sx())
        q_ids.append(pid + ".h")
        q_in[pid + ".h"] = sx_str(["ihist", tb.sx()] + [["q", ["c", str(c), s], ws[j][0]] for j, c, s, v in cands])
    for pid, p, _, _ in progs:
        # corpus: all listed calls, the LAST one is the appended (expected rejected) call when the model rejects it
        q_ids.append(pid + ".h")
        q_in[pid + ".h"] = sx_str(["ihist", p.tb.sx()] + [["q", ["c", str(c), s], p.ws[j][0]] for j, c, s, v in p.calls])
    rc, ans, mout = vlib.run_model(m, q_ids, q_in)
    if rc != 0:
        ctx.broke("correspondence %s: model driver exited %d" % (IFC, rc), mout[-2000:])
        return
    items = []      # (pid, Prog, extra call or None, origin)
    for pid, p, _, origin in progs:
        a = ans.get(pid + ".h", "")
        mv = a.split(";alone=")[0].split(",") if ";alone=" in a else []
        if len(mv) != len(p.calls):
            ctx.broke("correspondence %s: corpus entry not understood by the model (%s)" % (IFC, a[:100]), sx_str(p.sx())[:600])
            continue
        extra = None
        if mv and mv[-1] != "ok":
            extra = p.calls[-1]
            p = Prog(p.tb, p.ws, p.calls[:-1])
            mv = mv[:-1]
        if any(v != "ok" for v in mv):
            ctx.broke("correspondence %s: corpus entry has a model-rejected call before the last one" % IFC, sx_str(p.sx())[:600])
            continue
        items.append((pid, p, extra, origin))
    for pid, g, tb, ws, cands in raw:
        a = ans.get(pid + ".h")
        if a is None or ";alone=" not in a:
            ctx.broke("correspondence %s: model gave no usable answer (%r)" % (IFC, a), q_in[pid + ".h"][:600])
            continue
        mv = a.split(";alone=")[0].split(",")
        okc = [c for c, v in zip(cands, mv) if v == "ok"]
        noc = [c for c, v in zip(cands, mv) if v != "ok"]
        g.r.shuffle(okc)
        calls = okc[:4]
        extra = None
        if noc and calls:
            # prefer a rejected call whose receiver instantiation was accepted before, best for the same interface
            used = {(c, sx_str(s)) for j, c, s, v in calls}

            def score(x):
                j, c, s, v = x
                sc = 0
                if (c, sx_str(s)) in used:
                    sc += 2
                    if any(ws[j2][0][:2] == ws[j][0][:2] and c2 == c and sx_str(s2) == sx_str(s) for j2, c2, s2, v2 in calls):
                        sc += 2
                return sc
            g.r.shuffle(noc)
            noc.sort(key=lambda x: -score(x))
            extra = noc[0]
            # reuse the VALUE of the accepted call with the same receiver type, so that the object is the same
            for j2, c2, s2, v2 in calls:
                if c2 == extra[1] and sx_str(s2) == sx_str(extra[2]):
                    extra = (extra[0], extra[1], extra[2], v2)
                    break
            g.count("appended-rejected-call:score=%d" % score(extra))
        for k, v in g.dist.items():
            dist[k] = dist.get(k, 0) + v
        if calls:
            items.append((pid, Prog(tb, ws, calls), extra, "generated"))
    # ---- model: static return types and expected results
    q_ids, q_in = [], {}
    for pid, p, extra, origin in items:
        gs = sx_str(p.tb.sx())
        for j, (t, ms) in enumerate(p.ws):
            for k, (n, _, a) in enumerate(ms):
                q = "%s.r.%d.%d" % (pid, j, k)
                q_ids.append(q)
                q_in[q] = "(iret %s %s %d)" % (gs, sx_str(t), n)
        for n_, (j, c, s, v) in enumerate(p.calls + ([extra] if extra else [])):
            q = "%s.o.%d" % (pid, n_)
            q_ids.append(q)
            q_in[q] = "(imem %s %s (vo %d %s %d))" % (gs, sx_str(p.ws[j][0]), c, v[0], v[1])
            for k, (n, _, a) in enumerate(p.ws[j][1]):
                q = "%s.c.%d.%d" % (pid, n_, k)
                q_ids.append(q)
                q_in[q] = "(icall %s %d %s %d %d %s)" % (gs, c, v[0], v[1], n, "-" if a is None else "(%s %d)" % a)
    rc, ans2, mout = vlib.run_model(m, q_ids, q_in)
    if rc != 0:
        ctx.broke("correspondence %s: model driver exited %d" % (IFC, rc), mout[-2000:])
        return
    st = dict(programs=0, with_appended_rejected_call=0, executed=0, calls=0, static_runs=0, member_checks=0,
              receiver_member_checks=0, wrongly_accepted=0)
    srcs, meta = [], {}
    for pid, p, extra, origin in items:
        rets = {}
        ok = True
        for j, (t, ms) in enumerate(p.ws):
            for k in range(len(ms)):
                a = ans2.get("%s.r.%d.%d" % (pid, j, k), "")
                if not a.startswith("(atoms"):
                    ok = False
                else:
                    rets[(j, k)] = sx_parse(a)[1:]
        if not ok:
            ctx.broke("correspondence %s: model gave no static return type" % IFC, sx_str(p.sx())[:600])
            continue
        src, lines = p.source(rets)
        srcs.append((pid + ".p", src))
        if extra:
            src2, lines2 = p.source(rets, extra)
            srcs.append((pid + ".x", src2))
        meta[pid] = (p, extra, rets)
        st["programs"] += 1
    got = yield srcs
    to_run = []
    for pid, (p, extra, rets) in meta.items():
        case = sx_str(p.sx())
        src, lines = p.source(rets)
        d = got.get(pid + ".p")
        st["static_runs"] += 1
        if d is None:
            continue
        if d:
            ln, msg = d[0]
            where = "call" if ln in lines else "declarations-or-probes"
            ctx.fail("ifc-static:model-accepts:impl-rejects:%s:%s" % (where, re.sub(r"`[^`]*`", "`..`", msg)[:60]),
                     "the model accepts every call and computes the probe types, the real checker reports L%d: %s\n%s"
                     % (ln, msg, src), stream=IFC, case=case, impl="L%d:%s" % (ln, msg), model="accepted",
                     oracle="model and real checker agree on the generic class / interface fragment")
            continue
        to_run.append((pid, src, p, None, rets, case))
        if extra:
            st["with_appended_rejected_call"] += 1
            st["static_runs"] += 1
            src2, lines2 = p.source(rets, extra)
            d2 = got.get(pid + ".x")
            if d2 is None:
                continue
            at_call = [x for x in d2 if x[0] == lines2[-1] and REJECT_RE.search(x[1])]
            elsewhere = [x for x in d2 if x[0] != lines2[-1]]
            j, c, s, v = extra
            desc = "`%s` passed for `s: %s`" % (p.tb.new_obj(c, s, v[0], v[1]), p.tb.elk_gty(p.ws[j][0]))
            shape = pair_shape(p.tb, ["c", str(c), s], p.ws[j][0])
            before = [x for x in p.calls if x[1] == c and sx_str(x[2]) == sx_str(s)]
            hist = ("after-accepted-call-with-same-receiver-type" +
                    (":same-target-namespace" if any(p.ws[x[0]][0][:2] == p.ws[j][0][:2] for x in before) else "")) if before \
                else "no-earlier-call-with-this-receiver-type"
            if elsewhere:
                ctx.fail("ifc-static:appended-call-changes-other-lines", "appending %s produces failures elsewhere: %s\n%s"
                         % (desc, elsewhere[:2], src2), stream=IFC, case=sx_str(p.sx(extra)), impl=str(elsewhere[:2]),
                         model="only the appended call is rejected", oracle="model and real checker agree")
            elif not at_call:
                st["wrongly_accepted"] += 1
                to_run.append((pid + "x", src2, p, extra, rets, sx_str(p.sx(extra))))
                ctx.fail("ifc-static:call-accepted:model-rejects:%s:%s" % (shape, hist),
                         "%s is ACCEPTED by the real checker after the accepted calls above it; the extracted isub rejects it "
                         "(and so does a fresh checker asked about this call alone when the key says after-accepted-call)\n%s"
                         % (desc, src2), stream=IFC, case=sx_str(p.sx(extra)), impl="accepted", model="reject",
                         oracle="an argument is accepted only if its type is a subtype (proved sound: C02_iface_subtype_sound) of the parameter type")
    # ---- run
    res = vlib.run_programs(elk, [(pid, src) for pid, src, p, extra, rets, case in to_run],
                            os.path.join(ctx.workdir, "ifc"), timeout=90, env={"GOMAXPROCS": "4"})
    slow = [(pid, src) for pid, src, p, extra, rets, case in to_run if res[pid][2] == "timeout"]
    if slow:
        res.update(vlib.run_programs(elk, slow, os.path.join(ctx.workdir, "ifc_slow"), workers=2, timeout=400, env={"GOMAXPROCS": "4"}))
    evaluations = 0
    distinct = set()
    mem_ids, mem_in, pending = [], {}, []
    for pid, src, p, extra, rets, case in to_run:
        rc_, out, cls_ = res[pid]
        base = pid[:-1] if extra else pid
        calls = p.calls + ([extra] if extra else [])
        if cls_ == "timeout":
            ctx.broke("correspondence %s: program timed out twice" % IFC, src)
            continue
        if "[FAIL]" in out:
            ctx.fail("ifc-run:binary-rejects-what-the-in-process-checker-accepts",
                     "elk run rejects the program:\n" + src + out.strip()[:400], stream=IFC, case=case, impl=out.strip()[:300],
                     model="accepted", oracle="the binary and the in-process checker agree")
            continue
        per_call, cur, okfmt = {}, None, True
        for l in out.splitlines():
            mm = re.match(r"^C(\d+)$", l)
            if mm:
                cur = int(mm.group(1))
                per_call[cur] = dict(s=None, p=[])
                continue
            mm = re.match(r"^S(\d+) ([\w:]+)$", l)
            if mm and cur is not None:
                per_call[cur]["s"] = (int(mm.group(1)), mm.group(2))
                continue
            mm = re.match(r"^P(\d+)_(\d+) (Std::\w+) (.*)$", l)
            if mm and cur is not None:
                per_call[cur]["p"].append((int(mm.group(1)), int(mm.group(2)), mm.group(3), mm.group(4)))
            elif l.strip():
                okfmt = False
        crashed = cls_ in ("go_panic", "go_fatal", "signal") or rc_ != 0 or not okfmt
        if crashed and not extra:
            m_ = re.search(r"\n([\w./*()]+)\(.*\n\t/repo/", out)
            ctx.fail("ifc-run:" + (("go-panic:" + (m_.group(1).split("/")[-1] if m_ else "unknown")) if cls_ in ("go_panic", "go_fatal", "signal")
                                   else "error:" + re.sub(r"[^A-Za-z:]+", "-", out.strip()[-60:])[:60]),
                     "accepted program of the fragment does not run to the end:\n" + src + out.strip()[-400:], stream=IFC,
                     case=case, impl=out.strip()[-300:], model="runs", oracle="accepted programs of the fragment run")
        if not crashed:
            st["executed"] += 1
        for n_, (j, c, s, v) in enumerate(calls):
            pc = per_call.get(n_)
            if pc is None:
                continue
            st["calls"] += 1
            is_extra = extra is not None and n_ == len(calls) - 1
            if pc["s"] is not None:
                q = "%s.o.%d" % (base, n_)
                want = ans2.get(q)
                st["receiver_member_checks"] += 1
                if pc["s"][1] != "K%d" % c:
                    ctx.fail("ifc-value:receiver-class-differs", "call %d: runtime class of s is %s, constructed K%d\n%s"
                             % (n_, pc["s"][1], c, src), stream=IFC, case=case, impl=pc["s"][1], model="K%d" % c,
                             oracle="reference interpreter")
                elif want != "in" and not is_extra:
                    ctx.broke("model contradicts C02_iface_subtype_sound (accepted receiver outside the parameter type)", case)
                elif want != "in":
                    ctx.fail("ifc-member:receiver-not-in-parameter-type:%s" % pair_shape(p.tb, ["c", str(c), s], p.ws[j][0]),
                             "call %d: s has static type %s but holds a K%d whose item is %s %d: not a member (extracted gmem_b)\n%s"
                             % (n_, p.tb.elk_gty(p.ws[j][0]), c, v[0], v[1], src), stream=IFC, case=case, impl="K%d" % c,
                             model="not a member of " + p.tb.elk_gty(p.ws[j][0]),
                             oracle="the runtime value of a parameter is a member of its static type")
            for (jj, k, cname, ins) in pc["p"]:
                evaluations += 1
                distinct.add((case, n_, k))
                val = parse_value(cname, ins)
                if val is None or jj != j:
                    ctx.fail("ifc-value:unparsable", "call %d probe P%d_%d printed %s %s\n%s" % (n_, jj, k, cname, ins, src),
                             stream=IFC, case=case, impl=cname + " " + ins, model="", oracle="output format")
                    continue
                want = ans2.get("%s.c.%d.%d" % (base, n_, k))
                if want != "(%s %d)" % val:
                    ctx.fail("ifc-value:result-differs:%s" % ("appended-call" if is_extra else "accepted-call"),
                             "call %d probe P%d_%d: implementation %s %s, extracted gcall %s\n%s" % (n_, j, k, cname, ins, want, src),
                             stream=IFC, case=case, impl=cname + " " + ins, model=str(want), oracle="reference interpreter (gcall)")
                q = "%s.m.%d.%d" % (pid, n_, k)
                mem_ids.append(q)
                ty = rets[(j, k)]
                tsx = None
                for a in ty:
                    tsx = a if tsx is None else ["or", tsx, a]
                mem_in[q] = "(imem %s (b %s) (vb %s %d))" % (sx_str(p.tb.sx()), sx_str(tsx), val[0], val[1])
                pending.append((q, pid, src, case, n_, j, k, ty, cname, ins, is_extra, p, calls[n_]))
    rc, mans, mout = vlib.run_model(m, mem_ids, mem_in)
    if rc != 0:
        ctx.broke("correspondence %s: model driver exited %d" % (IFC, rc), mout[-2000:])
    for q, pid, src, case, n_, j, k, ty, cname, ins, is_extra, p, call in pending:
        a = mans.get(q)
        st["member_checks"] += 1
        if a == "in":
            continue
        if a != "out":
            ctx.broke("correspondence %s: membership query failed (%r)" % (IFC, a))
            continue
        jj, c, s, v = call
        ctx.fail("ifc-member:%s-not-in-static-return-type:%s:%s"
                 % (cname, pair_shape(p.tb, ["c", str(c), s], p.ws[j][0]), "appended-call" if is_extra else "accepted-call"),
                 "call %d: `t%d_%d` has static type %s (accepted by the real checker) but holds %s %s at run time:\n%s"
                 % (n_, j, k, elk_atoms(ty), cname, ins, src), stream=IFC, case=case, impl=cname + " " + ins,
                 model="not a member of " + elk_atoms(ty), oracle="runtime value is a member of the static type (extracted bmem)")
    samples = [{"program": src[:1500]} for pid, src, p, extra, rets, case in to_run[ncorpus:ncorpus + 2]]
    ctx.stream(IFC, evaluations, len(distinct),
               "programs over the tables of c02.subhist: 2-3 methods `def w(s: I[t])` (1 in 6: `s: K[t]`; half of the later "
               "ones reuse the first interface with another type argument) that call every method of the parameter's type "
               "with a literal argument of the declared parameter type, annotate the result with the static return type "
               "the MODEL computes after substitution and print class/inspect of it and the runtime class of s; up to 4 top "
               "level calls `w(K::[s](item))` the model accepts, executed by the elk binary. Static: the program must be "
               "accepted; with ONE model-rejected call appended after them (preferring a receiver type already accepted "
               "for the same interface with another argument) only that line may fail. evaluation = one executed probe "
               "(value vs extracted gcall, membership in the static return type; receiver in the parameter type by "
               "gmem_b); non-trivial = distinct (program, call, probe)",
               samples, dict(nodes=dist, corpus=ncorpus, **st))
    if st["programs"] and st["executed"] * 2 < st["programs"] - st["wrongly_accepted"]:
        ctx.broke("correspondence %s: fewer than half of the programs were executed (%d of %d)" % (IFC, st["executed"], st["programs"]))


# ------------------------------------------------------------------ c02.ifcrec

REC = "c02.ifcrec"
KNOWN_REC = "ifc-rec:nested-instantiation-of-self-referential-interface-not-checked"


def rec_source(tb, s0, t0, lit, s, t, item, rets):
    """one generic class K1 / interface I1 (base methods of tb) plus `def m9: I1[t0]` / `def m9: K1[s0] then K1::[s0](lit)`"""
    out = []
    for line in tb.decls():
        if line == "end":
            if out and out[0].startswith("interface") and not any(l.startswith("class") for l in out):
                out.append("  def m9: I1[%s]; end" % elk_bty(t0))
            else:
                out.append("  def m9: K1[%s] then K1::[%s](%s)" % (elk_bty(s0), elk_bty(s0), tb.lit(lit[0], lit[1])))
        out.append(line)
    out += PRELUDE.rstrip("\n").split("\n")
    out.append("def w0(s: I1[%s])" % elk_bty(t))
    for k, (n, ats) in enumerate(rets):
        out.append("  var t0_%d: %s = s.m9.m%d" % (k, elk_atoms(ats), n))
        out.append('  println("P0_%d " + pr(t0_%d))' % (k, k))
    out.append("  nil")
    out.append("end")
    out.append('println("C0")')
    out.append("w0(K1::[%s](%s))" % (elk_bty(s), tb.lit(item[0], item[1])))
    return "\n".join(out) + "\n"


def rec_case_sx(c):
    tb, s0, t0, lit, s, t, item = c
    return ["irec", tb.sx(), s0, t0, [lit[0], str(lit[1])], s, t, [item[0], str(item[1])]]


def gen_rec(g):
    r = g.r
    rets = [r.choice(["T", "T", "T", ["or", "T", "nil"], ["or", "T", "Int"], "Int"]) for _ in range(r.range(1, 2))]
    ims = [(n, None, rt) for n, rt in enumerate(rets)]
    cms = []
    for n, p, rt in ims:
        p2, r2 = g.mutate_sig(None, rt) if r.chance(1, 4) else (None, rt)
        cms.append((n, p2, r2, g.body_for(p2, r2)))
    tb = Tables({1: dict(generic=True, fixed=None, methods=cms)}, {1: dict(generic=True, fixed=None, methods=ims)})
    s0 = r.choice(ARGS)
    t0 = r.choice(ARGS) if r.chance(3, 4) else s0
    t = r.choice(ARGS)
    s = t if r.chance(3, 4) else r.choice(ARGS)
    # the object `m9` returns holds an item of s0 - preferably one that is NOT in t0
    outside = [a for a in atoms_of(s0) if a not in atoms_of(t0)]
    at = r.choice(outside or atoms_of(s0))
    lit = (at, r.range(1, 9) if at != "nil" else 0)
    at2 = r.choice(atoms_of(s))
    item = (at2, r.range(10, 99) if at2 != "nil" else 0)
    g.count("nested-pair:" + ("same-arguments" if sx_str(s0) == sx_str(t0) else "item-outside-t0" if outside else "s0-within-t0"))
    return (tb, s0, t0, lit, s, t, item)


def run_rec(ctx, elk, m):
    rng = ctx.rng(REC)
    cases = []
    path = os.path.join(vlib.ROOT, "corpus", "C02.ifcrec.txt")
    if os.path.exists(path):
        for n, line in enumerate(open(path)):
            line = line.strip()
            if line and not line.startswith("#"):
                x = sx_parse(line)
                cases.append(("rk%d" % n, (Tables.from_sx(x[1]), x[2], x[3], (x[4][0], int(x[4][1])), x[5], x[6],
                                           (x[7][0], int(x[7][1])))))
    ncorpus = len(cases)
    dist = {}
    for n in range(ctx.n(5, 40)):
        g = Gen(rng)
        cases.append(("rg%d" % n, gen_rec(g)))
        for k, v in g.dist.items():
            dist[k] = dist.get(k, 0) + v
    q_ids, q_in = [], {}
    for cid, (tb, s0, t0, lit, s, t, item) in cases:
        gs = sx_str(tb.sx())
        for fx in ("fixed", "found"):
            q = "%s.%s" % (cid, fx)
            q_ids.append(q)
            q_in[q] = "(irsub %s %s %s %s (%s %d) %s %s)" % (fx, gs, sx_str(s0), sx_str(t0), lit[0], lit[1], sx_str(s), sx_str(t))
        for n, p, rt in tb.ifaces[1]["methods"]:
            q_ids.append("%s.r.%d" % (cid, n))
            q_in["%s.r.%d" % (cid, n)] = "(iret %s (i 1 %s) %d)" % (gs, sx_str(t0), n)
            q_ids.append("%s.c.%d" % (cid, n))
            q_in["%s.c.%d" % (cid, n)] = "(ircall %s %s %s (%s %d) %d)" % (gs, sx_str(s0), sx_str(t0), lit[0], lit[1], n)
    rc, ans, mout = vlib.run_model(m, q_ids, q_in)
    if rc != 0:
        ctx.broke("correspondence %s: model driver exited %d" % (REC, rc), mout[-2000:])
        return
    st = dict(cases=0, model_fixed_accepts=0, model_fixed_rejects=0, as_found_rule_differs=0, impl_accepts=0, impl_rejects=0,
              executed=0, member_checks=0)
    srcs, meta = [], {}
    for cid, c in cases:
        tb, s0, t0, lit, s, t, item = c
        fixed, found = ans.get(cid + ".fixed"), ans.get(cid + ".found")
        if fixed not in ("ok", "reject") or found not in ("ok", "reject"):
            ctx.broke("correspondence %s: model gave no verdict (%r)" % (REC, fixed), sx_str(rec_case_sx(c))[:600])
            continue
        rets = []
        for n, p, rt in tb.ifaces[1]["methods"]:
            a = ans.get("%s.r.%d" % (cid, n), "")
            rets.append((n, sx_parse(a)[1:] if a.startswith("(atoms") else []))
        src = rec_source(tb, s0, t0, lit, s, t, item, rets)
        srcs.append((cid, src))
        meta[cid] = (c, fixed, found, rets, src)
        st["cases"] += 1
        st["model_fixed_accepts" if fixed == "ok" else "model_fixed_rejects"] += 1
        if fixed != found:
            st["as_found_rule_differs"] += 1
    res = vlib.run_programs(elk, srcs, os.path.join(ctx.workdir, "ifcrec"), timeout=90, env={"GOMAXPROCS": "4"})
    evaluations = 0
    distinct = set()
    mem_ids, mem_in, pending = [], {}, []
    for cid, (c, fixed, found, rets, src) in meta.items():
        tb, s0, t0, lit, s, t, item = c
        case = sx_str(rec_case_sx(c))
        rc_, out, cls_ = res[cid]
        if cls_ == "timeout":
            ctx.broke("correspondence %s: program timed out" % REC, src)
            continue
        rejected = "[FAIL]" in out
        st["impl_rejects" if rejected else "impl_accepts"] += 1
        evaluations += 1
        distinct.add(case)
        if rejected:
            if fixed == "ok":
                mm = re.search(r"\[FAIL\] ([^\n]*)", out)
                ctx.fail("ifc-rec:impl-rejects:model-accepts:" + re.sub(r"`[^`]*`", "`..`", mm.group(1) if mm else "?")[:60],
                         "the co-inductive structural rule (extracted rsub fixed) accepts, the real checker rejects:\n" + src + out.strip()[:500],
                         stream=REC, case=case, impl="rejected", model="ok", oracle="model and real checker agree")
            continue
        if fixed != "ok":
            key = KNOWN_REC if found == "ok" else "ifc-rec:impl-accepts:model-rejects"
            ctx.fail(key, "`K1::[%s](..)` is accepted for `s: I1[%s]`; %s\n%s%s"
                     % (elk_bty(s), elk_bty(t),
                        "K1#m9 returns K1[%s] where I1#m9 promises I1[%s], a pair that does not conform (extracted rsub fixed rejects; "
                        "the rule as found, proved unsound in C02_iface_rec_guard_refuted, accepts)" % (elk_bty(s0), elk_bty(t0))
                        if found == "ok" else "both extracted rules reject", src, out.strip()[:300]),
                     stream=REC, case=case, impl="accepted", model="reject",
                     oracle="an argument is accepted only if its type conforms to the parameter type, nested instantiations included")
        if cls_ in ("go_panic", "go_fatal", "signal") or rc_ != 0:
            if fixed == "ok":
                ctx.fail("ifc-rec:run:error", "accepted program does not run to the end:\n" + src + out.strip()[-400:], stream=REC,
                         case=case, impl=out.strip()[-300:], model="runs", oracle="accepted programs of the fragment run")
            continue
        st["executed"] += 1
        for l in out.splitlines():
            mm = re.match(r"^P0_(\d+) (Std::\w+) (.*)$", l)
            if not mm:
                continue
            k = int(mm.group(1))
            n, ats = rets[k]
            val = parse_value(mm.group(2), mm.group(3))
            evaluations += 1
            if val is None:
                ctx.fail("ifc-rec:value:unparsable", "probe printed %s\n%s" % (l, src), stream=REC, case=case, impl=l, model="",
                         oracle="output format")
                continue
            want = ans.get("%s.c.%d" % (cid, n))
            if want != "(%s %d)" % val:
                ctx.fail("ifc-rec:value:result-differs", "probe P0_%d: implementation %s, extracted rcall %s\n%s" % (k, l, want, src),
                         stream=REC, case=case, impl=l, model=str(want), oracle="reference interpreter (rcall)")
            tsx = None
            for a in ats:
                tsx = a if tsx is None else ["or", tsx, a]
            q = "%s.m.%d" % (cid, k)
            mem_ids.append(q)
            mem_in[q] = "(imem %s (b %s) (vb %s %d))" % (sx_str(tb.sx()), sx_str(tsx), val[0], val[1])
            pending.append((q, cid, k, ats, l, fixed, found, src, case))
    rc, mans, mout = vlib.run_model(m, mem_ids, mem_in)
    for q, cid, k, ats, l, fixed, found, src, case in pending:
        a = mans.get(q)
        st["member_checks"] += 1
        if a == "in":
            continue
        if a != "out":
            ctx.broke("correspondence %s: membership query failed (%r)" % (REC, a))
            continue
        if fixed == "ok":
            ctx.broke("model contradicts C02_iface_rec_fixed_sound", case)
        ctx.fail(KNOWN_REC if (fixed != "ok" and found == "ok") else "ifc-rec:member:value-outside-static-type",
                 "`t0_%d` (= s.m9.m..) has static type %s, accepted by the real checker, but holds %s at run time:\n%s"
                 % (k, elk_atoms(ats), l.split(" ", 1)[1], src), stream=REC, case=case, impl=l, model="not a member of " + elk_atoms(ats),
                 oracle="runtime value is a member of the static type (extracted bmem)")
    ctx.stream(REC, evaluations, len(distinct),
               "self-referential interfaces: one generic interface I1[T] (1-2 parameterless methods over T, T | nil, T | Int, Int) "
               "plus `def m9: I1[t0]`, one generic class K1[T] with (mostly conforming) implementations plus `def m9: K1[s0] then "
               "K1::[s0](lit)`, lit preferably of an atom outside t0; `def w0(s: I1[t])` probes `s.m9.m<k>` annotated with the "
               "static type R[t0] (extracted ret_atoms) and is called with K1::[s](item). Checker verdict (elk run) vs extracted "
               "rsub fixed (nested pair compared with its own arguments); printed values vs extracted rcall and membership in "
               "the static type (extracted bmem). evaluation = one verdict or one executed probe; non-trivial = distinct case",
               [{"program": meta[cid][4][:1200]} for cid in list(meta)[ncorpus:ncorpus + 2]], dict(nodes=dist, corpus=ncorpus, **st))


def run_streams(ctx, elk, h, m):
    """both streams; their first-pass checker runs share ONE harness process (its start-up dominates)"""
    gens = [run_hist(ctx, h, m), run_ifc(ctx, elk, h, m)]
    live, srcs = [], []
    for g in gens:
        try:
            srcs += next(g)
            live.append(g)
        except StopIteration:
            pass
    got = run_diags(ctx, h, HIST + "+" + IFC, srcs)
    for g in live:
        try:
            g.send(got)
        except StopIteration:
            pass
    run_rec(ctx, elk, m)
