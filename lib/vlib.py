"""Shared machinery for /verif checks.

A check plugin (checks/Cxx.py) defines `run(ctx)`; the driver (./check) calls it and then
`ctx.finish()` which decides the verdict, writes evidence/Cxx.json and prints the
VIOLATION / KNOWN-FINDING lines.  See DESIGN.md section 1 for the verdict logic.
"""
import fcntl
import hashlib
import json
import os
import re
import subprocess
import sys
import time

ROOT = os.path.dirname(os.path.dirname(os.path.abspath(__file__)))
REPO = os.environ.get("VERIF_REPO", "/repo")
BUILD = os.path.join(ROOT, ".build")
COQ = os.path.join(ROOT, "coq")
HARNESS = os.path.join(ROOT, "harness")
GOENV = dict(os.environ, GOFLAGS="-mod=mod", GOPROXY="off", CGO_ENABLED=os.environ.get("CGO_ENABLED", "0"))
GOENV.pop("GOTOOLCHAIN", None)  # auto: go.mod wants 1.25.0, present in the module cache
GOENV.pop("GOSUMDB", None)

AUDIT_RE = re.compile(
    r"\b(Admitted|admit|Axiom|Axioms|Parameter|Parameters|Conjecture|Conjectures|Abort All|Admit Obligations)\b"
    r"|Unset\s+Guard|Unset\s+Positivity|Unset\s+Universe|bypass_check|type-in-type|impredicative-set|native_compute"
)
# axioms of the standard library / Flocq's reals that DESIGN.md section 4 names as allowed
ALLOWED_AXIOMS = {
    "ClassicalDedekindReals.sig_forall_dec",
    "ClassicalDedekindReals.sig_not_dec",
    "FunctionalExtensionality.functional_extensionality_dep",
    "Classical_Prop.classic",
    "Eqdep.Eq_rect_eq.eq_rect_eq",
    "ProofIrrelevance.proof_irrelevance",
    "JMeq.JMeq_eq",
}


def sh(cmd, cwd=None, env=None, timeout=None, inp=None):
    """run, return (rc, stdout+stderr)"""
    try:
        p = subprocess.run(cmd, cwd=cwd, env=env, timeout=timeout, input=inp,
                           stdout=subprocess.PIPE, stderr=subprocess.STDOUT,
                           shell=isinstance(cmd, str), text=True, errors="replace")
        return p.returncode, p.stdout
    except subprocess.TimeoutExpired as e:
        out = e.stdout or ""
        if isinstance(out, bytes):
            out = out.decode("utf-8", "replace")
        return 124, out + "\n[timeout]"


class Lock:
    def __init__(self, name):
        os.makedirs(BUILD, exist_ok=True)
        self.path = os.path.join(BUILD, name + ".lock")

    def __enter__(self):
        self.f = open(self.path, "w")
        fcntl.flock(self.f, fcntl.LOCK_EX)
        return self

    def __exit__(self, *a):
        fcntl.flock(self.f, fcntl.LOCK_UN)
        self.f.close()


class SplitMix:
    """splitmix64; every random choice of a Python-side generator derives from one state."""

    def __init__(self, seed):
        self.s = seed & 0xFFFFFFFFFFFFFFFF

    def next(self):
        self.s = (self.s + 0x9E3779B97F4A7C15) & 0xFFFFFFFFFFFFFFFF
        z = self.s
        z = ((z ^ (z >> 30)) * 0xBF58476D1CE4E5B9) & 0xFFFFFFFFFFFFFFFF
        z = ((z ^ (z >> 27)) * 0x94D049BB133111EB) & 0xFFFFFFFFFFFFFFFF
        return z ^ (z >> 31)

    def below(self, n):
        return self.next() % n if n > 0 else 0

    def range(self, lo, hi):
        return lo + self.below(hi - lo + 1)

    def choice(self, xs):
        return xs[self.below(len(xs))]

    def chance(self, num, den):
        return self.below(den) < num

    def shuffle(self, xs):
        for i in range(len(xs) - 1, 0, -1):
            j = self.below(i + 1)
            xs[i], xs[j] = xs[j], xs[i]


def stream_seed(seed, pid, stream=""):
    h = hashlib.sha256(("%d|%s|%s" % (seed, pid, stream)).encode()).digest()
    return int.from_bytes(h[:8], "little")


# ---------------------------------------------------------------- builds

def build_elk():
    """(re)build the elk binary from /repo's current working tree (go build cache makes
    this seconds when nothing changed). Built through the harness module so /repo/go.mod
    is never rewritten."""
    out = os.path.join(BUILD, "elk")
    with Lock("go"):
        sync_gosum()
        rc, log = sh(["go", "build", "-o", out, "github.com/elk-language/elk/cmd/elk"],
                     cwd=HARNESS, env=GOENV, timeout=1500)
    if rc != 0:
        raise BuildError("go build cmd/elk failed:\n" + log[-4000:])
    return out


def sync_gosum():
    src = os.path.join(REPO, "go.sum")
    dst = os.path.join(HARNESS, "go.sum")
    try:
        a = open(src, "rb").read()
        b = open(dst, "rb").read() if os.path.exists(dst) else b""
        # keep harness-only lines; make sure every repo line is present
        have = set(b.splitlines())
        missing = [l for l in a.splitlines() if l not in have]
        if missing:
            with open(dst, "ab") as f:
                for l in missing:
                    f.write(l + b"\n")
    except OSError:
        pass


def build_harness(name, tags="verif", race=False):
    """build harness/cmd/<name> against /repo's current tree with hooks enabled"""
    out = os.path.join(BUILD, "h_" + name + ("_race" if race else ""))
    cmd = ["go", "build", "-tags", tags, "-o", out]
    env = dict(GOENV)
    if race:
        cmd.insert(2, "-race")
        env["CGO_ENABLED"] = "1"
    cmd.append("./cmd/" + name)
    with Lock("go"):
        sync_gosum()
        rc, log = sh(cmd, cwd=HARNESS, env=env, timeout=1500)
    if rc != 0:
        raise BuildError("go build harness %s failed:\n%s" % (name, log[-4000:]))
    return out


class BuildError(Exception):
    pass


COQPROJECT_HEADER = """-Q . Elk
-arg -w -arg -notation-overridden,-deprecated-hint-without-locality,-deprecated-instance-without-locality,-deprecated-syntactic-definition,-ambiguous-paths
"""


def regen_coqproject():
    """_CoqProject lists every .v under Base/ Model/ Proofs/ Props/ Gen/ (sorted); it is
    regenerated (and Makefile.coq with it) whenever the file list changes."""
    files = []
    for d in ("Base", "Model", "Proofs", "Props", "Gen"):
        dd = os.path.join(COQ, d)
        if os.path.isdir(dd):
            for f in sorted(os.listdir(dd)):
                if f.endswith(".v") and not f.startswith("."):
                    files.append("%s/%s" % (d, f))
    text = COQPROJECT_HEADER + "\n".join(files) + "\n"
    changed = write_if_changed(os.path.join(COQ, "_CoqProject"), text)
    if changed or not os.path.exists(os.path.join(COQ, "Makefile.coq")):
        return sh("coq_makefile -f _CoqProject -o Makefile.coq", cwd=COQ, timeout=120)
    return 0, ""


def coq_make(targets, timeout=3000):
    with Lock("coq"):
        rc, log = regen_coqproject()
        if rc != 0:
            return rc, log
        rc, log = sh(["make", "-f", "Makefile.coq", "-j16"] + list(targets), cwd=COQ, timeout=timeout)
    return rc, log


def write_if_changed(path, text):
    old = None
    if os.path.exists(path):
        old = open(path).read()
    if old != text:
        os.makedirs(os.path.dirname(path), exist_ok=True)
        with open(path, "w") as f:
            f.write(text)
        return True
    return False


def audit_sources(files):
    """grep the given .v files for forbidden vernacular; returns list of 'file:line: text'"""
    bad = []
    for fn in files:
        try:
            txt = open(fn).read()
        except OSError:
            continue
        txt_nc = strip_coq_comments(txt)
        for i, line in enumerate(txt_nc.splitlines(), 1):
            if AUDIT_RE.search(line):
                bad.append("%s:%d: %s" % (os.path.relpath(fn, ROOT), i, line.strip()[:120]))
    return bad


def strip_coq_comments(txt):
    out = []
    depth = 0
    i = 0
    n = len(txt)
    instr = False
    while i < n:
        c = txt[i]
        if depth == 0 and c == '"':
            instr = not instr
            out.append(c)
            i += 1
            continue
        if not instr and txt.startswith("(*", i):
            depth += 1
            i += 2
            continue
        if not instr and depth > 0 and txt.startswith("*)", i):
            depth -= 1
            i += 2
            continue
        if depth == 0:
            out.append(c)
        elif c == "\n":
            out.append(c)
        i += 1
    return "".join(out)


def coq_deps(vfile):
    """transitive project-local dependencies of a .v file (via coqdep)"""
    seen = set()
    todo = [vfile]
    while todo:
        f = todo.pop()
        if f in seen or not os.path.exists(f):
            continue
        seen.add(f)
        rel = os.path.relpath(f, COQ)
        rc, out = sh(["coqdep", "-Q", ".", "Elk", rel], cwd=COQ, timeout=120)
        own = rel[:-2] + ".vo"
        for line in out.splitlines():
            if ":" not in line:
                continue
            lhs, rhs = line.split(":", 1)
            if own not in lhs.split():
                continue
            for m in re.finditer(r"(\S+)\.vo\b", rhs):
                cand = os.path.normpath(os.path.join(COQ, m.group(1) + ".v"))
                if os.path.exists(cand) and cand not in seen:
                    todo.append(cand)
    return sorted(seen)


def proof_gate(pid, extra_targets=()):
    """Build Props/<pid>.vo (full .vo build), re-run coqc on the Props file to capture the
    Print Assumptions output, audit the sources. Returns dict with ok, theorems, axioms, log."""
    t0 = time.time()
    props_v = os.path.join(COQ, "Props", pid + ".v")
    res = {"ok": False, "theorems": [], "refuted": [], "examples": [], "axioms": [], "closed": 0,
           "log": "", "broken": None, "files": []}
    if not os.path.exists(props_v):
        res["broken"] = "missing Props/%s.v" % pid
        return res
    targets = ["Props/%s.vo" % pid] + list(extra_targets)
    rc, log = coq_make(targets)
    res["log"] = log[-6000:]
    if rc != 0:
        m = re.search(r'File "\./([^"]+)", line (\d+)', log)
        res["broken"] = "coq build failed" + (" at %s:%s" % (m.group(1), m.group(2)) if m else "")
        # name the theorem being proved if we can find it
        return res
    # recompile the Props file alone to capture Print Assumptions
    with Lock("coq"):
        rc, out = sh(["coqc", "-Q", ".", "Elk", "Props/%s.v" % pid], cwd=COQ, timeout=900)
    if rc != 0:
        res["broken"] = "coqc Props/%s.v failed" % pid
        res["log"] = out[-6000:]
        return res
    src = strip_coq_comments(open(props_v).read())
    for m in re.finditer(r"^\s*(Theorem|Corollary)\s+([A-Za-z0-9_']+)", src, re.M):
        (res["refuted"] if m.group(2).endswith("_refuted") else res["theorems"]).append(m.group(2))
    for m in re.finditer(r"^\s*(Example)\s+([A-Za-z0-9_']+)", src, re.M):
        res["examples"].append(m.group(2))
    n_print = len(re.findall(r"^\s*Print Assumptions\s", src, re.M))
    res["closed"] = out.count("Closed under the global context")
    axioms = set()
    for blk in re.finditer(r"Axioms:\n((?:.+\n?)+?)(?=\n\S|\Z)", out):
        for l in blk.group(1).splitlines():
            m = re.match(r"^(\S+)\s*:", l)
            if m:
                axioms.add(m.group(1))
    # simpler: every line "name : type" following 'Axioms:' until blank
    for m in re.finditer(r"^([A-Za-z_][\w.']*)\s+:", out, re.M):
        pass
    res["axioms"] = sorted(axioms)
    files = coq_deps(props_v)
    res["files"] = [os.path.relpath(f, ROOT) for f in files]
    bad = audit_sources(files)
    not_allowed = [a for a in res["axioms"] if a not in ALLOWED_AXIOMS and not a.startswith(("Coq.", "Flocq.", "Reals.", "ClassicalDedekindReals", "Rdefinitions", "Raxioms"))]
    n_thm = len(res["theorems"]) + len(res["refuted"])
    if bad:
        res["broken"] = "audit: forbidden vernacular: " + "; ".join(bad[:5])
    elif n_thm == 0:
        res["broken"] = "Props/%s.v states no theorem" % pid
    elif n_print < n_thm:
        res["broken"] = "Props/%s.v: %d theorems but only %d Print Assumptions" % (pid, n_thm, n_print)
    elif not_allowed:
        res["broken"] = "axioms outside the allowed list: " + ", ".join(not_allowed)
    else:
        res["ok"] = True
    res["wall_s"] = round(time.time() - t0, 2)
    return res


def build_model(pid):
    """Extract coq/Extract/<pid>.v into .build/ocaml/<pid>/ and compile ocaml/<pid>/main.ml
    (+ ocaml/common/*.ml) against it. Returns path of the executable."""
    out_dir = os.path.join(BUILD, "ocaml", pid)
    os.makedirs(out_dir, exist_ok=True)
    exe = os.path.join(BUILD, "m_" + pid)
    ext_v = os.path.join(COQ, "ExtractRun", pid + ".v")
    drv_dir = os.path.join(ROOT, "ocaml", pid)
    common = os.path.join(ROOT, "ocaml", "common")
    srcs = [ext_v] + coq_deps(ext_v) + [os.path.join(drv_dir, f) for f in sorted(os.listdir(drv_dir))] + \
        [os.path.join(common, f) for f in sorted(os.listdir(common))]
    stamp = hashlib.sha256()
    for s in srcs:
        try:
            stamp.update(open(s, "rb").read())
        except OSError:
            pass
    stamp_file = os.path.join(out_dir, ".stamp")
    if os.path.exists(exe) and os.path.exists(stamp_file) and open(stamp_file).read() == stamp.hexdigest():
        return exe
    # the models the extraction needs must be compiled
    deps = [os.path.relpath(f, COQ)[:-2] + ".vo" for f in coq_deps(ext_v) if f != ext_v]
    rc, log = coq_make(deps)
    if rc != 0:
        raise BuildError("coq build of model for %s failed:\n%s" % (pid, log[-4000:]))
    with Lock("ocaml_" + pid):
        for f in os.listdir(out_dir):
            if f.endswith((".ml", ".mli", ".cmi", ".cmx", ".o", ".cmo")):
                os.remove(os.path.join(out_dir, f))
        rc, log = sh(["coqc", "-Q", COQ, "Elk", "-o", os.path.join(out_dir, pid + ".vo"), ext_v], cwd=out_dir, timeout=900)
        if rc != 0:
            raise BuildError("extraction for %s failed:\n%s" % (pid, log[-4000:]))
        mls = []
        for d in (common, drv_dir):
            for f in sorted(os.listdir(d)):
                if f.endswith(".ml"):
                    dst = os.path.join(out_dir, f)
                    with open(dst, "w") as g:
                        g.write(open(os.path.join(d, f)).read())
                    mls.append(f)
        # extracted modules first (dependency order by ocamldep -sort)
        ext = [f for f in os.listdir(out_dir) if f.endswith((".ml", ".mli")) and f not in mls]
        rc, order = sh("ocamlfind ocamldep -sort " + " ".join(sorted(ext + mls)), cwd=out_dir, timeout=120)
        if rc != 0:
            raise BuildError("ocamldep failed: " + order)
        files = order.split()
        rc, log = sh(["ocamlfind", "ocamlopt", "-w", "-a", "-inline", "50", "-package", "str,unix", "-linkpkg", "-o", exe] + files,
                     cwd=out_dir, timeout=900)
        if rc != 0:
            raise BuildError("ocaml build for %s failed:\n%s" % (pid, log[-4000:]))
        with open(stamp_file, "w") as f:
            f.write(stamp.hexdigest())
    return exe


# ---------------------------------------------------------------- running elk

def elk_env(extra=None):
    e = dict(os.environ, ELKPATH=REPO, ELKWARN="0", NO_COLOR="1")
    if extra:
        e.update(extra)
    return e


def classify_elk(rc, out):
    """map a finished `elk run` to a small outcome enum"""
    if rc == 124:
        return "timeout"
    if "fatal error:" in out or "[signal " in out or "SIGSEGV" in out:
        return "go_fatal"
    if "panic:" in out or "goroutine " in out and "runtime." in out:
        return "go_panic"
    if rc < 0:
        return "signal"
    if rc == 0:
        return "ok"
    return "elk_error"


def run_elk_program(elk, src, workdir, name, timeout=20, env=None, args=()):
    path = os.path.join(workdir, name + ".elk")
    with open(path, "w") as f:
        f.write(src)
    rc, out = sh([elk, "run", path] + list(args), cwd=workdir, env=elk_env(env), timeout=timeout)
    return rc, out


def run_programs(elk, progs, workdir, workers=16, timeout=20, env=None, subcmd="run", args=()):
    """progs: list of (id, source). Runs each with `elk <subcmd> file` in parallel.
    Returns {id: (rc, output, outcome_class)}. Output is stdout+stderr merged."""
    os.makedirs(workdir, exist_ok=True)

    def one(p):
        pid_, src = p
        ext = ".elk.test" if subcmd == "test" else ".elk"
        path = os.path.join(workdir, pid_ + ext)
        with open(path, "w") as f:
            f.write(src)
        rc, out = sh([elk, subcmd, path] + list(args), cwd=workdir, env=elk_env(env), timeout=timeout)
        try:
            os.remove(path)
        except OSError:
            pass
        return pid_, (rc, out, classify_elk(rc, out))
    return dict(parallel_map(one, progs, workers))


def parallel_map(fn, items, workers=16):
    from concurrent.futures import ThreadPoolExecutor
    with ThreadPoolExecutor(max_workers=workers) as ex:
        return list(ex.map(fn, items))


# ---------------------------------------------------------------- context / verdict

class Ctx:
    def __init__(self, pid, tier, seed, replay=None):
        self.pid = pid
        self.tier = tier
        self.seed = seed
        self.replay = replay
        self.t0 = time.time()
        self.level = "proof"
        self.gate = None
        self.failures = []       # dicts: key, what, stream, case, impl, model, oracle
        self.broken = []         # (what, detail) for gates that broke without a concrete input
        self.streams = {}        # name -> dict(evaluations, distinct_nontrivial, rule, samples, distribution)
        self.trusted_base = []
        self.assumptions = []
        self.explanation = ""
        self.extra = {}
        self.workdir = os.path.join(BUILD, "work", pid)
        os.makedirs(self.workdir, exist_ok=True)
        rd = os.path.join(ROOT, "replay")
        if os.path.isdir(rd) and not replay:     # stale replay files of earlier runs of this property
            for f in os.listdir(rd):
                if f.startswith(pid + "-"):
                    try:
                        os.remove(os.path.join(rd, f))
                    except OSError:
                        pass

    # --- helpers for plugins
    def quick(self):
        return self.tier == "quick"

    def n(self, quick, thorough):
        return quick if self.tier == "quick" else thorough

    def rng(self, stream=""):
        return SplitMix(stream_seed(self.seed, self.pid, stream))

    def sseed(self, stream=""):
        return stream_seed(self.seed, self.pid, stream) & 0x7FFFFFFFFFFFFFFF

    def run_proof_gate(self, extra_targets=()):
        g = proof_gate(self.pid, extra_targets)
        self.gate = g
        if not g["ok"]:
            self.broken.append(("proof gate: " + str(g["broken"]), g["log"][-3000:]))
        return g

    def stream(self, name, evaluations, distinct_nontrivial, rule, samples, distribution=None, **kw):
        d = dict(evaluations=int(evaluations), distinct_nontrivial=int(distinct_nontrivial), rule=rule,
                 samples=samples[:5], distribution=distribution or {})
        d.update(kw)
        self.streams[name] = d

    def fail(self, key, what, stream="", case=None, impl=None, model=None, oracle=""):
        self.failures.append(dict(key=key, what=what, stream=stream, case=case, impl=impl, model=model, oracle=oracle))

    def broke(self, what, detail=""):
        self.broken.append((what, detail))

    # --- verdict
    def finish(self):
        kf = load_known()
        known = {f["key"]: f for f in kf.get("findings", []) if f.get("property") == self.pid}
        viol = []
        seen_known = {}
        for f in self.failures:
            if f["key"] in known:
                seen_known.setdefault(f["key"], f)
            else:
                viol.append(f)
        for k, f in sorted(seen_known.items()):
            print("KNOWN-FINDING: property=%s %s [%s]" % (self.pid, known[k].get("what", f["what"]), k))
        os.makedirs(os.path.join(ROOT, "replay"), exist_ok=True)
        lines = []
        if viol:
            # one replay file per distinct key (first occurrence = smallest generated)
            bykey = {}
            for f in viol:
                bykey.setdefault(f["key"], f)
            for i, (k, f) in enumerate(sorted(bykey.items())):
                path = os.path.join(ROOT, "replay", "%s-%d-%d.json" % (self.pid, self.seed, i))
                with open(path, "w") as fh:
                    json.dump(dict(property=self.pid, seed=self.seed, tier=self.tier, **f,
                                   broken_gates=[b[0] for b in self.broken]), fh, indent=1, default=str)
                lines.append("VIOLATION property=%s replay=%s" % (self.pid, path))
        elif self.broken:
            path = os.path.join(ROOT, "replay", "%s-%d-broken.json" % (self.pid, self.seed))
            searched = sum(s["evaluations"] for s in self.streams.values())
            with open(path, "w") as fh:
                json.dump(dict(property=self.pid, seed=self.seed, tier=self.tier,
                               broken=[b[0] for b in self.broken], log=[b[1] for b in self.broken],
                               searched=searched), fh, indent=1, default=str)
            lines.append("VIOLATION property=%s replay=%s no-failing-input-found" % (self.pid, path))
        self.write_evidence(len(lines), sorted(seen_known))
        for l in lines:
            print(l)
        for b in self.broken:
            print("BROKEN: " + b[0], file=sys.stderr)
        sys.stdout.flush()
        return 1 if lines else 0

    def write_evidence(self, nviol, known_seen):
        g = self.gate or {}
        evals = sum(s["evaluations"] for s in self.streams.values())
        dn = sum(s["distinct_nontrivial"] for s in self.streams.values())
        samples = []
        for name, s in self.streams.items():
            for x in s["samples"][:3]:
                samples.append({"stream": name, "case": x})
        if not samples:
            samples = [{"stream": "proof", "case": (g.get("theorems") or ["none"])[0]}]
        n_obl = len(g.get("theorems", [])) + len(g.get("refuted", []))
        cov = {
            "obligations": n_obl,
            "discharged": n_obl if g.get("ok") else 0,
            "checker_cmd": "make -C coq -f Makefile.coq Props/%s.vo && coqc -Q . Elk Props/%s.v (Print Assumptions captured); audit grep over %d source files" % (self.pid, self.pid, len(g.get("files", []))),
            "trusted_base": ["Coq 8.16.1 kernel + vm_compute (no native_compute)",
                             "axioms reported by Print Assumptions: " + (", ".join(g.get("axioms", [])) or "none (closed under the global context x%d)" % g.get("closed", 0)),
                             "extraction: ExtrOcamlBasic only; OCaml 4.13.1",
                             "correspondence harness (Go), OCaml driver, Python driver, generators"] + self.trusted_base,
            "theorems": g.get("theorems", []),
            "refuted_theorems": g.get("refuted", []),
            "nonvacuity_examples": g.get("examples", []),
            "evaluations": evals,
            "distinct_nontrivial": dn,
            "rule": "; ".join("%s: %s" % (k, v["rule"]) for k, v in self.streams.items()),
            "samples": samples,
            "streams": self.streams,
            "explanation": self.explanation,
            "known_findings_seen": known_seen,
            "broken_gates": [b[0] for b in self.broken],
        }
        if self.level == "translation_validation":
            cov["programs"] = self.extra.get("programs", evals)
            cov["disagreements_checked"] = self.extra.get("disagreements_checked", evals)
        cov.update({k: v for k, v in self.extra.items() if k not in cov})
        ev = {
            "property_id": self.pid,
            "tier": self.tier,
            "seed": self.seed,
            "level": self.level,
            "coverage": cov,
            "assumptions": self.assumptions,
            "wall_s": round(time.time() - self.t0, 2),
            "violations": nviol,
        }
        os.makedirs(os.path.join(ROOT, "evidence"), exist_ok=True)
        with open(os.path.join(ROOT, "evidence", self.pid + ".json"), "w") as f:
            json.dump(ev, f, indent=1, default=str)


def load_known():
    kf = {"findings": [], "fixed": []}
    seen = set()
    p = os.path.join(ROOT, "known_findings.json")
    srcs = [p] if os.path.exists(p) else []
    d = os.path.join(ROOT, "known_findings.d")   # per-property source files (merged into known_findings.json by tools/sync_known.py)
    if os.path.isdir(d):
        srcs += [os.path.join(d, f) for f in sorted(os.listdir(d)) if f.endswith(".json")]
    for f in srcs:
        x = json.load(open(f))
        for e in x.get("findings", []):
            k = (e.get("property"), e.get("key"))
            if k not in seen:
                seen.add(k)
                kf["findings"].append(e)
        kf["fixed"] += x.get("fixed", [])
    return kf


def compare_lines(ctx, stream, impl_lines, model_lines, keyfn, whatfn=None, limit=200):
    """impl_lines / model_lines: dict caseid -> observable string. Report mismatches."""
    n = 0
    for cid, obs in impl_lines.items():
        exp = model_lines.get(cid)
        if exp is None:
            ctx.broke("correspondence %s: model produced no output for case %s" % (stream, cid))
            n += 1
        elif exp != obs:
            n += 1
            if n <= limit:
                k = keyfn(cid, obs, exp)
                ctx.fail(k, (whatfn(cid, obs, exp) if whatfn else "impl=%s model=%s" % (obs, exp)),
                         stream=stream, case=cid, impl=obs, model=exp, oracle="model/implementation disagreement")
    return n


def parse_case_lines(text):
    """'id\\tinput\\tobserved' lines -> (ordered ids, {id: input}, {id: observed})"""
    ids, inputs, obs = [], {}, {}
    for l in text.splitlines():
        p = l.split("\t")
        if len(p) >= 3:
            ids.append(p[0])
            inputs[p[0]] = p[1]
            obs[p[0]] = p[2]
    return ids, inputs, obs


def run_model(exe, ids, inputs, args=(), timeout=3000):
    """feed 'id\\tinput' lines to the extracted-model driver; returns {id: expected}"""
    inp = "".join("%s\t%s\n" % (i, inputs[i]) for i in ids)
    rc, out = sh([exe] + list(args), inp=inp, timeout=timeout)
    exp = {}
    for l in out.splitlines():
        p = l.split("\t")
        if len(p) >= 2:
            exp[p[0]] = p[1]
    return rc, exp, out


def value_stream(ctx, stream, harness_exe, model_exe, n, keyfn, rule, corpus=None, nontrivial=None,
                 harness_args=(), model_args=(), classify=None, timeout=3000):
    """Generic value-level correspondence: the Go harness generates n seeded cases (after
    replaying the corpus file), runs the implementation and prints id/input/observed; the
    extracted model recomputes the observable for every input; mismatches become failures
    keyed by keyfn(input, observed, expected)."""
    cmd = [harness_exe, "-seed", str(ctx.sseed(stream)), "-n", str(n), "-tier", ctx.tier] + list(harness_args)
    if corpus and os.path.exists(corpus):
        cmd += ["-input", corpus]
    rc, out = sh(cmd, timeout=timeout, env=elk_env())
    ids, inputs, obs = parse_case_lines(out)
    if rc != 0 or not ids:
        ctx.broke("correspondence %s: harness exited %d" % (stream, rc), out[-3000:])
        if not ids:
            return
    rc2, exp, mout = run_model(model_exe, ids, inputs, args=model_args, timeout=timeout)
    if rc2 != 0:
        ctx.broke("correspondence %s: model driver exited %d" % (stream, rc2), mout[-3000:])
    distinct = set()
    dist = {}
    mism = 0
    for i in ids:
        inp = inputs[i]
        cls = classify(inp, obs[i]) if classify else inp.split(" ", 1)[0]
        dist[cls] = dist.get(cls, 0) + 1
        if nontrivial is None or nontrivial(inp, obs[i]):
            distinct.add(inp)
        e = exp.get(i)
        if e is None:
            ctx.broke("correspondence %s: model gave no answer for %s" % (stream, inp))
        elif e != obs[i]:
            mism += 1
            if mism <= 500:
                ctx.fail(keyfn(inp, obs[i], e), "%s: implementation %s, model %s" % (inp, obs[i], e),
                         stream=stream, case=inp, impl=obs[i], model=e,
                         oracle="implementation differs from the proved model")
    ctx.stream(stream, len(ids), len(distinct), rule,
               [{"input": inputs[i], "observed": obs[i]} for i in ids[:2] + ids[-2:]], dist, mismatches=mism)
    return ids, inputs, obs, exp


# ---- added for C06/C08: dependency-exact variants (coq_deps above lists the whole project,
# so build_model would rebuild - and fail on - unrelated properties' files)

def coq_deps_exact(vfile):
    """transitive project-local dependencies of ONE .v file (coqdep without -f)"""
    seen = set()
    todo = [vfile]
    while todo:
        f = todo.pop()
        if f in seen or not os.path.exists(f):
            continue
        seen.add(f)
        rc, out = sh(["coqdep", "-Q", ".", "Elk", os.path.relpath(f, COQ)], cwd=COQ, timeout=120)
        first = out.splitlines()[0] if out.splitlines() else ""
        for m in re.finditer(r"(\S+)\.vo\b", first.split(":", 1)[1] if ":" in first else ""):
            cand = os.path.join(COQ, m.group(1) + ".v")
            if os.path.exists(cand) and cand not in seen:
                todo.append(cand)
    return sorted(seen)


def build_model_exact(pid):
    """build_model restricted to the real dependencies of ExtractRun/<pid>.v"""
    global coq_deps
    saved = coq_deps
    coq_deps = coq_deps_exact
    try:
        return build_model(pid)
    finally:
        coq_deps = saved
